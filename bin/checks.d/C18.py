HARNESSES = {
    "c18": {"src": ["harness/c18.cc"], "variant": "prod"},
}

def _c18_runs(tier):
    if tier == "quick":
        return [{"harness": "c18", "args": [], "budget": 240}]
    return [{"harness": "c18", "args": [], "budget": 2600}]

CHECKS = {
    "C18": {"runs": _c18_runs, "level": "model_checking", "deadline": {"quick": 280, "thorough": 2700},
            "assumptions": [
                "relations are given by generators with integer coordinates in {-1,0,1,2}; the oracle evaluates candidate ranking "
                "functions on those generators (finitely many evaluations) and never uses PPL's constraint/generator conversion",
                "for pairs whose `before' set really cuts the relation, for the constraint-built guard/update pairs and for BD_Shape/Octagonal_Shape/Rational_Box inputs the generators "
                "of the denoted relation are obtained with the brute-force reference double description (ref/dd.hh) from the constraints read off the object",
                "sup/inf of affine functions over an NNC polyhedron and over its closure coincide (NNC inputs are judged on the closure)",
                "a before/after pair denotes after /\\ cylinder(before); 'precisely characterize' in the documentation of the _2 entry points is read as: "
                "pset_before is exactly the projection of that relation on x. With a looser pset_before the PR_2 formalisation (which bounds the ranking "
                "function from the constraints of pset_before alone) may answer false where MS_2 answers true; this is counted "
                "(extra: observation:PR_2_false_but_MS_2_true_with_loose_before), not reported, because the documentation promises completeness only for precise arguments",
                "an empty relation is ranked by every function: the tests must answer true and mu_space must be non-empty; mu_space = universe is demanded only "
                "where the library can see the emptiness on the argument it tests (pset / pset_before)",
            ]},
}

# C12 -- interval and interval-linear-form arithmetic encloses every concrete result
HARNESSES = {
    "c12_interval": {"src": ["harness/c12_interval.cc"], "variant": "prod"},
    # -fpermissive: src/{Sum,Difference,Multiplication,Division,Cast}_Floating_Point_Expression_templates.hh call the
    # dependent base member relative_error() unqualified, which standard two-phase lookup rejects (see proposed_fixes/C12-5.diff)
    "c12_linform": {"src": ["harness/c12_linform.cc"], "variant": "prod", "flags": ["-fpermissive"] + (["-DC12_FPE_FLOAT=1"] if __import__("os").environ.get("C12_FPE_FLOAT") else [])},
}

def _runs(tier):
    if tier == "quick":
        return [{"harness": "c12_interval", "args": ["--alphabet", "quick"], "budget": 200},
                {"harness": "c12_linform", "args": ["--menu", "quick"], "budget": 200}]
    return [{"harness": "c12_interval", "args": ["--alphabet", "thorough"], "budget": 1500},
            {"harness": "c12_linform", "args": ["--menu", "thorough"], "budget": 1000}]

CHECKS = {
    "C12": {"runs": _runs, "level": "model_checking", "deadline": {"quick": 280, "thorough": 2500},
            "assumptions": [
                "interval members are real numbers (integer-bound boxes approximate sets of reals); the oracle works over Q with GMP",
                "division by an interval having zero in its interior is only required to enclose (documented I_SINGULARITIES convention: universe)",
                "wrap_assign is only required to contain the wrapped images of the integer members that lie in the refinement interval",
                "linearisation: concrete evaluations producing an infinity or a NaN (overflow, division by zero) are run-time errors outside the soundness statement and are skipped (counted)",
            ]},
}

# C12 -- interval and interval-linear-form arithmetic encloses every concrete result
import os as _os

def _c12_5_applied():
    """proposed_fixes/C12-5.diff (/repo commit bf1eeb3) makes the Floating_Point_Expression class hierarchy compile under
    standard two-phase lookup and for a float analyser format.  Older trees need -fpermissive and cannot instantiate
    the float format (std::max(double, float) in compute_absolute_error)."""
    repo = _os.environ.get("VERIF_REPO", "/repo")
    try:
        a = open(_os.path.join(repo, "src", "Floating_Point_Expression_templates.hh")).read()
        b = open(_os.path.join(repo, "src", "Sum_Floating_Point_Expression_templates.hh")).read()
    except OSError:
        return False
    return "std::pow" in a and "this->relative_error" in b

_FPE_FLAGS = ["-DC12_FPE_FLOAT=1"] if _c12_5_applied() else ["-fpermissive"]

HARNESSES = {
    "c12_interval": {"src": ["harness/c12_interval.cc"], "variant": "prod"},
    # stand-alone reproducers of the known findings (not part of the check)
    "c12_repro": {"src": ["harness/c12_repro.cc"], "variant": "prod", "flags": [] if _c12_5_applied() else ["-fpermissive"]},
    "c12_linform": {"src": ["harness/c12_linform.cc"], "variant": "prod", "flags": _FPE_FLAGS},
    # format-history dimension of linearize(): every sequence of analysed formats in a fresh process
    "c12_fmthist": {"src": ["harness/c12_fmthist.cc"], "variant": "prod"},
}

def _runs(tier):
    if tier == "quick":
        return [{"harness": "c12_interval", "args": ["--alphabet", "quick"], "budget": 200},
                {"harness": "c12_linform", "args": ["--menu", "quick"], "budget": 200},
                {"harness": "c12_fmthist", "args": ["--menu", "quick"], "budget": 120}]
    return [{"harness": "c12_interval", "args": ["--alphabet", "thorough"], "budget": 1500},
            {"harness": "c12_linform", "args": ["--menu", "thorough"], "budget": 1000},
            {"harness": "c12_fmthist", "args": ["--menu", "thorough"], "budget": 600}]

CHECKS = {
    "C12": {"runs": _runs, "level": "model_checking", "deadline": {"quick": 280, "thorough": 2500},
            "assumptions": [
                "interval members are real numbers (integer-bound boxes approximate sets of reals); the oracle works over Q with GMP",
                "division by an interval having zero in its interior is only required to enclose (documented I_SINGULARITIES convention: universe)",
                "wrap_assign is only required to contain the wrapped images of the integer members that lie in the refinement interval",
                "linearisation: concrete evaluations raising FE_OVERFLOW / FE_DIVBYZERO / FE_INVALID (or producing an infinity or a NaN) are run-time errors of the analysed program outside the soundness statement and are skipped (counted)",
                "format histories: each sequence of analysed formats runs in its own forked process whose parent never called linearize(), so the library's static caches start untouched",
                "the FP_Oracle of the harness returns the topological closure of Interval(const char*) for floating point constants (the constant of the analysed program is one of the two neighbouring floating point numbers)",
            ]},
}

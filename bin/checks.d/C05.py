# C05 -- grids: congruence and generator descriptions agree and operations are exact
import os as _os
_N = int(_os.environ.get("VERIF_JOBS", "16"))

HARNESSES = {
    "rgrid_selftest": {"src": ["ref/rgrid_selftest.cc"], "variant": "prod", "link_ppl": False, "opt": ["-O2"]},
    "grid": {"src": ["harness/grid.cc"], "variant": "prod", "flags": NOAC},
}

def _runs(tier):
    # run 0: self-test of the reference (brute-force window enumeration, no PPL); run 1: the explorer
    if tier == "quick":
        return [{"harness": "rgrid_selftest", "args": [], "budget": 200, "jobs": 1},
                {"harness": "grid", "args": ["--depth-full", "2", "--depth", "2"], "budget": 230, "jobs": max(1, _N - 1)}]
    return [{"harness": "rgrid_selftest", "args": [], "budget": 900, "jobs": 1},
            {"harness": "grid", "args": ["--depth-full", "2", "--depth", "3", "--maxdim", "3", "--pool", "20", "--poolsigs", "2"], "budget": 2300, "jobs": max(1, _N - 1)}]

CHECKS = {
    "C05": {"runs": _runs, "level": "model_checking", "parallel_runs": 2, "deadline": {"quick": 280, "thorough": 2600},
            "assumptions": ["the reference ref/rgrid.hh (rational affine lattices in Hermite normal form, GMP only) is correct; defended by ref/rgrid_selftest.cc (brute-force window enumeration), which runs as the first run of this check",
                            "ascii_dump prints every field of a Grid that influences behaviour (the member-wise clone is asserted to reproduce the dump in every explored state)"]},
}

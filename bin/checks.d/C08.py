# C08 -- widenings are upper bounds, well defined on values, and force convergence.
# Game graphs (state = iterate value, move = join with a menu increment, answer = widening) explored to closure
# or to a depth bound; every edge re-executed under all representation pairs / token counts / limiting systems.
# One executable (sources compiled in parallel), the explorer is selected with --explorer.
HARNESSES = {
    "c08": {"src": ["harness/c08_main.cc", "harness/c08_poly.cc", "harness/c08_shapes.cc", "harness/c08_grid.cc", "harness/c08_pps.cc"],
            "variant": "prod", "flags": NOAC},
    # thorough tier only: BD_Shape<double> and Octagonal_Shape<int8_t>
    "c08_fp": {"src": ["harness/c08_shapes_fp.cc"], "variant": "prod", "flags": NOAC},
}

def _runs(tier):
    if tier == "quick":
        return [
            {"harness": "c08", "args": ["--explorer", "poly", "--topology", "NNC", "--menu", "14"], "budget": 200},
            {"harness": "c08", "args": ["--explorer", "shapes", "--menu", "9"], "budget": 200},
            {"harness": "c08", "args": ["--explorer", "poly", "--topology", "C", "--menu", "13"], "budget": 200},
            {"harness": "c08", "args": ["--explorer", "pps", "--menu", "5", "--depth", "5"], "budget": 200},
            {"harness": "c08", "args": ["--explorer", "grid"], "budget": 200},
        ]
    return [
        {"harness": "c08", "args": ["--explorer", "poly", "--topology", "NNC"], "budget": 2400},
        {"harness": "c08", "args": ["--explorer", "shapes"], "budget": 2400},
        {"harness": "c08", "args": ["--explorer", "poly", "--topology", "C"], "budget": 2400},
        {"harness": "c08", "args": ["--explorer", "pps"], "budget": 2400},
        {"harness": "c08", "args": ["--explorer", "grid"], "budget": 2400},
        {"harness": "c08_fp", "args": ["--domains", "dbl,i8", "--menu", "12"], "budget": 2400},
    ]

CHECKS = {
    "C08": {"runs": _runs, "level": "model_checking", "parallel_runs": 4,
            "deadline": {"quick": 280, "thorough": 2600},
            "assumptions": [
                "the join y = x |_| m is taken from the library (upper_bound_assign) and only checked to be an upper bound of x and m by the reference",
                "value of an object = the set denoted by its constraints()/congruences() (read coefficient-wise); agreement of the two descriptions is property C01/C05",
                "NNC polyhedra with strict constraints and Grid::widening_assign / BGP99_extrapolation_assign: representation dependence is documented and only counted",
            ]},
}

# C09 -- powersets denote the union of their disjuncts and every operation respects it.
# One executable, one translation unit per base domain (the Pointset_Powerset templates are heavy):
# the same source is listed under several spellings of its path so that bin/vcheck compiles the
# instantiations in parallel, each with its own -DPS_DOM flag (objects are keyed by the spelling).
_PS = "harness/powerset.cc"
_PS_SRC = {"harness/powerset.cc": 0, "harness/./powerset.cc": 1, "harness/././powerset.cc": 2,
           "harness/./././powerset.cc": 3, "harness/././././powerset.cc": 4}
HARNESSES = {
    "powerset": {"src": list(_PS_SRC), "variant": "prod", "flags": NOAC,
                 "per_src_flags": {s: ["-DPS_DOM=%d" % d] for s, d in _PS_SRC.items()}},
}

_DOMS = ["C", "NNC", "BDS", "BOX"]      # C_Polyhedron, NNC_Polyhedron, BD_Shape<mpq_class>, Rational_Box

def _runs(tier):
    runs = []
    if tier == "quick":
        for d in _DOMS:
            runs.append({"harness": "powerset", "args": ["--dom", d, "--depth", "3", "--menu", "8", "--dims", "2"], "budget": 270})
            runs.append({"harness": "powerset", "args": ["--dom", d, "--depth", "3", "--menu", "8", "--dims", "1"], "budget": 270})
        return runs
    for d in _DOMS:
        runs.append({"harness": "powerset", "args": ["--dom", d, "--depth", "4", "--menu", "8", "--dims", "2"], "budget": 2500})
        runs.append({"harness": "powerset", "args": ["--dom", d, "--depth", "4", "--menu", "12", "--dims", "1", "--full-slot1"], "budget": 2500})
    return runs

CHECKS = {
    "C09": {"runs": _runs, "level": "model_checking", "parallel_runs": 8,
            "deadline": {"quick": 290, "thorough": 2700},
            "assumptions": [
                "the base-level domains are trusted to describe their own point sets: the model value of a powerset is the union of the cells read from each disjunct's constraints()",
                "Pointset_Powerset<Grid> is not explored (no lattice reference was available when this check was written)",
            ]},
}

HARNESSES = {}
_NG = 12
for _g in range(1, _NG + 1):
    HARNESSES["c13_g%d" % _g] = {"src": ["harness/c13.cc"], "variant": "asan", "flags": ["-DVF_GROUP=%d" % _g] + (NOAC if _g > 6 else [])}

def _runs(tier, _NG=_NG):
    d = "2" if tier == "quick" else "3"
    # the heaviest groups first (3 runs at a time); the budget is a cap, not the expected time: the new groups
    # complete in 20-130 s each on an idle machine, but the machine is usually shared
    order = [7, 9, 10] + [g for g in range(1, _NG + 1) if g not in (7, 9, 10)]
    return [{"harness": "c13_g%d" % g, "args": ["--depth", d], "budget": (420 if g >= 7 else 240) if tier == "quick" else 1500} for g in order]

# thorough: 12 groups, 4 at a time, at most 25 min each (depth 3 is cut at the budget with exhaustive=false)
CHECKS = {"C13": {"runs": _runs, "level": "model_checking", "parallel_runs": 3, "parallel_runs_thorough": 4, "deadline": {"quick": 420, "thorough": 1700}}}

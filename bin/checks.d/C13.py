HARNESSES = {}
_NG = 12
for _g in range(1, _NG + 1):
    HARNESSES["c13_g%d" % _g] = {"src": ["harness/c13.cc"], "variant": "asan", "flags": ["-DVF_GROUP=%d" % _g] + (NOAC if _g > 6 else [])}

def _runs(tier, _NG=_NG):
    d = "2" if tier == "quick" else "3"
    return [{"harness": "c13_g%d" % g, "args": ["--depth", d], "budget": 240 if tier == "quick" else 2400} for g in range(1, _NG + 1)]

CHECKS = {"C13": {"runs": _runs, "level": "model_checking", "parallel_runs": 3, "deadline": {"quick": 280, "thorough": 2700}}}

# C04: over rationals, boxes / BD shapes / octagons are exact and best where documented.
# One executable, three translation units (one per rational instantiation) compiled in parallel.
_Q = ["box_mpq", "bds_mpq", "oct_mpq"]
HARNESSES = {
    "shapes_q": {"src": ["harness/shapes_main.cc"] + ["harness/shapes.d/%s.cc" % n for n in _Q], "variant": "prod", "flags": NOAC},
}
def _runs(tier):
    runs = []
    for n in _Q:
        runs.append({"harness": "shapes_q", "args": ["--shape", n, "--mode", "C04", "--dim", "2", "--depth", "2"], "budget": 200})
    return runs
CHECKS = {
    "C04": {"runs": _runs, "level": "model_checking", "parallel_runs": 1, "deadline": {"quick": 300, "thorough": 2700}},
}

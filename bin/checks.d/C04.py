# C04: over rationals, boxes / BD shapes / octagons are exact and best where documented.
# One executable, three translation units (one per rational instantiation) compiled in parallel
# (harness/shapes.d/<name>.cc = "#define SHAPE_T ...; #include harness/shapes.cc").
_Q = ["box_mpq", "bds_mpq", "oct_mpq"]
HARNESSES = {
    "shapes_q": {"src": ["harness/shapes_main.cc"] + ["harness/shapes.d/%s.cc" % n for n in _Q], "variant": "prod", "flags": NOAC},
}
def _r(shape, args, budget):
    return {"harness": "shapes_q", "args": ["--shape", shape, "--mode", "C04"] + args, "budget": budget}
def _runs(tier):
    runs = []
    if tier == "quick":
        for n in _Q:   # every query, transformer and converting constructor on every (value class x status) of depth <= 2
            runs.append(_r(n, ["--dim", "2", "--depth", "2", "--consts", "small"], 600))
        for n in ("bds_mpq", "oct_mpq"):   # binary predicates in dimension 3 (disjointness needs three variables)
            runs.append(_r(n, ["--dim", "3", "--mindim", "3", "--depth", "2", "--consts", "tiny", "--what", "binq", "--poolq-depth", "2", "--poolsigs", "1"], 300))
        for n in _Q:   # join scenarios in dimension 3: every ordered pair of points / axis-parallel segments / boxes (L, T, cross shapes)
            runs.append(_r(n, ["--dim", "3", "--mindim", "3", "--depth", "0", "--what", "pairs"], 300))
        return runs
    for n in _Q:
        runs.append(_r(n, ["--dim", "3", "--mindim", "3", "--depth", "0", "--what", "pairs"], 1200))
        runs.append(_r(n, ["--dim", "2", "--depth", "2", "--consts", "full"], 2400))                                   # full constant menu, full operator menus
        runs.append(_r(n, ["--dim", "2", "--depth", "3", "--consts", "small", "--what", "queries"], 2400))            # every query on every state class of depth 3
    runs.append(_r("bds_mpq", ["--dim", "3", "--mindim", "3", "--depth", "2", "--consts", "small", "--what", "binq", "--poolq-depth", "2", "--poolsigs", "1"], 2400))
    runs.append(_r("oct_mpq", ["--dim", "3", "--mindim", "3", "--depth", "3", "--consts", "tiny", "--what", "binq", "--poolq-depth", "2", "--poolsigs", "1"], 2400))
    for n in ("bds_mpq", "oct_mpq"):
        runs.append(_r(n, ["--dim", "3", "--mindim", "3", "--depth", "1", "--consts", "small"], 1200))               # all operators in dimension 3
    return runs
CHECKS = {
    "C04": {"runs": _runs, "level": "model_checking", "parallel_runs": 2,
            "assumptions": ["gamma(s) is read from BD_Shape::dbm / Octagonal_Shape::matrix / Box::seq and the empty flag exactly as documented in DESIGN.md appendix A (probed)",
                            "exactness obligation for affine images/preimages is the syntactic test on (var, expr, denominator) of DESIGN.md C04; all other arguments only enclosure"],
            "deadline": {"quick": 300, "thorough": 2700}},
}

# C16: sparse/dense rows interchangeable; CO_Tree is a correct ordered map.
# Part 1 (c16_tree): CO_Tree / Sparse_Row explored to closure against std::map, with sanitizers at the
#   smaller key alphabet and with the repository's production flags at the larger one.
# Part 2 (c16_rows): dense == sparse lock-step over Linear_Expression histories.
_SAN = ["-O1", "-fsanitize=address,undefined", "-fno-sanitize-recover=undefined", "-fno-omit-frame-pointer", "-DNDEBUG=1"]
HARNESSES = {
    "c16_tree": {"src": ["harness/c16_tree.cc"], "variant": "asan", "flags": NOAC, "opt": _SAN},
    "c16_tree_prod": {"src": ["harness/c16_tree.cc"], "variant": "prod", "flags": NOAC},
    "c16_rows": {"src": ["harness/c16_rows.cc"], "variant": "asan", "flags": NOAC, "opt": _SAN},
}

def _runs(tier):
    if tier == "quick":
        return [
            {"harness": "c16_tree", "args": ["--mode", "tree", "--keys", "8"], "budget": 120},
            {"harness": "c16_tree", "args": ["--mode", "row", "--keys", "6", "--minsize", "5"], "budget": 120},
            {"harness": "c16_tree_prod", "args": ["--mode", "tree", "--keys", "9"], "budget": 150},
            {"harness": "c16_tree_prod", "args": ["--mode", "row", "--keys", "7", "--minsize", "6"], "budget": 150},
            {"harness": "c16_rows", "args": ["--depth", "2"], "budget": 150},
        ]
    # budgets add up to 2700 s so that the tier terminates by itself within 45 minutes even on a loaded machine
    # (measured on 16 fairly free cores: 40 s, 60 s, 205 s, 170 s, 200 s; at load average 120: 104 s, 164 s, 458 s, 278 s;
    #  --mode tree --keys 14 closes in about 11 minutes on 16 free cores: 874k+ layouts)
    return [
        {"harness": "c16_tree", "args": ["--mode", "tree", "--keys", "10"], "budget": 200},
        {"harness": "c16_tree", "args": ["--mode", "row", "--keys", "8", "--minsize", "7"], "budget": 300},
        {"harness": "c16_tree_prod", "args": ["--mode", "tree", "--keys", "13"], "budget": 750},
        {"harness": "c16_tree_prod", "args": ["--mode", "row", "--keys", "10", "--minsize", "9"], "budget": 500},
        {"harness": "c16_rows", "args": ["--depth", "3"], "budget": 950},
    ]

CHECKS = {
    "C16": {"runs": _runs, "level": "model_checking", "deadline": {"quick": 280, "thorough": 2700},
            "assumptions": ["CO_Tree never branches on the data stored with a key (data are canonicalised to key+1 between transitions; data-dependent Sparse_Row operations are run with a fixed menu of data patterns)",
                            "iterators invalidated by a mutation are never reused (documented precondition); hints are every live position and end(), plus iterators documented to survive (fast_shift, fast_swap, add_zeroes_and_shift)",
                            "aliased Linear_Expression calls (e -= e) belong to property C13 and are excluded"]},
}

# C11: checked arithmetic reports true rounding relations; bounded builds never lie.
_C11_SRC = ["harness/c11_main.cc"] + ["harness/c11_%s.cc" % n for n in (
    "int8", "uint8", "int16", "int32", "int64", "llong", "float", "double", "ldouble", "mpz", "mpq",
    "conv_a", "conv_b", "conv_c", "conv_d", "conv_e")]
HARNESSES = {
    # part 1: numeric kernel against the exact GMP oracle
    "c11": {"src": _C11_SRC, "variant": "prod"},
    # stand-alone reproducers of the known findings (not part of the check; `bin/vcheck harness c11_repro`)
    "c11_repro": {"src": ["harness/c11_repro.cc"], "variant": "prod"},
    "c11_repro_denorm": {"src": ["harness/c11_repro_denorm.cc"], "variant": "prod"},
    "c11_repro_i8": {"src": ["harness/c11_repro_i8.cc"], "variant": "i8"},
    # part 2: the same lock-step source against the mpz build and the checked-integer builds
    "c11_ls_prod": {"src": ["harness/c11_lockstep.cc"], "variant": "prod", "flags": NOAC},
    "c11_ls_i8": {"src": ["harness/c11_lockstep.cc"], "variant": "i8", "flags": NOAC},
    "c11_ls_i16": {"src": ["harness/c11_lockstep.cc"], "variant": "i16", "flags": NOAC},
    "c11_ls_i32": {"src": ["harness/c11_lockstep.cc"], "variant": "i32", "flags": NOAC},
    "c11_ls_i64": {"src": ["harness/c11_lockstep.cc"], "variant": "i64", "flags": NOAC},
}
def _runs(tier):
    quick = tier == "quick"
    depth = "3" if quick else "4"
    builds = ["i8", "i16"] if quick else ["i8", "i16", "i32", "i64"]
    runs = [{"harness": "c11", "args": [], "budget": 200 if quick else 900}]
    # runs execute in order (parallel_runs = 1): the bounded builds write their answers into the run directory,
    # the mpz build then recomputes every history and compares
    for b in builds:
        runs.append({"harness": "c11_ls_" + b, "args": ["--mode", "emit", "--label", b, "--depth", depth, "--ans", "c11_answers_%s" % b],
                     "budget": 120 if quick else 900})
    runs.append({"harness": "c11_ls_prod", "args": ["--mode", "compare", "--depth", depth, "--labels", ",".join(builds),
                                                    "--ans", ",".join("c11_answers_%s" % b for b in builds), "--cleanup"],
                 "budget": 200 if quick else 1500})
    return runs
CHECKS = {
    "C11": {"runs": _runs, "level": "model_checking", "parallel_runs": 1, "deadline": {"quick": 300, "thorough": 2700},
            "assumptions": ["part 1 judges the stored value and the Result code of each call, nothing else (no timing, no FPU state left behind)",
                            "a policy's disabled checks are preconditions: such inputs are not enumerated for that policy",
                            "x86-64: float/double arithmetic in SSE registers, long double in x87 registers"]},
}

HARNESSES = {}
for _g in range(1, 7):
    HARNESSES["c15_g%d" % _g] = {"src": ["harness/c15.cc"], "variant": "prod", "flags": ["-DVF_GROUP=%d" % _g], "opt": ["-O1", "-DNDEBUG=1"]}
# groups 7.. : adapters of engine/classes_c15x.hh (rows, matrices, intervals, further shapes / powersets / products, solver trees)
_XGROUPS = [7, 8, 9, 10, 11, 12]
for _g in _XGROUPS:
    HARNESSES["c15_g%d" % _g] = {"src": ["harness/c15.cc"], "variant": "prod", "flags": ["-DVF_GROUP=%d" % _g] + NOAC, "opt": ["-O1", "-DNDEBUG=1"]}

def _runs(tier):
    d = "2" if tier == "quick" else "3"
    return [{"harness": "c15_g%d" % g, "args": ["--depth", d], "budget": 240 if tier == "quick" else 2400} for g in list(range(1, 7)) + _XGROUPS]

CHECKS = {"C15": {"runs": _runs, "level": "model_checking", "parallel_runs": 3, "deadline": {"quick": 280, "thorough": 2700}}}

# C14 -- exceptional exits are clean (rejected calls change nothing, failures leak none).
# Part 1: harness/c14_rej.cc (ill-formed calls x representative states).
# Part 2: harness/c14_oom.cc + c14_scn_*.cc on engine/faults.hh (every allocation index / abandonment
#         checkpoint), the same scenario sources on the checked-int8 library for coefficient overflow.
_SCN = ["harness/c14_oom.cc", "harness/c14_scn_cont.cc", "harness/c14_scn_poly.cc", "harness/c14_scn_shapes.cc",
        "harness/c14_scn_solvers.cc"]

HARNESSES = {
    "c14_oom": {"src": _SCN, "variant": "prod", "flags": NOAC, "opt": ["-O1", "-DNDEBUG=1"]},
    "c14_i8":  {"src": _SCN, "variant": "i8", "flags": NOAC, "opt": ["-O1", "-DNDEBUG=1"]},
    "c14_rej": {"src": ["harness/c14_rej.cc", "harness/c14_rej_dom.cc"], "variant": "prod", "flags": NOAC, "opt": ["-O1", "-DNDEBUG=1"]},
}

def _runs(tier):
    if tier == "quick":
        return [
            {"harness": "c14_rej", "args": [], "budget": 240, "jobs": 4},
            {"harness": "c14_oom", "args": ["--modes", "alloc,abandon", "--max-allocs", "1200"], "budget": 260, "jobs": 12},
            {"harness": "c14_i8", "args": ["--modes", "overflow"], "budget": 240, "jobs": 4},
        ]
    return [
        {"harness": "c14_rej", "args": [], "budget": 600, "jobs": 4},
        {"harness": "c14_oom", "args": ["--modes", "alloc,abandon", "--max-dry-ms", "250"], "budget": 2400, "jobs": 16},
        {"harness": "c14_oom", "args": ["--modes", "alloc", "--mag", "1000000007000000000000000000000000000009", "--max-dry-ms", "250",
                                          # with 40-digit data the parametric solver needs minutes per run on this one
                                          "--skip", "PIP_Problem::solve/cuts"], "budget": 2400, "jobs": 16},
        {"harness": "c14_i8", "args": ["--modes", "overflow,alloc"], "budget": 900, "jobs": 16},
    ]

CHECKS = {
    "C14": {
        "runs": _runs,
        "level": "fault_enumeration",
        "deadline": {"quick": 280, "thorough": 2600},
        "parallel_runs": 1,
        "rule": ("Exhaustive fault enumeration on the real library. (a) Resource exhaustion: every scenario of a fixed list "
                 "(domain operations in representative states + the row/tree/matrix containers) is run once per allocation "
                 "index k = 1..N, N = allocation requests (operator new, new[], nothrow forms, GMP alloc/realloc) of its dry "
                 "run; request k throws std::bad_alloc. (b) Abandonment: once per maybe_abandon() checkpoint k. (c) Coefficient "
                 "overflow: the same scenarios on the checked-int8 build for every data magnitude of a fixed ladder. "
                 "(d) Rejected calls: every representative state of every domain/solver x every ill-formed call of a fixed menu. "
                 "evaluations = executions with a fault / ill-formed call injected; a case is distinct by (scenario, mode, k) "
                 "resp. (domain, state, call) and non-trivial iff the fault was actually delivered inside the library call "
                 "(the k-th request was reached and failed, the checkpoint threw, std::overflow_error was raised, the "
                 "ill-formed call threw) -- counted by the injector, not derived from evaluations."),
        "assumptions": [
            "allocation sequences are deterministic for a given scenario once the library's caches of temporaries are warm (three dry runs first)",
            "a positive live-block balance is a leak only if it is positive again when the identical faulted run is repeated in the same process",
        ],
    }
}

# C20 -- the C interface is a faithful, exception-tight wrapper of the C++ library.
#
# The harness sources are *generated*: gen/capi_gen.py regenerates the C interface (ppl_c.h, ppl_c_<Domain>.cc)
# from the m4 sources of the repository under test into <build>/capi/, parses every prototype and emits one C++ stub
# per entry point (stubs_*.cc).  The generator runs here, at registry load time, only when its content-hash
# manifest is stale (unchanged tree: a few ms) and only when the command line concerns C20 (other checks never pay).
import os as _os, sys as _sys, hashlib as _hashlib, json as _json

try:
    _VERIF = _os.path.dirname(_os.path.dirname(_os.path.abspath(_sys.modules["vchecks"].__file__)))
except Exception:
    _VERIF = "/verif"
_REPO = _os.path.realpath(_os.environ.get("VERIF_REPO", "/repo"))
_BUILD = _os.environ.get("VERIF_BUILD") or (_os.path.join(_VERIF, "build") if _REPO == "/repo"
         else "/var/tmp/vp-build-" + _hashlib.sha1(_REPO.encode()).hexdigest()[:10])
_CAPI = _os.path.join(_BUILD, "capi")

def _manifest():
    wanted = any(a in ("c20", "setup") or "C20" in a for a in _sys.argv[1:])
    man_path = _os.path.join(_CAPI, "manifest.json")
    if wanted:
        _sys.path.insert(0, _os.path.join(_VERIF, "gen"))
        _dwb = _sys.dont_write_bytecode
        _sys.dont_write_bytecode = True      # no gen/__pycache__ in the tree
        try:
            import capi_gen
            return capi_gen.ensure(_REPO, _CAPI, verbose=True)
        except Exception as e:     # never break the registry of the other checks
            print("[C20] generator failed: %s" % e, file=_sys.stderr)
            return {"error": str(e)}
        finally:
            _sys.dont_write_bytecode = _dwb
    try:
        return _json.load(open(man_path))
    except Exception:
        return {}

_man = _manifest()
_iface = _man.get("iface_src", [])
_stubs = _man.get("stub_src", [])
if "error" in _man or not _iface:
    # makes `vcheck run C20` fail loudly at build time instead of silently checking nothing
    _iface = [_os.path.join(_CAPI, "GENERATION_FAILED.cc")]

_INC = ["-I" + _CAPI, "-DPPL_NO_AUTOMATIC_INITIALIZATION"]   # everything of interfaces/ is mirrored / regenerated in <build>/capi
# the interface objects (code under test) are compiled with the sanitizers of the asan variant; the generated stubs
# and the driver only call them: no instrumentation, no optimisation (compile time 10x lower)
_LIGHT = ["-O0", "-g0", "-fno-sanitize=all"]
_HSRC = ["harness/c20_main.cc"]
_per = {}
for _s in _stubs + _HSRC:
    _per[_s] = _LIGHT
for _s in _iface:
    _per[_s] = ["-g0"]      # sanitized and optimised like the library, no debug info: 30% less compile time (reports are not symbolised anyway)

HARNESSES = {
    "c20": {"src": _HSRC + _iface + _stubs, "variant": "asan", "flags": _INC, "per_src_flags": _per},
}

# crashes of the C++ library inside a *twin* are expected for precondition violations (and restart the worker):
# no symbolisation, so that a restart costs milliseconds
_ENV = {"ASAN_OPTIONS": "detect_leaks=0:abort_on_error=1:allocator_may_return_null=1:symbolize=0",
        "UBSAN_OPTIONS": "print_stacktrace=0"}

def _runs(tier):
    # one run, three phases inside the harness: main (all entry points x all tuples), oom (failing allocations), life (create -> op -> delete)
    if tier == "quick":
        return [{"harness": "c20", "args": ["--mode", "all"], "budget": 280, "env": _ENV}]
    return [{"harness": "c20", "args": ["--mode", "all"], "budget": 2500, "env": _ENV}]

CHECKS = {
    "C20": {"runs": _runs, "level": "model_checking", "deadline": {"quick": 300, "thorough": 2700},
            "assumptions": [
                "the twin of every C call is the same C++ operation executed on an identically built second object: the check "
                "judges the wrapper layer (argument conversion, return codes, exception mapping, handle ownership), not the wrapped algorithms",
                "handles passed to the interface refer to valid objects of the documented type (null / dangling handles are excluded by the interface's contract)",
                "allocation failures are injected into ::operator new only (GMP allocates with malloc unless the client installs its own functions)",
            ]},
}

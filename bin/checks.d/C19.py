# C19 -- watchdog (engine S: signal scheduler with a virtual timer) and weight watcher (engine X).
import os as _os
_REPO = _os.environ.get("VERIF_REPO", "/repo")
_SRC = lambda f: _os.path.join(_REPO, "src", f)
_COV = ["-fsanitize-coverage=trace-pc-guard,trace-loads,trace-stores"]
# the code under test + the TU instantiating the inline ctors/dtor are compiled by clang WITH load/store
# callbacks; they come first on the link line so that their (instrumented) copies of inline functions win.
_INSTR = [_SRC("Watchdog.cc"), _SRC("Time.cc"), _SRC("Handler.cc"), _SRC("Threshold_Watcher.cc"), "harness/c19_api.cc"]
HARNESSES = {
    "c19": {
        "src": _INSTR + [_SRC("globals.cc"), "harness/c19_main.cc"],
        "variant": "prod", "link_ppl": False, "flags": NOAC,
        "per_src_cxx": dict((s, "clang++") for s in _INSTR),
        "per_src_flags": dict((s, _COV) for s in _INSTR),
        "libs": ["-ldl"],
    },
}

# "seconds-crossing" menu: deadlines in different whole seconds whose sub-second parts cross (1.2 s vs 0.6 s, 2.5 s vs 1.2 s ...),
# jumps and advances that cross second boundaries, virtual clock starting at a sub-second offset
_SX = ["--delays", "60,120,250", "--advances", "60,150", "--deltas", "600000,700000,1300000", "--clock0", "350000"]

def _runs(tier):
    if tier == "quick":
        return [
            {"harness": "c19", "args": ["--engine", "T"], "budget": 60},
            {"harness": "c19", "args": ["--engine", "S", "--ctor", "fn", "--len", "5", "--dev", "1"] + _SX, "budget": 240},
            {"harness": "c19", "args": ["--engine", "S", "--ctor", "fn", "--len", "6", "--dev", "1"], "budget": 240},
            {"harness": "c19", "args": ["--engine", "S", "--ctor", "flag", "--len", "5", "--dev", "1"], "budget": 240},
            {"harness": "c19", "args": ["--engine", "X", "--depth", "7"], "budget": 240},
        ]
    return [
        {"harness": "c19", "args": ["--engine", "T"], "budget": 60},
        {"harness": "c19", "args": ["--engine", "S", "--ctor", "fn", "--len", "6", "--dev", "1"] + _SX, "budget": 600},
        {"harness": "c19", "args": ["--engine", "S", "--ctor", "fn", "--len", "4", "--dev", "2"] + _SX, "budget": 600},
        {"harness": "c19", "args": ["--engine", "S", "--ctor", "flag", "--len", "5", "--dev", "1"] + _SX, "budget": 600},
        {"harness": "c19", "args": ["--engine", "S", "--ctor", "fn", "--len", "6", "--dev", "2"], "budget": 2400},
        {"harness": "c19", "args": ["--engine", "S", "--ctor", "flag", "--len", "6", "--dev", "1"], "budget": 600},
        {"harness": "c19", "args": ["--engine", "S", "--ctor", "flag", "--len", "5", "--dev", "2"], "budget": 900},
        # finer timing than the stated alphabet: jumps of 0.5, 1, 1.5 cs (remaining timer values that are not multiples of the reschedule time)
        {"harness": "c19", "args": ["--engine", "S", "--ctor", "fn", "--len", "4", "--dev", "2", "--deltas", "5000,10000,15000"], "budget": 600},
        {"harness": "c19", "args": ["--engine", "X", "--depth", "7"], "budget": 600},
    ]

CHECKS = {
    "C19": {"runs": _runs, "level": "model_checking", "deadline": {"quick": 280, "thorough": 2600},
            "assumptions": [
                "one thread; SIGPROF is delivered synchronously at a scheduling point (before a load/store of the clang -O2 object); the schedule space is that of this object, not of every possible compilation",
                "ideal ITIMER_PROF: expires exactly at the requested instant, getitimer returns the exact remaining time",
                "x86-64 SysV (state hash covers callee-saved registers and the interrupted stack frames)"]},
}

# C10 -- products denote the intersection of their components; reductions never lose it.
# One executable; one translation unit per component pair (each instantiates the five reduction
# policies).  The same source is listed under several spellings of its path so that bin/vcheck
# compiles the pairs in parallel, each with its own -DPR_PAIR flag.
_PR_SRC = {"harness/product.cc": 0}
for _k in range(1, 8):
    _PR_SRC["harness/" + "./" * _k + "product.cc"] = _k
HARNESSES = {
    "product": {"src": list(_PR_SRC), "variant": "prod", "flags": NOAC,
                "per_src_flags": {s: ["-DPR_PAIR=%d" % d] for s, d in _PR_SRC.items()}},
}
# pairs: 1 (Rational_Box, Octagonal_Shape<mpq>)  2 (C_Polyhedron, BD_Shape<mpq>)  3 (NNC_Polyhedron, Rational_Box)
#        7 (C_Polyhedron, BD_Shape<mpz>)          -- exact oracle (cells)
#        4 (C_Polyhedron, Grid)  5 (NNC_Polyhedron, Grid)  6 (BD_Shape<mpq>, Grid)   -- point-window oracle
# reductions: 0 none (Direct_Product), 1 Smash, 2 Constraints, 3 Congruences, 4 Shape_Preserving
_EXACT = [1, 2, 3, 7]
_GRID = [4, 5, 6]

def _run(pair, red, depth, dims, budget):
    return {"harness": "product", "args": ["--pair", str(pair), "--red", str(red), "--depth", str(depth), "--dims", dims], "budget": budget}

def _runs(tier):
    runs = []
    if tier == "quick":
        for p in _EXACT:
            for r in range(5):
                runs.append(_run(p, r, 2, "1,2", 250))
        for p in _GRID:
            for r in range(5):
                runs.append(_run(p, r, 1, "1,2", 250))
        return runs
    for p in _EXACT:
        for r in range(5):
            runs.append(_run(p, r, 3, "1,2", 600))
    for p in _GRID:
        for r in range(5):
            runs.append(_run(p, r, 2, "1,2", 600))
    return runs

CHECKS = {
    "C10": {"runs": _runs, "level": "model_checking", "parallel_runs": 8,
            "deadline": {"quick": 290, "thorough": 2700},
            "assumptions": [
                "the component domains are trusted to describe their own point sets: gamma(d1), gamma(d2) are read from the members d1, d2 (constraints(), congruences()) without going through the reducing accessors",
                "pairs with a Grid component are judged on a finite window of rational points k/6 (direct evaluation of the printed constraints and congruences), the other pairs exactly",
                "OK() of a product additionally re-runs the reduction and fails when the reduced flag is stale or the reduction is not idempotent; this is counted (extra.info_...) but only the components' own OK() is an invariant of this property",
            ]},
}

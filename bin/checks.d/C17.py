# C17 -- integer-aware operators (wrap_assign, drop_some_non_integer_points, contains_integer_point)
HARNESSES = {
    "c17": {"src": ["harness/c17_main.cc", "harness/c17_dom_poly.cc", "harness/c17_dom_box.cc",
                    "harness/c17_dom_bds.cc", "harness/c17_dom_oct.cc"], "variant": "prod"},
}

def _runs(tier):
    if tier == "quick":
        return [{"harness": "c17", "args": [], "budget": 270}]
    return [{"harness": "c17", "args": [], "budget": 2400}]

CHECKS = {
    "C17": {"runs": _runs, "level": "model_checking", "deadline": {"quick": 295, "thorough": 2700},
            "assumptions": [
                "the value of an argument is what constraints()/congruences() of a twin built by the same recipe print (the conversions themselves are the subject of C01/C04/C05)",
                "arguments unbounded in a wrapped variable are judged on the integer points of a sparse window only (necessary condition; counted separately)",
                "OVERFLOW_UNDEFINED is read coordinate-wise: in-range coordinates are kept, each overflowing coordinate may take any in-range value (the weakest reading; the implementation returns a superset)",
            ]},
}

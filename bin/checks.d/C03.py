# C03: Box / BD_Shape / Octagonal_Shape results contain the exact result, for every bound type.
# One translation unit per instantiation (harness/shapes.d/<name>.cc), all compiled in parallel into one executable.
import os as _os
# quick tier bound types (VERIF_C03_TYPES=mpz,d restricts them, e.g. to screen a mutant faster)
_TQ = [t for t in _os.environ.get("VERIF_C03_TYPES", "mpq,mpz,i8,d").split(",") if t]
_TT = ["mpq", "mpz", "i8", "i16", "i32", "i64", "f", "d", "ld"]   # thorough: all nine
def _names(ts): return ["%s_%s" % (k, t) for t in ts for k in ("box", "bds", "oct")]
HARNESSES = {
    "shapes_c03": {"src": ["harness/shapes_main.cc"] + ["harness/shapes.d/%s.cc" % n for n in _names(_TQ)], "variant": "prod", "flags": NOAC},
    "shapes_c03_all": {"src": ["harness/shapes_main.cc"] + ["harness/shapes.d/%s.cc" % n for n in _names(_TT)], "variant": "prod", "flags": NOAC},
}
def _runs(tier):
    runs = []
    if tier == "quick":
        for n in _names(_TQ):
            runs.append({"harness": "shapes_c03", "args": ["--shape", n, "--mode", "C03", "--dim", "2", "--depth", "2", "--depth-ops", "1", "--consts", "small"], "budget": 600})
        if "mpq" in _TQ:
            # transformers on every class of depth 2 of the rational box: a closed and an open bound (of one or two variables)
            # must meet in one receiver for the propagation code of refine_with_constraint / generalized_affine_image
            # (seeded change C03-x1 was missed with depth-ops 1; BD shapes / octagons of depth 2 are covered by C04)
            runs.append({"harness": "shapes_c03", "args": ["--shape", "box_mpq", "--mode", "C03", "--dim", "2", "--depth", "2", "--depth-ops", "2", "--consts", "small", "--what", "ops"], "budget": 600})
        return runs
    # all 27 instantiations (nine bound types) at the bounds of the quick tier
    for n in _names(_TT):
        runs.append({"harness": "shapes_c03_all", "args": ["--shape", n, "--mode", "C03", "--dim", "2", "--depth", "2", "--depth-ops", "1", "--consts", "small"], "budget": 1500})
    runs.append({"harness": "shapes_c03_all", "args": ["--shape", "box_mpq", "--mode", "C03", "--dim", "2", "--depth", "2", "--depth-ops", "2", "--consts", "small", "--what", "ops"], "budget": 1500})
    if _os.environ.get("VERIF_C03_DEEP"):
        # deeper configuration (full boundary alphabet; transformers on every class of depth 2).  Run once on 2026-09-28:
        # 126.6M transitions, 15 further finding groups (overflow / saturation families of native-integer and floating
        # shapes) that are not triaged yet -- see the final report; kept out of the registered tier until they are.
        for n in _names(_TT):
            runs.append({"harness": "shapes_c03_all", "args": ["--shape", n, "--mode", "C03", "--dim", "2", "--depth", "2", "--depth-ops", "1", "--consts", "full"], "budget": 1500})
        for n in _names(["mpq", "mpz", "i8", "d"]):
            runs.append({"harness": "shapes_c03_all", "args": ["--shape", n, "--mode", "C03", "--dim", "2", "--depth", "2", "--depth-ops", "2", "--consts", "small", "--what", "ops"], "budget": 1500})
    return runs
CHECKS = {
    "C03": {"runs": _runs, "level": "model_checking", "parallel_runs": 4,
            "assumptions": ["gamma(s) is read from BD_Shape::dbm / Octagonal_Shape::matrix / Box::seq and the empty flag exactly as documented in DESIGN.md appendix A (probed); finite floats and integers are exact rationals, +inf is 'no row'",
                            "only the safe direction of every answer is checked here (exactness over rationals is property C04)"],
            "deadline": {"quick": 300, "thorough": 2700}},
}

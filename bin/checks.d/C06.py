# C06 -- MIP solver: status, optimum and witness are right, incrementally or from scratch
HARNESSES = {
    "mip": {"src": ["harness/mip.cc"], "variant": "prod", "flags": NOAC},
}

def _runs(tier):
    if tier == "quick":
        return [{"harness": "mip", "args": ["--depth", "3", "--seed-depth", "3"], "budget": 270}]
    return [{"harness": "mip", "args": ["--depth", "4", "--depth-dim1", "5", "--seed-depth", "3"], "budget": 2400}]

CHECKS = {
    "C06": {"runs": _runs, "level": "model_checking", "deadline": {"quick": 270, "thorough": 2500},
            "assumptions": [
                "states are merged on a 128-bit hash of the ascii_dump text (hash compaction) within one (initial configuration, first operation) shard",
                "a solve-like call is declared divergent after 0.25 s CPU in a sandbox (10x when re-run alone); terminating calls of this size take well under 1 ms",
                "R.MILP (ref/milp.hh): vertex/ray window argument for integer feasibility and optimum; self-tested against plain enumeration at start-up",
            ]},
}

# C06 -- MIP solver: status, optimum and witness are right, incrementally or from scratch
HARNESSES = {
    "mip": {"src": ["harness/mip.cc"], "variant": "prod", "flags": NOAC},
}

def _runs(tier):
    if tier == "quick":
        return [{"harness": "mip", "args": ["--depth", "3", "--seed-depth", "3"], "budget": 190}]
    return [{"harness": "mip", "args": ["--depth", "4", "--depth-dim1", "5", "--seed-depth", "3"], "budget": 2400}]

CHECKS = {
    "C06": {"runs": _runs, "level": "model_checking", "deadline": {"quick": 270, "thorough": 2500},
            "assumptions": [
                "states are merged on a 128-bit hash of the ascii_dump text (hash compaction) within one (initial configuration, first operation) shard",
                "a solve-like call on data with integer variables and an unbounded relaxation runs under PPL's own cancellation hook (abandon_expensive_computations) with a CPU budget of 0.02 s, 0.5 s when re-run before it is reported as a hang; terminating calls of this size take well under 1 ms",
                "'the same final data' for the fresh problem = the set of rows (sorted, without repetitions), integer set, objective and mode; it is solved under each of the 3 pricings",
                "R.MILP (ref/milp.hh): vertex/ray window argument for integer feasibility and optimum; self-tested against plain enumeration at start-up",
            ]},
}

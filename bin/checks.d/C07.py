# C07 -- PIP solver: the tree yields the lexicographic minimum for every parameter value
HARNESSES = {
    "pip": {"src": ["harness/pip.cc"], "variant": "prod", "flags": NOAC},
}

def _runs(tier):
    if tier == "quick":
        return [{"harness": "pip", "args": ["--mode", "fresh", "--rows", "2"], "budget": 40},
                {"harness": "pip", "args": ["--mode", "incremental", "--depth", "2"], "budget": 50},
                {"harness": "pip", "args": ["--mode", "fresh", "--rows", "3", "--maxdim", "3", "--no-big"], "budget": 50},
                {"harness": "pip", "args": ["--mode", "boxed", "--layouts", "1", "--strategies", "3"], "budget": 50},
                {"harness": "pip", "args": ["--mode", "resolve", "--layouts", "1", "--strategies", "1"], "budget": 30}]
    return [{"harness": "pip", "args": ["--mode", "fresh", "--rows", "3"], "budget": 1200},
            {"harness": "pip", "args": ["--mode", "incremental", "--depth", "3"], "budget": 1300},
            {"harness": "pip", "args": ["--mode", "boxed", "--layouts", "3", "--strategies", "6"], "budget": 600},
            {"harness": "pip", "args": ["--mode", "resolve", "--layouts", "3", "--strategies", "6"], "budget": 400}]

CHECKS = {
    "C07": {"runs": _runs, "level": "model_checking", "deadline": {"quick": 270, "thorough": 2500},
            "assumptions": [
                "parameter valuations are taken from the window {0..6}^k (k <= 2; {0..4}^3 for three parameters), the big parameter from {64,129,260} (different residues modulo 2 and 3) with a mismatch required at all three",
                "only valuations that satisfy the context rows are judged (the tree is unspecified elsewhere)",
                "R.MILP lexicographic minimum (ref/milp.hh): vertex/ray window argument, self-tested against plain enumeration; the spanning code is self-tested on the class documentation's example",
                "every solve runs under a CPU budget (0.05 s through abandon_expensive_computations, 1 s when re-run before a hang is reported); solves under PIVOT_ROW_STRATEGY_MAX_COLUMN run first in a forked child with a hard CPU limit (0.3 s, 3 s to confirm) because a loop without cancellation points was met there",
                "a solve without an answer is attributed by predicates over the problem data or over the tree about to be re-solved only, never by where the computation was when it was abandoned (that depends on the machine's speed); a fresh solve without an answer matches no known finding",
                "re-solves of a tree in which a decision node declares artificial parameters run in a forked child: the unchanged library corrupts the heap there (open finding), and the damage must not reach later cases",
                "states of the incremental exploration are merged on a 128-bit hash of the ascii_dump text within one (initial problem, first operation) shard",
            ]},
}

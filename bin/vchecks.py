"""Registry of harnesses and checks (imported by bin/vcheck)."""

COMMON_ASSUMPTIONS = [
    "compiler, libstdc++, GMP and kernel behave as specified; GMP is also the arithmetic of the reference",
    "the code under test is deterministic given the dumped state (violations are replayable histories)",
    "the reference semantics (ref/*.hh, Fourier-Motzkin over mpq) is correct; defended by bin/vcheck selftest",
    "small scope: only the alphabets/bounds listed under coverage.bounds were explored",
]

NOAC = ["-fno-access-control"]

HARNESSES = {
    "selftest": {"src": ["ref/selftest.cc"], "variant": "prod", "link_ppl": False, "opt": ["-O2"]},
    "poly": {"src": ["harness/poly.cc"], "variant": "prod", "flags": NOAC},
}

def _poly(mode):
    def runs(tier):
        if tier == "quick":
            return [{"harness": "poly", "args": ["--mode", mode, "--depth", "3" if mode == "C01" else "2", "--pool", "24" if mode == "C01" else "36"], "budget": 270}]
        if mode == "C01":
            return [{"harness": "poly", "args": ["--mode", mode, "--depth", "3", "--all-states"], "budget": 3000}]
        return [{"harness": "poly", "args": ["--mode", mode, "--depth", "3"], "budget": 3000}]
    return runs

CHECKS = {
    "C01": {"runs": _poly("C01"), "level": "model_checking", "deadline": {"quick": 270, "thorough": 3000}},
    "C02": {"runs": _poly("C02"), "level": "model_checking", "deadline": {"quick": 270, "thorough": 3000}},
}


# ---- per-property registry fragments: bin/checks.d/*.py, each may define HARNESSES / CHECKS dicts
import glob as _glob, os as _os
for _f in sorted(_glob.glob(_os.path.join(_os.path.dirname(_os.path.abspath(__file__)), "checks.d", "*.py"))):
    _ns = {"NOAC": NOAC, "__file__": _f}
    try:
        exec(compile(open(_f).read(), _f, "exec"), _ns)
    except Exception as _e:   # a broken fragment must not take the other checks down
        import sys as _sys
        print("[vchecks] fragment %s failed to load: %r" % (_f, _e), file=_sys.stderr)
        continue
    HARNESSES.update(_ns.get("HARNESSES", {}))
    CHECKS.update(_ns.get("CHECKS", {}))

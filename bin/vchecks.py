"""Registry of harnesses and checks (imported by bin/vcheck)."""

COMMON_ASSUMPTIONS = [
    "compiler, libstdc++, GMP and kernel behave as specified; GMP is also the arithmetic of the reference",
    "the code under test is deterministic given the dumped state (violations are replayable histories)",
    "the reference semantics (ref/*.hh, Fourier-Motzkin over mpq) is correct; defended by bin/vcheck selftest",
    "small scope: only the alphabets/bounds listed under coverage.bounds were explored",
]

NOAC = ["-fno-access-control"]

HARNESSES = {
    "selftest": {"src": ["ref/selftest.cc"], "variant": "prod", "link_ppl": False, "opt": ["-O2"]},
    "poly": {"src": ["harness/poly.cc"], "variant": "prod", "flags": NOAC},
}

def _poly(mode):
    # run 1: dimensions 0..2 (menus of dimension-2 data); run 2: dimension 3 with its own extra menu entries
    # (the first dimension in which non-adjacent generator pairs and combinatorial adjacency tests occur);
    # run 3: dimension 2, deep phase A over a narrow builder alphabet (reaches lazy states that need 4-5 steps:
    # stale saturation matrices, pending rows on converted descriptions); in C02 it also applies 4 follow-up
    # builders to every transformer result, because what an operation leaves behind (stale rows, flags) only
    # shows in what the next mutator builds on it
    def runs(tier):
        d3 = ["--mode", mode, "--mindim", "3", "--maxdim", "3"]
        nar = ["--mode", mode, "--mindim", "2", "--maxdim", "2", "--narrow"]
        # run 4 (C01): dimension 4, systems that build and cut cubes, descriptions + predicates + comparisons only
        d4 = ["--mode", mode, "--mindim", "4", "--maxdim", "4", "--narrow", "--light"]
        if tier == "quick":
            if mode == "C01":
                return [{"harness": "poly", "args": ["--mode", mode, "--depth", "3", "--pool", "24"], "budget": 330},
                        {"harness": "poly", "args": d3 + ["--depth", "2", "--pool", "24"], "budget": 240},
                        {"harness": "poly", "args": nar + ["--depth", "5", "--pool", "12"], "budget": 240},
                        {"harness": "poly", "args": d4 + ["--depth", "4", "--pool", "12"], "budget": 240}]
            return [{"harness": "poly", "args": ["--mode", mode, "--depth", "2", "--pool", "36"], "budget": 330},
                    {"harness": "poly", "args": d3 + ["--depth", "1", "--pool", "16"], "budget": 240},
                    {"harness": "poly", "args": nar + ["--followups", "--depth", "4", "--pool", "4", "--poolsigs", "1", "--reps-per-sig", "6"], "budget": 330}]
        if mode == "C01":
            return [{"harness": "poly", "args": ["--mode", mode, "--depth", "3", "--all-states"], "budget": 3000},
                    {"harness": "poly", "args": d3 + ["--depth", "3"], "budget": 3000},
                    {"harness": "poly", "args": nar + ["--depth", "5", "--pool", "24", "--all-states"], "budget": 3000},
                    {"harness": "poly", "args": d4 + ["--depth", "5", "--pool", "24"], "budget": 3000}]
        return [{"harness": "poly", "args": ["--mode", mode, "--depth", "3"], "budget": 3000},
                {"harness": "poly", "args": d3 + ["--depth", "2", "--pool", "24"], "budget": 3000},
                {"harness": "poly", "args": nar + ["--followups", "--depth", "5", "--pool", "8", "--reps-per-sig", "12"], "budget": 3000}]
    return runs

CHECKS = {
    "C01": {"runs": _poly("C01"), "level": "model_checking", "parallel_runs": 4, "deadline": {"quick": 330, "thorough": 3000}},
    "C02": {"runs": _poly("C02"), "level": "model_checking", "parallel_runs": 3, "deadline": {"quick": 330, "thorough": 3000}},
}


# ---- per-property registry fragments: bin/checks.d/*.py, each may define HARNESSES / CHECKS dicts
import glob as _glob, os as _os
for _f in sorted(_glob.glob(_os.path.join(_os.path.dirname(_os.path.abspath(__file__)), "checks.d", "*.py"))):
    _ns = {"NOAC": NOAC, "__file__": _f}
    try:
        exec(compile(open(_f).read(), _f, "exec"), _ns)
    except Exception as _e:   # a broken fragment must not take the other checks down
        import sys as _sys
        print("[vchecks] fragment %s failed to load: %r" % (_f, _e), file=_sys.stderr)
        continue
    HARNESSES.update(_ns.get("HARNESSES", {}))
    CHECKS.update(_ns.get("CHECKS", {}))

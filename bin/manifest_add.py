#!/usr/bin/env python3
"""manifest_add.py ID 'text' 'note' 'technique' [level] -- add/replace a check entry in MANIFEST.json"""
import json, sys
pid, text, note, tech = sys.argv[1:5]
level = sys.argv[5] if len(sys.argv) > 5 else "model_checking"
engine = sys.argv[6] if len(sys.argv) > 6 else "X"
m = json.load(open('/verif/MANIFEST.json'))
m['checks'] = [c for c in m['checks'] if c['property_id'] != pid]
m['checks'].append({"property_id": pid, "quick_cmd": "bin/vcheck run %s --tier quick" % pid, "thorough_cmd": "bin/vcheck run %s --tier thorough" % pid,
  "evidence_file": "evidence/%s.json" % pid, "replay_cmd_template": "bin/vcheck replay {path}", "engine": engine,
  "level_claimed": {"category": level, "text": text, "design_ref": "4/" + pid}, "level_note": note, "technique": tech})
m['checks'].sort(key=lambda c: c['property_id'])
m['not_applicable'] = [x for x in m.get('not_applicable', []) if x['property_id'] != pid]
json.dump(m, open('/verif/MANIFEST.json', 'w'), indent=1)

#include "engine/ppl_ref.hh"
using namespace PPL; using namespace PPL::IO_Operators;
#define SHOW(tag, x) std::cout << tag << ": " << x << std::endl
int main(int argc, char** argv) {
  Variable A(0), B(1), C(2); Coefficient n, d; bool m; Generator g = point();
  { BD_Shape<mpq_class> x(2); x.add_constraint(A <= 1); x.affine_preimage(A, B); SHOW("K1 BDS {A<=1}.affine_preimage(A,B) [want B<=1]", x); }
  { Octagonal_Shape<mpq_class> x(1); x.add_constraint(A >= 0); x.affine_preimage(A, Linear_Expression(3), -1); SHOW("K1 Oct {A>=0}.affine_preimage(A,3,-1) [want false]", x); }
  { BD_Shape<mpq_class> x(1), y(1, EMPTY); x.concatenate_assign(y); SHOW("K2 BDS univ(1).concatenate(EMPTY(1)) [want false]", x); }
  { Octagonal_Shape<mpq_class> x(0), y(1, EMPTY); x.concatenate_assign(y); SHOW("K2 Oct univ(0).concatenate(EMPTY(1)) [want false]", x); }
  { BD_Shape<mpq_class> x(2); x.add_constraint(A >= 0); (void)x.minimized_constraints(); x.generalized_affine_image(A + B, EQUAL, Linear_Expression(A)); SHOW("K3 BDS OK() after generalized_affine_image(A+B,=,A) on reduced [want 1]", x.OK()); }
  { BD_Shape<mpq_class> x(1); x.add_constraint(A == 2); SHOW("K4 BDS {A=2}.relation_with(A=0 mod 2) [want IS_INCLUDED]", x.relation_with((A %= 0) / 2)); }
  { Octagonal_Shape<mpq_class> x(2); x.add_constraint(B - A >= 0); x.add_constraint(B - A <= 1); SHOW("K4b Oct {0<=B-A<=1}.relation_with(A-B+1=0 mod 3) [want STRICTLY_INTERSECTS]", x.relation_with((A - B + 1 %= 0) / 3)); }
  { Octagonal_Shape<mpq_class> x(1); SHOW("K5 Oct univ.maximize(3, witness) [want 1]", x.maximize(Linear_Expression(3), n, d, m, g)); }
  { Rational_Box x(1); x.bounded_affine_image(A, -A, A, -1); SHOW("K6 Box univ.bounded_affine_image(A,-A,A,-1) [want true]", x); }
  { Rational_Box x(1); x.add_constraint(2*A == 1); (void)x.is_empty(); x.drop_some_non_integer_points(); SHOW("K8 Box OK() after drop_some_non_integer_points on {A=1/2} [want 1]", x.OK()); }
  { Rational_Box x(2); x.add_constraint(B < 0); x.generalized_affine_preimage(-A + 1, EQUAL, Linear_Expression(-1)); SHOW("K9 Box {B<0}.generalized_affine_preimage(-A+1,=,-1) [want B<0]", x); }
  { Rational_Box x(1); x.add_constraint(A < 0); x.generalized_affine_preimage(A, GREATER_OR_EQUAL, Linear_Expression(3), -1); SHOW("K9b Box {A<0}.generalized_affine_preimage(A,>=,3,-1) [want true]", x); }
  { Rational_Box x(1); x.add_constraint(A >= 1); x.add_constraint(A <= 0); x.remove_higher_space_dimensions(0); SHOW("K10 Box {A>=1,A<=0}.remove_higher_space_dimensions(0).is_empty() [want 1]", x.is_empty()); }
  { Rational_Box x(1); x.add_constraint(2*A >= -1); x.add_constraint(A <= 2); SHOW("K11 Box [-1/2,2].relation_with(A=0 mod 1) [want STRICTLY_INTERSECTS]", x.relation_with((A %= 0) / 1)); }
  { Rational_Box x(1); SHOW("K12 Box univ.relation_with(1==0) [want IS_DISJOINT]", x.relation_with(Linear_Expression(1) == 0)); }
  { Rational_Box x(1); x.add_constraint(A > 1); SHOW("K12b Box {A>1}.relation_with(A<=-1) [want IS_DISJOINT]", x.relation_with(A <= -1)); }
  { Rational_Box x(1), y(1); x.add_constraint(A == 1); y.add_constraint(A < 1); SHOW("K13 Box {1}.upper_bound_assign_if_exact((-inf,1)) [want 1]", x.upper_bound_assign_if_exact(y)); }
  { BD_Shape<mpq_class> x(3), y(3); x.add_constraint(A <= B); x.add_constraint(C <= 0); y.add_constraint(B <= C); y.add_constraint(A >= 1); SHOW("K14 BDS {A<=B,C<=0}.is_disjoint_from({B<=C,A>=1}) [want 1]", x.is_disjoint_from(y)); }
  { BD_Shape<mpq_class> x(1), y(1); x.add_constraint(A >= 0); x.add_constraint(A <= 2); y.add_constraint(A >= 0); y.add_constraint(A <= 1); SHOW("K15 BDS [0,2].simplify_using_context_assign([0,1]) [want 1]", x.simplify_using_context_assign(y)); }
  { Rational_Box x(1), y(1); x.add_constraint(A < 1); y.add_constraint(A <= 1); x.simplify_using_context_assign(y); SHOW("K16 Box {A<1}.simplify_using_context_assign({A<=1}) [want A<1]", x); }
  if (argc > 1 && argv[1][0] == '7') { Rational_Box x(1); x.add_constraint(A >= -1); x.add_constraint(A <= 2); std::cout << "K7 bounded_affine_preimage(A,0,0,1)..." << std::endl; x.bounded_affine_preimage(A, Linear_Expression(0), Linear_Expression(0), 1); SHOW("K7 survived", x); }
  if (argc > 1 && argv[1][0] == '8') { Octagonal_Shape<mpq_class> x(2), y(2); x.add_constraint(B >= 1); y.add_constraint(A <= 0); std::cout << "K17 Oct {B>=1}.simplify_using_context_assign({A<=0})..." << std::endl; bool r = x.simplify_using_context_assign(y); SHOW("K17 survived", r); }
}

import json,sys
R="known_findings.d/C03_C04_reproducers.cc"
# (id, sites, clauses, trigger, witness, note)
F=[
("K1",["BD_Shape::affine_preimage","Octagonal_Shape::affine_preimage"],["exact:result-too-large"],"preimage_expr_does_not_mention_var",
 "BD_Shape<mpq_class> x(2); x.add_constraint(A<=1); x.affine_preimage(A,B);  // universe, exact preimage is {B<=1}",
 "affine_preimage(v,e,d) with e not mentioning v only forgets v (BD_Shape_templates.hh affine_preimage 't==0 / w!=v' branches, Octagonal_Shape likewise) although x'=+-y+c / x'=c is expressible: sound, not exact."),
("K2",["BD_Shape::concatenate_assign","Octagonal_Shape::concatenate_assign"],["exact:result-too-large"],"operand_marked_empty_positive_dim",
 "BD_Shape<mpq_class> x(1), y(1,EMPTY); x.concatenate_assign(y);  // universe(2), should be empty",
 "concatenate_assign only tests `y_space_dim == 0 && y.marked_empty()`; for a marked-empty operand of dimension > 0 the (meaningless) matrix of y is copied and the empty flag is lost."),
("K3",["BD_Shape::generalized_affine_image","BD_Shape::generalized_affine_preimage"],["invariant:OK()","value:minimized_constraints!=gamma"],"lhs_two_vars_receiver_marked_reduced",
 "BD_Shape<mpq_class> x(2); x.add_constraint(A>=0); x.minimized_constraints(); x.generalized_affine_image(A+B,EQUAL,Linear_Expression(A)); x.OK()==false",
 "generalized_affine_image/preimage(lhs,r,rhs) with >=2 variables in lhs calls forget_all_dbm_constraints() without reset_shortest_path_reduced(): status keeps +SPR with a stale redundancy matrix (also reported by the coordinator)."),
("K4",["BD_Shape::relation_with(Congruence)","Octagonal_Shape::relation_with(Congruence)"],["query:answer!=exact"],"congruence_satisfied_by_every_point",
 "BD_Shape<mpq_class> x(1); x.add_constraint(A==2); x.relation_with((A %= 0)/2)  // STRICTLY_INTERSECTS, should be IS_INCLUDED",
 "relation_with(Congruence) for a proper congruence has no code path returning is_included(): when the expression is constant on the shape and satisfies the congruence it answers strictly_intersects."),
("K4b",["BD_Shape::relation_with(Congruence)","Octagonal_Shape::relation_with(Congruence)"],["query:answer!=exact","query:definite-answer-false"],"sup_not_multiple_of_modulus",
 "Octagonal_Shape<mpq_class> x(2); x.add_constraint(B-A>=0); x.add_constraint(B-A<=1); x.relation_with((A-B+1 %= 0)/3)  // IS_DISJOINT, but A=B satisfies it",
 "`max_value += signed_distance` (BD_Shape_templates.hh ~l.1478, Octagonal_Shape_templates.hh ~l.1954) should subtract: the largest solution below the supremum is miscomputed whenever trunc(sup) is not a multiple of the modulus -> wrong is_disjoint / strictly_intersects."),
("K5",["Octagonal_Shape::maximize","Octagonal_Shape::minimize"],["query:answer!=exact"],"universe_and_constant_expression_with_witness",
 "Octagonal_Shape<mpq_class> x(1); x.maximize(Linear_Expression(3), n, d, incl, g)  // false; the overload without witness answers true,3",
 "max_min(expr,maximize,n,d,included,g) skips the LP when is_universe() and then returns false, also for a constant expression (Octagonal_Shape_templates.hh ~l.1854)."),
("K6",["Box::bounded_affine_image"],["enclosure:result-loses-points","invariant:OK()","best:result-loses-points-of-alpha"],"negative_denominator_var_in_both_bounds",
 "Rational_Box x(1); x.bounded_affine_image(A, -A, A, -1);  // {A=0}, exact image is the universe",
 "bounded_affine_image, branch 'var occurs in both lb_expr and ub_expr': uses min(lb) and max(ub) also for a negative denominator, where max(lb)/d and min(ub)/d are needed: points are lost (unsound)."),
("K7",["Box::bounded_affine_preimage"],["crash:SIGFPE"],"bound_expr_without_var_and_var_bounded",
 "Rational_Box x(1); x.add_constraint(A>=-1); x.add_constraint(A<=2); x.bounded_affine_preimage(A, Linear_Expression(0), Linear_Expression(0), 1);  // SIGFPE",
 "`denom_lower *= (denom * ub_var_coeff)` builds an mpq with denominator 0 when ub_expr (resp. lb_expr) does not mention var and var is bounded below (resp. above): q.canonicalize() divides by zero."),
("K8",["Box::drop_some_non_integer_points"],["invariant:OK()"],"empty_up_to_date_and_interval_without_integer",
 "Rational_Box x(1); x.add_constraint(2*A==1); x.is_empty(); x.drop_some_non_integer_points(); x.OK()==false",
 "drop_some_non_integer_points shrinks intervals (possibly to empty) without reset_empty_up_to_date(): status says 'known non-empty' for an empty box."),
("K9",["Box::generalized_affine_preimage"],["enclosure:result-loses-points","invariant:OK()"],"lhs_form_preimage",
 "Rational_Box x(2); x.add_constraint(B<0); x.generalized_affine_preimage(-A+1, EQUAL, Linear_Expression(-1));  // {A=2,B<0}, exact preimage {B<0}",
 "generalized_affine_preimage(lhs,r,rhs) is implemented as generalized_affine_image of an algebraically 'revised' relation, which is not the preimage: unsound for most arguments (Box_templates.hh l.4028)."),
("K9b",["Box::generalized_affine_preimage"],["enclosure:result-loses-points","invariant:OK()"],"var_form_expr_without_var",
 "Rational_Box x(1); x.add_constraint(A<0); x.generalized_affine_preimage(A, GREATER_OR_EQUAL, Linear_Expression(3), -1);  // empty, exact preimage is the universe",
 "generalized_affine_preimage(var,r,e,d), branch var_coefficient == 0: multiplies by an uninitialised temporary `d` and drops the inhomogeneous term of e (Box_templates.hh l.3713-3735): unsound."),
("K10",["Box::remove_higher_space_dimensions","Box::map_space_dimensions"],["exact:result-too-large"],"receiver_empty_but_not_marked",
 "Rational_Box x(1); x.add_constraint(A>=1); x.add_constraint(A<=0); x.remove_higher_space_dimensions(0); x.is_empty()==false",
 "remove_higher_space_dimensions just does seq.resize(): a box that is empty only through a removed interval and not yet marked empty becomes non-empty (also reached from map_space_dimensions with empty codomain). Also seen by the C09 worker."),
("K11",["Box::relation_with(Congruence)"],["query:answer!=exact","query:definite-answer-false"],"candidate_hyperplane_is_not_the_smallest_solution_above_infimum",
 "Rational_Box x(1); x.add_constraint(2*A>=-1); x.add_constraint(A<=2); x.relation_with((A %= 0)/1)  // IS_DISJOINT although 0,1,2 are solutions",
 "relation_with(Congruence) tests a single candidate hyperplane computed from floor(lower bound); when the infimum is not itself an attained solution the candidate lies below/on the open bound and a wrong is_disjoint is answered."),
("K12",["Box::relation_with(Constraint)"],["query:answer!=exact"],"trivial_equality_with_positive_constant",
 "Rational_Box x(1); x.relation_with(Linear_Expression(1) == 0)  // IS_INCLUDED, should be IS_DISJOINT",
 "trivial constraint with positive inhomogeneous term: `case 1: return is_included()` also for an equality (Box_templates.hh l.976)."),
("K12b",["Box::relation_with(Constraint)"],["query:answer!=exact"],"upper_bound_constraint_on_interval_unbounded_above",
 "Rational_Box x(1); x.add_constraint(A>1); x.relation_with(A <= -1)  // STRICTLY_INTERSECTS, should be IS_DISJOINT",
 "interval_relation(), upper-bound constraint: `if (i.upper_is_boundary_infinity()) return strictly_intersects();` without comparing the lower bound (Box_templates.hh l.792)."),
("K13",["Box::upper_bound_assign_if_exact"],["if_exact:false-but-union-is-in-domain"],"adjacent_bounds_exactly_one_open",
 "Rational_Box x(1), y(1); x.add_constraint(A==1); y.add_constraint(A<1); x.upper_bound_assign_if_exact(y)==false  // union is (-inf,1]",
 "Interval::can_be_exactly_joined_to compares the touching boundaries with eq(), which is false when exactly one of them is open - precisely the case where the union is an interval."),
("K14",["BD_Shape::is_disjoint_from","Octagonal_Shape::is_disjoint_from"],["query:answer!=exact"],"disjointness_not_witnessed_by_one_pair_of_bounds",
 "BD_Shape<mpq_class> x(3), y(3); x.add_constraint(A<=B); x.add_constraint(C<=0); y.add_constraint(B<=C); y.add_constraint(A>=1); x.is_disjoint_from(y)==false",
 "is_disjoint_from only compares opposite entries of the two closed matrices; an empty intersection that needs a negative cycle alternating between the two operands (>= 3 variables) is missed."),
("K15",["BD_Shape::simplify_using_context_assign","Octagonal_Shape::simplify_using_context_assign"],["simplify:return-false-on-nonempty-meet"],"receiver_contains_context",
 "BD_Shape<mpq_class> x(1), y(1); x=[0,2], y=[0,1]; x.simplify_using_context_assign(y)==false  // documented: false iff the intersection is empty",
 "`if (x.contains(y)) { x = universe; return false; }` (BD_Shape_templates.hh ~l.2566, Octagonal_Shape_templates.hh l.3313). Also attributed by the C09 worker."),
("K16",["Box::simplify_using_context_assign"],["simplify:meet-not-preserved"],"open_receiver_bound_equals_closed_context_bound",
 "Rational_Box x(1), y(1); x.add_constraint(A<1); y.add_constraint(A<=1); x.simplify_using_context_assign(y);  // universe: meet with y becomes {A<=1}",
 "Interval::simplify_using_context_assign ignores open bounds (FIXME in Interval_templates.hh l.410). Also attributed by the C09 worker."),
("K17",["Octagonal_Shape::simplify_using_context_assign"],["crash:SIGSEGV","crash:SIGILL","crash:SIGABRT","crash:SIGBUS"],"receiver_lower_bound_not_implied_by_context",
 "Octagonal_Shape<mpq_class> x(2), y(2); x.add_constraint(B>=1); y.add_constraint(A<=0); x.simplify_using_context_assign(y);  // reaches PPL_UNREACHABLE -> SIGSEGV",
 "last loop of simplify_using_context_assign selects the non-redundancy bit with `i >= j` instead of the pseudo-triangular row size, so entries [2k][2k+1] (lower bounds) of the receiver are never copied; the target is never reached and control falls into PPL_UNREACHABLE (Octagonal_Shape_templates.hh l.3500-3547). Also reported by the coordinator."),
]
def emit(prop, keep):
    out=[]
    for (kid,sites,clauses,trig,wit,note) in F:
        for s in sites:
            for c in clauses:
                if keep(kid,s,c): out.append({"property":prop,"site":s,"clause":c,"trigger":trig,"status":"open","id":kid,"witness":wit,"reproducer":R+" ("+kid+")","note":note})
    return out
FIXED={"K2":"dcddfc8","K3":"5cc3fca","K4b":"e0f720c","K5":"e02eb36","K6":"600abae","K7":"1866168","K8":"8dc8aa8","K10":"23e61c3",
       "K12":"91d0a94","K12b":"91d0a94","K13":"45aa7d9","K15":"27ead7e","K17":"9423546"}
def finish(prop, L, path):
    for e in L:
        h=FIXED.get(e["id"])
        if h:
            e["status"]="fixed: "+h
            e["witness"]="fixed: property=%s %s %s" % (prop, h, e["witness"])
    json.dump(L, open(path,"w"), indent=1)
    print(prop, len(L), "entries,", sum(1 for e in L if e["status"]=="open"), "open")
if __name__=="__main__":
    finish("C04", emit("C04",lambda k,s,c: c!="query:definite-answer-false"), "/verif/known_findings.d/C04.json")

R2="known_findings.d/C03_inexact_reproducers.cc"
BDS4=["BD_Shape::affine_image","BD_Shape::affine_preimage","BD_Shape::generalized_affine_image","BD_Shape::generalized_affine_preimage"]
G=[
("N1",["BD_Shape::affine_image","BD_Shape::affine_preimage","BD_Shape::bounded_affine_image","BD_Shape::bounded_affine_preimage","BD_Shape::generalized_affine_image","BD_Shape::generalized_affine_preimage","BD_Shape::simplify_using_context_assign",
       "Octagonal_Shape::affine_image","Octagonal_Shape::affine_preimage","Octagonal_Shape::bounded_affine_image","Octagonal_Shape::generalized_affine_image","Octagonal_Shape::generalized_affine_preimage","Octagonal_Shape::simplify_using_context_assign",
       "Box::Box(C_Polyhedron)","Box::Box(NNC_Polyhedron)","Box::generalized_affine_preimage","Box::generalized_affine_image"],
 ["enclosure:result-loses-points","invariant:matrix-entry-nan-or-minus-infinity"],"result_has_nan_or_minus_infinity_entry",
 "BD_Shape<int8_t> b(1); b.add_constraint(A>=126); b.affine_preimage(A, A+1, 2);  // dbm[1][0] is NaN (raw -127); the shape then behaves as empty",
 "native-integer / floating bound types: add_mul_assign_r / sub_mul_assign_r return NaN when the product overflows with the sign opposite to the accumulator (checked_int_inlines.hh add_mul_int 'V_UNKNOWN_*_OVERFLOW'), neg_assign_r(.., ROUND_DOWN) of an overflowed sum gives -infinity (simplify_using_context_assign 'found:' branch), +-infinity float bounds land on the wrong side of an interval: the NaN / -inf entry is stored into the matrix and points are lost."),
("N2",BDS4,["value:constraints!=gamma","value:minimized_constraints!=gamma"],"reduced_shape_bound_overflowed_to_infinity",
 "BD_Shape<double> b(1); b.add_constraint(A + DBL_MAX >= 0); b.minimized_constraints(); b.affine_image(A, -A+1, -1); b.constraints()  // {A >= -1} although the matrix is the universe",
 "the translation branch of affine_image (a == denominator) adds b/d to the bounds with ROUND_UP; when an entry overflows to +infinity the +SPR flag and the redundancy matrix are kept, and constraints()/minimized_constraints() convert the +infinity entry (still flagged non-redundant) with numer_denom(): a meaningless constraint that cuts the denoted set."),
("N3",["BD_Shape::maximize","BD_Shape::minimize","BD_Shape::relation_with(Congruence)","Octagonal_Shape::maximize","Octagonal_Shape::minimize","Octagonal_Shape::relation_with(Congruence)"],["query:definite-answer-false"],"optimum_exceeds_range_of_bound_type",
 "BD_Shape<int8_t> b(1); b.add_constraint(3*A<=1); b.maximize(A+126, n, d, incl)  // true with value 1 (true supremum 127)",
 "max_min(): `add_mul_assign_r(d, coeff_expr, x, ROUND_UP); numer_denom(d, ext_n, ext_d);` - when the sum overflows to +infinity it is converted unchecked (assertion only) and a finite, too small optimum is returned; relation_with(Congruence) is built on minimize()/maximize() and inherits the wrong bounds."),
("N4",["Box::Box(C_Polyhedron)","Box::Box(NNC_Polyhedron)","Box::generalized_affine_image","Box::generalized_affine_preimage","Box::refine_with_constraint","Box::refine_with_constraints","Box::affine_image","Box::affine_preimage","Box::bounded_affine_image","Box::refine_with_congruence"],
 ["enclosure:result-loses-points"],"lost_bound_not_representable_in_bound_type",
 "C_Polyhedron p(1); p.add_constraint(3*A<=1); Int8_Box b(p, POLYNOMIAL_COMPLEXITY);  // A <= 0, loses (0,1/3];  Int8_Box {A<=0}.refine_with_constraint(2*A-2*B+1>=0) gives B<=0 (exact B<=1/2)",
 "integer and floating boxes: constraint propagation (Box::propagate_constraint_no_check, used by refine_with_constraint, generalized_affine_image/preimage and the polynomial-complexity constructor from polyhedra) computes the new bound in Interval arithmetic and rounds it to the nearest/lower representable value instead of outward: the lost bound is exactly one whose exact value is not representable in the bound type."),
("N4x",["Box::Box(C_Polyhedron)","Box::Box(NNC_Polyhedron)","Box::generalized_affine_image","Box::generalized_affine_preimage","Box::refine_with_constraint","Box::refine_with_constraints","Box::affine_image","Box::affine_preimage","Box::bounded_affine_image"],
 ["enclosure:result-loses-points"],"lost_bound_exceeds_range_of_bound_type",
 "Double_Box / Int8_Box with a propagated bound beyond +-max of the bound type (e.g. B <= 1 - A with A >= -DBL_MAX)",
 "same propagation code: a bound whose exact value lies beyond the largest finite value of the bound type is clamped / mis-rounded instead of becoming infinite."),
("N5",["Octagonal_Shape::affine_image","Octagonal_Shape::generalized_affine_image","Octagonal_Shape::affine_preimage","Octagonal_Shape::generalized_affine_preimage","Octagonal_Shape::bounded_affine_image"],["crash:SIGALRM(hang)","crash:SIGSEGV","crash:SIGABRT","crash:SIGKILL"],"exact_bound_exceeds_range_of_bound_type",
 "Octagonal_Shape<int8_t> x(2); x.add_constraint(2*A==1); x.generalized_affine_image(B, EQUAL, A+126); x.minimized_constraints();  // does not terminate",
 "after a bound saturated at the limit of int8 the matrix is no longer strongly coherent; strong_reduction_assign() (minimized_constraints) loops forever / exhausts memory on it."),
("N7",["Box::refine_with_constraint","Box::refine_with_constraints","Box::refine_with_congruence","Box::generalized_affine_image","Box::generalized_affine_preimage","Box::bounded_affine_image","Box::Box(C_Polyhedron)","Box::Box(NNC_Polyhedron)"],
 ["crash:SIGSEGV","crash:SIGILL","crash:SIGABRT","crash:SIGBUS"],"propagated_product_overflows_bound_type",
 "C_Polyhedron p(2); p.add_constraint(-2*A-2*B+3>=0); p.add_constraint(A>=9223372036854775806); Int64_Box b(p, POLYNOMIAL_COMPLEXITY);  // SIGSEGV;  Int64_Box {A<=INT64_MIN}.generalized_affine_preimage(2*A-B+1, EQUAL, 0) likewise",
 "native-integer boxes: in Box::propagate_constraint_no_check the product coefficient*bound overflows; sub_mul_assign_r returns an 'unknown overflow' NaN result that Implementation::Boxes::propagate_constraint_check_result() does not handle: `default: PPL_UNREACHABLE` (Box_templates.hh l.2576), i.e. undefined behaviour with NDEBUG."),
("N6",["Box::affine_image","Box::generalized_affine_image","Box::Box(C_Polyhedron)","Box::Box(NNC_Polyhedron)","Box::Box(Rational_Box)","Box::Box(BD_Shape<mpq_class>)","Box::Box(Octagonal_Shape<mpq_class>)","Box::Box(Constraint_System)"],["invariant:OK()"],"exact_bound_exceeds_range_of_bound_type",
 "Double_Box b(1); b.affine_image(A, Linear_Expression(2*DBL_MAX)); b.OK()==false  // interval [DBL_MAX, +inf] closed at an infinite float value",
 "floating boxes: a bound that overflows becomes the float value +-inf stored as a closed, non-special boundary, which Interval::OK() rejects (the set itself is a sound enclosure)."),
]
def emit2(prop):
    out=[]
    for (kid,sites,clauses,trig,wit,note) in G:
        for s in sites:
            for c in clauses:
                out.append({"property":prop,"site":s,"clause":c,"trigger":trig,"status":"open","id":kid,"witness":wit,"reproducer":R2+" ("+kid+")","note":note})
    return out
if __name__=="__main__":
    c03=emit("C03",lambda k,s,c: True)
    # in C03 mode exactness clauses never fire; keep enclosure / crash / invariant / definite-answer clauses of the shared findings
    keep=("enclosure:","crash:","invariant:","query:definite-answer-false","value:")
    c03=[e for e in c03 if e["clause"].startswith(keep)]
    # the query findings appear as definite-answer-false in C03
    extra=[]
    for (kid,sites,clauses,trig,wit,note) in F:
        if "query:answer!=exact" in clauses and "query:definite-answer-false" not in clauses and kid in ("K4","K11","K12","K12b"):
            for s in sites: extra.append({"property":"C03","site":s,"clause":"query:definite-answer-false","trigger":trig,"status":"open","id":kid,"witness":wit,"reproducer":R+" ("+kid+")","note":note})
    finish("C03", c03+extra+emit2("C03"), "/verif/known_findings.d/C03.json")

#include "engine/ppl_ref.hh"
#include "interfaces/interfaced_boxes.hh"
#include <cfloat>
using namespace PPL; using namespace PPL::IO_Operators;
#define SHOW(tag, x) std::cout << tag << ": " << x << std::endl
int main(int argc, char** argv) {
  Variable A(0), B(1); Coefficient n, d; bool m;
  mpz_class F; mpz_set_d(F.get_mpz_t(), DBL_MAX);
  { BD_Shape<int8_t> b(1); b.add_constraint(A >= 126); b.affine_preimage(A, A + 1, 2); SHOW("N1 BD_Shape<int8_t> {A>=126}.affine_preimage(A,A+1,2): raw dbm[1][0] [-127 is NaN; want -126]", (int)raw_value(b.dbm[1][0])); }
  { BD_Shape<double> b(1); b.add_constraint(A + F >= 0); (void)b.minimized_constraints(); b.affine_image(A, -A + 1, -1); SHOW("N2 BD_Shape<double> {A>=-DBL_MAX} reduced, affine_image(A,-A+1,-1): constraints() [matrix is universe; want true]", b.constraints()); }
  { BD_Shape<int8_t> b(1); b.add_constraint(3*A <= 1); b.maximize(A + 126, n, d, m); SHOW("N3 BD_Shape<int8_t> {A<=1}.maximize(A+126) [want >= 127]", n << "/" << d); }
  { C_Polyhedron p(1); p.add_constraint(3*A <= 1); Int8_Box b(p, POLYNOMIAL_COMPLEXITY); SHOW("N4 Int8_Box(C_Polyhedron{3A<=1}, POLYNOMIAL_COMPLEXITY) [want A<=1]", b); }
  { Int8_Box b(2); b.add_constraint(2*A <= -1); b.refine_with_constraint(2*A - 2*B + 1 >= 0); SHOW("N4b Int8_Box {A<=0}.refine_with_constraint(B<=A+1/2) [want B<=1]", b); }
  { Double_Box b(2); b.add_constraint(A + mpz_class("9007199254740993") >= 0); b.refine_with_constraint(-A - B + 1 >= 0); SHOW("N4c Double_Box {A>-(2^53+2)}.refine_with_constraint(B<=1-A) [want B<2^53+4]", b); }
  if (argc > 1) { Octagonal_Shape<int8_t> x(2); x.add_constraint(2*A == 1); x.generalized_affine_image(B, EQUAL, A + 126); std::cout << "N5 Octagonal_Shape<int8_t> {A=1/2}.generalized_affine_image(B,=,A+126); minimized_constraints() ..." << std::endl; (void)x.minimized_constraints(); SHOW("N5 returned", 1); }
}

// Self-test of ref/rgrid.hh against brute-force enumeration of lattice points in a window (dimension <= 2).
// No PPL code is involved.  Descriptions are given with small integer data in units of 1/6:
//   * a generator description is enumerated by breadth-first closure under +-steps inside a big window;
//     lines are handled by comparing cross products;
//   * a congruence description is evaluated point by point with machine integers.
// The canonical forms / operations of rg:: are then compared with these point sets.
// Output protocol of /verif harnesses: one "stats" line, or an "error" line when a comparison fails.
#include "engine/common.hh"
#include "ref/rgrid.hh"
#include <array>
#include <set>
#include <queue>

using namespace rg;
typedef std::array<long, 2> P2;

static const long U = 6;          // resolution: coordinates are multiples of 1/U
static const long RS = 18;        // small window: |coordinate| <= RS/U = 3
static const long RB = 72;        // big window for the closure: |coordinate| <= 12
static long long COMPARISONS = 0, GRIDS = 0;
static std::string FAILMSG;

static void failure(const std::string& m) {
  if (FAILMSG.empty()) FAILMSG = m;
  fprintf(stderr, "rgrid selftest FAILED: %s\n", m.c_str());
}
#define CHECK(c, msg) do { ++COMPARISONS; if (!(c)) failure(std::string(#c) + " : " + (msg)); } while (0)

// ---- brute-force descriptions --------------------------------------------------------------------
struct BGen { int dim; std::vector<P2> pts, params, lines; std::string name; };   // coordinates in units of 1/U
struct BCon { long a0, a1, b, m; };                                                // a.x + b = 0 (mod m), integers; m = 0 equality
struct BCons { int dim; std::vector<BCon> cs; std::string name; };

typedef std::vector<char> Bits;    // membership of the small-window points, index (i+RS)*(2RS+1)+(j+RS) (dim 1: j = 0 only)
static int widx(long i, long j) { return (int)((i + RS) * (2 * RS + 1) + (j + RS)); }
static size_t wsize() { return (size_t)(2 * RS + 1) * (2 * RS + 1); }
static bool in_dim(int dim, long j) { return dim == 2 || j == 0; }

static Bits bits_of_gens(const BGen& g) {
  Bits out(wsize(), 0);
  if (g.pts.empty()) return out;
  // closure of the discrete part inside the big window
  std::set<P2> seen; std::queue<P2> q;
  std::vector<P2> steps = g.params;
  for (size_t i = 1; i < g.pts.size(); ++i) steps.push_back(P2{g.pts[i][0] - g.pts[0][0], g.pts[i][1] - g.pts[0][1]});
  seen.insert(g.pts[0]); q.push(g.pts[0]);
  while (!q.empty()) {
    P2 x = q.front(); q.pop();
    for (size_t s = 0; s < steps.size(); ++s) for (int sg = -1; sg <= 1; sg += 2) {
      P2 y{x[0] + sg * steps[s][0], x[1] + sg * steps[s][1]};
      if (std::labs(y[0]) > RB || std::labs(y[1]) > RB) continue;
      if (seen.insert(y).second) q.push(y);
    }
  }
  // lines
  std::vector<P2> ls; for (size_t i = 0; i < g.lines.size(); ++i) if (g.lines[i][0] || g.lines[i][1]) ls.push_back(g.lines[i]);
  bool plane = false; P2 l{0, 0};
  if (!ls.empty()) { l = ls[0]; for (size_t i = 1; i < ls.size(); ++i) if (ls[i][0] * l[1] - ls[i][1] * l[0] != 0) plane = true; }
  if (g.dim == 1 && !ls.empty()) plane = true;
  std::set<long> crosses;
  if (!ls.empty() && !plane) {
    // the cross product with l is a linear functional: enumerate its values  c(p0) + sum z_i c(step_i)  by a 1-D closure
    const long CB = 40000;
    std::queue<long> cq; long c0 = g.pts[0][0] * l[1] - g.pts[0][1] * l[0];
    crosses.insert(c0); cq.push(c0);
    while (!cq.empty()) {
      long c = cq.front(); cq.pop();
      for (size_t s = 0; s < steps.size(); ++s) for (int sg = -1; sg <= 1; sg += 2) {
        long d = c + sg * (steps[s][0] * l[1] - steps[s][1] * l[0]);
        if (std::labs(d) > CB) continue;
        if (crosses.insert(d).second) cq.push(d);
      }
    }
  }
  for (long i = -RS; i <= RS; ++i) for (long j = -RS; j <= RS; ++j) {
    if (!in_dim(g.dim, j)) continue;
    bool m;
    if (plane) m = true;
    else if (!ls.empty()) m = crosses.count(i * l[1] - j * l[0]) > 0;
    else m = seen.count(P2{i, j}) > 0;
    out[widx(i, j)] = m;
  }
  return out;
}
static bool con_holds(const BCon& c, long i, long j) {
  long v = c.a0 * i + c.a1 * j + c.b * U;          // U * (a.x + b)
  if (c.m == 0) return v == 0;
  return v % (c.m * U) == 0;
}
static Bits bits_of_cons(const BCons& s) {
  Bits out(wsize(), 0);
  for (long i = -RS; i <= RS; ++i) for (long j = -RS; j <= RS; ++j) {
    if (!in_dim(s.dim, j)) continue;
    bool m = true;
    for (size_t k = 0; k < s.cs.size() && m; ++k) m = con_holds(s.cs[k], i, j);
    out[widx(i, j)] = m;
  }
  return out;
}

// ---- the same descriptions for rg:: ----------------------------------------------------------------
static Vec qv(int dim, const P2& p) { Vec v(dim); for (int i = 0; i < dim; ++i) v[i] = mkq(p[i], U); return v; }
static Vec wpoint(int dim, long i, long j) { Vec v(dim); v[0] = mkq(i, U); if (dim == 2) v[1] = mkq(j, U); return v; }
static RGrid rg_of(const BGen& g) {
  Mat pts, params, lines;
  for (size_t i = 0; i < g.pts.size(); ++i) pts.push_back(qv(g.dim, g.pts[i]));
  for (size_t i = 0; i < g.params.size(); ++i) params.push_back(qv(g.dim, g.params[i]));
  for (size_t i = 0; i < g.lines.size(); ++i) if (g.lines[i][0] || (g.dim == 2 && g.lines[i][1])) lines.push_back(qv(g.dim, g.lines[i]));
  return from_generators(g.dim, pts, params, lines);
}
static Cong cong_of(int dim, const BCon& c) { Vec a(dim); a[0] = c.a0; if (dim == 2) a[1] = c.a1; return Cong(a, Q(c.b), Q(c.m)); }
static RGrid rg_of(const BCons& s) {
  Congs cs; for (size_t i = 0; i < s.cs.size(); ++i) cs.push_back(cong_of(s.dim, s.cs[i]));
  return from_congruences(s.dim, cs);
}
static Bits bits_of(const RGrid& g) {
  Bits out(wsize(), 0);
  for (long i = -RS; i <= RS; ++i) for (long j = -RS; j <= RS; ++j) {
    if (!in_dim(g.n, j)) continue;
    out[widx(i, j)] = g.contains_point(wpoint(g.n, i, j));
  }
  return out;
}
static Mat window_points(int dim, const Bits& b, long radius = RS) {
  Mat pts;
  for (long i = -radius; i <= radius; ++i) for (long j = -radius; j <= radius; ++j) if (in_dim(dim, j) && b[widx(i, j)]) pts.push_back(wpoint(dim, i, j));
  return pts;
}
// do the window points generate the (discrete) grid?
struct Item;
static bool rich(const Item& it);
static bool bits_subset(const Bits& a, const Bits& b) { for (size_t i = 0; i < a.size(); ++i) if (a[i] && !b[i]) return false; return true; }
static size_t popcount(const Bits& a) { size_t n = 0; for (size_t i = 0; i < a.size(); ++i) n += a[i] != 0; return n; }

struct Item { RGrid g; Bits bits; std::string name; };
static std::vector<Item> ALL;
static bool discrete(const RGrid& g) { return g.empty || g.L.empty(); }
// points of a grid enumerated from its canonical generators: p + sum z_i b_i with |z_i| <= K (lines ignored)
static Mat gen_points(const RGrid& g, int K) {
  Mat out;
  if (g.empty) return out;
  out.push_back(g.p);
  for (size_t i = 0; i < g.B.size(); ++i) {
    Mat next;
    for (size_t k = 0; k < out.size(); ++k) for (int z = -K; z <= K; ++z) { Vec x = out[k]; axpy(x, Q(z), g.B[i]); next.push_back(x); }
    out.swap(next);
  }
  return out;
}

static bool rich(const Item& it) {
  if (it.g.empty) return true;
  if (!it.g.L.empty()) return false;
  return from_generators(it.g.n, window_points(it.g.n, it.bits), Mat(), Mat()) == it.g;
}

static void add_item(const RGrid& g, const Bits& brute, const std::string& name) {
  ++GRIDS;
  Bits mine = bits_of(g);
  CHECK(mine == brute, "window membership differs for " + name + " : " + g.str());
  check_consistency(g);
  // the derived congruence description, evaluated directly
  Congs cs = congruences_of(g);
  bool same = true;
  for (long i = -RS; i <= RS && same; ++i) for (long j = -RS; j <= RS && same; ++j) {
    if (!in_dim(g.n, j)) continue;
    Vec x = wpoint(g.n, i, j); bool h = true;
    for (size_t k = 0; k < cs.size() && h; ++k) h = cs[k].holds(x);
    if (h != (bool)brute[widx(i, j)]) same = false;
  }
  CHECK(same, "derived congruences disagree with the point set for " + name);
  Item it; it.g = g; it.bits = brute; it.name = name;
  ALL.push_back(it);
}

int main(int argc, char** argv) {
  vf::Args args = vf::parse_args(argc, argv);
  vf::sink().open(args.out);
  double t0 = vf::now_s();
  bool thorough = args.thorough();

  // ---------------- menus (units of 1/6)
  std::vector<P2> PTS = {P2{0, 0}, P2{3, 0}, P2{2, 2}, P2{12, 6}, P2{-2, 4}, P2{3, -3}};
  std::vector<P2> PRM = {P2{6, 0}, P2{0, 12}, P2{3, 3}, P2{18, -6}, P2{0, 6}, P2{1, 0}, P2{1, 1}};   // the last two: "dense" steps
  std::vector<P2> LNS = {P2{6, 0}, P2{6, 6}, P2{0, 6}};
  std::vector<BCon> CM = {
    {1, 0, 0, 1}, {1, 0, -1, 2}, {0, 1, 0, 3}, {1, 1, 0, 2}, {1, -1, -1, 3}, {2, 1, 0, 2}, {2, 0, -1, 2},
    {1, 0, -1, 0}, {1, 1, 0, 0}, {0, 0, 0, 2}, {0, 0, 1, 2}, {2, 0, -1, 0}, {-1, 0, 1, 3}, {0, -1, 0, 1}, {0, 0, 1, 0}, {2, 1, -1, 3}};

  // ---------------- generator-built grids, dimension 2 and 1
  for (int dim = 1; dim <= 2; ++dim) {
    { BGen e; e.dim = dim; add_item(rg_of(e), bits_of_gens(e), "empty"); }
    for (size_t p = 0; p < PTS.size(); ++p) {
      if (dim == 1 && PTS[p][1] != 0) continue;
      std::vector<std::pair<char, P2> > extra;
      for (size_t i = 0; i < PRM.size(); ++i) if (dim == 2 || PRM[i][1] == 0) extra.push_back(std::make_pair('q', PRM[i]));
      for (size_t i = 0; i < LNS.size(); ++i) if (dim == 2 || LNS[i][1] == 0) extra.push_back(std::make_pair('l', LNS[i]));
      for (size_t i = 0; i < PTS.size(); ++i) if (i != p && (dim == 2 || PTS[i][1] == 0)) extra.push_back(std::make_pair('p', PTS[i]));
      for (int a = -1; a < (int)extra.size(); ++a) for (int b = a; b < (int)extra.size(); ++b) {
        if (b == a && a >= 0) continue;
        if (!thorough && p >= 3 && a >= 0 && ((a + b + p) % 3) != 0) continue;       // thin out in the quick tier
        BGen g; g.dim = dim; g.pts.push_back(PTS[p]);
        std::string nm = "gen d" + std::to_string(dim) + " p" + std::to_string(p);
        int idx[2] = {a, b};
        for (int t = 0; t < 2; ++t) if (idx[t] >= 0) {
          char k = extra[idx[t]].first; P2 v = extra[idx[t]].second;
          (k == 'q' ? g.params : k == 'l' ? g.lines : g.pts).push_back(v);
          nm += std::string(" ") + k + "(" + std::to_string(v[0]) + "," + std::to_string(v[1]) + ")";
        }
        add_item(rg_of(g), bits_of_gens(g), nm);
      }
    }
  }
  size_t n_gen_items = ALL.size();
  // ---------------- congruence-built grids
  for (int dim = 1; dim <= 2; ++dim) {
    std::vector<BCon> cm; for (size_t i = 0; i < CM.size(); ++i) if (dim == 2 || CM[i].a1 == 0) cm.push_back(CM[i]);
    { BCons u; u.dim = dim; add_item(rg_of(u), bits_of_cons(u), "universe"); }
    for (size_t a = 0; a < cm.size(); ++a) {
      { BCons s; s.dim = dim; s.cs.push_back(cm[a]); add_item(rg_of(s), bits_of_cons(s), "con d" + std::to_string(dim) + " " + std::to_string(a)); }
      for (size_t b = 0; b < cm.size(); ++b) {
        if (a == b) continue;
        if (!thorough && ((a * 7 + b) % 3) != 0) continue;
        BCons s; s.dim = dim; s.cs.push_back(cm[a]); s.cs.push_back(cm[b]);
        add_item(rg_of(s), bits_of_cons(s), "con d" + std::to_string(dim) + " " + std::to_string(a) + "," + std::to_string(b));
        if (thorough || ((a + b) % 5) == 0) for (size_t c = 0; c < cm.size(); c += 3) {
          BCons t = s; t.cs.push_back(cm[c]);
          add_item(rg_of(t), bits_of_cons(t), "con d" + std::to_string(dim) + " " + std::to_string(a) + "," + std::to_string(b) + "," + std::to_string(c));
        }
      }
    }
  }
  // equal point sets <=> equal canonical forms (within one dimension), over everything built so far
  {
    std::map<std::string, size_t> by_canon;
    std::map<std::pair<int, Bits>, std::string> by_bits;
    for (size_t i = 0; i < ALL.size(); ++i) {
      std::string c = ALL[i].g.str();
      std::pair<int, Bits> k(ALL[i].g.n, ALL[i].bits);
      if (by_canon.count(c)) CHECK(ALL[by_canon[c]].bits == ALL[i].bits, "same canonical form, different point sets: " + c);
      else by_canon[c] = i;
      // different canonical forms may coincide on the window only if they differ outside it; report those as failures
      // unless one of the two has points of period larger than the window (none in these menus except documented)
      if (by_bits.count(k)) { if (by_bits[k] != c) { ++COMPARISONS; /* window-equal, canon-different: checked below through inclusion */ } }
      else by_bits[k] = c;
    }
  }

  // ---------------- pools for operations: distinct canonical values
  std::vector<Item> POOL2, POOL1;
  {
    std::set<std::string> seen;
    for (size_t i = 0; i < ALL.size(); ++i) if (seen.insert(ALL[i].g.str()).second) (ALL[i].g.n == 2 ? POOL2 : POOL1).push_back(ALL[i]);
  }
  // deterministic thinning of the binary pool
  std::vector<Item> BIN;
  { size_t want = thorough ? 70 : 34; size_t step = std::max<size_t>(1, POOL2.size() / want); for (size_t i = 0; i < POOL2.size(); i += step) BIN.push_back(POOL2[i]); }

  for (size_t i = 0; i < BIN.size(); ++i) for (size_t j = 0; j < BIN.size(); ++j) {
    const Item& A = BIN[i]; const Item& Bq = BIN[j];
    std::string nm = "[" + A.g.str() + "] , [" + Bq.g.str() + "]";
    // meet: exact on the window
    RGrid m = meet(A.g, Bq.g);
    Bits mb = bits_of(m), andb(A.bits.size());
    for (size_t k = 0; k < andb.size(); ++k) andb[k] = A.bits[k] && Bq.bits[k];
    CHECK(mb == andb, "meet differs from pointwise conjunction: " + nm);
    // inclusion: sound on the window; a refutation needs a generator of A violating a congruence of B
    bool sub = subset(A.g, Bq.g);
    if (sub) CHECK(bits_subset(A.bits, Bq.bits), "subset claimed but a window point is outside: " + nm);
    else if (!A.g.empty) {
      bool found = Bq.g.empty;
      Congs cs = congruences_of(Bq.g);
      Mat gens = gen_points(A.g, 1);
      for (size_t k = 0; k < gens.size() && !found; ++k) for (size_t c = 0; c < cs.size() && !found; ++c) if (!cs[c].holds(gens[k])) found = true;
      for (size_t k = 0; k < A.g.L.size() && !found; ++k) for (size_t c = 0; c < cs.size() && !found; ++c) if (!cs[c].holds_dir(A.g.L[k], true)) found = true;
      CHECK(found, "not-subset claimed without a witness: " + nm);
    }
    // join: an upper bound, and the integer-affine hull of the enumerated points when the window generates both
    RGrid jn = join(A.g, Bq.g);
    CHECK(subset(A.g, jn) && subset(Bq.g, jn), "join is not an upper bound: " + nm);
    Bits orb(A.bits.size()); for (size_t k = 0; k < orb.size(); ++k) orb[k] = A.bits[k] || Bq.bits[k];
    if (discrete(A.g) && discrete(Bq.g) && rich(A) && rich(Bq)) {
      Mat pts = window_points(2, orb);
      RGrid hull = from_generators(2, pts, Mat(), Mat());
      CHECK(hull == jn, "join is not the hull of the enumerated points: " + nm + " hull " + hull.str() + " join " + jn.str());
    }
    // is the union itself a grid?  enumerate points of the join from its generators and look for one outside both
    bool exact = union_is_grid(A.g, Bq.g);
    {
      Mat jp = gen_points(jn, 3); bool all_in = true;
      for (size_t k = 0; k < jp.size() && all_in; ++k) if (!A.g.contains_point(jp[k]) && !Bq.g.contains_point(jp[k])) all_in = false;
      // points moved along the lines of the join by a non-lattice amount
      for (size_t k = 0; k < jn.L.size() && all_in; ++k) for (size_t q = 0; q < jp.size() && all_in; ++q) {
        Vec x = jp[q]; axpy(x, mkq(1, 7), jn.L[k]);
        if (!A.g.contains_point(x) && !Bq.g.contains_point(x)) all_in = false;
      }
      // ... and along all of them at once
      for (size_t q = 0; q < jp.size() && all_in && !jn.L.empty(); ++q) {
        Vec x = jp[q]; for (size_t k = 0; k < jn.L.size(); ++k) axpy(x, mkq(1, 7 + 4 * (long)k), jn.L[k]);
        if (!A.g.contains_point(x) && !Bq.g.contains_point(x)) all_in = false;
      }
      CHECK(exact == all_in, "union_is_grid disagrees with enumeration: " + nm);
      if (exact) CHECK(bits_subset(bits_of(jn), orb), "union claimed exact but the join has more window points: " + nm);
      CHECK(exact == subset(difference(jn, A.g), Bq.g), "two exactness criteria disagree: " + nm);
    }
    // difference: the rule against the hull of the enumerated points of A \ B (B judged by direct evaluation of its congruences)
    {
      RGrid df = difference(A.g, Bq.g);
      CHECK(subset(df, A.g), "difference leaves A: " + nm);
      Congs cs = congruences_of(Bq.g);
      Mat ap = gen_points(A.g, 4), outside;
      for (size_t k = 0; k < ap.size(); ++k) { bool inb = !Bq.g.empty; for (size_t c = 0; c < cs.size() && inb; ++c) inb = cs[c].holds(ap[k]); if (!inb) outside.push_back(ap[k]); }
      bool ok = true; for (size_t k = 0; k < outside.size(); ++k) if (!df.contains_point(outside[k])) ok = false;
      CHECK(ok, "difference misses a point of A\\B: " + nm);
      if (discrete(A.g)) {
        RGrid dh = from_generators(2, outside, Mat(), Mat());
        CHECK(dh == df, "difference is not the hull of the enumerated points of A\\B: " + nm + " hull " + dh.str() + " rule " + df.str());
      } else {
        // with lines in A: the points outside B, translated along the lines of A that are also lines of B
        // (the set A\B is invariant under those), must already span df
        Mat common; for (size_t k = 0; k < A.g.L.size(); ++k) if (!Bq.g.empty && Bq.g.in_line_space(A.g.L[k])) common.push_back(A.g.L[k]);
        Mat more = outside;
        for (size_t k = 0; k < A.g.L.size(); ++k) for (int t = -3; t <= 3; ++t) {      // sample the other lines at steps of 1/7
          for (size_t q = 0; q < ap.size() && q < 30; ++q) { Vec x = ap[q]; axpy(x, mkq(t, 7), A.g.L[k]); bool inb = !Bq.g.empty; for (size_t c = 0; c < cs.size() && inb; ++c) inb = cs[c].holds(x); if (!inb) more.push_back(x); }
        }
        ok = true; for (size_t k = 0; k < more.size(); ++k) if (!df.contains_point(more[k])) ok = false;
        CHECK(ok, "difference (lines) misses a sampled point of A\\B: " + nm);
        if (more.empty()) CHECK(df.empty || !subset(A.g, Bq.g), "difference of included grids not empty: " + nm);
        // minimality: df is either empty, A itself, or a coset; in the coset case it is disjoint from B or B misses part of it
        if (!df.empty && df != A.g) CHECK(same_module(df, meet(A.g, df)) && !more.empty(), "difference (lines) is a strange sub-grid: " + nm);
        if (df == A.g && !more.empty()) {
          // the sampled outside points plus the common lines must not fit in a proper coset of index 2
          RGrid h = from_generators(2, more, Mat(), common);
          CHECK(subset(h, df), "hull of samples leaves the difference: " + nm);
        }
      }
    }
    // time elapse: contains every p + mu q enumerated; hull of them when discrete
    {
      RGrid te = time_elapse(A.g, Bq.g);
      if (A.g.empty || Bq.g.empty) CHECK(te.empty, "time_elapse with an empty argument: " + nm);
      else {
        Mat pa = gen_points(A.g, 1), pb = gen_points(Bq.g, 1), all;
        bool ok = true;
        for (size_t x = 0; x < pa.size(); ++x) for (size_t y = 0; y < pb.size(); ++y) for (int mu = -2; mu <= 2; ++mu) {
          Vec w = pa[x]; axpy(w, Q(mu), pb[y]);
          if (!te.contains_point(w)) ok = false;
          all.push_back(w);
        }
        CHECK(ok, "time_elapse misses p + mu q: " + nm);
        Mat lines = A.g.L; lines.insert(lines.end(), Bq.g.L.begin(), Bq.g.L.end());
        CHECK(from_generators(2, all, Mat(), lines) == te, "time_elapse is not the hull of the enumerated p + mu q: " + nm);
      }
    }
  }

  // ---------------- unary operations on the 2-dimensional pool
  struct AF { int k; long a0, a1, b, d; };
  std::vector<AF> AFS = {{0, 1, 0, 1, 1}, {0, 1, 1, 0, 1}, {0, 0, 1, 0, 1}, {1, 2, -1, 1, 2}, {0, 0, 0, 3, 1}, {1, 1, 0, 0, -3}, {0, 3, 2, 1, 1}, {1, 0, -2, 0, 1}, {0, -1, 0, 0, 2}};
  std::vector<long> MODS = {0, 1, 2, 3, -2};
  size_t ustep = std::max<size_t>(1, POOL2.size() / (thorough ? 120 : 45));
  for (size_t gi = 0; gi < POOL2.size(); gi += ustep) {
    const Item& A = POOL2[gi];
    for (size_t fi = 0; fi < AFS.size(); ++fi) {
      AF f = AFS[fi];
      Vec a(2); a[0] = f.a0; a[1] = f.a1; Q b = f.b, d = f.d;
      std::string nm = A.g.str() + " x" + std::to_string(f.k) + ":=(" + std::to_string(f.a0) + "," + std::to_string(f.a1) + ")x+" + std::to_string(f.b) + "/" + std::to_string(f.d);
      auto apply = [&](const Vec& x) { Vec r = x; r[f.k] = (dot(a, x) + b) / d; return r; };
      RGrid img = affine_image(A.g, f.k, a, b, d);
      RGrid pre = affine_preimage(A.g, f.k, a, b, d);
      // image: contains f(x) for every enumerated x; hull of those when discrete
      Mat pts = window_points(2, A.bits), fpts; bool ok = true;
      for (size_t k = 0; k < pts.size(); ++k) { Vec y = apply(pts[k]); if (!img.contains_point(y)) ok = false; fpts.push_back(y); }
      CHECK(ok, "affine_image misses f(x): " + nm);
      if (discrete(A.g)) {
        Mat gp = gen_points(A.g, 2), fg; for (size_t k = 0; k < gp.size(); ++k) fg.push_back(apply(gp[k]));
        CHECK(from_generators(2, fg, Mat(), Mat()) == img, "affine_image is not the hull of the images of the enumerated points: " + nm);
      }
      // preimage: exact on the window by direct evaluation
      bool same = true;
      for (long i = -RS; i <= RS && same; ++i) for (long j = -RS; j <= RS && same; ++j) {
        Vec x = wpoint(2, i, j);
        if (pre.contains_point(x) != A.g.contains_point(apply(x))) same = false;
      }
      CHECK(same, "affine_preimage differs from { x : f(x) in G }: " + nm);
      // the relational route (doubled space) agrees with both
      for (size_t mi = 0; mi < MODS.size(); ++mi) {
        Q m = MODS[mi];
        Relation r = rel_var(2, f.k, a, b, d, m);
        RGrid ri = rel_apply(A.g, r, true), rp = rel_apply(A.g, r, false);
        RGrid direct = img;
        if (m != 0 && !direct.empty) { Mat params = direct.B; params.push_back(vscale(qabs(m), unit_vec(2, f.k))); Mat p1(1, direct.p); direct = from_generators(2, p1, params, direct.L); }
        CHECK(ri == direct, "relational image differs from affine_image + modulus parameter: " + nm + " mod " + qstr(m));
        if (m == 0) CHECK(rp == pre, "relational preimage differs from affine_preimage: " + nm);
        // brute force on pairs (v in G, w in window): (v, w) in phi  =>  w in image ;  (v in window, w in G) => v in preimage
        if (gi % (3 * ustep) == 0 && fi < 5) {
          Mat gv = window_points(2, A.bits, 6); bool ok1 = true, ok2 = true;
          for (size_t k = 0; k < gv.size() && k < 12; ++k) for (long i = -12; i <= 12; ++i) {
            Vec w = gv[k]; w[f.k] = mkq(i, U);        // only coordinate k may change
            if (r.holds(gv[k], w) && !ri.contains_point(w)) ok1 = false;
            if (r.holds(w, gv[k]) && !rp.contains_point(w)) ok2 = false;
          }
          CHECK(ok1, "generalized image misses a related point: " + nm + " mod " + qstr(m));
          CHECK(ok2, "generalized preimage misses a related point: " + nm + " mod " + qstr(m));
          // and the converse on the window: every w of the image has some v in G with (v, w) in phi, v differing in coordinate k only
          bool ok3 = true;
          for (long i = -6; i <= 6 && ok3; ++i) for (long j = -6; j <= 6 && ok3; ++j) {
            Vec w = wpoint(2, i, j);
            if (!rp.contains_point(w)) continue;
            // w in preimage: exists v' in G equal to w except coordinate k, related; search coordinate k over a wide range of sixths
            bool found = false;
            for (long t = -20 * U; t <= 20 * U && !found; ++t) { Vec v = w; v[f.k] = mkq(t, U); if (A.g.contains_point(v) && r.holds(w, v)) found = true; }
            if (!found && A.g.L.empty()) ok3 = false;
          }
          CHECK(ok3, "generalized preimage contains a point with no related point of G: " + nm + " mod " + qstr(m));
        }
      }
    }
    // lhs-form relations
    struct LR { long c0, c1, d0, a0, a1, b; };
    std::vector<LR> LRS = {{1, 1, 0, 1, 0, 0}, {2, -1, 1, 0, 1, 2}, {0, 0, 1, 1, 1, 0}, {0, 1, 0, 1, 1, 1}, {1, 0, 0, 0, 0, 3}};
    if (gi % (2 * ustep) == 0) for (size_t li = 0; li < LRS.size(); ++li) for (size_t mi = 0; mi < MODS.size(); ++mi) {
      LR l = LRS[li]; Q m = MODS[mi];
      Vec c(2), a(2); c[0] = l.c0; c[1] = l.c1; a[0] = l.a0; a[1] = l.a1;
      Relation r = rel_lhs(2, c, Q(l.d0), a, Q(l.b), m);
      RGrid ri = rel_apply(A.g, r, true), rp = rel_apply(A.g, r, false);
      std::string nm = A.g.str() + " lhs#" + std::to_string(li) + " mod " + qstr(m);
      Mat gv = window_points(2, A.bits, 6); bool ok1 = true, ok2 = true;
      for (size_t k = 0; k < gv.size() && k < 8; ++k) for (long i = -9; i <= 9; ++i) for (long j = -9; j <= 9; ++j) {
        Vec w = wpoint(2, i, j);
        if (r.holds(gv[k], w) && !ri.contains_point(w)) ok1 = false;
        if (r.holds(w, gv[k]) && !rp.contains_point(w)) ok2 = false;
      }
      CHECK(ok1, "lhs-form image misses a related point: " + nm);
      CHECK(ok2, "lhs-form preimage misses a related point: " + nm);
      // result must not exceed the cylindrification on the changed coordinates
      std::vector<int> ch; for (int t = 0; t < 2; ++t) if (r.changed[t]) ch.push_back(t);
      CHECK(subset(ri, unconstrain(A.g, ch)) && subset(rp, unconstrain(A.g, ch)), "lhs-form result exceeds the cylindrification: " + nm);
      if (m == 0 && li == 4) {   // x' = 3 is an ordinary affine image / preimage
        CHECK(ri == affine_image(A.g, 0, zero_vec(2), Q(3), Q(1)), "lhs-form x'=3 image: " + nm);
        CHECK(rp == affine_preimage(A.g, 0, zero_vec(2), Q(3), Q(1)), "lhs-form x'=3 preimage: " + nm);
      }
    }
    // dimension operators, by direct evaluation on the window
    {
      std::string nm = A.g.str();
      // unconstrain {0}: (x,y) member iff some (x',y) is a member; judged on the enumerated rows
      std::vector<int> v0(1, 0);
      RGrid un = unconstrain(A.g, v0);
      std::set<long> rows; for (long i = -RS; i <= RS; ++i) for (long j = -RS; j <= RS; ++j) if (A.bits[widx(i, j)]) rows.insert(j);
      bool ok = true;
      for (long i = -6; i <= 6; ++i) for (long j = -RS; j <= RS; ++j) if ((rows.count(j) > 0) && !un.contains_point(wpoint(2, i, j))) ok = false;
      CHECK(ok, "unconstrain misses points: " + nm);
      CHECK(subset(A.g, un) && (A.g.empty || !constrains(un, 0)), "unconstrain: not a cylinder: " + nm);
      // remove dimension 1 == projection on x; fold {1} into 0 == hull of both coordinate projections
      std::vector<int> v1(1, 1);
      RGrid pr = remove_dims(A.g, v1), fo = fold_dims(A.g, v1, 0);
      std::set<long> xs, ys; for (long i = -RS; i <= RS; ++i) for (long j = -RS; j <= RS; ++j) if (A.bits[widx(i, j)]) { xs.insert(i); ys.insert(j); }
      bool okp = true, okf = true;
      for (std::set<long>::iterator it = xs.begin(); it != xs.end(); ++it) { Vec x(1); x[0] = mkq(*it, U); if (!pr.contains_point(x)) okp = false; if (!fo.contains_point(x)) okf = false; }
      for (std::set<long>::iterator it = ys.begin(); it != ys.end(); ++it) { Vec x(1); x[0] = mkq(*it, U); if (!fo.contains_point(x)) okf = false; }
      CHECK(okp, "projection misses points: " + nm);
      CHECK(okf, "fold misses points: " + nm);
      if (discrete(A.g) && !A.g.empty) {
        Mat px, pxy, gp = gen_points(A.g, 2);
        for (size_t k = 0; k < gp.size(); ++k) { Vec x(1); x[0] = gp[k][0]; px.push_back(x); pxy.push_back(x); }
        for (size_t k = 0; k < gp.size(); ++k) { Vec x(1); x[0] = gp[k][1]; pxy.push_back(x); }
        CHECK(from_generators(1, px, Mat(), Mat()) == pr, "projection is not the hull of the projected points: " + nm);
        CHECK(from_generators(1, pxy, Mat(), Mat()) == fo, "fold is not the hull of both projections: " + nm);
      }
      // swap of the two dimensions
      std::vector<int> sw; sw.push_back(1); sw.push_back(0);
      RGrid ms = map_dims(A.g, sw); bool oks = true;
      for (long i = -RS; i <= RS; ++i) for (long j = -RS; j <= RS; ++j) if ((bool)A.bits[widx(i, j)] != ms.contains_point(wpoint(2, j, i))) oks = false;
      CHECK(oks, "map_dims(swap) differs: " + nm);
      // queries
      bool hasint = false; for (long i = -RS; i <= RS; i += U) for (long j = -RS; j <= RS; j += U) if (A.bits[widx(i, j)]) hasint = true;
      if (hasint) CHECK(contains_integer_point(A.g), "integer point enumerated but not reported: " + nm);
      else if (contains_integer_point(A.g)) {
        // must then exhibit one: intersect and read the point
        RGrid r = A.g; for (int t = 0; t < 2; ++t) r = add_congruence(r, Cong(unit_vec(2, t), Q(0), Q(1)));
        CHECK(!r.empty && is_int(r.p[0]) && is_int(r.p[1]) && A.g.contains_point(r.p), "contains_integer_point without a witness: " + nm);
      }
      // frequency / bounds of x, y, x+y, 2x-y+1, 3 judged on the values at points enumerated from the generators
      long es[][3] = {{1, 0, 0}, {0, 1, 0}, {1, 1, 0}, {2, -1, 1}, {0, 0, 3}};
      if (!A.g.empty) for (auto& e : es) {
        Vec a(2); a[0] = e[0]; a[1] = e[1]; Q b = e[2];
        Mat gp = gen_points(A.g, 3);
        std::set<Q> vals; for (size_t k = 0; k < gp.size(); ++k) vals.insert(dot(a, gp[k]) + b);
        bool line_moves = false; for (size_t k = 0; k < A.g.L.size(); ++k) if (dot(a, A.g.L[k]) != 0) line_moves = true;
        Freq fr = frequency(A.g, a, b);
        CHECK(fr.defined == !line_moves, "frequency definedness: " + nm);
        CHECK(bounds(A.g, a) == (vals.size() == 1 && !line_moves), "bounds disagrees with the enumerated values: " + nm);
        if (fr.defined) {
          Q gd = 0; for (std::set<Q>::iterator it = vals.begin(); it != vals.end(); ++it) gd = qgcd(gd, *it - *vals.begin());
          CHECK(fr.f == gd, "frequency differs from the gcd of the enumerated value differences: " + nm);
          Q c = closest_to_zero(fr.v0, fr.f);
          Q best = qabs(*vals.begin()); for (std::set<Q>::iterator it = vals.begin(); it != vals.end(); ++it) if (qabs(*it) < best) best = qabs(*it);
          CHECK(qabs(c) <= best, "closest_to_zero is farther from zero than an enumerated value: " + nm);
          if (fr.f != 0) CHECK(is_int((c - *vals.begin()) / fr.f) && qabs(c) * 2 <= fr.f, "closest_to_zero not in the value coset: " + nm);
          else CHECK(c == *vals.begin(), "constant value: " + nm);
        }
      }
    }
  }
  // ---------------- 1-dimensional pool: expand / concatenate / embed / project by direct evaluation
  size_t s1 = std::max<size_t>(1, POOL1.size() / (thorough ? 40 : 16));
  for (size_t i = 0; i < POOL1.size(); i += s1) {
    const Item& A = POOL1[i];
    RGrid ex = expand_dim(A.g, 0, 1), em = add_dims(A.g, 1, true), pj = add_dims(A.g, 1, false);
    bool o1 = true, o2 = true, o3 = true;
    for (long x = -RS; x <= RS; ++x) for (long y = -RS; y <= RS; ++y) {
      bool ax = A.bits[widx(x, 0)], ay = A.bits[widx(y, 0)];
      Vec w = wpoint(2, x, y);
      if (ex.contains_point(w) != (ax && ay)) o1 = false;
      if (em.contains_point(w) != ax) o2 = false;
      if (pj.contains_point(w) != (ax && y == 0)) o3 = false;
    }
    CHECK(o1, "expand differs: " + A.g.str()); CHECK(o2, "embed differs: " + A.g.str()); CHECK(o3, "project differs: " + A.g.str());
    for (size_t j = 0; j < POOL1.size(); j += s1) {
      const Item& Bq = POOL1[j];
      RGrid cc = concatenate(A.g, Bq.g); bool o = true;
      for (long x = -RS; x <= RS; ++x) for (long y = -RS; y <= RS; ++y) if (cc.contains_point(wpoint(2, x, y)) != (A.bits[widx(x, 0)] && Bq.bits[widx(y, 0)])) o = false;
      CHECK(o, "concatenate differs: " + A.g.str() + " x " + Bq.g.str());
    }
  }
  (void)n_gen_items;

  double wall = vf::now_s() - t0;
  if (!FAILMSG.empty()) {
    vf::sink().line(vf::J().str("t", "error").str("msg", "rgrid self-test failed: " + FAILMSG).done());
    return 0;
  }
  std::vector<std::string> samples;
  for (size_t i = 0; i < ALL.size(); i += std::max<size_t>(1, ALL.size() / 3)) samples.push_back(vf::jstr(ALL[i].name + " => " + ALL[i].g.str()));
  vf::J extra; extra.num("distinct_values_dim2", POOL2.size()).num("distinct_values_dim1", POOL1.size()).num("binary_pool", BIN.size());
  vf::J st; st.str("t", "stats").num("states", GRIDS).num("transitions", COMPARISONS).num("traces_validated_against_impl", 0)
    .boolean("exhaustive", true)
    .str("bound", "reference self-test: every menu grid (dim<=2) and operation compared with brute-force enumeration of the points with coordinates in (1/6)Z, |x|<=3")
    .arr("samples", samples).raw("extra", extra.done()).dbl("wall_s", wall);
  vf::sink().line(st.done());
  fprintf(stderr, "[rgrid selftest] grids=%lld comparisons=%lld distinct2=%zu distinct1=%zu in %.2fs\n", GRIDS, COMPARISONS, POOL2.size(), POOL1.size(), wall);
  return 0;
}

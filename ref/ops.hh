// Reference formulas for the documented operators (doc/definitions.dox), on ref::Cell.
// Everything is "build the first-order formula, project, compare".
#ifndef VERIF_REF_OPS_HH
#define VERIF_REF_OPS_HH 1
#include "ref/linsys.hh"

namespace ref {

// A transfer relation over (x, x'): a cell of width 2n; columns 0..n-1 = pre-state x,
// columns n..2n-1 = post-state x'.
inline Cell image(const Cell& P, const Cell& rel) {
  int n = P.n;
  if (is_empty(P) || rel.bot) return Cell::empty(n);
  Cell w = widen(P, 2 * n);
  w.rows.insert(w.rows.end(), rel.rows.begin(), rel.rows.end());
  std::vector<int> el; for (int i = 0; i < n; ++i) el.push_back(i);
  Cell p = project_out(w, el);
  Cell o(n, p.bot);
  for (size_t i = 0; i < p.rows.size(); ++i) o.rows.push_back(Row(Vec(p.rows[i].a.begin() + n, p.rows[i].a.end()), p.rows[i].b, p.rows[i].k));
  return o;
}
inline Cell preimage(const Cell& P, const Cell& rel) {
  int n = P.n;
  if (is_empty(P) || rel.bot) return Cell::empty(n);
  Cell w(2 * n);
  Rows pr = place(P.rows, 2 * n, n);
  w.rows = pr;
  w.rows.insert(w.rows.end(), rel.rows.begin(), rel.rows.end());
  return project_first(w, n);
}

// rows  x'_i = x_i  for every i not in `changed`
inline void frame(Cell& rel, int n, const std::vector<bool>& changed) {
  for (int i = 0; i < n; ++i) if (!changed[i]) {
    Vec a(2 * n, Q(0)); a[i] = -1; a[n + i] = 1;
    rel.rows.push_back(Row(a, Q(0), EQ));
  }
}

// relation symbols: 0 '<', 1 '<=', 2 '=', 3 '>=', 4 '>'
enum Rel { LT = 0, LE_ = 1, EQ_ = 2, GE_ = 3, GT_ = 4 };

// add the row   lhs(x') * dl   rel   rhs(x)   (lhs over post-state, rhs over pre-state)
// written as  s*(lhsvec.x' + l0) - s*(rhs.x + r0)  k 0
inline void add_rel_row(Cell& relc, int n, const Vec& lhs, const Q& l0, int rel, const Vec& rhs, const Q& r0) {
  // lhs rel rhs
  Vec a(2 * n, Q(0));
  int sgn = (rel == LT || rel == LE_) ? -1 : 1;   // for <,<= write rhs - lhs k 0
  for (int i = 0; i < n; ++i) { a[n + i] += sgn * lhs[i]; a[i] -= sgn * rhs[i]; }
  Q b = sgn * (l0 - r0);
  int k = (rel == EQ_) ? EQ : (rel == LT || rel == GT_) ? GT : GE;
  relc.rows.push_back(Row(a, b, k));
}

// x'_k = (e.x + e0)/d
inline Cell rel_affine(int n, int k, const Vec& e, const Q& e0, const Q& d) {
  Cell r(2 * n);
  std::vector<bool> ch(n, false); ch[k] = true;
  frame(r, n, ch);
  Vec lhs(n, Q(0)); lhs[k] = d;
  add_rel_row(r, n, lhs, Q(0), EQ_, e, e0);
  return r;
}
// x'_k  rel  (e.x + e0)/d      (multiplying by d flips the relation when d < 0)
inline Cell rel_generalized_var(int n, int k, int rel, const Vec& e, const Q& e0, const Q& d) {
  Cell r(2 * n);
  std::vector<bool> ch(n, false); ch[k] = true;
  frame(r, n, ch);
  Vec lhs(n, Q(0)); lhs[k] = d;
  int rr = rel;
  if (d < 0) rr = 4 - rel;
  add_rel_row(r, n, lhs, Q(0), rr, e, e0);
  return r;
}
// lhs(x') rel rhs(x), dimensions not occurring in lhs unchanged
inline Cell rel_generalized_lhs(int n, const Vec& lhs, const Q& l0, int rel, const Vec& rhs, const Q& r0) {
  Cell r(2 * n);
  std::vector<bool> ch(n, false);
  for (int i = 0; i < n; ++i) if (lhs[i] != 0) ch[i] = true;
  frame(r, n, ch);
  add_rel_row(r, n, lhs, l0, rel, rhs, r0);
  return r;
}
// lb(x)/d <= x'_k <= ub(x)/d
inline Cell rel_bounded(int n, int k, const Vec& lb, const Q& lb0, const Vec& ub, const Q& ub0, const Q& d) {
  Cell r(2 * n);
  std::vector<bool> ch(n, false); ch[k] = true;
  frame(r, n, ch);
  Vec lhs(n, Q(0)); lhs[k] = d;
  add_rel_row(r, n, lhs, Q(0), d > 0 ? GE_ : LE_, lb, lb0);
  add_rel_row(r, n, lhs, Q(0), d > 0 ? LE_ : GE_, ub, ub0);
  return r;
}

inline Cell unconstrain(const Cell& P, const std::vector<int>& vars) {
  if (is_empty(P)) return Cell::empty(P.n);
  return project_out(P, vars);
}

// remove the dimensions in `rm` (sorted or not); remaining ones keep their order
inline Cell remove_dims(const Cell& P, const std::vector<int>& rm) {
  int n = P.n;
  std::vector<bool> gone(n, false);
  for (size_t i = 0; i < rm.size(); ++i) gone[rm[i]] = true;
  int m = 0; for (int i = 0; i < n; ++i) if (!gone[i]) ++m;
  if (is_empty(P)) return Cell::empty(m);
  Cell p = project_out(P, rm);
  Cell o(m, p.bot);
  for (size_t r = 0; r < p.rows.size(); ++r) {
    Vec a; for (int i = 0; i < n; ++i) if (!gone[i]) a.push_back(p.rows[r].a[i]);
    o.rows.push_back(Row(a, p.rows[r].b, p.rows[r].k));
  }
  return o;
}

// partial injective map: pf[i] = new index or -1
inline Cell map_dims(const Cell& P, const std::vector<int>& pf) {
  int n = P.n, m = 0;
  for (int i = 0; i < n; ++i) if (pf[i] >= 0) m = std::max(m, pf[i] + 1);
  if (is_empty(P)) return Cell::empty(m);
  std::vector<int> rm; for (int i = 0; i < n; ++i) if (pf[i] < 0) rm.push_back(i);
  Cell p = project_out(P, rm);
  Cell o(m, p.bot);
  for (size_t r = 0; r < p.rows.size(); ++r) {
    Vec a(m, Q(0)); for (int i = 0; i < n; ++i) if (pf[i] >= 0) a[pf[i]] = p.rows[r].a[i];
    o.rows.push_back(Row(a, p.rows[r].b, p.rows[r].k));
  }
  return o;
}

inline Cell add_dims_embed(const Cell& P, int m) { return widen(P, P.n + m); }
inline Cell add_dims_project(const Cell& P, int m) {
  Cell o = widen(P, P.n + m);
  if (o.bot) return o;
  for (int i = 0; i < m; ++i) o.rows.push_back(Row(unit(P.n + m, P.n + i), Q(0), EQ));
  return o;
}

inline Cell concatenate(const Cell& P, const Cell& Q_) {
  int n = P.n, m = Q_.n;
  if (P.bot || Q_.bot) return Cell::empty(n + m);
  Cell o = widen(P, n + m);
  Rows q = place(Q_.rows, n + m, n);
  o.rows.insert(o.rows.end(), q.begin(), q.end());
  return o;
}

// expand dimension v into m new copies
inline Cell expand_dim(const Cell& P, int v, int m) {
  int n = P.n;
  Cell o = widen(P, n + m);
  if (o.bot) return o;
  for (int c = 0; c < m; ++c)
    for (size_t r = 0; r < P.rows.size(); ++r) {
      if (P.rows[r].a[v] == 0) continue;
      Vec a = P.rows[r].a; a.resize(n + m, Q(0));
      a[n + c] = a[v]; a[v] = 0;
      o.rows.push_back(Row(a, P.rows[r].b, P.rows[r].k));
    }
  return o;
}

// fold the dimensions `vars` into dest; result = hull of the |vars|+1 renamed projections
inline Cell fold_dims(const Cell& P, const std::vector<int>& vars, int dest, bool nnc) {
  int n = P.n;
  if (vars.empty()) return P;
  Cell acc = remove_dims(P, vars);
  bool first = true; (void)first;
  for (size_t u = 0; u < vars.size(); ++u) {
    // rename vars[u] -> dest (dest projected away), then remove vars
    std::vector<int> e1; e1.push_back(dest);
    Cell p = is_empty(P) ? Cell::empty(n) : project_out(P, e1);
    if (!p.bot) for (size_t r = 0; r < p.rows.size(); ++r) { p.rows[r].a[dest] = p.rows[r].a[vars[u]]; p.rows[r].a[vars[u]] = 0; }
    Cell q = remove_dims(p, vars);
    acc = hull(acc, q, nnc);
  }
  return acc;
}

// {p + y : p in P, y in mu*Q, mu > 0}   (closed when !nnc)
inline Cell positive_time_elapse(const Cell& P, const Cell& Q_, bool nnc) {
  int n = P.n;
  if (is_empty(P) || is_empty(Q_)) return Cell::empty(n);
  // x (n) , y' (n) , mu ;  p = x - y' in P ; y' in mu Q
  int m = 2 * n + 1, mu = 2 * n;
  Cell w(m);
  for (size_t i = 0; i < P.rows.size(); ++i) {
    Vec a(m, Q(0));
    for (int j = 0; j < n; ++j) { a[j] = P.rows[i].a[j]; a[n + j] = -P.rows[i].a[j]; }
    w.rows.push_back(Row(a, P.rows[i].b, P.rows[i].k));
  }
  Rows h = homog(Q_.rows, m, n, mu);
  w.rows.insert(w.rows.end(), h.begin(), h.end());
  w.rows.push_back(Row(unit(m, mu), Q(0), GT));
  Cell r = project_first(w, n);
  if (!nnc) r = closure(r);
  return r;
}
inline Cell time_elapse(const Cell& P, const Cell& Q_, bool nnc) {
  int n = P.n;
  if (is_empty(P) || is_empty(Q_)) return Cell::empty(n);
  Cell pe = positive_time_elapse(P, Q_, nnc);
  return hull(P, pe, nnc);
}

// smallest polyhedron of the topology containing P \ Q
inline Cell poly_difference(const Cell& P, const Cell& Q_, bool nnc) {
  int n = P.n;
  if (is_empty(P)) return Cell::empty(n);
  if (is_empty(Q_)) return nnc ? P : closure(P);
  Cell q = normalized(Q_);
  Cell acc = Cell::empty(n);
  for (size_t i = 0; i < q.rows.size(); ++i) {
    Rows np = neg_pieces(q.rows[i]);
    for (size_t p = 0; p < np.size(); ++p) {
      Cell piece = P; piece.rows.push_back(np[p]);
      if (is_empty(piece)) continue;
      if (!nnc) piece = closure(piece);
      acc = hull(acc, piece, nnc);
    }
  }
  return acc;
}

// is P u Q convex (i.e. equal to its hull in the topology)?
inline bool union_is_convex(const Cell& P, const Cell& Q_, bool nnc) {
  USet u; u.push_back(P); u.push_back(Q_);
  if (!nnc) return subset(hull_closed(P, Q_), u);
  return subset(hull_nnc_cells(P, Q_), u);
}

inline Cell add_generator(const Cell& P, const Gen& g, bool nnc) {
  int n = P.n;
  if (g.t == 'p') {
    Cell pt(n);
    for (int i = 0; i < n; ++i) { Vec a = unit(n, i); pt.rows.push_back(Row(a, -g.v[i], EQ)); }
    return hull(P, pt, nnc);
  }
  if (is_empty(P)) return Cell::empty(n);   // (PPL throws for non-point on empty)
  if (g.t == 'r' || g.t == 'l') {
    // x = y + mu g
    int m = n + 1;
    Cell w(m);
    for (size_t i = 0; i < P.rows.size(); ++i) {
      Vec a(m, Q(0)); Q s = 0;
      for (int j = 0; j < n; ++j) { a[j] = P.rows[i].a[j]; s += P.rows[i].a[j] * g.v[j]; }
      a[n] = -s;
      w.rows.push_back(Row(a, P.rows[i].b, P.rows[i].k));
    }
    if (g.t == 'r') w.rows.push_back(Row(unit(m, n), Q(0), GE));
    return project_first(w, n);
  }
  // closure point c:  { lam y + (1-lam) c : y in P, 0 < lam <= 1 }
  Rows pt;
  for (int i = 0; i < n; ++i) pt.push_back(Row(unit(n, i), -g.v[i], EQ));
  return convex_comb(P.rows, pt, n, true, false);
}

} // namespace ref
#endif

// R.LinSys -- reference semantics for finite conjunctions / unions of linear
// constraints over the rationals, by Fourier-Motzkin elimination.
// Uses GMP (mpq_class) only; shares no code with PPL.  Deliberately naive.
//
// A Row  (a, b, k)  means   a.x + b  k  0   with k in {EQ, GE, GT}.
// A Cell is a conjunction of rows over n variables, or bottom (empty set).
// A USet is a finite union of cells.
#ifndef VERIF_REF_LINSYS_HH
#define VERIF_REF_LINSYS_HH 1

#include <gmpxx.h>
#include <vector>
#include <string>
#include <map>
#include <set>
#include <algorithm>
#include <sstream>
#include <cassert>
#include <cstdlib>

namespace ref {

typedef mpq_class Q;
typedef std::vector<Q> Vec;
enum Kind { EQ = 0, GE = 1, GT = 2 };

struct Row {
  Vec a;
  Q b;
  int k;
  Row() : b(0), k(GE) {}
  Row(const Vec& a_, const Q& b_, int k_) : a(a_), b(b_), k(k_) {}
};

inline bool operator<(const Row& x, const Row& y) {
  if (x.k != y.k) return x.k < y.k;
  if (x.a != y.a) return x.a < y.a;
  return x.b < y.b;
}
inline bool operator==(const Row& x, const Row& y) {
  return x.k == y.k && x.a == y.a && x.b == y.b;
}

typedef std::vector<Row> Rows;

struct Cell {
  int n;
  bool bot;
  Rows rows;
  Cell() : n(0), bot(false) {}
  explicit Cell(int n_, bool bot_ = false) : n(n_), bot(bot_) {}
  static Cell universe(int n) { return Cell(n, false); }
  static Cell empty(int n) { return Cell(n, true); }
  void add(const Row& r) { assert((int)r.a.size() == n); rows.push_back(r); }
};

typedef std::vector<Cell> USet;

inline Vec zeros(int n) { return Vec(n, Q(0)); }
inline Vec unit(int n, int j, const Q& c = Q(1)) { Vec v(n, Q(0)); v[j] = c; return v; }

inline bool is_zero_vec(const Vec& a) {
  for (size_t i = 0; i < a.size(); ++i) if (a[i] != 0) return false;
  return true;
}

inline Q eval(const Row& r, const Vec& x) {
  Q v = r.b;
  for (size_t i = 0; i < r.a.size(); ++i) if (r.a[i] != 0) v += r.a[i] * x[i];
  return v;
}
inline bool sat(const Row& r, const Vec& x) {
  Q v = eval(r, x);
  return r.k == EQ ? v == 0 : r.k == GE ? v >= 0 : v > 0;
}
inline bool member(const Cell& c, const Vec& x) {
  if (c.bot) return false;
  for (size_t i = 0; i < c.rows.size(); ++i) if (!sat(c.rows[i], x)) return false;
  return true;
}
inline bool member(const USet& u, const Vec& x) {
  for (size_t i = 0; i < u.size(); ++i) if (member(u[i], x)) return true;
  return false;
}

// 1 tautology, 0 contradiction, -1 non-trivial
inline int trivial(const Row& r) {
  if (!is_zero_vec(r.a)) return -1;
  if (r.k == EQ) return r.b == 0;
  if (r.k == GE) return r.b >= 0;
  return r.b > 0;
}

inline Row norm(const Row& r) {
  Q lead = 0;
  for (size_t i = 0; i < r.a.size(); ++i) if (r.a[i] != 0) { lead = r.a[i]; break; }
  if (lead == 0) return r;
  Q s = (r.k == EQ) ? lead : abs(lead);
  Row o; o.k = r.k; o.b = r.b / s; o.a.resize(r.a.size());
  for (size_t i = 0; i < r.a.size(); ++i) o.a[i] = r.a[i] / s;
  return o;
}

// Drop tautologies, detect trivial contradiction (returns false), merge parallel rows.
inline bool simplify(Rows& rows) {
  std::map<Vec, std::pair<Q, int> > ineq;
  std::vector<Vec> order;
  Rows eqs;
  for (size_t i = 0; i < rows.size(); ++i) {
    int t = trivial(rows[i]);
    if (t == 1) continue;
    if (t == 0) return false;
    Row r = norm(rows[i]);
    if (r.k == EQ) {
      bool dup = false;
      for (size_t j = 0; j < eqs.size(); ++j) if (eqs[j] == r) { dup = true; break; }
      if (!dup) eqs.push_back(r);
      continue;
    }
    std::map<Vec, std::pair<Q, int> >::iterator it = ineq.find(r.a);
    if (it == ineq.end()) { ineq[r.a] = std::make_pair(r.b, r.k); order.push_back(r.a); }
    else if (r.b < it->second.first || (r.b == it->second.first && r.k == GT))
      it->second = std::make_pair(r.b, r.k);
  }
  Rows out = eqs;
  for (size_t i = 0; i < order.size(); ++i) {
    const std::pair<Q, int>& p = ineq[order[i]];
    out.push_back(Row(order[i], p.first, p.second));
  }
  rows.swap(out);
  return true;
}

// exists x_j . rows ; false if found inconsistent
inline bool eliminate(Rows& rows, int j) {
  if (!simplify(rows)) return false;
  for (size_t e = 0; e < rows.size(); ++e) {
    if (rows[e].k == EQ && rows[e].a[j] != 0) {
      Row eq = rows[e];
      Rows res;
      for (size_t i = 0; i < rows.size(); ++i) {
        if (i == e) continue;
        const Row& r = rows[i];
        if (r.a[j] == 0) { res.push_back(r); continue; }
        Q f = r.a[j] / eq.a[j];
        Row o; o.k = r.k; o.b = r.b - f * eq.b; o.a.resize(r.a.size());
        for (size_t c = 0; c < r.a.size(); ++c) o.a[c] = r.a[c] - f * eq.a[c];
        o.a[j] = 0;
        res.push_back(o);
      }
      rows.swap(res);
      return simplify(rows);
    }
  }
  Rows pos, neg, res;
  for (size_t i = 0; i < rows.size(); ++i) {
    const Q& c = rows[i].a[j];
    if (c > 0) pos.push_back(rows[i]);
    else if (c < 0) neg.push_back(rows[i]);
    else res.push_back(rows[i]);
  }
  for (size_t p = 0; p < pos.size(); ++p)
    for (size_t q = 0; q < neg.size(); ++q) {
      Q fp = 1 / pos[p].a[j], fn = -1 / neg[q].a[j];
      Row o; o.a.resize(pos[p].a.size());
      for (size_t c = 0; c < o.a.size(); ++c) o.a[c] = fp * pos[p].a[c] + fn * neg[q].a[c];
      o.a[j] = 0;
      o.b = fp * pos[p].b + fn * neg[q].b;
      o.k = (pos[p].k == GT || neg[q].k == GT) ? GT : GE;
      res.push_back(o);
    }
  rows.swap(res);
  return simplify(rows);
}

inline bool rows_empty(Rows rows, int n);
inline bool rows_implies(const Rows& rows, const Row& row, int n);

// remove rows implied by the others (keeps order)
inline bool prune_rows(Rows& rows, int n) {
  if (!simplify(rows)) return false;
  size_t i = 0;
  while (i < rows.size()) {
    Rows rest;
    for (size_t j = 0; j < rows.size(); ++j) if (j != i) rest.push_back(rows[j]);
    if (rows_implies(rest, rows[i], n)) rows.swap(rest); else ++i;
  }
  return true;
}

// ---- exact rational simplex (Bland's rule) for emptiness of mixed strict / non-strict systems.
// Decides   exists x:  eq rows = 0, ge rows >= 0, gt rows > 0   by maximising t subject to
// gt rows >= t, t <= 1 over x = u - v, u, v, t >= 0.  Used when Fourier-Motzkin would blow up.
struct Simplex {
  int m, ncol;                 // rows, structural+slack+artificial columns (rhs kept separately)
  std::vector<Vec> T;          // m x ncol
  Vec rhs;                     // m
  std::vector<int> basis;      // basic column per row
  std::vector<bool> artificial;
  void pivot(int r, int c) {
    Q f = T[r][c];
    for (int j = 0; j < ncol; ++j) if (T[r][j] != 0) T[r][j] /= f;
    rhs[r] /= f;
    for (int i = 0; i < m; ++i) if (i != r && T[i][c] != 0) {
      Q g = T[i][c];
      for (int j = 0; j < ncol; ++j) if (T[r][j] != 0) T[i][j] -= g * T[r][j];
      rhs[i] -= g * rhs[r];
    }
    basis[r] = c;
  }
  // maximise cost.z ; returns 0 optimal, 1 unbounded.  stop_col >= 0: stop as soon as that column is basic with positive value
  int run(const Vec& cost, const std::vector<bool>& allowed, int stop_col) {
    for (;;) {
      if (stop_col >= 0) for (int i = 0; i < m; ++i) if (basis[i] == stop_col && rhs[i] > 0) return 0;
      // reduced costs: c_j - c_B B^-1 A_j
      int enter = -1;
      for (int j = 0; j < ncol && enter < 0; ++j) {
        if (!allowed[j]) continue;
        bool basic = false; for (int i = 0; i < m; ++i) if (basis[i] == j) { basic = true; break; }
        if (basic) continue;
        Q rc = cost[j];
        for (int i = 0; i < m; ++i) if (T[i][j] != 0 && cost[basis[i]] != 0) rc -= cost[basis[i]] * T[i][j];
        if (rc > 0) enter = j;
      }
      if (enter < 0) return 0;
      int leave = -1; Q best;
      for (int i = 0; i < m; ++i) if (T[i][enter] > 0) {
        Q ratio = rhs[i] / T[i][enter];
        if (leave < 0 || ratio < best || (ratio == best && basis[i] < basis[leave])) { leave = i; best = ratio; }
      }
      if (leave < 0) return 1;
      pivot(leave, enter);
    }
  }
};

inline bool rows_empty_simplex(const Rows& rows, int n) {
  int m = (int)rows.size() + 1;
  int nstrict = 0;
  for (size_t i = 0; i < rows.size(); ++i) if (rows[i].k == GT) ++nstrict;
  // columns: u (n), v (n), t, slacks (one per inequality row + one for t <= 1), artificials (m)
  int nslack = 0; for (size_t i = 0; i < rows.size(); ++i) if (rows[i].k != EQ) ++nslack;
  ++nslack;
  int tcol = 2 * n, s0 = 2 * n + 1, a0 = s0 + nslack;
  Simplex S; S.m = m; S.ncol = a0 + m;
  S.T.assign(m, Vec(S.ncol, Q(0))); S.rhs.assign(m, Q(0)); S.basis.assign(m, -1);
  int sl = 0;
  for (int i = 0; i < m; ++i) {
    Vec& t = S.T[i];
    if (i < (int)rows.size()) {
      const Row& r = rows[i];
      // a.(u-v) + b [- t] - slack = 0   <=>  a.u - a.v - t - slack = -b
      for (int j = 0; j < n; ++j) { t[j] = r.a[j]; t[n + j] = -r.a[j]; }
      if (r.k == GT) t[tcol] = -1;
      if (r.k != EQ) { t[s0 + sl] = -1; ++sl; }
      S.rhs[i] = -r.b;
    } else { t[tcol] = 1; t[s0 + sl] = 1; ++sl; S.rhs[i] = 1; }
    if (S.rhs[i] < 0) { for (int j = 0; j < a0; ++j) t[j] = -t[j]; S.rhs[i] = -S.rhs[i]; }
    t[a0 + i] = 1; S.basis[i] = a0 + i;
  }
  // phase 1: maximise -(sum of artificials)
  Vec cost(S.ncol, Q(0)); for (int i = 0; i < m; ++i) cost[a0 + i] = -1;
  std::vector<bool> allowed(S.ncol, true);
  S.run(cost, allowed, -1);
  for (int i = 0; i < m; ++i) if (S.basis[i] >= a0 && S.rhs[i] != 0) return true;   // infeasible
  if (nstrict == 0) return false;
  // drive artificials out of the basis
  for (int i = 0; i < S.m; ++i) if (S.basis[i] >= a0) {
    int c = -1; for (int j = 0; j < a0; ++j) if (S.T[i][j] != 0) { c = j; break; }
    if (c >= 0) S.pivot(i, c);
    else { S.T.erase(S.T.begin() + i); S.rhs.erase(S.rhs.begin() + i); S.basis.erase(S.basis.begin() + i); --S.m; --i; }
  }
  for (int j = a0; j < S.ncol; ++j) allowed[j] = false;
  Vec c2(S.ncol, Q(0)); c2[tcol] = 1;
  int st = S.run(c2, allowed, tcol);
  if (st == 1) return false;
  for (int i = 0; i < S.m; ++i) if (S.basis[i] == tcol && S.rhs[i] > 0) return false;
  return true;
}

inline bool rows_empty_fm(Rows rows, int n) {
  if (!simplify(rows)) return true;
  for (;;) {
    int best = -1; long bestcost = 0;
    for (int j = 0; j < n; ++j) {
      long pos = 0, neg = 0, eq = 0, any = 0;
      for (size_t i = 0; i < rows.size(); ++i) {
        int s = sgn(rows[i].a[j]);
        if (s == 0) continue;
        ++any;
        if (rows[i].k == EQ) ++eq; else if (s > 0) ++pos; else ++neg;
      }
      if (!any) continue;
      long cost = eq ? -1000 + any : pos * neg - pos - neg;
      if (best < 0 || cost < bestcost) { best = j; bestcost = cost; }
    }
    if (best < 0) break;
    if (!eliminate(rows, best)) return true;
    if (rows.size() > 40) return rows_empty_simplex(rows, n);
  }
  return !simplify(rows);
}

inline bool rows_empty(Rows rows, int n) {
  // Fourier-Motzkin on tiny systems, exact simplex otherwise (cross-validated in the self-test)
  if (!simplify(rows)) return true;
  int live = 0;
  for (int j = 0; j < n; ++j) for (size_t i = 0; i < rows.size(); ++i) if (rows[i].a[j] != 0) { ++live; break; }
  if (live <= 2 || rows.size() <= 5) return rows_empty_fm(rows, n);
  return rows_empty_simplex(rows, n);
}

inline Rows neg_pieces(const Row& r) {
  Rows out;
  Vec na(r.a.size());
  for (size_t i = 0; i < r.a.size(); ++i) na[i] = -r.a[i];
  if (r.k == GE) out.push_back(Row(na, -r.b, GT));
  else if (r.k == GT) out.push_back(Row(na, -r.b, GE));
  else { out.push_back(Row(r.a, r.b, GT)); out.push_back(Row(na, -r.b, GT)); }
  return out;
}

inline bool rows_implies(const Rows& rows, const Row& row, int n) {
  Rows np = neg_pieces(row);
  for (size_t i = 0; i < np.size(); ++i) {
    Rows t = rows; t.push_back(np[i]);
    if (!rows_empty(t, n)) return false;
  }
  return true;
}

inline bool is_empty(const Cell& c) { return c.bot || rows_empty(c.rows, c.n); }

inline bool implies(const Cell& c, const Row& r) { return c.bot || rows_implies(c.rows, r, c.n); }

inline Cell normalized(Cell c) {  // empty -> bot, rows pruned
  if (c.bot) { c.rows.clear(); return c; }
  if (rows_empty(c.rows, c.n)) { c.bot = true; c.rows.clear(); return c; }
  prune_rows(c.rows, c.n);
  return c;
}

// Eliminate the listed variables (columns stay, zeroed).  Result normalized.
inline Cell project_out(Cell c, const std::vector<int>& elim) {
  if (c.bot) return c;
  for (size_t e = 0; e < elim.size(); ++e) {
    if (!eliminate(c.rows, elim[e])) { c.bot = true; c.rows.clear(); return c; }
    if (c.rows.size() > 6) {
      if (rows_empty(c.rows, c.n)) { c.bot = true; c.rows.clear(); return c; }
      prune_rows(c.rows, c.n);
    }
  }
  return normalized(c);
}

// keep only the first m columns (the others must have been eliminated)
inline Cell truncate(const Cell& c, int m) {
  Cell o(m, c.bot);
  for (size_t i = 0; i < c.rows.size(); ++i) {
    for (int j = m; j < c.n; ++j) assert(c.rows[i].a[j] == 0);
    o.rows.push_back(Row(Vec(c.rows[i].a.begin(), c.rows[i].a.begin() + m), c.rows[i].b, c.rows[i].k));
  }
  return o;
}

// project on first m variables
inline Cell project_first(const Cell& c, int m) {
  std::vector<int> el;
  for (int j = m; j < c.n; ++j) el.push_back(j);
  return truncate(project_out(c, el), m);
}

inline Cell meet(const Cell& a, const Cell& b) {
  assert(a.n == b.n);
  if (a.bot || b.bot) return Cell::empty(a.n);
  Cell c = a;
  c.rows.insert(c.rows.end(), b.rows.begin(), b.rows.end());
  return c;
}

inline bool subset(const Cell& s, const Cell& t) {
  if (is_empty(s)) return true;
  if (t.bot) return false;
  for (size_t i = 0; i < t.rows.size(); ++i) if (!rows_implies(s.rows, t.rows[i], s.n)) return false;
  return true;
}
inline bool equal(const Cell& s, const Cell& t) { return subset(s, t) && subset(t, s); }

// S subseteq union of ts[from..]
inline bool subset_union_rows(const Rows& s, int n, const USet& ts, size_t from) {
  if (rows_empty(s, n)) return true;
  while (from < ts.size() && ts[from].bot) ++from;
  if (from >= ts.size()) return false;
  const Cell& t = ts[from];
  Rows acc = s;
  for (size_t i = 0; i < t.rows.size(); ++i) {
    Rows np = neg_pieces(t.rows[i]);
    for (size_t p = 0; p < np.size(); ++p) {
      Rows piece = acc; piece.push_back(np[p]);
      if (!subset_union_rows(piece, n, ts, from + 1)) return false;
    }
    acc.push_back(t.rows[i]);
  }
  return true;
}
inline bool subset(const Cell& s, const USet& ts) {
  if (s.bot) return true;
  return subset_union_rows(s.rows, s.n, ts, 0);
}
inline bool subset(const USet& a, const USet& b) {
  for (size_t i = 0; i < a.size(); ++i) if (!subset(a[i], b)) return false;
  return true;
}
inline bool equal(const USet& a, const USet& b) { return subset(a, b) && subset(b, a); }
inline bool is_empty(const USet& u) {
  for (size_t i = 0; i < u.size(); ++i) if (!is_empty(u[i])) return false;
  return true;
}

inline Cell closure(Cell c) {
  // only valid on non-empty cells; empty -> bot
  if (is_empty(c)) return Cell::empty(c.n);
  for (size_t i = 0; i < c.rows.size(); ++i) if (c.rows[i].k == GT) c.rows[i].k = GE;
  return c;
}

// A rational point of a non-empty cell (back-substitution through FM).  Returns false if empty.
inline bool find_point(const Cell& c, Vec& x) {
  if (c.bot) return false;
  int n = c.n;
  std::vector<Rows> sys(n + 1);
  sys[0] = c.rows;
  if (!simplify(sys[0])) return false;
  for (int j = 0; j < n; ++j) {
    sys[j + 1] = sys[j];
    if (!eliminate(sys[j + 1], j)) return false;
  }
  x.assign(n, Q(0));
  for (int j = n - 1; j >= 0; --j) {
    bool haveL = false, haveU = false, Ls = false, Us = false, haveE = false;
    Q L, U, E;
    for (size_t i = 0; i < sys[j].size(); ++i) {
      const Row& r = sys[j][i];
      if (r.a[j] == 0) continue;
      Q rest = r.b;
      for (int c2 = j + 1; c2 < n; ++c2) rest += r.a[c2] * x[c2];
      Q v = -rest / r.a[j];
      if (r.k == EQ) { haveE = true; E = v; }
      else if (r.a[j] > 0) { // x_j >= v (or >)
        if (!haveL || v > L || (v == L && r.k == GT)) { haveL = true; L = v; Ls = (r.k == GT); }
      } else {
        if (!haveU || v < U || (v == U && r.k == GT)) { haveU = true; U = v; Us = (r.k == GT); }
      }
    }
    if (haveE) x[j] = E;
    else if (!haveL && !haveU) x[j] = 0;
    else if (haveL && !haveU) x[j] = (Ls ? Q(L + 1) : L);
    else if (!haveL && haveU) x[j] = (Us ? Q(U - 1) : U);
    else if (L < U) {
      if (!Ls) x[j] = L; else if (!Us) x[j] = U; else x[j] = (L + U) / 2;
    }
    else x[j] = L;
    (void)Ls; (void)Us;
  }
  return member(c, x);
}

// A point in s but in none of ts (witness of non-inclusion).  false if s subseteq U ts.
inline bool find_point_outside(const Rows& s, int n, const USet& ts, size_t from, Vec& x) {
  if (rows_empty(s, n)) return false;
  while (from < ts.size() && ts[from].bot) ++from;
  if (from >= ts.size()) { Cell c(n); c.rows = s; return find_point(c, x); }
  const Cell& t = ts[from];
  Rows acc = s;
  for (size_t i = 0; i < t.rows.size(); ++i) {
    Rows np = neg_pieces(t.rows[i]);
    for (size_t p = 0; p < np.size(); ++p) {
      Rows piece = acc; piece.push_back(np[p]);
      if (find_point_outside(piece, n, ts, from + 1, x)) return true;
    }
    acc.push_back(t.rows[i]);
  }
  return false;
}
inline bool find_point_outside(const Cell& s, const USet& ts, Vec& x) {
  if (s.bot) return false;
  return find_point_outside(s.rows, s.n, ts, 0, x);
}
inline bool find_point_outside(const Cell& s, const Cell& t, Vec& x) {
  USet u; u.push_back(t);
  return find_point_outside(s, u, x);
}

// sup of e.x + e0 over cell.  Returns: 0 empty, 1 bounded (value, attained), 2 unbounded
struct Sup { int status; Q value; bool attained; };
inline Sup sup(const Cell& c, const Vec& e, const Q& e0) {
  Sup r; r.status = 0; r.value = 0; r.attained = false;
  if (is_empty(c)) return r;
  int n = c.n;
  // variables: x (n), t ; t = e.x + e0 ; project on t
  Cell w(n + 1);
  for (size_t i = 0; i < c.rows.size(); ++i) {
    Vec a = c.rows[i].a; a.push_back(Q(0));
    w.rows.push_back(Row(a, c.rows[i].b, c.rows[i].k));
  }
  Vec a(n + 1);
  for (int i = 0; i < n; ++i) a[i] = e[i];
  a[n] = -1;
  w.rows.push_back(Row(a, e0, EQ));
  std::vector<int> el; for (int i = 0; i < n; ++i) el.push_back(i);
  Cell p = project_out(w, el);
  assert(!p.bot);
  bool have = false;
  for (size_t i = 0; i < p.rows.size(); ++i) {
    const Row& rr = p.rows[i];
    if (rr.a[n] == 0) continue;
    Q v = -rr.b / rr.a[n];
    if (rr.k == EQ) { r.status = 1; r.value = v; r.attained = true; return r; }
    if (rr.a[n] < 0) { // t <= v
      if (!have || v < r.value || (v == r.value && rr.k == GT)) { have = true; r.value = v; r.attained = (rr.k != GT); }
    }
  }
  r.status = have ? 1 : 2;
  return r;
}
inline Sup inf(const Cell& c, const Vec& e, const Q& e0) {
  Vec ne(e.size()); for (size_t i = 0; i < e.size(); ++i) ne[i] = -e[i];
  Sup s = sup(c, ne, -e0);
  s.value = -s.value;
  return s;
}

// implied equalities: affine dimension of a non-empty cell; -1 if empty... (returns dim)
inline int affine_dimension(const Cell& c) {
  if (is_empty(c)) return -1; // caller maps to 0 per PPL convention
  // The affine hull is cut out by the implied equalities; count independent ones by
  // Gaussian elimination over candidate rows: each row r (as equality) is implied iff
  // cell implies r == 0.
  int n = c.n;
  std::vector<Vec> basis; // independent implied equalities (augmented with b)
  Cell cc = normalized(c);
  for (size_t i = 0; i < cc.rows.size(); ++i) {
    Row r = cc.rows[i]; r.k = EQ;
    if (!rows_implies(cc.rows, r, n)) continue;
    Vec v = r.a; v.push_back(r.b);
    // reduce against basis
    for (size_t bi = 0; bi < basis.size(); ++bi) {
      int lead = -1; for (int j = 0; j <= n; ++j) if (basis[bi][j] != 0) { lead = j; break; }
      if (lead >= 0 && v[lead] != 0) { Q f = v[lead] / basis[bi][lead]; for (int j = 0; j <= n; ++j) v[j] -= f * basis[bi][j]; }
    }
    bool nz = false; for (int j = 0; j < n; ++j) if (v[j] != 0) nz = true;
    if (nz) basis.push_back(v);
  }
  return n - (int)basis.size();
}

// ---------- building blocks for operator formulas ----------

// embed cell of width n into width m (append zero columns)
inline Cell widen(const Cell& c, int m) {
  Cell o(m, c.bot);
  for (size_t i = 0; i < c.rows.size(); ++i) {
    Vec a = c.rows[i].a; a.resize(m, Q(0));
    o.rows.push_back(Row(a, c.rows[i].b, c.rows[i].k));
  }
  return o;
}
// cell of width n placed at columns off..off+n-1 of width m
inline Rows place(const Rows& rows, int m, int off) {
  Rows o;
  for (size_t i = 0; i < rows.size(); ++i) {
    Vec a(m, Q(0));
    for (size_t j = 0; j < rows[i].a.size(); ++j) a[off + j] = rows[i].a[j];
    o.push_back(Row(a, rows[i].b, rows[i].k));
  }
  return o;
}
// rows A y + b k 0 rewritten for y' = lam*y:  A y' + b*lam k 0 ; y' at off, lam column index
inline Rows homog(const Rows& rows, int m, int off, int lam) {
  Rows o;
  for (size_t i = 0; i < rows.size(); ++i) {
    Vec a(m, Q(0));
    for (size_t j = 0; j < rows[i].a.size(); ++j) a[off + j] = rows[i].a[j];
    a[lam] += rows[i].b;
    o.push_back(Row(a, Q(0), rows[i].k));
  }
  return o;
}
inline Rows closed_rows(const Rows& r) {
  Rows o = r;
  for (size_t i = 0; i < o.size(); ++i) if (o[i].k == GT) o[i].k = GE;
  return o;
}
inline Rows rec_cone_rows(const Rows& r) { // recession cone of the closure
  Rows o = r;
  for (size_t i = 0; i < o.size(); ++i) { o[i].b = 0; if (o[i].k == GT) o[i].k = GE; }
  return o;
}

// { lam*y + (1-lam)*z : y in Pr, z in Qr, lam in I } where rows of P keep their kinds,
// I = (0,1], [0,1), [0,1], (0,1) chosen by lo_strict / hi_strict.
// x = y' + z' with y' = lam y, z' = (1-lam) z.
inline Cell convex_comb(const Rows& Pr, const Rows& Qr, int n, bool lo_strict, bool hi_strict) {
  int m = 2 * n + 1, lam = 2 * n;
  Cell w(m);
  // y' at n..2n-1
  Rows hp = homog(Pr, m, n, lam);
  w.rows.insert(w.rows.end(), hp.begin(), hp.end());
  // z' = x - y' :  C z' + d (1 - lam) k 0
  for (size_t i = 0; i < Qr.size(); ++i) {
    Vec a(m, Q(0));
    for (int j = 0; j < n; ++j) { a[j] += Qr[i].a[j]; a[n + j] -= Qr[i].a[j]; }
    a[lam] -= Qr[i].b;
    w.rows.push_back(Row(a, Qr[i].b, Qr[i].k));
  }
  w.rows.push_back(Row(unit(m, lam), Q(0), lo_strict ? GT : GE));
  w.rows.push_back(Row(unit(m, lam, Q(-1)), Q(1), hi_strict ? GT : GE));
  return project_first(w, n);
}

// smallest closed polyhedron containing P u Q (P, Q arbitrary cells; closures are used)
inline Cell hull_closed(const Cell& P, const Cell& Q_) {
  bool pe = is_empty(P), qe = is_empty(Q_);
  if (pe && qe) return Cell::empty(P.n);
  if (pe) return closure(Q_);
  if (qe) return closure(P);
  return convex_comb(closed_rows(P.rows), closed_rows(Q_.rows), P.n, false, false);
}

// smallest NNC polyhedron containing P u Q, as a union of (up to) two convex cells
inline USet hull_nnc_cells(const Cell& P, const Cell& Q_) {
  USet out;
  bool pe = is_empty(P), qe = is_empty(Q_);
  if (pe && qe) return out;
  if (pe) { out.push_back(Q_); return out; }
  if (qe) { out.push_back(P); return out; }
  // lam in (0,1], y in P (own strictness), z in cl Q (lam = 1 gives P + rec(cl Q))
  out.push_back(convex_comb(P.rows, closed_rows(Q_.rows), P.n, true, false));
  // lam in [0,1), y in cl P, z in Q
  out.push_back(convex_comb(closed_rows(P.rows), Q_.rows, P.n, false, true));
  return out;
}

// Turn a union of cells known to denote an NNC polyhedron H into a single cell.
// rows(cl H) + a strict row for every face of cl H that misses the union.
inline Cell convexify(const USet& u, int n) {
  Cell cl = Cell::empty(n);
  bool any = false;
  for (size_t i = 0; i < u.size(); ++i) {
    if (is_empty(u[i])) continue;
    if (!any) { cl = closure(u[i]); any = true; }
    else cl = hull_closed(cl, u[i]);
  }
  if (!any) return Cell::empty(n);
  cl = normalized(cl);
  // split equalities away: faces are subsets of the inequality rows
  std::vector<int> ineq;
  for (size_t i = 0; i < cl.rows.size(); ++i) if (cl.rows[i].k != EQ) ineq.push_back((int)i);
  Cell out = cl;
  size_t k = ineq.size();
  assert(k <= 16);
  std::vector<unsigned> excluded; // masks already excluded (supersets are then excluded too)
  // enumerate by increasing popcount so that minimal excluded faces are found first
  std::vector<unsigned> masks;
  for (unsigned m = 1; m < (1u << k); ++m) masks.push_back(m);
  std::sort(masks.begin(), masks.end(), [](unsigned a, unsigned b) {
    int pa = __builtin_popcount(a), pb = __builtin_popcount(b);
    return pa != pb ? pa < pb : a < b; });
  for (size_t mi = 0; mi < masks.size(); ++mi) {
    unsigned m = masks[mi];
    bool covered = false;
    for (size_t e = 0; e < excluded.size(); ++e) if ((m & excluded[e]) == excluded[e]) { covered = true; break; }
    if (covered) continue;
    Cell face = cl;
    Vec sa(n, Q(0)); Q sb = 0;
    for (size_t b = 0; b < k; ++b) if (m & (1u << b)) {
      face.rows[ineq[b]].k = EQ;
      for (int j = 0; j < n; ++j) sa[j] += cl.rows[ineq[b]].a[j];
      sb += cl.rows[ineq[b]].b;
    }
    if (is_empty(face)) continue;   // not a face at all
    bool hits = false;
    for (size_t i = 0; i < u.size() && !hits; ++i) if (!is_empty(meet(face, u[i]))) hits = true;
    if (!hits) { out.rows.push_back(Row(sa, sb, GT)); excluded.push_back(m); }
  }
  return normalized(out);
}

inline Cell hull(const Cell& P, const Cell& Q_, bool nnc) {
  if (!nnc) return hull_closed(P, Q_);
  return convexify(hull_nnc_cells(P, Q_), P.n);
}

// Generators: type 'p' point, 'c' closure point, 'r' ray, 'l' line; coords rational
struct Gen { char t; Vec v; Gen() : t('p') {} Gen(char t_, const Vec& v_) : t(t_), v(v_) {} };
typedef std::vector<Gen> Gens;

inline Cell from_gens(const Gens& gens, int n, bool nnc) {
  bool has_point = false;
  for (size_t i = 0; i < gens.size(); ++i) if (gens[i].t == 'p') has_point = true;
  if (!has_point) return Cell::empty(n);
  int g = (int)gens.size(), m = n + g;
  Cell w(m);
  for (int i = 0; i < n; ++i) {
    Vec a(m, Q(0)); a[i] = 1;
    for (int j = 0; j < g; ++j) a[n + j] -= gens[j].v[i];
    w.rows.push_back(Row(a, Q(0), EQ));
  }
  Vec a(m, Q(0));
  for (int j = 0; j < g; ++j) if (gens[j].t == 'p' || gens[j].t == 'c') a[n + j] = 1;
  w.rows.push_back(Row(a, Q(-1), EQ));
  for (int j = 0; j < g; ++j) if (gens[j].t != 'l') w.rows.push_back(Row(unit(m, n + j), Q(0), GE));
  if (nnc) {
    Vec s(m, Q(0));
    for (int j = 0; j < g; ++j) if (gens[j].t == 'p') s[n + j] = 1;
    w.rows.push_back(Row(s, Q(0), GT));
  }
  return project_first(w, n);
}

// ---------- canonical text (for hashing value classes of *closed* cells) ----------
inline std::string row_str(const Row& r) {
  std::ostringstream s;
  for (size_t i = 0; i < r.a.size(); ++i) s << r.a[i] << ",";
  s << r.b << (r.k == EQ ? "=" : r.k == GE ? ">=" : ">");
  return s.str();
}
inline std::string cell_str(const Cell& c) {
  if (c.bot) return "bot/" + std::to_string(c.n);
  std::string s = "{";
  for (size_t i = 0; i < c.rows.size(); ++i) { s += row_str(c.rows[i]); s += ";"; }
  return s + "}/" + std::to_string(c.n);
}
inline std::string vec_str(const Vec& v) {
  std::ostringstream s; s << "(";
  for (size_t i = 0; i < v.size(); ++i) { if (i) s << ","; s << v[i]; }
  s << ")"; return s.str();
}

// Canonical form of a closed cell: reduced echelon equalities, inequalities reduced modulo
// them, normalized, irredundant, sorted.  Unique for closed polyhedra.
inline std::string canon_closed(const Cell& c0) {
  Cell c = normalized(c0);
  if (c.bot) return "bot/" + std::to_string(c.n);
  int n = c.n;
  // implied equalities
  std::vector<Vec> eqs;
  Rows ineq;
  for (size_t i = 0; i < c.rows.size(); ++i) {
    Row r = c.rows[i];
    Row re = r; re.k = EQ;
    if (r.k == EQ || rows_implies(c.rows, re, n)) { Vec v = r.a; v.push_back(r.b); eqs.push_back(v); }
    else ineq.push_back(r);
  }
  // reduced row echelon form
  std::vector<Vec> ech; std::vector<int> lead;
  for (size_t i = 0; i < eqs.size(); ++i) {
    Vec v = eqs[i];
    for (size_t e = 0; e < ech.size(); ++e) if (v[lead[e]] != 0) { Q f = v[lead[e]]; for (int j = 0; j <= n; ++j) v[j] -= f * ech[e][j]; }
    int l = -1; for (int j = 0; j < n; ++j) if (v[j] != 0) { l = j; break; }
    if (l < 0) continue;
    Q f = v[l]; for (int j = 0; j <= n; ++j) v[j] /= f;
    for (size_t e = 0; e < ech.size(); ++e) if (ech[e][l] != 0) { Q g = ech[e][l]; for (int j = 0; j <= n; ++j) ech[e][j] -= g * v[j]; }
    ech.push_back(v); lead.push_back(l);
  }
  std::vector<std::string> parts;
  for (size_t e = 0; e < ech.size(); ++e) {
    Row r(Vec(ech[e].begin(), ech[e].begin() + n), ech[e][n], EQ);
    parts.push_back(row_str(r));
  }
  Rows red;
  for (size_t i = 0; i < ineq.size(); ++i) {
    Row r = ineq[i];
    for (size_t e = 0; e < ech.size(); ++e) if (r.a[lead[e]] != 0) {
      Q f = r.a[lead[e]];
      for (int j = 0; j < n; ++j) r.a[j] -= f * ech[e][j];
      r.b -= f * ech[e][n];
    }
    red.push_back(norm(r));
  }
  // irredundant modulo equalities: dedupe + prune among themselves given eqs
  Rows all;
  for (size_t e = 0; e < ech.size(); ++e) all.push_back(Row(Vec(ech[e].begin(), ech[e].begin() + n), ech[e][n], EQ));
  all.insert(all.end(), red.begin(), red.end());
  prune_rows(all, n);
  parts.clear();
  for (size_t i = 0; i < all.size(); ++i) parts.push_back(row_str(norm(all[i])));
  std::sort(parts.begin(), parts.end());
  std::string s;
  for (size_t i = 0; i < parts.size(); ++i) { s += parts[i]; s += ";"; }
  return s + "/" + std::to_string(n);
}

} // namespace ref
#endif

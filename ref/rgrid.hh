// R.Grid -- reference semantics for rational grids (affine lattices with lines).  GMP only, no PPL code.
//
// A grid in Q^n is either empty or
//     G = p + { sum z_i b_i : z_i integer } + span_Q(l_1..l_k)
// kept in a canonical form, so that equality of grids is syntactic equality of (p, B, L):
//   * L  : reduced row echelon form (leading 1, zeros above and below each pivot);
//   * B  : parameters with zero entries in the pivot columns of L, in row Hermite normal form
//          (row echelon, positive pivots, entries above a pivot in [0, pivot));  HNF(k*M) = k*HNF(M), so the
//          rational HNF is well defined;
//   * p  : zero in the pivot columns of L, entry in the pivot column of b_i in [0, pivot_i).
// Congruences are  a.x + b = 0 (mod m), m >= 0 rational, m == 0 meaning equality.
//
// Everything PPL documents for grids (doc/definitions.dox "Rational Grids", src/Grid_defs.hh) is expressed here
// on this form with deliberately naive algorithms: generators -> canonical form by Gaussian elimination and
// Euclid on rows; congruence intersection one congruence at a time (a line not orthogonal to the congruence
// absorbs it, otherwise a linear congruence over the parameter lattice is solved by extended gcd); the
// congruence description is derived by a dual-basis computation; relational images are computed in the
// doubled space (v, w).  Internal consistency is asserted (RG_ASSERT) and cross-checked against brute-force
// window enumeration by ref/rgrid_selftest.cc.
#ifndef VERIF_REF_RGRID_HH
#define VERIF_REF_RGRID_HH 1

#include <gmpxx.h>
#include <vector>
#include <string>
#include <sstream>
#include <algorithm>
#include <cstdio>
#include <cstdlib>

namespace rg {

typedef mpq_class Q;
typedef mpz_class Z;
typedef std::vector<Q> Vec;
typedef std::vector<Vec> Mat;

inline void fail(const char* what, const char* file, int line) {
  fprintf(stderr, "RGRID: internal consistency failure: %s (%s:%d)\n", what, file, line);
  abort();
}
#define RG_ASSERT(c) do { if (!(c)) ::rg::fail(#c, __FILE__, __LINE__); } while (0)

// ---------------------------------------------------------------- scalars and vectors
inline Q mkq(long n, long d = 1) { Q q(n, d); q.canonicalize(); return q; }
inline bool is_int(const Q& q) { return q.get_den() == 1; }
inline Z qfloor(const Q& q) { Z r; mpz_fdiv_q(r.get_mpz_t(), q.get_num_mpz_t(), q.get_den_mpz_t()); return r; }
inline Q qabs(const Q& q) { return q < 0 ? Q(-q) : q; }
// non-negative generator of aZ + bZ
inline Q qgcd(const Q& a, const Q& b) {
  if (a == 0) return qabs(b);
  if (b == 0) return qabs(a);
  Z x = a.get_num() * b.get_den(), y = b.get_num() * a.get_den(), g;
  mpz_gcd(g.get_mpz_t(), x.get_mpz_t(), y.get_mpz_t());
  Q r(g, a.get_den() * b.get_den()); r.canonicalize();
  return r;
}
// non-negative generator of aZ /\ bZ
inline Q qlcm(const Q& a, const Q& b) {
  if (a == 0 || b == 0) return Q(0);
  return qabs(a * b) / qgcd(a, b);
}
inline Q dot(const Vec& a, const Vec& b) {
  RG_ASSERT(a.size() == b.size());
  Q s = 0;
  for (size_t i = 0; i < a.size(); ++i) if (a[i] != 0 && b[i] != 0) s += a[i] * b[i];
  return s;
}
inline bool is_zero(const Vec& v) { for (size_t i = 0; i < v.size(); ++i) if (v[i] != 0) return false; return true; }
inline Vec zero_vec(int n) { return Vec(n, Q(0)); }
inline Vec unit_vec(int n, int i) { Vec v(n, Q(0)); v[i] = 1; return v; }
inline void axpy(Vec& y, const Q& a, const Vec& x) { if (a == 0) return; for (size_t i = 0; i < y.size(); ++i) if (x[i] != 0) y[i] += a * x[i]; }
inline Vec vsub(const Vec& a, const Vec& b) { Vec r = a; for (size_t i = 0; i < r.size(); ++i) r[i] -= b[i]; return r; }
inline Vec vadd(const Vec& a, const Vec& b) { Vec r = a; for (size_t i = 0; i < r.size(); ++i) r[i] += b[i]; return r; }
inline Vec vscale(const Q& k, const Vec& a) { Vec r = a; for (size_t i = 0; i < r.size(); ++i) r[i] *= k; return r; }
inline std::string qstr(const Q& q) { return q.get_str(); }
inline std::string vec_str(const Vec& v) {
  std::string s = "(";
  for (size_t i = 0; i < v.size(); ++i) { if (i) s += ","; s += v[i].get_str(); }
  return s + ")";
}

// ---------------------------------------------------------------- linear algebra
// reduced row echelon form of the row space of `rows`; zero rows dropped; pivots returned
inline void rref(Mat& rows, std::vector<int>& piv, int n) {
  piv.clear();
  size_t r = 0;
  for (int c = 0; c < n && r < rows.size(); ++c) {
    size_t k = r;
    while (k < rows.size() && rows[k][c] == 0) ++k;
    if (k == rows.size()) continue;
    std::swap(rows[r], rows[k]);
    Q inv = 1 / rows[r][c];
    for (int j = 0; j < n; ++j) rows[r][j] *= inv;
    for (size_t i = 0; i < rows.size(); ++i) if (i != r && rows[i][c] != 0) { Q f = -rows[i][c]; axpy(rows[i], f, rows[r]); }
    piv.push_back(c);
    ++r;
  }
  rows.resize(r);
}

// row Hermite normal form of the Z-lattice spanned by rational rows
inline void hnf(Mat& rows, std::vector<int>& piv, int n) {
  piv.clear();
  // common denominator
  Z D = 1;
  for (size_t i = 0; i < rows.size(); ++i) for (int j = 0; j < n; ++j) mpz_lcm(D.get_mpz_t(), D.get_mpz_t(), rows[i][j].get_den_mpz_t());
  std::vector<std::vector<Z> > M(rows.size(), std::vector<Z>(n));
  for (size_t i = 0; i < rows.size(); ++i) for (int j = 0; j < n; ++j) { Q t = rows[i][j] * D; RG_ASSERT(is_int(t)); M[i][j] = t.get_num(); }
  size_t r = 0;
  for (int c = 0; c < n && r < M.size(); ++c) {
    for (;;) {
      // row (>= r) with the smallest non-zero |entry| in column c
      int best = -1;
      for (size_t i = r; i < M.size(); ++i) if (M[i][c] != 0 && (best < 0 || abs(M[i][c]) < abs(M[best][c]))) best = (int)i;
      if (best < 0) break;
      std::swap(M[r], M[best]);
      bool others = false;
      for (size_t i = r + 1; i < M.size(); ++i) if (M[i][c] != 0) {
        Z q; mpz_fdiv_q(q.get_mpz_t(), M[i][c].get_mpz_t(), M[r][c].get_mpz_t());
        for (int j = 0; j < n; ++j) M[i][j] -= q * M[r][j];
        if (M[i][c] != 0) others = true;
      }
      if (!others) break;
    }
    if (r < M.size() && M[r][c] != 0) {
      if (M[r][c] < 0) for (int j = 0; j < n; ++j) M[r][j] = -M[r][j];
      piv.push_back(c);
      ++r;
    }
  }
  // rows r.. are zero now
  for (size_t i = r; i < M.size(); ++i) for (int j = 0; j < n; ++j) RG_ASSERT(M[i][j] == 0);
  M.resize(r);
  // reduce the entries above each pivot into [0, pivot)
  for (size_t i = 0; i < r; ++i) {
    int c = piv[i];
    for (size_t k = 0; k < i; ++k) {
      Z q; mpz_fdiv_q(q.get_mpz_t(), M[k][c].get_mpz_t(), M[i][c].get_mpz_t());
      if (q != 0) for (int j = 0; j < n; ++j) M[k][j] -= q * M[i][j];
    }
  }
  rows.assign(r, Vec(n));
  for (size_t i = 0; i < r; ++i) for (int j = 0; j < n; ++j) { Q t(M[i][j], D); t.canonicalize(); rows[i][j] = t; }
}

// ---------------------------------------------------------------- congruences
struct Cong {
  Vec a; Q b; Q m;            // a.x + b = 0 (mod m);  m == 0: equality
  Cong() : b(0), m(0) {}
  Cong(const Vec& a_, const Q& b_, const Q& m_) : a(a_), b(b_), m(qabs(m_)) {}
  bool holds(const Vec& x) const { Q v = dot(a, x) + b; return m == 0 ? v == 0 : is_int(v / m); }
  // the homogeneous part: does direction d keep the congruence for all integer (integer_only) / rational multiples?
  bool holds_dir(const Vec& d, bool line) const { Q v = dot(a, d); if (line || m == 0) return v == 0; return is_int(v / m); }
  std::string str() const { return vec_str(a) + ".x+" + b.get_str() + (m == 0 ? "=0" : "=0 mod " + m.get_str()); }
};
typedef std::vector<Cong> Congs;

// ---------------------------------------------------------------- the grid value
struct RGrid {
  int n; bool empty;
  Vec p; Mat B; Mat L;
  std::vector<int> Bpiv, Lpiv;
  RGrid() : n(0), empty(true) {}
  static RGrid bottom(int n) { RGrid g; g.n = n; g.empty = true; return g; }
  static RGrid universe(int n) {
    RGrid g; g.n = n; g.empty = false; g.p = zero_vec(n);
    for (int i = 0; i < n; ++i) { g.L.push_back(unit_vec(n, i)); g.Lpiv.push_back(i); }
    return g;
  }
  std::string str() const {
    std::string s = "dim" + std::to_string(n) + ":";
    if (empty) return s + "EMPTY";
    s += "p" + vec_str(p);
    for (size_t i = 0; i < B.size(); ++i) s += " q" + vec_str(B[i]);
    for (size_t i = 0; i < L.size(); ++i) s += " l" + vec_str(L[i]);
    return s;
  }
  bool operator==(const RGrid& o) const {
    if (n != o.n || empty != o.empty) return false;
    if (empty) return true;
    return p == o.p && B == o.B && L == o.L;
  }
  bool operator!=(const RGrid& o) const { return !(*this == o); }
  int rank() const { return empty ? 0 : (int)(B.size() + L.size()); }

  // v reduced modulo span(L): zero in the pivot columns of L
  Vec mod_lines(const Vec& v) const {
    Vec r = v;
    for (size_t i = 0; i < L.size(); ++i) { Q f = r[Lpiv[i]]; if (f != 0) axpy(r, -f, L[i]); }
    return r;
  }
  bool in_line_space(const Vec& v) const { RG_ASSERT(!empty); return is_zero(mod_lines(v)); }
  // v in Lambda(B) + span(L)
  bool in_module(const Vec& v) const {
    RG_ASSERT(!empty);
    Vec r = mod_lines(v);
    for (size_t i = 0; i < B.size(); ++i) {
      Q t = r[Bpiv[i]] / B[i][Bpiv[i]];
      if (!is_int(t)) return false;
      if (t != 0) axpy(r, -t, B[i]);
    }
    return is_zero(r);
  }
  bool contains_point(const Vec& x) const { if (empty) return false; return in_module(vsub(x, p)); }
};

// canonical grid from a point, arbitrary parameters and arbitrary line directions
inline RGrid canon(int n, const Vec& point, const Mat& params, const Mat& lines) {
  RGrid g; g.n = n; g.empty = false;
  RG_ASSERT((int)point.size() == n);
  g.L = lines;
  for (size_t i = 0; i < g.L.size(); ++i) RG_ASSERT((int)g.L[i].size() == n);
  rref(g.L, g.Lpiv, n);
  Mat b;
  for (size_t i = 0; i < params.size(); ++i) { RG_ASSERT((int)params[i].size() == n); Vec v = g.mod_lines(params[i]); if (!is_zero(v)) b.push_back(v); }
  hnf(b, g.Bpiv, n);
  g.B = b;
  // rank bookkeeping: B rows are independent of each other and of L
  for (size_t i = 0; i < g.B.size(); ++i) {
    RG_ASSERT(g.B[i][g.Bpiv[i]] > 0);
    for (size_t k = 0; k < g.L.size(); ++k) RG_ASSERT(g.B[i][g.Lpiv[k]] == 0);
    for (int c = 0; c < g.Bpiv[i]; ++c) RG_ASSERT(g.B[i][c] == 0);
  }
  RG_ASSERT((int)(g.B.size() + g.L.size()) <= n);
  Vec q = g.mod_lines(point);
  for (size_t i = 0; i < g.B.size(); ++i) {
    Z t = qfloor(q[g.Bpiv[i]] / g.B[i][g.Bpiv[i]]);
    if (t != 0) axpy(q, Q(-t), g.B[i]);
  }
  g.p = q;
  return g;
}

// G = lin.hull(lines) + int.hull(params) + int.affine.hull(points)
inline RGrid from_generators(int n, const Mat& points, const Mat& params, const Mat& lines) {
  if (points.empty()) return RGrid::bottom(n);
  Mat q = params;
  for (size_t i = 1; i < points.size(); ++i) q.push_back(vsub(points[i], points[0]));
  RGrid g = canon(n, points[0], q, lines);
  // every generator must belong to the result
  for (size_t i = 0; i < points.size(); ++i) RG_ASSERT(g.contains_point(points[i]));
  for (size_t i = 0; i < params.size(); ++i) RG_ASSERT(g.in_module(params[i]));
  for (size_t i = 0; i < lines.size(); ++i) RG_ASSERT(g.in_line_space(lines[i]));
  return g;
}

// G /\ { x : a.x + b = 0 (mod m) }
inline RGrid add_congruence(const RGrid& g, const Cong& c) {
  if (g.empty) return g;
  int n = g.n;
  RG_ASSERT((int)c.a.size() == n);
  Q sp = dot(c.a, g.p) + c.b;
  // 1. a line that is not orthogonal to the congruence absorbs it
  int lstar = -1;
  for (size_t j = 0; j < g.L.size() && lstar < 0; ++j) if (dot(c.a, g.L[j]) != 0) lstar = (int)j;
  if (lstar >= 0) {
    const Vec& ls = g.L[lstar];
    Q sl = dot(c.a, ls);
    Mat lines, params;
    for (size_t j = 0; j < g.L.size(); ++j) if ((int)j != lstar) { Vec v = g.L[j]; axpy(v, -dot(c.a, v) / sl, ls); lines.push_back(v); }
    for (size_t i = 0; i < g.B.size(); ++i) { Vec v = g.B[i]; axpy(v, -dot(c.a, v) / sl, ls); params.push_back(v); }
    Vec pt = g.p; axpy(pt, -sp / sl, ls);
    if (c.m != 0) params.push_back(vscale(c.m / sl, ls));
    RGrid r = canon(n, pt, params, lines);
    RG_ASSERT(c.holds(r.p));
    for (size_t i = 0; i < r.B.size(); ++i) RG_ASSERT(c.holds_dir(r.B[i], false));
    for (size_t i = 0; i < r.L.size(); ++i) RG_ASSERT(c.holds_dir(r.L[i], true));
    RG_ASSERT((int)r.L.size() == (int)g.L.size() - 1);
    RG_ASSERT(g.contains_point(r.p));
    for (size_t i = 0; i < r.B.size(); ++i) RG_ASSERT(g.in_module(r.B[i]));
    for (size_t i = 0; i < r.L.size(); ++i) RG_ASSERT(g.in_line_space(r.L[i]));
    return r;
  }
  // 2. all lines orthogonal: values of a.x+b on G are  sp + gZ,  g = gcd of a.b_i
  Mat rows = g.B;
  std::vector<Q> s(rows.size());
  for (size_t i = 0; i < rows.size(); ++i) s[i] = dot(c.a, rows[i]);
  // Euclid on (s_i, b_i) until a single non-zero s remains
  for (;;) {
    int best = -1, cnt = 0;
    for (size_t i = 0; i < rows.size(); ++i) if (s[i] != 0) { ++cnt; if (best < 0 || qabs(s[i]) < qabs(s[best])) best = (int)i; }
    if (cnt <= 1) break;
    for (size_t i = 0; i < rows.size(); ++i) if ((int)i != best && s[i] != 0) {
      Z t = qfloor(s[i] / s[best]);
      axpy(rows[i], Q(-t), rows[best]);
      s[i] -= Q(t) * s[best];
    }
  }
  int star = -1;
  for (size_t i = 0; i < rows.size(); ++i) if (s[i] != 0) star = (int)i;
  Mat params;
  for (size_t i = 0; i < rows.size(); ++i) if ((int)i != star) params.push_back(rows[i]);
  Vec pt = g.p;
  if (star < 0) {
    // the expression is constant on G
    bool ok = c.m == 0 ? sp == 0 : is_int(sp / c.m);
    return ok ? g : RGrid::bottom(n);
  }
  Q gg = s[star]; Vec qs = rows[star];
  if (gg < 0) { gg = -gg; qs = vscale(Q(-1), qs); }
  if (c.m == 0) {
    Q t = -sp / gg;
    if (!is_int(t)) return RGrid::bottom(n);
    axpy(pt, t, qs);
  } else {
    // t*gg + k*m = -sp  over the integers
    Q u = qgcd(gg, c.m);
    Q rhs = -sp / u;
    if (!is_int(rhs)) return RGrid::bottom(n);
    Q Gq = gg / u, Mq = c.m / u;
    RG_ASSERT(is_int(Gq) && is_int(Mq));
    Z G = Gq.get_num(), M = Mq.get_num(), t = 0;
    if (M != 1) {
      Z inv; int okinv = mpz_invert(inv.get_mpz_t(), G.get_mpz_t(), M.get_mpz_t());
      RG_ASSERT(okinv != 0);
      t = (rhs.get_num() * inv) % M;
    }
    axpy(pt, Q(t), qs);
    params.push_back(vscale(Mq, qs));
  }
  RGrid r = canon(n, pt, params, g.L);
  RG_ASSERT(c.holds(r.p));
  for (size_t i = 0; i < r.B.size(); ++i) RG_ASSERT(c.holds_dir(r.B[i], false));
  for (size_t i = 0; i < r.L.size(); ++i) RG_ASSERT(c.holds_dir(r.L[i], true));
  RG_ASSERT(g.contains_point(r.p));
  for (size_t i = 0; i < r.B.size(); ++i) RG_ASSERT(g.in_module(r.B[i]));
  RG_ASSERT(r.L == g.L);
  return r;
}

inline RGrid from_congruences(int n, const Congs& cs) {
  RGrid g = RGrid::universe(n);
  for (size_t i = 0; i < cs.size(); ++i) g = add_congruence(g, cs[i]);
  return g;
}

// A congruence description of G by the dual basis: with M = [B; L] (full row rank r+k),
//   a_i with M a_i = e_i (i < r)      ->  a_i.(x - p) = 0 (mod 1)
//   a basis of the null space of M    ->  v.(x - p) = 0
inline Congs congruences_of(const RGrid& g) {
  Congs out;
  int n = g.n;
  if (g.empty) { out.push_back(Cong(zero_vec(n), Q(1), Q(0))); return out; }
  size_t r = g.B.size(), k = g.L.size(), rows = r + k;
  // [M | I] -> RREF
  Mat A(rows, Vec(n + rows, Q(0)));
  for (size_t i = 0; i < rows; ++i) { const Vec& src = i < r ? g.B[i] : g.L[i - r]; for (int j = 0; j < n; ++j) A[i][j] = src[j]; A[i][n + i] = 1; }
  std::vector<int> piv;
  {
    size_t rr = 0;
    for (int c = 0; c < n && rr < rows; ++c) {
      size_t kk = rr; while (kk < rows && A[kk][c] == 0) ++kk;
      if (kk == rows) continue;
      std::swap(A[rr], A[kk]);
      Q inv = 1 / A[rr][c];
      for (size_t j = 0; j < A[rr].size(); ++j) A[rr][j] *= inv;
      for (size_t i = 0; i < rows; ++i) if (i != rr && A[i][c] != 0) { Q f = -A[i][c]; axpy(A[i], f, A[rr]); }
      piv.push_back(c); ++rr;
    }
    RG_ASSERT(rr == rows);   // full row rank
  }
  std::vector<bool> is_piv(n, false);
  for (size_t i = 0; i < piv.size(); ++i) is_piv[piv[i]] = true;
  // equalities: null space
  for (int f = 0; f < n; ++f) if (!is_piv[f]) {
    Vec v = zero_vec(n); v[f] = 1;
    for (size_t i = 0; i < rows; ++i) v[piv[i]] = -A[i][f];
    out.push_back(Cong(v, -dot(v, g.p), Q(0)));
  }
  // proper congruences: dual vectors of the parameters
  for (size_t i = 0; i < r; ++i) {
    Vec a = zero_vec(n);
    for (size_t t = 0; t < rows; ++t) a[piv[t]] = A[t][n + i];
    for (size_t j = 0; j < r; ++j) RG_ASSERT(dot(a, g.B[j]) == (i == j ? 1 : 0));
    for (size_t j = 0; j < k; ++j) RG_ASSERT(dot(a, g.L[j]) == 0);
    out.push_back(Cong(a, -dot(a, g.p), Q(1)));
  }
  return out;
}

// both descriptions agree (used by the self-test and on every new value class of the harness)
inline void check_consistency(const RGrid& g) {
  Congs cs = congruences_of(g);
  if (g.empty) { RG_ASSERT(from_congruences(g.n, cs).empty); return; }
  for (size_t i = 0; i < cs.size(); ++i) {
    RG_ASSERT(cs[i].holds(g.p));
    for (size_t j = 0; j < g.B.size(); ++j) RG_ASSERT(cs[i].holds_dir(g.B[j], false));
    for (size_t j = 0; j < g.L.size(); ++j) RG_ASSERT(cs[i].holds_dir(g.L[j], true));
  }
  RG_ASSERT((int)cs.size() == g.n - (int)g.L.size());
  RGrid back = from_congruences(g.n, cs);
  RG_ASSERT(back == g);
  Mat pts(1, g.p);
  RG_ASSERT(from_generators(g.n, pts, g.B, g.L) == g);
}

// ---------------------------------------------------------------- order
inline bool subset_gen(const RGrid& a, const RGrid& b) {
  if (a.empty) return true;
  if (b.empty) return false;
  if (!b.contains_point(a.p)) return false;
  for (size_t i = 0; i < a.B.size(); ++i) if (!b.in_module(a.B[i])) return false;
  for (size_t i = 0; i < a.L.size(); ++i) if (!b.in_line_space(a.L[i])) return false;
  return true;
}
inline bool subset_con(const RGrid& a, const RGrid& b) {
  if (a.empty) return true;
  if (b.empty) return false;
  Congs cs = congruences_of(b);
  for (size_t i = 0; i < cs.size(); ++i) {
    if (!cs[i].holds(a.p)) return false;
    for (size_t j = 0; j < a.B.size(); ++j) if (!cs[i].holds_dir(a.B[j], false)) return false;
    for (size_t j = 0; j < a.L.size(); ++j) if (!cs[i].holds_dir(a.L[j], true)) return false;
  }
  return true;
}
inline bool subset(const RGrid& a, const RGrid& b) {
  RG_ASSERT(a.n == b.n);
  bool r = subset_gen(a, b);
  RG_ASSERT(r == subset_con(a, b));
  return r;
}

// ---------------------------------------------------------------- lattice operations
inline RGrid meet(const RGrid& a, const RGrid& b) {
  RG_ASSERT(a.n == b.n);
  if (a.empty || b.empty) return RGrid::bottom(a.n);
  RGrid r = a;
  Congs cs = congruences_of(b);
  for (size_t i = 0; i < cs.size(); ++i) r = add_congruence(r, cs[i]);
  RG_ASSERT(subset_gen(r, a) && subset_gen(r, b));
  return r;
}
inline RGrid join(const RGrid& a, const RGrid& b) {
  RG_ASSERT(a.n == b.n);
  if (a.empty) return b;
  if (b.empty) return a;
  Mat pts; pts.push_back(a.p); pts.push_back(b.p);
  Mat params = a.B; params.insert(params.end(), b.B.begin(), b.B.end());
  Mat lines = a.L; lines.insert(lines.end(), b.L.begin(), b.L.end());
  RGrid r = from_generators(a.n, pts, params, lines);
  RG_ASSERT(subset_gen(a, r) && subset_gen(b, r));
  return r;
}
inline bool same_module(const RGrid& a, const RGrid& b) { return a.B == b.B && a.L == b.L; }
// a \/ b == a U b as sets?   (nested, or the two cosets of an index-2 sub-lattice)
inline bool union_is_grid(const RGrid& a, const RGrid& b) {
  if (a.empty || b.empty) return true;
  if (subset_gen(a, b) || subset_gen(b, a)) return true;
  if (!same_module(a, b)) return false;
  return a.in_module(vscale(Q(2), vsub(b.p, a.p)));
}
// smallest grid containing  a \ { x : cong }
inline RGrid minus_congruence(const RGrid& a, const Cong& c) {
  if (a.empty) return a;
  RGrid in = add_congruence(a, c);
  if (in == a) return RGrid::bottom(a.n);
  if (in.empty) return a;
  // `in` is a proper non-empty sub-grid of a, so module(in) is a proper sub-module of module(a).  The points of a
  // outside the congruence are the other cosets of module(in) in a; they span a again unless there is exactly
  // one of them, i.e. unless [module(a) : module(in)] = 2  (same lines, same rank, 2*module(a) inside module(in);
  // the quotient is cyclic because it embeds into Q/mZ through the congruence expression).
  if (in.L == a.L && a.B.size() == in.B.size()) {
    bool twice = true;
    for (size_t i = 0; i < a.B.size() && twice; ++i) if (!in.in_module(vscale(Q(2), a.B[i]))) twice = false;
    if (twice) {
      int out = -1;
      for (size_t i = 0; i < a.B.size() && out < 0; ++i) if (!in.in_module(a.B[i])) out = (int)i;
      RG_ASSERT(out >= 0);
      Mat pts(1, vadd(in.p, a.B[out]));
      RGrid other = from_generators(a.n, pts, in.B, in.L);
      // exactly two cosets: other and in are disjoint and together generate (indeed cover) a
      RG_ASSERT(subset_gen(other, a) && add_congruence(other, c).empty && union_is_grid(other, in));
      Mat two; two.push_back(other.p); two.push_back(in.p);
      RG_ASSERT(from_generators(a.n, two, in.B, in.L) == a);
      return other;
    }
  }
  return a;
}
// the smallest grid containing a \ b  (documented "grid difference")
inline RGrid difference(const RGrid& a, const RGrid& b) {
  RG_ASSERT(a.n == b.n);
  if (a.empty || b.empty) return a;
  Congs cs = congruences_of(b);
  RGrid r = RGrid::bottom(a.n);
  for (size_t i = 0; i < cs.size(); ++i) r = join(r, minus_congruence(a, cs[i]));
  RG_ASSERT(subset_gen(r, a));
  return r;
}

// ---------------------------------------------------------------- images
// x_k := (a.x + b) / d
inline Vec aff_apply(const Vec& x, int k, const Vec& a, const Q& b, const Q& d, bool direction) {
  Vec r = x; r[k] = (dot(a, x) + (direction ? Q(0) : b)) / d; return r;
}
inline RGrid affine_image(const RGrid& g, int k, const Vec& a, const Q& b, const Q& d) {
  RG_ASSERT(d != 0);
  if (g.empty) return g;
  Mat pts(1, aff_apply(g.p, k, a, b, d, false)), params, lines;
  for (size_t i = 0; i < g.B.size(); ++i) params.push_back(aff_apply(g.B[i], k, a, b, d, true));
  for (size_t i = 0; i < g.L.size(); ++i) lines.push_back(aff_apply(g.L[i], k, a, b, d, true));
  return from_generators(g.n, pts, params, lines);
}
inline RGrid affine_preimage(const RGrid& g, int k, const Vec& a, const Q& b, const Q& d) {
  RG_ASSERT(d != 0);
  if (g.empty) return g;
  Congs cs = congruences_of(g), ns;
  for (size_t i = 0; i < cs.size(); ++i) {
    Cong c = cs[i];
    Q ck = c.a[k];
    c.a[k] = 0;
    axpy(c.a, ck / d, a);
    c.b += ck * b / d;
    ns.push_back(c);
  }
  return from_congruences(g.n, ns);
}

inline RGrid project(const RGrid& g, const std::vector<int>& keep) {
  int m = (int)keep.size();
  if (g.empty) return RGrid::bottom(m);
  auto sel = [&](const Vec& v) { Vec r(m); for (int i = 0; i < m; ++i) r[i] = v[keep[i]]; return r; };
  Mat pts(1, sel(g.p)), params, lines;
  for (size_t i = 0; i < g.B.size(); ++i) params.push_back(sel(g.B[i]));
  for (size_t i = 0; i < g.L.size(); ++i) lines.push_back(sel(g.L[i]));
  return from_generators(m, pts, params, lines);
}

// transfer relation  phi = { (v, w) : cw.w + cv.v + c0 = 0 (mod f)  and  w_i = v_i for every i not in `changed` }
struct Relation {
  Vec cw, cv; Q c0, f; std::vector<bool> changed;
  bool holds(const Vec& v, const Vec& w) const {
    for (size_t i = 0; i < v.size(); ++i) if (!changed[i] && v[i] != w[i]) return false;
    Q t = dot(cw, w) + dot(cv, v) + c0;
    return f == 0 ? t == 0 : is_int(t / f);
  }
};
// image (forward) or preimage (backward) of g: computed in the doubled space (v, w)
inline RGrid rel_apply(const RGrid& g, const Relation& r, bool forward) {
  int n = g.n;
  if (g.empty) return g;
  // coordinates 0..n-1 hold the side where g lives, n..2n-1 the other side
  auto lift = [&](const Vec& x) { Vec y(2 * n, Q(0)); for (int i = 0; i < n; ++i) { y[i] = x[i]; if (!r.changed[i]) y[n + i] = x[i]; } return y; };
  Mat pts(1, lift(g.p)), params, lines;
  for (size_t i = 0; i < g.B.size(); ++i) params.push_back(lift(g.B[i]));
  for (size_t i = 0; i < g.L.size(); ++i) lines.push_back(lift(g.L[i]));
  for (int i = 0; i < n; ++i) if (r.changed[i]) lines.push_back(unit_vec(2 * n, n + i));
  RGrid h = from_generators(2 * n, pts, params, lines);
  Vec a(2 * n);
  for (int i = 0; i < n; ++i) { a[i] = forward ? r.cv[i] : r.cw[i]; a[n + i] = forward ? r.cw[i] : r.cv[i]; }
  h = add_congruence(h, Cong(a, r.c0, r.f));
  std::vector<int> keep; for (int i = 0; i < n; ++i) keep.push_back(n + i);
  return project(h, keep);
}
// var' = (a.x + b)/d  (mod f)
inline Relation rel_var(int n, int k, const Vec& a, const Q& b, const Q& d, const Q& f) {
  Relation r; r.cw = unit_vec(n, k); r.cv = vscale(Q(-1) / d, a); r.c0 = -b / d; r.f = qabs(f);
  r.changed.assign(n, false); r.changed[k] = true; return r;
}
// c.w + d0 = a.v + b  (mod f)
inline Relation rel_lhs(int n, const Vec& c, const Q& d0, const Vec& a, const Q& b, const Q& f) {
  Relation r; r.cw = c; r.cv = vscale(Q(-1), a); r.c0 = d0 - b; r.f = qabs(f);
  r.changed.assign(n, false); for (int i = 0; i < n; ++i) if (c[i] != 0) r.changed[i] = true; return r;
}

// ---------------------------------------------------------------- dimensions
inline RGrid unconstrain(const RGrid& g, const std::vector<int>& vars) {
  if (g.empty) return g;
  Mat lines = g.L; for (size_t i = 0; i < vars.size(); ++i) lines.push_back(unit_vec(g.n, vars[i]));
  Mat pts(1, g.p);
  return from_generators(g.n, pts, g.B, lines);
}
inline Vec extend(const Vec& v, int m) { Vec r = v; r.resize(v.size() + m, Q(0)); return r; }
inline RGrid add_dims(const RGrid& g, int m, bool embed) {
  if (g.empty) return RGrid::bottom(g.n + m);
  Mat pts(1, extend(g.p, m)), params, lines;
  for (size_t i = 0; i < g.B.size(); ++i) params.push_back(extend(g.B[i], m));
  for (size_t i = 0; i < g.L.size(); ++i) lines.push_back(extend(g.L[i], m));
  if (embed) for (int i = 0; i < m; ++i) lines.push_back(unit_vec(g.n + m, g.n + i));
  return from_generators(g.n + m, pts, params, lines);
}
inline RGrid remove_dims(const RGrid& g, const std::vector<int>& vars) {
  std::vector<int> keep;
  for (int i = 0; i < g.n; ++i) if (std::find(vars.begin(), vars.end(), i) == vars.end()) keep.push_back(i);
  return project(g, keep);
}
// pf[i] = new index of dimension i or -1; the codomain must be {0..k-1}
inline RGrid map_dims(const RGrid& g, const std::vector<int>& pf) {
  int k = 0; for (size_t i = 0; i < pf.size(); ++i) if (pf[i] >= 0) k = std::max(k, pf[i] + 1);
  std::vector<int> keep(k, -1);
  for (size_t i = 0; i < pf.size(); ++i) if (pf[i] >= 0) keep[pf[i]] = (int)i;
  for (int i = 0; i < k; ++i) RG_ASSERT(keep[i] >= 0);
  return project(g, keep);
}
inline RGrid concatenate(const RGrid& a, const RGrid& b) {
  int n = a.n + b.n;
  if (a.empty || b.empty) return RGrid::bottom(n);
  auto left = [&](const Vec& v) { return extend(v, b.n); };
  auto right = [&](const Vec& v) { Vec r(n, Q(0)); for (int i = 0; i < b.n; ++i) r[a.n + i] = v[i]; return r; };
  Vec p = left(a.p); for (int i = 0; i < b.n; ++i) p[a.n + i] = b.p[i];
  Mat pts(1, p), params, lines;
  for (size_t i = 0; i < a.B.size(); ++i) params.push_back(left(a.B[i]));
  for (size_t i = 0; i < b.B.size(); ++i) params.push_back(right(b.B[i]));
  for (size_t i = 0; i < a.L.size(); ++i) lines.push_back(left(a.L[i]));
  for (size_t i = 0; i < b.L.size(); ++i) lines.push_back(right(b.L[i]));
  return from_generators(n, pts, params, lines);
}
// { (x, y_1..y_m) : x in G and x[k := y_j] in G for every j }
inline RGrid expand_dim(const RGrid& g, int k, int m) {
  if (g.empty) return RGrid::bottom(g.n + m);
  RGrid r = add_dims(g, m, true);
  Congs cs = congruences_of(g);
  for (size_t i = 0; i < cs.size(); ++i) if (cs[i].a[k] != 0)
    for (int j = 0; j < m; ++j) {
      Cong c(extend(cs[i].a, m), cs[i].b, cs[i].m);
      c.a[g.n + j] = c.a[k]; c.a[k] = 0;
      r = add_congruence(r, c);
    }
  return r;
}
// join over j in vars+{dest} of the grid obtained by reading coordinate `dest` from coordinate j, then dropping vars
inline RGrid fold_dims(const RGrid& g, const std::vector<int>& vars, int dest) {
  if (vars.empty()) return g;
  std::vector<int> keep;
  for (int i = 0; i < g.n; ++i) if (std::find(vars.begin(), vars.end(), i) == vars.end()) keep.push_back(i);
  if (g.empty) return RGrid::bottom((int)keep.size());
  std::vector<int> srcs = vars; srcs.push_back(dest);
  RGrid r = RGrid::bottom((int)keep.size());
  for (size_t s = 0; s < srcs.size(); ++s) {
    std::vector<int> sel = keep;
    for (size_t i = 0; i < sel.size(); ++i) if (sel[i] == dest) sel[i] = srcs[s];
    r = join(r, project(g, sel));
  }
  return r;
}

// smallest grid containing { p + mu q : p in a, q in b, mu integer }
inline RGrid time_elapse(const RGrid& a, const RGrid& b) {
  RG_ASSERT(a.n == b.n);
  if (a.empty || b.empty) return RGrid::bottom(a.n);
  Mat pts(1, a.p), params = a.B, lines = a.L;
  params.push_back(b.p);
  params.insert(params.end(), b.B.begin(), b.B.end());
  lines.insert(lines.end(), b.L.begin(), b.L.end());
  return from_generators(a.n, pts, params, lines);
}

// ---------------------------------------------------------------- queries
inline bool is_universe(const RGrid& g) { return !g.empty && (int)g.L.size() == g.n; }
inline bool is_discrete(const RGrid& g) { return g.empty || g.L.empty(); }
inline bool is_bounded(const RGrid& g) { return g.empty || (g.L.empty() && g.B.empty()); }
inline int affine_dimension(const RGrid& g) { return g.rank(); }
inline bool constrains(const RGrid& g, int v) { if (g.empty) return true; return !g.in_line_space(unit_vec(g.n, v)); }
inline bool contains_integer_point(const RGrid& g) {
  RGrid r = g;
  for (int i = 0; i < g.n && !r.empty; ++i) r = add_congruence(r, Cong(unit_vec(g.n, i), Q(0), Q(1)));
  return !r.empty;
}
// is a.x + b constant on g?  (true for the empty grid)
inline bool bounds(const RGrid& g, const Vec& a) {
  if (g.empty) return true;
  for (size_t i = 0; i < g.B.size(); ++i) if (dot(a, g.B[i]) != 0) return false;
  for (size_t i = 0; i < g.L.size(); ++i) if (dot(a, g.L[i]) != 0) return false;
  return true;
}
// frequency: defined iff non-empty and no line moves the expression; f = gcd of a.b_i; the values are v0 + fZ
struct Freq { bool defined; Q f, v0; };
inline Freq frequency(const RGrid& g, const Vec& a, const Q& b) {
  Freq r; r.defined = false; r.f = 0; r.v0 = 0;
  if (g.empty) return r;
  for (size_t i = 0; i < g.L.size(); ++i) if (dot(a, g.L[i]) != 0) return r;
  r.defined = true;
  for (size_t i = 0; i < g.B.size(); ++i) r.f = qgcd(r.f, dot(a, g.B[i]));
  r.v0 = dot(a, g.p) + b;
  return r;
}
// smallest |value| in v0 + fZ (the two candidates when there is a tie are v and -v)
inline Q closest_to_zero(const Q& v0, const Q& f) {
  if (f == 0) return v0;
  Q r = v0 - Q(qfloor(v0 / f)) * f;       // in [0, f)
  if (r * 2 > f) r -= f;                  // in (-f/2, f/2]
  return r;
}

enum { REL_DISJOINT = 1, REL_INTERSECTS = 2, REL_INCLUDED = 4 };
inline int relation_with(const RGrid& g, const Cong& c) {
  RG_ASSERT(!g.empty);
  RGrid in = add_congruence(g, c);
  if (in.empty) return REL_DISJOINT;
  if (in == g) return REL_INCLUDED;
  return REL_INTERSECTS;
}
// generator subsumption: kind 'p' point, 'q' parameter, 'l' line
inline bool subsumes(const RGrid& g, char kind, const Vec& v) {
  if (g.empty) return false;
  if (kind == 'p') return g.contains_point(v);
  if (kind == 'q') return g.in_module(v);
  return g.in_line_space(v);
}

} // namespace rg
#endif

// Self-test of the reference semantics: FM emptiness / projection / hulls against point sampling
// on a rational grid (direct evaluation only).  Exit 0 iff everything agrees.
#include "ref/ops.hh"
#include "ref/dd.hh"
#include <cstdio>
using namespace ref;
static int fails = 0;
#define CHECK(c, msg) do { if (!(c)) { ++fails; fprintf(stderr, "SELFTEST FAIL: %s (line %d)\n", msg, __LINE__); } } while (0)
static unsigned long rs = 12345;
static int rnd(int lo, int hi) { rs = rs * 6364136223846793005ULL + 1442695040888963407ULL; return lo + (int)((rs >> 33) % (unsigned long)(hi - lo + 1)); }
static Cell random_cell(int n, int rows, bool strict) {
  Cell c(n);
  for (int i = 0; i < rows; ++i) {
    Vec a(n); for (int j = 0; j < n; ++j) a[j] = rnd(-2, 2);
    int k = rnd(0, 9); int kind = k == 0 ? EQ : (strict && k < 4) ? GT : GE;
    c.rows.push_back(Row(a, Q(rnd(-2, 3)), kind));
  }
  return c;
}
static std::vector<Vec> grid(int n, int lo, int hi, int den) {
  std::vector<Vec> pts; Vec x(n);
  std::vector<int> idx(n, lo * den);
  for (;;) {
    for (int j = 0; j < n; ++j) { x[j] = Q(idx[j], den); x[j].canonicalize(); }
    pts.push_back(x);
    int j = 0; while (j < n && ++idx[j] > hi * den) { idx[j] = lo * den; ++j; }
    if (j == n) break;
  }
  return pts;
}
int main() {
  for (int n = 1; n <= 2; ++n) {
    std::vector<Vec> pts = grid(n, -3, 4, 2);
    for (int it = 0; it < 300; ++it) {
      Cell P = random_cell(n, rnd(1, 4), true), R = random_cell(n, rnd(1, 3), true);
      // emptiness vs find_point vs sampling
      Vec w; bool fp = find_point(P, w);
      CHECK(fp == !is_empty(P), "find_point <-> is_empty");
      if (fp) CHECK(member(P, w), "found point is a member");
      for (size_t i = 0; i < pts.size(); ++i) if (member(P, pts[i])) CHECK(!is_empty(P), "sample member but FM says empty");
      // normalized keeps the set
      Cell N = normalized(P);
      for (size_t i = 0; i < pts.size(); ++i) CHECK(member(P, pts[i]) == member(N, pts[i]), "normalized changes membership");
      // projection: x in proj iff exists y (sampled) -- check soundness direction exactly
      if (n == 2) {
        std::vector<int> el(1, 1);
        Cell pr = project_out(P, el);
        for (size_t i = 0; i < pts.size(); ++i) if (member(P, pts[i])) CHECK(member(pr, pts[i]), "projection lost a point");
        // completeness: a point of the projection has a preimage (via find_point on the fibre)
        for (size_t i = 0; i < pts.size(); ++i) if (member(pr, pts[i])) {
          Cell f = P; f.rows.push_back(Row(unit(2, 0), -pts[i][0], EQ));
          CHECK(!is_empty(f), "projection contains a point without preimage");
        }
      }
      // hulls: contain both, and every grid point of the hull is a convex combination (checked through
      // the two-cell formula against the convexified single cell)
      USet u = hull_nnc_cells(P, R);
      Cell h = convexify(u, n);
      for (size_t i = 0; i < pts.size(); ++i) CHECK(member(u, pts[i]) == member(h, pts[i]), "convexify changes membership");
      for (size_t i = 0; i < pts.size(); ++i) if (member(P, pts[i]) || member(R, pts[i])) CHECK(member(h, pts[i]), "NNC hull misses an argument point");
      Cell hc = hull_closed(P, R);
      for (size_t i = 0; i < pts.size(); ++i) if (member(h, pts[i])) CHECK(member(hc, pts[i]), "closed hull smaller than NNC hull");
      CHECK(subset(h, hc), "NNC hull not inside closed hull");
      if (!is_empty(P) && !is_empty(R)) { CHECK(equal(closure(h), hc), "closure of NNC hull differs from closed hull"); }
      // midpoints of member pairs are in the hull
      Vec a, b;
      if (find_point(P, a) && find_point(R, b)) { Vec m(n); for (int j = 0; j < n; ++j) m[j] = (a[j] + b[j]) / 2; CHECK(member(h, m), "midpoint not in hull"); }
      // subset_union against sampling
      USet two; two.push_back(P); two.push_back(R);
      bool conv = subset(hc, two);
      if (conv) for (size_t i = 0; i < pts.size(); ++i) if (member(hc, pts[i])) CHECK(member(two, pts[i]), "subset_union true but sample outside");
      // sup against sampling
      Vec e(n); for (int j = 0; j < n; ++j) e[j] = rnd(-2, 2);
      Sup s = sup(P, e, Q(1));
      for (size_t i = 0; i < pts.size(); ++i) if (member(P, pts[i])) {
        Q v = 1; for (int j = 0; j < n; ++j) v += e[j] * pts[i][j];
        CHECK(s.status != 0, "sup says empty but member exists");
        if (s.status == 1) { bool okk = v < s.value || (v == s.value && s.attained); CHECK(okk, "sample exceeds sup");
          if (!okk) { fprintf(stderr, "  P=%s e=%s pt=%s sup=%s att=%d\n", cell_str(P).c_str(), vec_str(e).c_str(), vec_str(pts[i]).c_str(), s.value.get_str().c_str(), (int)s.attained); break; } }
      }
      // canonical form of closed cells is invariant under row permutation/scaling
      Cell C1 = closure(P);
      if (!C1.bot) {
        Cell C2 = C1; std::reverse(C2.rows.begin(), C2.rows.end());
        for (size_t i = 0; i < C2.rows.size(); ++i) { for (int j = 0; j < n; ++j) C2.rows[i].a[j] *= 3; C2.rows[i].b *= 3; }
        CHECK(canon_closed(C1) == canon_closed(C2), "canon_closed not invariant");
      }
      // generators round trip: points of a triangle
      Gens g; for (int k = 0; k < 3; ++k) { Vec v(n); for (int j = 0; j < n; ++j) { v[j] = Q(rnd(-2, 2), rnd(1, 3)); v[j].canonicalize(); } g.push_back(Gen('p', v)); }
      Cell tg = from_gens(g, n, false);
      for (int k = 0; k < 3; ++k) CHECK(member(tg, g[k].v), "generator not in from_gens");
      Vec cen(n); for (int j = 0; j < n; ++j) cen[j] = (g[0].v[j] + g[1].v[j] + g[2].v[j]) / 3;
      CHECK(member(tg, cen), "centroid not in from_gens");
      for (size_t i = 0; i < pts.size(); ++i) if (member(tg, pts[i])) {
        // must be a convex combination: check via add_generator chain equality instead
        Cell c2 = Cell::empty(n); for (int k = 0; k < 3; ++k) c2 = add_generator(c2, g[k], false);
        CHECK(member(c2, pts[i]), "from_gens and add_generator disagree"); break;
      }
    }
  }
  // simplex against Fourier-Motzkin
  for (int n = 1; n <= 4; ++n) for (int it = 0; it < 400; ++it) {
    Cell P = random_cell(n, rnd(1, 7), true);
    bool a = rows_empty_fm(P.rows, n), b = rows_empty_simplex(P.rows, n);
    CHECK(a == b, "simplex != FM emptiness");
    if (a != b) fprintf(stderr, "  n=%d P=%s fm=%d simplex=%d\n", n, cell_str(P).c_str(), (int)a, (int)b);
  }
  // double description (no FM) against the FM formula, both topologies
  for (int n = 1; n <= 3; ++n) for (int it = 0; it < (n == 3 ? 60 : 250); ++it) {
    Gens g; int k = rnd(1, n == 3 ? 4 : 5);
    for (int i = 0; i < k; ++i) {
      int t = rnd(0, 9); char ty = t < 5 ? 'p' : t < 7 ? 'c' : t < 9 ? 'r' : 'l';
      Vec v(n); bool nz = false;
      for (int j = 0; j < n; ++j) { v[j] = (ty == 'p' || ty == 'c') ? Q(rnd(-2, 2), rnd(1, 2)) : Q(rnd(-1, 1)); v[j].canonicalize(); if (v[j] != 0) nz = true; }
      if ((ty == 'r' || ty == 'l') && !nz) continue;
      g.push_back(Gen(ty, v));
    }
    for (int nnc = 0; nnc < 2; ++nnc) {
      Gens gg = g; if (!nnc) for (size_t i = 0; i < gg.size(); ++i) if (gg[i].t == 'c') gg[i].t = 'p';
      Cell a = from_gens(gg, n, nnc), b = from_gens_dd(gg, n, nnc);
      bool eq = equal(a, b);
      CHECK(eq, "from_gens_dd != from_gens(FM)");
      if (!eq) { fprintf(stderr, "  n=%d nnc=%d FM=%s DD=%s gens:", n, nnc, cell_str(normalized(a)).c_str(), cell_str(normalized(b)).c_str()); for (size_t i = 0; i < gg.size(); ++i) fprintf(stderr, " %c%s", gg[i].t, vec_str(gg[i].v).c_str()); fprintf(stderr, "\n"); }
      if (!nnc && !a.bot) {
        Gens back; bool ne = gens_of_closed_cell(a, back);
        CHECK(ne, "gens_of_closed_cell says empty");
        if (ne) { Cell c2 = from_gens_dd(back, n, false); bool e2 = equal(a, c2); CHECK(e2, "gens_of_closed_cell round trip");
          if (!e2) fprintf(stderr, "  cell=%s back=%s\n", cell_str(normalized(a)).c_str(), cell_str(normalized(c2)).c_str()); }
      }
    }
  }
  if (fails) { fprintf(stderr, "selftest: %d failures\n", fails); return 2; }
  printf("selftest: ok\n");
  return 0;
}

// Additional class adapters for C15 (ascii_dump / ascii_load round trip): single rows, grid generator
// systems, low-level rows and matrices, intervals and float boxes, further weakly-relational shapes,
// further powersets / products, PIP / MIP solver states with solution trees.
// Built with -fno-access-control: private member FUNCTIONS that the library's own friend classes call are
// used to reach the internal states the public containers put these objects in; private DATA is only read.
#ifndef VERIF_ENGINE_CLASSES_C15X_HH
#define VERIF_ENGINE_CLASSES_C15X_HH 1
#include "engine/classes.hh"
#include <cmath>
#include <cfloat>
#include <limits>

namespace vf {

#define VX_INIT(nm, ...) A.initials.push_back(std::make_pair(std::string(nm), std::function<D*()>(__VA_ARGS__)))
#define VX_MUT(nm, ...) A.muts.push_back(M(nm, false, __VA_ARGS__))
#define VX_OBS(nm, ...) A.muts.push_back(M(nm, false, __VA_ARGS__, true))
#define VX_BIN(nm, ...) A.muts.push_back(M(nm, true, __VA_ARGS__))
#define VX_BINOBS(nm, ...) A.muts.push_back(M(nm, true, __VA_ARGS__, true))

template <class D>
inline void fill_io_x(ClassAdapter<D>& A, std::function<D*()> blank, std::function<bool(const D&, const D&)> equal,
                      std::function<std::string(const D&)> print) {
  A.dump = [](const D& d) { return dump_of(d); };
  A.blank = blank;
  A.load = [](D& d, const std::string& t) { std::istringstream s(t); return d.ascii_load(s); };
  A.equal = equal;
  A.ok = [](const D& d) { return d.OK(); };
  A.print = print;
}

// ---------------------------------------------------------------------------------------------------
// (a) single rows: Constraint, Generator, Grid_Generator share most of their interface
template <class D>
inline void add_row_common_ops(ClassAdapter<D>& A) {
  typedef Mut<D> M;
  Variable x(0), y(1), z(2);
  VX_MUT("set_space_dimension(3)", [](D& c, const D*) { c.set_space_dimension(3); return std::string(); });
  VX_MUT("set_space_dimension(1)", [](D& c, const D*) { c.set_space_dimension(1); return std::string(); });
  VX_MUT("set_space_dimension(0)", [](D& c, const D*) { c.set_space_dimension(0); return std::string(); });
  VX_MUT("swap_space_dimensions(A,B)", [x, y](D& c, const D*) { if (c.space_dimension() < 2) return std::string("skipped"); c.swap_space_dimensions(x, y); return std::string(); });
  VX_MUT("remove_space_dimensions({A})", [x](D& c, const D*) { if (c.space_dimension() < 1) return std::string("skipped"); Variables_Set vs; vs.insert(x); return b2s(c.remove_space_dimensions(vs)); });
  VX_MUT("remove_space_dimensions({B,C})", [y, z](D& c, const D*) { if (c.space_dimension() < 3) return std::string("skipped"); Variables_Set vs; vs.insert(y); vs.insert(z); return b2s(c.remove_space_dimensions(vs)); });
  VX_MUT("permute_space_dimensions(A->B->C)", [x, y, z](D& c, const D*) { if (c.space_dimension() < 3) return std::string("skipped"); std::vector<Variable> cy; cy.push_back(x); cy.push_back(y); cy.push_back(z); c.permute_space_dimensions(cy); return std::string(); });
  VX_MUT("shift_space_dimensions(A,1)", [x](D& c, const D*) { if (c.space_dimension() < 1) return std::string("skipped"); c.shift_space_dimensions(x, 1); return std::string(); });
  VX_MUT("shift_space_dimensions(B,2)", [y](D& c, const D*) { if (c.space_dimension() < 2) return std::string("skipped"); c.shift_space_dimensions(y, 2); return std::string(); });
  VX_MUT("set_representation(SPARSE)", [](D& c, const D*) { c.set_representation(PPL::SPARSE); return std::string(); });
  VX_MUT("set_representation(DENSE)", [](D& c, const D*) { c.set_representation(PPL::DENSE); return std::string(); });
  VX_MUT("strong_normalize()", [](D& c, const D*) { c.strong_normalize(); return std::string(); });
  VX_OBS("print", [](D& c, const D*) { return io_print(c); });
  VX_OBS("type()", [](D& c, const D*) { return std::to_string((int)c.type()); });
  VX_OBS("space_dimension()", [](D& c, const D*) { return std::to_string(c.space_dimension()); });
  VX_OBS("coefficient(A)", [x](D& c, const D*) { if (c.space_dimension() < 1) return std::string("skipped"); return io_print(c.coefficient(x)); });
  VX_OBS("coefficient(C)", [z](D& c, const D*) { if (c.space_dimension() < 3) return std::string("skipped"); return io_print(c.coefficient(z)); });
  VX_OBS("representation()", [](D& c, const D*) { return std::string(c.representation() == PPL::DENSE ? "DENSE" : "SPARSE"); });
  VX_OBS("OK()", [](D& c, const D*) { return b2s(c.OK()); });
  VX_OBS("check_strong_normalized()", [](D& c, const D*) { return b2s(c.check_strong_normalized()); });
  VX_BINOBS("is_equal_to", [](D& c, const D* a) { return b2s(c.is_equal_to(*a)); });
  VX_BINOBS("is_equivalent_to", [](D& c, const D* a) { return b2s(c.is_equivalent_to(*a)); });
  VX_BINOBS("compare", [](D& c, const D* a) { if (c.space_dimension() != a->space_dimension() || c.is_necessarily_closed() != a->is_necessarily_closed()) return std::string("skipped"); return std::to_string(compare(c, *a)); });
  VX_BIN("operator=", [](D& c, const D* a) { c = *a; return std::string(); });
  VX_BIN("m_swap(copy of arg)", [](D& c, const D* a) { D t(*a); c.m_swap(t); return std::string(); });
  VX_BIN("linear_combine(arg,A) if applicable", [](D& c, const D* a) {
    if (c.space_dimension() != a->space_dimension() || c.space_dimension() < 1 || c.is_necessarily_closed() != a->is_necessarily_closed()) return std::string("skipped");
    if (c.expr.get(Variable(0)) == 0 || a->expr.get(Variable(0)) == 0) return std::string("skipped");
    c.linear_combine(*a, 1); return std::string(); });
}

inline ClassAdapter<PPL::Constraint> constraint_adapter() {
  typedef PPL::Constraint D; typedef Mut<D> M;
  ClassAdapter<D> A; A.name = "Constraint";
  Variable x(0), y(1), z(2);
  VX_INIT("default", []() { return new D(); });
  VX_INIT("A>=0", [x]() { return new D(x >= 0); });
  VX_INIT("A+2B==3", [x, y]() { return new D(x + 2 * y == 3); });
  VX_INIT("B>1", [y]() { return new D(y > 1); });
  VX_INIT("2A-3C<=5 sparse", [x, z]() { D c(2 * x - 3 * z <= 5); return new D(c, PPL::SPARSE); });
  VX_INIT("zero_dim_false", []() { return new D(D::zero_dim_false()); });
  VX_INIT("from congruence A-B==2", [x, y]() { return new D((x - y %= 2) / 0); });
  VX_INIT("A<B in dimension 4 sparse", [x, y]() { D c(x < y); return new D(c, 4, PPL::SPARSE); });
  VX_INIT("epsilon_leq_one", []() { return new D(D::epsilon_leq_one()); });
  add_row_common_ops(A);
  VX_MUT("set_not_necessarily_closed() if C", [](D& c, const D*) { if (!c.is_necessarily_closed()) return std::string("skipped"); c.set_not_necessarily_closed(); return std::string(); });
  VX_MUT("set_necessarily_closed() if NNC non-strict", [](D& c, const D*) { if (c.is_necessarily_closed() || c.epsilon_coefficient() != 0) return std::string("skipped"); c.set_necessarily_closed(); return std::string(); });
  VX_MUT("set_is_equality()", [](D& c, const D*) { if (!c.is_necessarily_closed() && c.epsilon_coefficient() != 0) return std::string("skipped"); c.set_is_equality(); return std::string(); });
  VX_MUT("set_is_inequality()", [](D& c, const D*) { c.set_is_inequality(); return std::string(); });
  VX_MUT("set_epsilon_coefficient(-1) if NNC inequality", [](D& c, const D*) { if (c.is_necessarily_closed() || c.is_equality()) return std::string("skipped"); c.set_epsilon_coefficient(Coefficient(-1)); return std::string(); });
  VX_MUT("sign_normalize()", [](D& c, const D*) { c.sign_normalize(); return std::string(); });
  VX_OBS("is_tautological()", [](D& c, const D*) { return b2s(c.is_tautological()); });
  VX_OBS("is_inconsistent()", [](D& c, const D*) { return b2s(c.is_inconsistent()); });
  VX_OBS("inhomogeneous_term()", [](D& c, const D*) { return io_print(c.inhomogeneous_term()); });
  fill_io_x<D>(A, []() { return new D(); }, [](const D& a, const D& b) { return a.is_equal_to(b) && a.topology() == b.topology() && a.space_dimension() == b.space_dimension(); },
               [](const D& d) { return io_print(d) + (d.is_necessarily_closed() ? " (C)" : " (NNC)"); });
  return A;
}

inline ClassAdapter<PPL::Generator> generator_adapter() {
  typedef PPL::Generator D; typedef Mut<D> M;
  ClassAdapter<D> A; A.name = "Generator";
  Variable x(0), y(1), z(2);
  VX_INIT("default", []() { return new D(); });
  VX_INIT("p(2A+B)/3", [x, y]() { return new D(PPL::point(2 * x + y, 3)); });
  VX_INIT("r(A-B)", [x, y]() { return new D(PPL::ray(x - y)); });
  VX_INIT("l(C)", [z]() { return new D(PPL::line(z)); });
  VX_INIT("c(A+B)/2", [x, y]() { return new D(PPL::closure_point(x + y, 2)); });
  VX_INIT("p(-A+4C) sparse", [x, z]() { return new D(D::point(4 * z - x, Coefficient(1), PPL::SPARSE)); });
  VX_INIT("zero_dim_closure_point", []() { return new D(D::zero_dim_closure_point()); });
  VX_INIT("r(2B) in dimension 4 sparse", [y]() { D g(PPL::ray(2 * y)); return new D(g, 4, PPL::SPARSE); });
  add_row_common_ops(A);
  VX_MUT("set_not_necessarily_closed() if C", [](D& c, const D*) { if (!c.is_necessarily_closed()) return std::string("skipped"); c.set_not_necessarily_closed(); return std::string(); });
  VX_MUT("set_necessarily_closed() if NNC and not a closure point", [](D& c, const D*) { if (c.is_necessarily_closed() || c.is_closure_point()) return std::string("skipped"); c.set_necessarily_closed(); return std::string(); });
  VX_MUT("set_is_line() if ray", [](D& c, const D*) { if (!c.is_ray()) return std::string("skipped"); c.set_is_line(); return std::string(); });
  VX_MUT("set_is_ray_or_point() if line", [](D& c, const D*) { if (!c.is_line()) return std::string("skipped"); c.set_is_ray_or_point(); return std::string(); });
  VX_MUT("set_epsilon_coefficient(0) if NNC point", [](D& c, const D*) { if (c.is_necessarily_closed() || !c.is_point()) return std::string("skipped"); c.set_epsilon_coefficient(Coefficient(0)); return std::string(); });
  VX_MUT("sign_normalize()", [](D& c, const D*) { c.sign_normalize(); return std::string(); });
  VX_OBS("divisor()", [](D& c, const D*) { if (c.is_line_or_ray()) return std::string("skipped"); return io_print(c.divisor()); });
  VX_BINOBS("is_matching_closure_point", [](D& c, const D* a) { if (c.is_necessarily_closed() || a->is_necessarily_closed() || !c.is_closure_point() || !a->is_point() || c.space_dimension() != a->space_dimension()) return std::string("skipped"); return b2s(c.is_matching_closure_point(*a)); });
  fill_io_x<D>(A, []() { return new D(); }, [](const D& a, const D& b) { return a.is_equal_to(b) && a.topology() == b.topology() && a.space_dimension() == b.space_dimension(); },
               [](const D& d) { return io_print(d) + (d.is_necessarily_closed() ? " (C)" : " (NNC)"); });
  return A;
}

inline ClassAdapter<PPL::Grid_Generator> grid_generator_adapter() {
  typedef PPL::Grid_Generator D; typedef Mut<D> M;
  ClassAdapter<D> A; A.name = "Grid_Generator";
  Variable x(0), y(1), z(2);
  VX_INIT("default", []() { return new D(); });
  VX_INIT("p(A+B)/2", [x, y]() { return new D(PPL::grid_point(x + y, 2)); });
  VX_INIT("q(3B)/2", [y]() { return new D(PPL::parameter(3 * y, 2)); });
  VX_INIT("l(A-C)", [x, z]() { return new D(PPL::grid_line(x - z)); });
  VX_INIT("q(2A-C) sparse", [x, z]() { return new D(D::parameter(2 * x - z, Coefficient(1), PPL::SPARSE)); });
  VX_INIT("zero_dim_point", []() { return new D(D::zero_dim_point()); });
  VX_INIT("p(4B) in dimension 4 sparse", [y]() { D g(PPL::grid_point(4 * y)); return new D(g, 4, PPL::SPARSE); });
  VX_INIT("q(0) in dimension 2", [x, y]() { return new D(PPL::parameter(0 * x + 0 * y)); });
  add_row_common_ops(A);
  VX_MUT("scale_to_divisor(6) if applicable", [](D& c, const D*) { if (c.is_line() || Coefficient(6) % c.divisor() != 0) return std::string("skipped"); c.scale_to_divisor(Coefficient(6)); return std::string(); });
  VX_MUT("set_divisor(4) if not a line", [](D& c, const D*) { if (c.is_line()) return std::string("skipped"); c.set_divisor(Coefficient(4)); return std::string(); });
  VX_MUT("set_is_parameter()", [](D& c, const D*) { c.set_is_parameter(); return std::string(); });
  VX_MUT("set_is_line()", [](D& c, const D*) { c.set_is_line(); return std::string(); });
  VX_MUT("sign_normalize()", [](D& c, const D*) { c.sign_normalize(); return std::string(); });
  VX_OBS("divisor()", [](D& c, const D*) { if (c.is_line()) return std::string("skipped"); return io_print(c.divisor()); });
  VX_OBS("all_homogeneous_terms_are_zero()", [](D& c, const D*) { return b2s(c.all_homogeneous_terms_are_zero()); });
  VX_OBS("is_parameter()/is_point()/is_line()", [](D& c, const D*) { return b2s(c.is_parameter()) + b2s(c.is_point()) + b2s(c.is_line()); });
  fill_io_x<D>(A, []() { return new D(); }, [](const D& a, const D& b) { return a.is_equal_to(b) && a.space_dimension() == b.space_dimension(); },
               [](const D& d) { return io_print(d); });
  return A;
}

inline ClassAdapter<PPL::Congruence> congruence_adapter() {
  typedef PPL::Congruence D; typedef Mut<D> M;
  ClassAdapter<D> A; A.name = "Congruence";
  Variable x(0), y(1), z(2);
  VX_INIT("default", []() { return new D(); });
  VX_INIT("A=0 mod 2", [x]() { return new D((x %= 0) / 2); });
  VX_INIT("A+B=1 mod 3", [x, y]() { return new D((x + y %= 1) / 3); });
  VX_INIT("C==1", [z]() { return new D((z %= 1) / 0); });
  VX_INIT("from constraint A-B==2", [x, y]() { return new D(Constraint(x - y == 2)); });
  VX_INIT("2A-5C=7 mod 4 sparse", [x, z]() { D c((2 * x - 5 * z %= 7) / 4); return new D(c, PPL::SPARSE); });
  VX_INIT("zero_dim_false", []() { return new D(D::zero_dim_false()); });
  VX_INIT("zero_dim_integrality", []() { return new D(D::zero_dim_integrality()); });
  VX_INIT("-A=-5 mod 3 in dimension 4", [x]() { D c((-x %= -5) / 3); return new D(c, 4); });
  VX_MUT("/=2", [](D& c, const D*) { c /= Coefficient(2); return std::string(); });
  VX_MUT("/=-3", [](D& c, const D*) { c /= Coefficient(-3); return std::string(); });
  VX_MUT("/=0", [](D& c, const D*) { c /= Coefficient(0); return std::string(); });
  VX_MUT("set_modulus(5)", [](D& c, const D*) { c.set_modulus(Coefficient(5)); return std::string(); });
  VX_MUT("set_modulus(0)", [](D& c, const D*) { c.set_modulus(Coefficient(0)); return std::string(); });
  VX_MUT("scale(2)", [](D& c, const D*) { c.scale(Coefficient(2)); return std::string(); });
  VX_MUT("scale(-1)", [](D& c, const D*) { c.scale(Coefficient(-1)); return std::string(); });
  VX_MUT("affine_preimage(A,A+B+1,2)", [x, y](D& c, const D*) { if (c.space_dimension() < 2) return std::string("skipped"); c.affine_preimage(x, x + y + 1, Coefficient(2)); return std::string(); });
  VX_MUT("set_space_dimension(3)", [](D& c, const D*) { c.set_space_dimension(3); return std::string(); });
  VX_MUT("set_space_dimension(1)", [](D& c, const D*) { c.set_space_dimension(1); return std::string(); });
  VX_MUT("set_space_dimension(0)", [](D& c, const D*) { c.set_space_dimension(0); return std::string(); });
  VX_MUT("swap_space_dimensions(A,B)", [x, y](D& c, const D*) { if (c.space_dimension() < 2) return std::string("skipped"); c.swap_space_dimensions(x, y); return std::string(); });
  VX_MUT("permute_space_dimensions(A->B->C)", [x, y, z](D& c, const D*) { if (c.space_dimension() < 3) return std::string("skipped"); std::vector<Variable> cy; cy.push_back(x); cy.push_back(y); cy.push_back(z); c.permute_space_dimensions(cy); return std::string(); });
  VX_MUT("shift_space_dimensions(A,1)", [x](D& c, const D*) { if (c.space_dimension() < 1) return std::string("skipped"); c.shift_space_dimensions(x, 1); return std::string(); });
  VX_MUT("set_representation(SPARSE)", [](D& c, const D*) { c.set_representation(PPL::SPARSE); return std::string(); });
  VX_MUT("set_representation(DENSE)", [](D& c, const D*) { c.set_representation(PPL::DENSE); return std::string(); });
  VX_MUT("sign_normalize()", [](D& c, const D*) { c.sign_normalize(); return std::string(); });
  VX_MUT("normalize()", [](D& c, const D*) { c.normalize(); return std::string(); });
  VX_MUT("strong_normalize()", [](D& c, const D*) { c.strong_normalize(); return std::string(); });
  VX_OBS("print", [](D& c, const D*) { return io_print(c); });
  VX_OBS("is_tautological()", [](D& c, const D*) { return b2s(c.is_tautological()); });
  VX_OBS("is_inconsistent()", [](D& c, const D*) { return b2s(c.is_inconsistent()); });
  VX_OBS("is_proper_congruence()", [](D& c, const D*) { return b2s(c.is_proper_congruence()); });
  VX_OBS("modulus()", [](D& c, const D*) { return io_print(c.modulus()); });
  VX_OBS("inhomogeneous_term()", [](D& c, const D*) { return io_print(c.inhomogeneous_term()); });
  VX_OBS("coefficient(A)", [x](D& c, const D*) { if (c.space_dimension() < 1) return std::string("skipped"); return io_print(c.coefficient(x)); });
  VX_OBS("space_dimension()", [](D& c, const D*) { return std::to_string(c.space_dimension()); });
  VX_OBS("OK()", [](D& c, const D*) { return b2s(c.OK()); });
  VX_BINOBS("operator==", [](D& c, const D* a) { return b2s(c == *a); });
  VX_BIN("operator=", [](D& c, const D* a) { c = *a; return std::string(); });
  VX_BIN("m_swap(copy of arg)", [](D& c, const D* a) { D t(*a); c.m_swap(t); return std::string(); });
  fill_io_x<D>(A, []() { return new D(); }, [](const D& a, const D& b) { return a.space_dimension() == b.space_dimension() && a.modulus() == b.modulus() && a.expr.is_equal_to(b.expr); },
               [](const D& d) { return io_print(d); });
  return A;
}

// ---- Grid_Generator_System (public interface + the friend-level operations used by Grid)
inline ClassAdapter<PPL::Grid_Generator_System> ggsys_adapter() {
  typedef PPL::Grid_Generator_System D; typedef Mut<D> M;
  ClassAdapter<D> A; A.name = "Grid_Generator_System";
  Variable x(0), y(1), z(2);
  VX_INIT("{}", []() { return new D(); });
  VX_INIT("{p(0,0),q(2A),l(B)}", [x, y]() { D* s = new D(); s->insert(PPL::grid_point(0 * y)); s->insert(PPL::parameter(2 * x)); s->insert(PPL::grid_line(y)); return s; });
  VX_INIT("{p(A+B)/2,q(3C)/2}", [x, y, z]() { D* s = new D(); s->insert(PPL::grid_point(x + y + 0 * z, 2)); s->insert(PPL::parameter(3 * z, 2)); return s; });
  VX_INIT("dim(2)", []() { return new D(2); });
  VX_INIT("single p(A-C)", [x, z]() { return new D(PPL::grid_point(x - z)); });
  VX_INIT("{l(A),p(B)/3} sparse", [x, y]() { D* s = new D(PPL::SPARSE); s->insert(PPL::grid_line(x)); s->insert(PPL::grid_point(y, 3)); return s; });
  VX_INIT("zero_dim_univ", []() { return new D(D::zero_dim_univ()); });
  VX_MUT("insert(p(A))", [x](D& s, const D*) { s.insert(PPL::grid_point(x)); return std::string(); });
  VX_MUT("insert(p(A+3B)/2)", [x, y](D& s, const D*) { s.insert(PPL::grid_point(x + 3 * y, 2)); return std::string(); });
  VX_MUT("insert(q(B)/3)", [y](D& s, const D*) { s.insert(PPL::parameter(y, 3)); return std::string(); });
  VX_MUT("insert(q(0))", [](D& s, const D*) { s.insert(PPL::parameter()); return std::string(); });
  VX_MUT("insert(q(0*D))", [](D& s, const D*) { s.insert(PPL::parameter(0 * Variable(3))); return std::string(); });
  VX_MUT("insert(l(A+B))", [x, y](D& s, const D*) { s.insert(PPL::grid_line(x + y)); return std::string(); });
  VX_MUT("insert(l(C),Recycle)", [z](D& s, const D*) { PPL::Grid_Generator g = PPL::grid_line(z); s.insert(g, PPL::Recycle_Input()); return std::string(); });
  VX_MUT("insert(first element of itself)", [](D& s, const D*) { if (s.begin() == s.end()) return std::string("skipped"); PPL::Grid_Generator g(*s.begin()); s.insert(g); return std::string(); });
  VX_MUT("clear()", [](D& s, const D*) { s.clear(); return std::string(); });
  VX_MUT("set_representation(SPARSE)", [](D& s, const D*) { s.set_representation(PPL::SPARSE); return std::string(); });
  VX_MUT("set_representation(DENSE)", [](D& s, const D*) { s.set_representation(PPL::DENSE); return std::string(); });
  VX_MUT("add_universe_rows_and_columns(1)", [](D& s, const D*) { s.add_universe_rows_and_columns(1); return std::string(); });
  VX_MUT("set_space_dimension(3)", [](D& s, const D*) { s.set_space_dimension(3); return std::string(); });
  VX_MUT("set_space_dimension(1)", [](D& s, const D*) { s.set_space_dimension(1); return std::string(); });
  VX_MUT("remove_space_dimensions({A})", [x](D& s, const D*) { if (s.space_dimension() < 1) return std::string("skipped"); Variables_Set vs; vs.insert(x); s.remove_space_dimensions(vs); return std::string(); });
  VX_MUT("shift_space_dimensions(A,1)", [x](D& s, const D*) { if (s.space_dimension() < 1) return std::string("skipped"); s.shift_space_dimensions(x, 1); return std::string(); });
  VX_MUT("permute_space_dimensions(A->B)", [x, y](D& s, const D*) { if (s.space_dimension() < 2) return std::string("skipped"); std::vector<Variable> cy; cy.push_back(x); cy.push_back(y); s.permute_space_dimensions(cy); return std::string(); });
  VX_MUT("remove_trailing_rows(1)", [](D& s, const D*) { if (s.num_rows() < 1) return std::string("skipped"); s.remove_trailing_rows(1); return std::string(); });
  VX_MUT("insert_verbatim(q(A)/2)", [x](D& s, const D*) { if (s.space_dimension() < 1) return std::string("skipped"); PPL::Grid_Generator g(PPL::parameter(x, 2), s.space_dimension(), s.representation()); s.insert_verbatim(g); return std::string(); });
  VX_MUT("affine_image(A,A+B+1,2)", [x, y](D& s, const D*) { if (s.space_dimension() < 2) return std::string("skipped"); s.affine_image(x, x + y + 1, Coefficient(2)); return std::string(); });
  VX_MUT("remove_invalid_lines_and_parameters()", [](D& s, const D*) { s.remove_invalid_lines_and_parameters(); return std::string(); });
  VX_OBS("print", [](D& s, const D*) { return io_print(s); });
  VX_OBS("num_rows/lines/parameters", [](D& s, const D*) { return std::to_string(s.num_rows()) + "/" + std::to_string(s.num_lines()) + "/" + std::to_string(s.num_parameters()); });
  VX_OBS("has_points()", [](D& s, const D*) { return b2s(s.has_points()); });
  VX_OBS("empty()", [](D& s, const D*) { return b2s(s.empty()); });
  VX_OBS("space_dimension()", [](D& s, const D*) { return std::to_string(s.space_dimension()); });
  VX_OBS("OK()", [](D& s, const D*) { return b2s(s.OK()); });
  VX_BIN("insert(copy of arg,Recycle)", [](D& s, const D* a) { D t(*a); s.insert(t, PPL::Recycle_Input()); return std::string(); });
  VX_BIN("insert(first element of arg)", [](D& s, const D* a) { if (a->begin() == a->end()) return std::string("skipped"); s.insert(*a->begin()); return std::string(); });
  VX_BIN("operator=", [](D& s, const D* a) { s = *a; return std::string(); });
  VX_BINOBS("is_equal_to", [](D& s, const D* a) { return b2s(s.is_equal_to(*a)); });
  fill_io_x<D>(A, []() { return new D(); }, [](const D& a, const D& b) { return a.space_dimension() == b.space_dimension() && a.is_equal_to(b); },
               [](const D& d) { return io_print(d); });
  return A;
}

} // namespace vf
#endif

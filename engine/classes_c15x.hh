// Additional class adapters for C15 (ascii_dump / ascii_load round trip): single rows, grid generator
// systems, low-level rows and matrices, intervals and float boxes, further weakly-relational shapes,
// further powersets / products, PIP / MIP solver states with solution trees.
// Built with -fno-access-control: private member FUNCTIONS that the library's own friend classes call are
// used to reach the internal states the public containers put these objects in; private DATA is only read.
#ifndef VERIF_ENGINE_CLASSES_C15X_HH
#define VERIF_ENGINE_CLASSES_C15X_HH 1
#include "engine/classes.hh"
#include "interfaces/interfaced_boxes.hh"
#include <cmath>
#include <cfloat>
#include <limits>

namespace vf {

#define VX_INIT(nm, ...) A.initials.push_back(std::make_pair(std::string(nm), std::function<D*()>(__VA_ARGS__)))
#define VX_MUT(nm, ...) A.muts.push_back(M(nm, false, __VA_ARGS__))
#define VX_OBS(nm, ...) A.muts.push_back(M(nm, false, __VA_ARGS__, true))
#define VX_BIN(nm, ...) A.muts.push_back(M(nm, true, __VA_ARGS__))
#define VX_BINOBS(nm, ...) A.muts.push_back(M(nm, true, __VA_ARGS__, true))

template <class D>
inline void fill_io_x(ClassAdapter<D>& A, std::function<D*()> blank, std::function<bool(const D&, const D&)> equal,
                      std::function<std::string(const D&)> print) {
  A.dump = [](const D& d) { return dump_of(d); };
  A.blank = blank;
  A.load = [](D& d, const std::string& t) { std::istringstream s(t); return d.ascii_load(s); };
  A.equal = equal;
  A.ok = [](const D& d) { return d.OK(); };
  A.print = print;
}

// ---------------------------------------------------------------------------------------------------
// (a) single rows: Constraint, Generator, Grid_Generator share most of their interface
template <class D>
inline void add_row_common_ops(ClassAdapter<D>& A) {
  typedef Mut<D> M;
  Variable x(0), y(1), z(2);
  VX_MUT("set_space_dimension(3)", [](D& c, const D*) { c.set_space_dimension(3); return std::string(); });
  VX_MUT("set_space_dimension(1)", [](D& c, const D*) { c.set_space_dimension(1); return std::string(); });
  VX_MUT("set_space_dimension(0)", [](D& c, const D*) { c.set_space_dimension(0); return std::string(); });
  VX_MUT("swap_space_dimensions(A,B)", [x, y](D& c, const D*) { if (c.space_dimension() < 2) return std::string("skipped"); c.swap_space_dimensions(x, y); return std::string(); });
  VX_MUT("remove_space_dimensions({A})", [x](D& c, const D*) { if (c.space_dimension() < 1) return std::string("skipped"); Variables_Set vs; vs.insert(x); return b2s(c.remove_space_dimensions(vs)); });
  VX_MUT("remove_space_dimensions({B,C})", [y, z](D& c, const D*) { if (c.space_dimension() < 3) return std::string("skipped"); Variables_Set vs; vs.insert(y); vs.insert(z); return b2s(c.remove_space_dimensions(vs)); });
  VX_MUT("permute_space_dimensions(A->B->C)", [x, y, z](D& c, const D*) { if (c.space_dimension() < 3) return std::string("skipped"); std::vector<Variable> cy; cy.push_back(x); cy.push_back(y); cy.push_back(z); c.permute_space_dimensions(cy); return std::string(); });
  VX_MUT("shift_space_dimensions(A,1)", [x](D& c, const D*) { if (c.space_dimension() < 1) return std::string("skipped"); c.shift_space_dimensions(x, 1); return std::string(); });
  VX_MUT("shift_space_dimensions(B,2)", [y](D& c, const D*) { if (c.space_dimension() < 2) return std::string("skipped"); c.shift_space_dimensions(y, 2); return std::string(); });
  VX_MUT("set_representation(SPARSE)", [](D& c, const D*) { c.set_representation(PPL::SPARSE); return std::string(); });
  VX_MUT("set_representation(DENSE)", [](D& c, const D*) { c.set_representation(PPL::DENSE); return std::string(); });
  VX_MUT("strong_normalize()", [](D& c, const D*) { c.strong_normalize(); return std::string(); });
  VX_OBS("print", [](D& c, const D*) { return io_print(c); });
  VX_OBS("type()", [](D& c, const D*) { return std::to_string((int)c.type()); });
  VX_OBS("space_dimension()", [](D& c, const D*) { return std::to_string(c.space_dimension()); });
  VX_OBS("coefficient(A)", [x](D& c, const D*) { if (c.space_dimension() < 1) return std::string("skipped"); return io_print(c.coefficient(x)); });
  VX_OBS("coefficient(C)", [z](D& c, const D*) { if (c.space_dimension() < 3) return std::string("skipped"); return io_print(c.coefficient(z)); });
  VX_OBS("representation()", [](D& c, const D*) { return std::string(c.representation() == PPL::DENSE ? "DENSE" : "SPARSE"); });
  VX_OBS("OK()", [](D& c, const D*) { return b2s(c.OK()); });
  VX_OBS("check_strong_normalized()", [](D& c, const D*) { return b2s(c.check_strong_normalized()); });
  VX_BINOBS("is_equal_to", [](D& c, const D* a) { return b2s(c.is_equal_to(*a)); });
  VX_BINOBS("is_equivalent_to", [](D& c, const D* a) { return b2s(c.is_equivalent_to(*a)); });
  VX_BINOBS("compare", [](D& c, const D* a) { if (c.space_dimension() != a->space_dimension() || c.is_necessarily_closed() != a->is_necessarily_closed()) return std::string("skipped"); return std::to_string(compare(c, *a)); });
  VX_BIN("operator=", [](D& c, const D* a) { c = *a; return std::string(); });
  VX_BIN("m_swap(copy of arg)", [](D& c, const D* a) { D t(*a); c.m_swap(t); return std::string(); });
  VX_BIN("linear_combine(arg,A) if applicable", [](D& c, const D* a) {
    if (c.space_dimension() != a->space_dimension() || c.space_dimension() < 1 || c.is_necessarily_closed() != a->is_necessarily_closed()) return std::string("skipped");
    if (c.expr.get(Variable(0)) == 0 || a->expr.get(Variable(0)) == 0) return std::string("skipped");
    c.linear_combine(*a, 1); return std::string(); });
}

inline ClassAdapter<PPL::Constraint> constraint_adapter() {
  typedef PPL::Constraint D; typedef Mut<D> M;
  ClassAdapter<D> A; A.name = "Constraint";
  Variable x(0), y(1), z(2);
  VX_INIT("default", []() { return new D(); });
  VX_INIT("A>=0", [x]() { return new D(x >= 0); });
  VX_INIT("A+2B==3", [x, y]() { return new D(x + 2 * y == 3); });
  VX_INIT("B>1", [y]() { return new D(y > 1); });
  VX_INIT("2A-3C<=5 sparse", [x, z]() { D c(2 * x - 3 * z <= 5); return new D(c, PPL::SPARSE); });
  VX_INIT("zero_dim_false", []() { return new D(D::zero_dim_false()); });
  VX_INIT("from congruence A-B==2", [x, y]() { return new D((x - y %= 2) / 0); });
  VX_INIT("A<B in dimension 4 sparse", [x, y]() { D c(x < y); return new D(c, 4, PPL::SPARSE); });
  VX_INIT("epsilon_leq_one", []() { return new D(D::epsilon_leq_one()); });
  add_row_common_ops(A);
  VX_MUT("set_not_necessarily_closed() if C", [](D& c, const D*) { if (!c.is_necessarily_closed()) return std::string("skipped"); c.set_not_necessarily_closed(); return std::string(); });
  VX_MUT("set_necessarily_closed() if NNC non-strict", [](D& c, const D*) { if (c.is_necessarily_closed() || c.epsilon_coefficient() != 0) return std::string("skipped"); c.set_necessarily_closed(); return std::string(); });
  VX_MUT("set_is_equality()", [](D& c, const D*) { if (!c.is_necessarily_closed() && c.epsilon_coefficient() != 0) return std::string("skipped"); c.set_is_equality(); return std::string(); });
  VX_MUT("set_is_inequality()", [](D& c, const D*) { c.set_is_inequality(); return std::string(); });
  VX_MUT("set_epsilon_coefficient(-1) if NNC inequality", [](D& c, const D*) { if (c.is_necessarily_closed() || c.is_equality()) return std::string("skipped"); c.set_epsilon_coefficient(Coefficient(-1)); return std::string(); });
  VX_MUT("sign_normalize()", [](D& c, const D*) { c.sign_normalize(); return std::string(); });
  VX_OBS("is_tautological()", [](D& c, const D*) { return b2s(c.is_tautological()); });
  VX_OBS("is_inconsistent()", [](D& c, const D*) { return b2s(c.is_inconsistent()); });
  VX_OBS("inhomogeneous_term()", [](D& c, const D*) { return io_print(c.inhomogeneous_term()); });
  fill_io_x<D>(A, []() { return new D(); }, [](const D& a, const D& b) { return a.is_equal_to(b) && a.topology() == b.topology() && a.space_dimension() == b.space_dimension(); },
               [](const D& d) { return io_print(d) + (d.is_necessarily_closed() ? " (C)" : " (NNC)"); });
  return A;
}

inline ClassAdapter<PPL::Generator> generator_adapter() {
  typedef PPL::Generator D; typedef Mut<D> M;
  ClassAdapter<D> A; A.name = "Generator";
  Variable x(0), y(1), z(2);
  VX_INIT("default", []() { return new D(); });
  VX_INIT("p(2A+B)/3", [x, y]() { return new D(PPL::point(2 * x + y, 3)); });
  VX_INIT("r(A-B)", [x, y]() { return new D(PPL::ray(x - y)); });
  VX_INIT("l(C)", [z]() { return new D(PPL::line(z)); });
  VX_INIT("c(A+B)/2", [x, y]() { return new D(PPL::closure_point(x + y, 2)); });
  VX_INIT("p(-A+4C) sparse", [x, z]() { return new D(D::point(4 * z - x, Coefficient(1), PPL::SPARSE)); });
  VX_INIT("zero_dim_closure_point", []() { return new D(D::zero_dim_closure_point()); });
  VX_INIT("r(2B) in dimension 4 sparse", [y]() { D g(PPL::ray(2 * y)); return new D(g, 4, PPL::SPARSE); });
  add_row_common_ops(A);
  VX_MUT("set_not_necessarily_closed() if C", [](D& c, const D*) { if (!c.is_necessarily_closed()) return std::string("skipped"); c.set_not_necessarily_closed(); return std::string(); });
  VX_MUT("set_necessarily_closed() if NNC and not a closure point", [](D& c, const D*) { if (c.is_necessarily_closed() || c.is_closure_point()) return std::string("skipped"); c.set_necessarily_closed(); return std::string(); });
  VX_MUT("set_is_line() if ray", [](D& c, const D*) { if (!c.is_ray()) return std::string("skipped"); c.set_is_line(); return std::string(); });
  VX_MUT("set_is_ray_or_point() if line", [](D& c, const D*) { if (!c.is_line()) return std::string("skipped"); c.set_is_ray_or_point(); return std::string(); });
  VX_MUT("set_epsilon_coefficient(0) if NNC point", [](D& c, const D*) { if (c.is_necessarily_closed() || !c.is_point()) return std::string("skipped"); c.set_epsilon_coefficient(Coefficient(0)); return std::string(); });
  VX_MUT("sign_normalize()", [](D& c, const D*) { c.sign_normalize(); return std::string(); });
  VX_OBS("divisor()", [](D& c, const D*) { if (c.is_line_or_ray()) return std::string("skipped"); return io_print(c.divisor()); });
  VX_BINOBS("is_matching_closure_point", [](D& c, const D* a) { if (c.is_necessarily_closed() || a->is_necessarily_closed() || !c.is_closure_point() || !a->is_point() || c.space_dimension() != a->space_dimension()) return std::string("skipped"); return b2s(c.is_matching_closure_point(*a)); });
  fill_io_x<D>(A, []() { return new D(); }, [](const D& a, const D& b) { return a.is_equal_to(b) && a.topology() == b.topology() && a.space_dimension() == b.space_dimension(); },
               [](const D& d) { return io_print(d) + (d.is_necessarily_closed() ? " (C)" : " (NNC)"); });
  return A;
}

inline ClassAdapter<PPL::Grid_Generator> grid_generator_adapter() {
  typedef PPL::Grid_Generator D; typedef Mut<D> M;
  ClassAdapter<D> A; A.name = "Grid_Generator";
  Variable x(0), y(1), z(2);
  VX_INIT("default", []() { return new D(); });
  VX_INIT("p(A+B)/2", [x, y]() { return new D(PPL::grid_point(x + y, 2)); });
  VX_INIT("q(3B)/2", [y]() { return new D(PPL::parameter(3 * y, 2)); });
  VX_INIT("l(A-C)", [x, z]() { return new D(PPL::grid_line(x - z)); });
  VX_INIT("q(2A-C) sparse", [x, z]() { return new D(D::parameter(2 * x - z, Coefficient(1), PPL::SPARSE)); });
  VX_INIT("zero_dim_point", []() { return new D(D::zero_dim_point()); });
  VX_INIT("p(4B) in dimension 4 sparse", [y]() { D g(PPL::grid_point(4 * y)); return new D(g, 4, PPL::SPARSE); });
  VX_INIT("q(0) in dimension 2", [x, y]() { return new D(PPL::parameter(0 * x + 0 * y)); });
  add_row_common_ops(A);
  VX_MUT("scale_to_divisor(6) if applicable", [](D& c, const D*) { if (c.is_line() || Coefficient(6) % c.divisor() != 0) return std::string("skipped"); c.scale_to_divisor(Coefficient(6)); return std::string(); });
  VX_MUT("set_divisor(4) if not a line", [](D& c, const D*) { if (c.is_line()) return std::string("skipped"); c.set_divisor(Coefficient(4)); return std::string(); });
  VX_MUT("set_is_parameter()", [](D& c, const D*) { c.set_is_parameter(); return std::string(); });
  VX_MUT("set_is_line()", [](D& c, const D*) { c.set_is_line(); return std::string(); });
  VX_MUT("sign_normalize()", [](D& c, const D*) { c.sign_normalize(); return std::string(); });
  VX_OBS("divisor()", [](D& c, const D*) { if (c.is_line()) return std::string("skipped"); return io_print(c.divisor()); });
  VX_OBS("all_homogeneous_terms_are_zero()", [](D& c, const D*) { return b2s(c.all_homogeneous_terms_are_zero()); });
  VX_OBS("is_parameter()/is_point()/is_line()", [](D& c, const D*) { return b2s(c.is_parameter()) + b2s(c.is_point()) + b2s(c.is_line()); });
  fill_io_x<D>(A, []() { return new D(); }, [](const D& a, const D& b) { return a.is_equal_to(b) && a.space_dimension() == b.space_dimension(); },
               [](const D& d) { return io_print(d); });
  return A;
}

inline ClassAdapter<PPL::Congruence> congruence_adapter() {
  typedef PPL::Congruence D; typedef Mut<D> M;
  ClassAdapter<D> A; A.name = "Congruence";
  Variable x(0), y(1), z(2);
  VX_INIT("default", []() { return new D(); });
  VX_INIT("A=0 mod 2", [x]() { return new D((x %= 0) / 2); });
  VX_INIT("A+B=1 mod 3", [x, y]() { return new D((x + y %= 1) / 3); });
  VX_INIT("C==1", [z]() { return new D((z %= 1) / 0); });
  VX_INIT("from constraint A-B==2", [x, y]() { return new D(Constraint(x - y == 2)); });
  VX_INIT("2A-5C=7 mod 4 sparse", [x, z]() { D c((2 * x - 5 * z %= 7) / 4); return new D(c, PPL::SPARSE); });
  VX_INIT("zero_dim_false", []() { return new D(D::zero_dim_false()); });
  VX_INIT("zero_dim_integrality", []() { return new D(D::zero_dim_integrality()); });
  VX_INIT("-A=-5 mod 3 in dimension 4", [x]() { D c((-x %= -5) / 3); return new D(c, 4); });
  VX_MUT("/=2", [](D& c, const D*) { c /= Coefficient(2); return std::string(); });
  VX_MUT("/=-3", [](D& c, const D*) { c /= Coefficient(-3); return std::string(); });
  VX_MUT("/=0", [](D& c, const D*) { c /= Coefficient(0); return std::string(); });
  VX_MUT("set_modulus(5)", [](D& c, const D*) { c.set_modulus(Coefficient(5)); return std::string(); });
  VX_MUT("set_modulus(0)", [](D& c, const D*) { c.set_modulus(Coefficient(0)); return std::string(); });
  VX_MUT("scale(2)", [](D& c, const D*) { c.scale(Coefficient(2)); return std::string(); });
  VX_MUT("scale(-1)", [](D& c, const D*) { c.scale(Coefficient(-1)); return std::string(); });
  VX_MUT("affine_preimage(A,A+B+1,2)", [x, y](D& c, const D*) { if (c.space_dimension() < 2) return std::string("skipped"); c.affine_preimage(x, x + y + 1, Coefficient(2)); return std::string(); });
  VX_MUT("set_space_dimension(3)", [](D& c, const D*) { c.set_space_dimension(3); return std::string(); });
  VX_MUT("set_space_dimension(1)", [](D& c, const D*) { c.set_space_dimension(1); return std::string(); });
  VX_MUT("set_space_dimension(0)", [](D& c, const D*) { c.set_space_dimension(0); return std::string(); });
  VX_MUT("swap_space_dimensions(A,B)", [x, y](D& c, const D*) { if (c.space_dimension() < 2) return std::string("skipped"); c.swap_space_dimensions(x, y); return std::string(); });
  VX_MUT("permute_space_dimensions(A->B->C)", [x, y, z](D& c, const D*) { if (c.space_dimension() < 3) return std::string("skipped"); std::vector<Variable> cy; cy.push_back(x); cy.push_back(y); cy.push_back(z); c.permute_space_dimensions(cy); return std::string(); });
  VX_MUT("shift_space_dimensions(A,1)", [x](D& c, const D*) { if (c.space_dimension() < 1) return std::string("skipped"); c.shift_space_dimensions(x, 1); return std::string(); });
  VX_MUT("set_representation(SPARSE)", [](D& c, const D*) { c.set_representation(PPL::SPARSE); return std::string(); });
  VX_MUT("set_representation(DENSE)", [](D& c, const D*) { c.set_representation(PPL::DENSE); return std::string(); });
  VX_MUT("sign_normalize()", [](D& c, const D*) { c.sign_normalize(); return std::string(); });
  VX_MUT("normalize()", [](D& c, const D*) { c.normalize(); return std::string(); });
  VX_MUT("strong_normalize()", [](D& c, const D*) { c.strong_normalize(); return std::string(); });
  VX_OBS("print", [](D& c, const D*) { return io_print(c); });
  VX_OBS("is_tautological()", [](D& c, const D*) { return b2s(c.is_tautological()); });
  VX_OBS("is_inconsistent()", [](D& c, const D*) { return b2s(c.is_inconsistent()); });
  VX_OBS("is_proper_congruence()", [](D& c, const D*) { return b2s(c.is_proper_congruence()); });
  VX_OBS("modulus()", [](D& c, const D*) { return io_print(c.modulus()); });
  VX_OBS("inhomogeneous_term()", [](D& c, const D*) { return io_print(c.inhomogeneous_term()); });
  VX_OBS("coefficient(A)", [x](D& c, const D*) { if (c.space_dimension() < 1) return std::string("skipped"); return io_print(c.coefficient(x)); });
  VX_OBS("space_dimension()", [](D& c, const D*) { return std::to_string(c.space_dimension()); });
  VX_OBS("OK()", [](D& c, const D*) { return b2s(c.OK()); });
  VX_BINOBS("operator==", [](D& c, const D* a) { return b2s(c == *a); });
  VX_BIN("operator=", [](D& c, const D* a) { c = *a; return std::string(); });
  VX_BIN("m_swap(copy of arg)", [](D& c, const D* a) { D t(*a); c.m_swap(t); return std::string(); });
  fill_io_x<D>(A, []() { return new D(); }, [](const D& a, const D& b) { return a.space_dimension() == b.space_dimension() && a.modulus() == b.modulus() && a.expr.is_equal_to(b.expr); },
               [](const D& d) { return io_print(d); });
  return A;
}

// ---- Grid_Generator_System (public interface + the friend-level operations used by Grid)
inline ClassAdapter<PPL::Grid_Generator_System> ggsys_adapter() {
  typedef PPL::Grid_Generator_System D; typedef Mut<D> M;
  ClassAdapter<D> A; A.name = "Grid_Generator_System";
  Variable x(0), y(1), z(2);
  VX_INIT("{}", []() { return new D(); });
  VX_INIT("{p(0,0),q(2A),l(B)}", [x, y]() { D* s = new D(); s->insert(PPL::grid_point(0 * y)); s->insert(PPL::parameter(2 * x)); s->insert(PPL::grid_line(y)); return s; });
  VX_INIT("{p(A+B)/2,q(3C)/2}", [x, y, z]() { D* s = new D(); s->insert(PPL::grid_point(x + y + 0 * z, 2)); s->insert(PPL::parameter(3 * z, 2)); return s; });
  VX_INIT("dim(2)", []() { return new D(2); });
  VX_INIT("single p(A-C)", [x, z]() { return new D(PPL::grid_point(x - z)); });
  VX_INIT("{l(A),p(B)/3} sparse", [x, y]() { D* s = new D(PPL::SPARSE); s->insert(PPL::grid_line(x)); s->insert(PPL::grid_point(y, 3)); return s; });
  VX_INIT("zero_dim_univ", []() { return new D(D::zero_dim_univ()); });
  VX_MUT("insert(p(A))", [x](D& s, const D*) { s.insert(PPL::grid_point(x)); return std::string(); });
  VX_MUT("insert(p(A+3B)/2)", [x, y](D& s, const D*) { s.insert(PPL::grid_point(x + 3 * y, 2)); return std::string(); });
  VX_MUT("insert(q(B)/3)", [y](D& s, const D*) { s.insert(PPL::parameter(y, 3)); return std::string(); });
  VX_MUT("insert(q(0))", [](D& s, const D*) { s.insert(PPL::parameter()); return std::string(); });
  VX_MUT("insert(q(0*D))", [](D& s, const D*) { s.insert(PPL::parameter(0 * Variable(3))); return std::string(); });
  VX_MUT("insert(l(A+B))", [x, y](D& s, const D*) { s.insert(PPL::grid_line(x + y)); return std::string(); });
  VX_MUT("insert(l(C),Recycle)", [z](D& s, const D*) { PPL::Grid_Generator g = PPL::grid_line(z); s.insert(g, PPL::Recycle_Input()); return std::string(); });
  VX_MUT("insert(first element of itself)", [](D& s, const D*) { if (s.begin() == s.end()) return std::string("skipped"); PPL::Grid_Generator g(*s.begin()); s.insert(g); return std::string(); });
  VX_MUT("clear()", [](D& s, const D*) { s.clear(); return std::string(); });
  VX_MUT("set_representation(SPARSE)", [](D& s, const D*) { s.set_representation(PPL::SPARSE); return std::string(); });
  VX_MUT("set_representation(DENSE)", [](D& s, const D*) { s.set_representation(PPL::DENSE); return std::string(); });
  VX_MUT("add_universe_rows_and_columns(1)", [](D& s, const D*) { s.add_universe_rows_and_columns(1); return std::string(); });
  VX_MUT("set_space_dimension(3)", [](D& s, const D*) { s.set_space_dimension(3); return std::string(); });
  VX_MUT("set_space_dimension(1)", [](D& s, const D*) { s.set_space_dimension(1); return std::string(); });
  VX_MUT("remove_space_dimensions({A})", [x](D& s, const D*) { if (s.space_dimension() < 1) return std::string("skipped"); Variables_Set vs; vs.insert(x); s.remove_space_dimensions(vs); return std::string(); });
  VX_MUT("shift_space_dimensions(A,1)", [x](D& s, const D*) { if (s.space_dimension() < 1) return std::string("skipped"); s.shift_space_dimensions(x, 1); return std::string(); });
  VX_MUT("permute_space_dimensions(A->B)", [x, y](D& s, const D*) { if (s.space_dimension() < 2) return std::string("skipped"); std::vector<Variable> cy; cy.push_back(x); cy.push_back(y); s.permute_space_dimensions(cy); return std::string(); });
  VX_MUT("remove_trailing_rows(1)", [](D& s, const D*) { if (s.num_rows() < 1) return std::string("skipped"); s.remove_trailing_rows(1); return std::string(); });
  VX_MUT("insert_verbatim(q(A)/2)", [x](D& s, const D*) { if (s.space_dimension() < 1) return std::string("skipped"); PPL::Grid_Generator g(PPL::parameter(x, 2), s.space_dimension(), s.representation()); s.insert_verbatim(g); return std::string(); });
  VX_MUT("affine_image(A,A+B+1,2)", [x, y](D& s, const D*) { if (s.space_dimension() < 2) return std::string("skipped"); s.affine_image(x, x + y + 1, Coefficient(2)); return std::string(); });
  VX_MUT("remove_invalid_lines_and_parameters()", [](D& s, const D*) { s.remove_invalid_lines_and_parameters(); return std::string(); });
  VX_OBS("print", [](D& s, const D*) { return io_print(s); });
  VX_OBS("num_rows/lines/parameters", [](D& s, const D*) { return std::to_string(s.num_rows()) + "/" + std::to_string(s.num_lines()) + "/" + std::to_string(s.num_parameters()); });
  VX_OBS("has_points()", [](D& s, const D*) { return b2s(s.has_points()); });
  VX_OBS("empty()", [](D& s, const D*) { return b2s(s.empty()); });
  VX_OBS("space_dimension()", [](D& s, const D*) { return std::to_string(s.space_dimension()); });
  VX_OBS("OK()", [](D& s, const D*) { return b2s(s.OK()); });
  VX_BIN("insert(copy of arg,Recycle)", [](D& s, const D* a) { D t(*a); s.insert(t, PPL::Recycle_Input()); return std::string(); });
  VX_BIN("insert(first element of arg)", [](D& s, const D* a) { if (a->begin() == a->end()) return std::string("skipped"); s.insert(*a->begin()); return std::string(); });
  VX_BIN("operator=", [](D& s, const D* a) { s = *a; return std::string(); });
  VX_BINOBS("is_equal_to", [](D& s, const D* a) { return b2s(s.is_equal_to(*a)); });
  fill_io_x<D>(A, []() { return new D(); }, [](const D& a, const D& b) { return a.space_dimension() == b.space_dimension() && a.is_equal_to(b); },
               [](const D& d) { return io_print(d); });
  return A;
}

// ---------------------------------------------------------------------------------------------------
// (b) low-level rows and matrices (internal classes: they are the building blocks of the dumps of the
// public objects; their own contract is "ascii_load returns true and *this equals the dumped object")
inline std::string coeff_text(const Coefficient& c) { return io_print(c); }
inline Coefficient big_coeff() { Coefficient c(1); c <<= 70; c += 3; return c; }

template <class R> inline std::string row_values(const R& r) {
  std::string s = "[";
  for (PPL::dimension_type i = 0; i < r.size(); ++i) { s += coeff_text(r.get(i)); s += ' '; }
  return s + "]";
}
template <class R> inline bool row_equal(const R& a, const R& b) {
  if (a.size() != b.size()) return false;
  for (PPL::dimension_type i = 0; i < a.size(); ++i) if (a.get(i) != b.get(i)) return false;
  return true;
}

template <class D>
inline void add_row_storage_ops(ClassAdapter<D>& A) {     // operations common to Dense_Row and Sparse_Row
  typedef Mut<D> M;
  VX_MUT("resize(6)", [](D& r, const D*) { r.resize(6); return std::string(); });
  VX_MUT("resize(2)", [](D& r, const D*) { r.resize(2); return std::string(); });
  VX_MUT("resize(0)", [](D& r, const D*) { r.resize(0); return std::string(); });
  VX_MUT("resize(70)", [](D& r, const D*) { r.resize(70); return std::string(); });
  VX_MUT("clear()", [](D& r, const D*) { r.clear(); return std::string(); });
  VX_MUT("shrink(1)", [](D& r, const D*) { if (r.size() < 1) return std::string("skipped"); r.shrink(1); return std::string(); });
  VX_MUT("add_zeroes_and_shift(2,1)", [](D& r, const D*) { if (r.size() < 1) return std::string("skipped"); r.add_zeroes_and_shift(2, 1); return std::string(); });
  VX_MUT("add_zeroes_and_shift(1,size)", [](D& r, const D*) { r.add_zeroes_and_shift(1, r.size()); return std::string(); });
  VX_MUT("[0]=7", [](D& r, const D*) { if (r.size() < 1) return std::string("skipped"); r[0] = 7; return std::string(); });
  VX_MUT("[last]=-2^70-3", [](D& r, const D*) { if (r.size() < 1) return std::string("skipped"); r[r.size() - 1] = -big_coeff(); return std::string(); });
  VX_MUT("[1]=0", [](D& r, const D*) { if (r.size() < 2) return std::string("skipped"); r[1] = 0; return std::string(); });
  VX_MUT("insert(1,9)", [](D& r, const D*) { if (r.size() < 2) return std::string("skipped"); r.insert(1, Coefficient(9)); return std::string(); });
  VX_MUT("insert(2)", [](D& r, const D*) { if (r.size() < 3) return std::string("skipped"); r.insert(2); return std::string(); });
  VX_MUT("reset(0)", [](D& r, const D*) { if (r.size() < 1) return std::string("skipped"); r.reset(0); return std::string(); });
  VX_MUT("normalize()", [](D& r, const D*) { r.normalize(); return std::string(); });
  VX_MUT("swap_coefficients(0,1)", [](D& r, const D*) { if (r.size() < 2) return std::string("skipped"); r.swap_coefficients(0, 1); return std::string(); });
  VX_OBS("size()", [](D& r, const D*) { return std::to_string(r.size()); });
  VX_OBS("values", [](D& r, const D*) { return row_values(r); });
  VX_OBS("find(1)/lower_bound(1)", [](D& r, const D*) { if (r.size() < 2) return std::string("skipped");
    const D& c = r; typename D::const_iterator i = c.find(1), j = c.lower_bound(1);
    return std::string(i == c.end() ? "end" : std::to_string(i.index()) + "=" + coeff_text(*i)) + "/" + (j == c.end() ? "end" : std::to_string(j.index()) + "=" + coeff_text(*j)); });
  VX_OBS("OK()", [](D& r, const D*) { return b2s(r.OK()); });
  VX_BIN("linear_combine(arg,2,3)", [](D& r, const D* a) { if (r.size() != a->size()) return std::string("skipped"); r.linear_combine(*a, Coefficient(2), Coefficient(3)); return std::string(); });
  VX_BIN("linear_combine(arg,1,-1,1,size)", [](D& r, const D* a) { if (r.size() != a->size() || r.size() < 2) return std::string("skipped"); r.linear_combine(*a, Coefficient(1), Coefficient(-1), 1, r.size()); return std::string(); });
  VX_BIN("operator=", [](D& r, const D* a) { r = *a; return std::string(); });
  VX_BIN("m_swap(copy of arg)", [](D& r, const D* a) { D t(*a); r.m_swap(t); return std::string(); });
  fill_io_x<D>(A, []() { return new D(); }, [](const D& a, const D& b) { return row_equal(a, b); }, [](const D& d) { return row_values(d); });
}

inline ClassAdapter<PPL::Dense_Row> dense_row_adapter() {
  typedef PPL::Dense_Row D; typedef Mut<D> M;
  ClassAdapter<D> A; A.name = "Dense_Row";
  VX_INIT("()", []() { return new D(); });
  VX_INIT("(3)", []() { return new D(3); });
  VX_INIT("[2,-3,0,5]", []() { D* r = new D(4); (*r)[0] = 2; (*r)[1] = -3; (*r)[3] = 5; return r; });
  VX_INIT("[1,4] capacity 5", []() { D* r = new D(2, 5); (*r)[0] = 1; (*r)[1] = 4; return r; });
  VX_INIT("from Sparse_Row {1:6,4:-1} size 6", []() { PPL::Sparse_Row sr(6); sr.insert(1, Coefficient(6)); sr.insert(4, Coefficient(-1)); return new D(sr); });
  VX_INIT("[2^70+3,0,-1]", []() { D* r = new D(3); (*r)[0] = big_coeff(); (*r)[2] = -1; return r; });
  add_row_storage_ops(A);
  // capacity is an allocation detail that the dump does not record: operations whose applicability depends on it
  // (expand_within_capacity, resize(sz, cap) with cap <= capacity()) are not compared between original and loaded copy.
  // NB Dense_Row::resize(sz, cap) with cap == capacity() leaves the size unchanged (defect outside this property).
  VX_MUT("resize(3,capacity+3)", [](D& r, const D*) { r.resize(3, r.capacity() + 3); return std::string(); });
  VX_MUT("resize(0,0)", [](D& r, const D*) { r.resize(0, 0); return std::string(); });
  VX_MUT("reset(0,2)", [](D& r, const D*) { if (r.size() < 2) return std::string("skipped"); r.reset(0, 2); return std::string(); });
  // Dense_Row::operator=(const Sparse_Row&) is not in the menu: it writes past the live elements (unused by the
  // library; a memory-safety matter of C16, not of the round trip).
  return A;
}

inline ClassAdapter<PPL::Sparse_Row> sparse_row_adapter() {
  typedef PPL::Sparse_Row D; typedef Mut<D> M;
  ClassAdapter<D> A; A.name = "Sparse_Row";
  VX_INIT("()", []() { return new D(); });
  VX_INIT("(4)", []() { return new D(4); });
  VX_INIT("{0:2,3:-5} size 5", []() { D* r = new D(5); r->insert(0, Coefficient(2)); r->insert(3, Coefficient(-5)); return r; });
  VX_INIT("{1:0 stored,2:4} size 3", []() { D* r = new D(3); r->insert(1); r->insert(2, Coefficient(4)); return r; });
  VX_INIT("from Dense_Row [0,7,0,0,-1]", []() { PPL::Dense_Row dr(5); dr[1] = 7; dr[4] = -1; return new D(dr); });
  VX_INIT("{70:2^70+3} size 100", []() { D* r = new D(100); r->insert(70, big_coeff()); return r; });
  VX_INIT("{0..7 all stored} size 8", []() { D* r = new D(8); for (int i = 0; i < 8; ++i) r->insert(i, Coefficient(i - 3)); return r; });
  add_row_storage_ops(A);
  VX_MUT("delete_element_and_shift(0)", [](D& r, const D*) { if (r.size() < 1) return std::string("skipped"); r.delete_element_and_shift(0); return std::string(); });
  VX_MUT("reset_after(1)", [](D& r, const D*) { if (r.size() < 2) return std::string("skipped"); r.reset_after(1); return std::string(); });
  VX_MUT("reset(begin,end)", [](D& r, const D*) { r.reset(r.begin(), r.end()); return std::string(); });
  VX_MUT("=Dense_Row[3,0]", [](D& r, const D*) { PPL::Dense_Row dr(2); dr[0] = 3; r = dr; return std::string(); });
  VX_OBS("num_stored_elements()", [](D& r, const D*) { return std::to_string(r.num_stored_elements()); });
  return A;
}

inline void add_remove_column_op(ClassAdapter<PPL::Matrix<PPL::Sparse_Row> >& A) {   // Dense_Row has no delete_element_and_shift
  typedef PPL::Matrix<PPL::Sparse_Row> D; typedef Mut<D> M;
  VX_MUT("remove_column(0)", [](D& m, const D*) { if (m.num_columns() < 1) return std::string("skipped"); m.remove_column(0); return std::string(); });
}
inline void add_remove_column_op(ClassAdapter<PPL::Matrix<PPL::Dense_Row> >&) {}
template <class Row>
inline ClassAdapter<PPL::Matrix<Row> > matrix_adapter(const std::string& name) {
  typedef PPL::Matrix<Row> D; typedef Mut<D> M;
  ClassAdapter<D> A; A.name = name;
  VX_INIT("()", []() { return new D(); });
  VX_INIT("(2)", []() { return new D(2); });
  VX_INIT("2x3 [[1,0,-2],[0,5,0]]", []() { D* m = new D(2, 3); (*m)[0][0] = 1; (*m)[0][2] = -2; (*m)[1][1] = 5; return m; });
  VX_INIT("3x2 [[0,0],[2^70+3,1],[0,-1]]", []() { D* m = new D(3, 2); (*m)[1][0] = big_coeff(); (*m)[1][1] = 1; (*m)[2][1] = -1; return m; });
  VX_INIT("0x4 after remove_trailing_rows", []() { D* m = new D(2, 4); (*m)[0][3] = 9; m->remove_trailing_rows(2); return m; });
  VX_INIT("1x70 with [0][65]=4", []() { D* m = new D(1, 70); (*m)[0][65] = 4; return m; });
  VX_MUT("resize(3)", [](D& m, const D*) { m.resize(3); return std::string(); });
  VX_MUT("resize(1,4)", [](D& m, const D*) { m.resize(1, 4); return std::string(); });
  VX_MUT("resize(4,1)", [](D& m, const D*) { m.resize(4, 1); return std::string(); });
  VX_MUT("resize(0,0)", [](D& m, const D*) { m.resize(0, 0); return std::string(); });
  VX_MUT("add_zero_rows_and_columns(1,1)", [](D& m, const D*) { m.add_zero_rows_and_columns(1, 1); return std::string(); });
  VX_MUT("add_zero_rows(2)", [](D& m, const D*) { m.add_zero_rows(2); return std::string(); });
  VX_MUT("add_row(1,2,..)", [](D& m, const D*) { Row r(m.num_columns()); for (PPL::dimension_type i = 0; i < m.num_columns(); ++i) if (i % 2 == 0) r.insert(i, Coefficient((long)i + 1)); m.add_row(r); return std::string(); });
  VX_MUT("add_recycled_row(-1,..)", [](D& m, const D*) { Row r(m.num_columns()); if (m.num_columns() > 0) r.insert(0, Coefficient(-1)); m.add_recycled_row(r); return std::string(); });
  VX_MUT("remove_trailing_rows(1)", [](D& m, const D*) { if (m.num_rows() < 1) return std::string("skipped"); m.remove_trailing_rows(1); return std::string(); });
  VX_MUT("remove_rows(begin,begin+1)", [](D& m, const D*) { if (m.num_rows() < 1) return std::string("skipped"); m.remove_rows(m.begin(), m.begin() + 1); return std::string(); });
  VX_MUT("permute_columns((1 2))", [](D& m, const D*) { if (m.num_columns() < 3) return std::string("skipped"); std::vector<PPL::dimension_type> cy; cy.push_back(1); cy.push_back(2); cy.push_back(0); m.permute_columns(cy); return std::string(); });
  VX_MUT("swap_columns(0,1)", [](D& m, const D*) { if (m.num_columns() < 2) return std::string("skipped"); m.swap_columns(0, 1); return std::string(); });
  VX_MUT("add_zero_columns(1)", [](D& m, const D*) { m.add_zero_columns(1); return std::string(); });
  VX_MUT("add_zero_columns(2,0)", [](D& m, const D*) { m.add_zero_columns(2, 0); return std::string(); });
  add_remove_column_op(A);
  VX_MUT("remove_trailing_columns(1)", [](D& m, const D*) { if (m.num_columns() < 1) return std::string("skipped"); m.remove_trailing_columns(1); return std::string(); });
  VX_MUT("clear()", [](D& m, const D*) { m.clear(); return std::string(); });
  VX_MUT("reserve_rows(9)", [](D& m, const D*) { m.reserve_rows(9); return std::string(); });
  VX_MUT("[0][0]=5", [](D& m, const D*) { if (m.num_rows() < 1 || m.num_columns() < 1) return std::string("skipped"); m[0][0] = 5; return std::string(); });
  VX_MUT("[last][last]=-2", [](D& m, const D*) { if (m.num_rows() < 1 || m.num_columns() < 1) return std::string("skipped"); m[m.num_rows() - 1][m.num_columns() - 1] = -2; return std::string(); });
  VX_MUT("[0][last]=0", [](D& m, const D*) { if (m.num_rows() < 1 || m.num_columns() < 1) return std::string("skipped"); m[0][m.num_columns() - 1] = 0; return std::string(); });
  VX_OBS("num_rows x num_columns", [](D& m, const D*) { return std::to_string(m.num_rows()) + "x" + std::to_string(m.num_columns()); });
  VX_OBS("values", [](D& m, const D*) { std::string s; for (PPL::dimension_type i = 0; i < m.num_rows(); ++i) s += row_values(m[i]); return s; });
  VX_OBS("OK()", [](D& m, const D*) { return b2s(m.OK()); });
  VX_BIN("operator=", [](D& m, const D* a) { m = *a; return std::string(); });
  VX_BIN("m_swap(copy of arg)", [](D& m, const D* a) { D t(*a); m.m_swap(t); return std::string(); });
  VX_BINOBS("operator==", [](D& m, const D* a) { return b2s(m == *a); });
  VX_BIN("add_row(first row of arg)", [](D& m, const D* a) { if (a->num_rows() < 1 || a->num_columns() != m.num_columns()) return std::string("skipped"); m.add_row((*a)[0]); return std::string(); });
  fill_io_x<D>(A, []() { return new D(); },
               [](const D& a, const D& b) { if (a.num_rows() != b.num_rows() || a.num_columns() != b.num_columns()) return false; for (PPL::dimension_type i = 0; i < a.num_rows(); ++i) if (!row_equal(a[i], b[i])) return false; return true; },
               [](const D& m) { std::string s = std::to_string(m.num_rows()) + "x" + std::to_string(m.num_columns()); for (PPL::dimension_type i = 0; i < m.num_rows(); ++i) s += row_values(m[i]); return s; });
  return A;
}

inline std::string bitmatrix_text(const PPL::Bit_Matrix& m) {
  std::string s = std::to_string(m.num_rows()) + "x" + std::to_string(m.num_columns()) + ":";
  for (PPL::dimension_type i = 0; i < m.num_rows(); ++i) {
    s += "{";
    for (unsigned long j = m[i].first(); j != PPL::C_Integer<unsigned long>::max; j = m[i].next(j)) { s += std::to_string(j); s += ','; }
    s += "}";
  }
  return s;
}
inline bool bitmatrix_sorted(const PPL::Bit_Matrix& m) {
  for (PPL::dimension_type i = 1; i < m.num_rows(); ++i) if (compare(m[i - 1], m[i]) > 0) return false;
  return true;
}

inline long bitmatrix_max_bit(const PPL::Bit_Matrix& m) {
  long mx = -1;
  for (PPL::dimension_type i = 0; i < m.num_rows(); ++i) { unsigned long l = m[i].last(); if (l != PPL::C_Integer<unsigned long>::max && (long)l > mx) mx = (long)l; }
  return mx;
}

inline ClassAdapter<PPL::Bit_Matrix> bit_matrix_adapter() {
  typedef PPL::Bit_Matrix D; typedef Mut<D> M;
  ClassAdapter<D> A; A.name = "Bit_Matrix";
  VX_INIT("()", []() { return new D(); });
  VX_INIT("2x3 zero", []() { return new D(2, 3); });
  VX_INIT("3x5 {0,4}{1}{}", []() { D* m = new D(3, 5); (*m)[0].set(0); (*m)[0].set(4); (*m)[1].set(1); return m; });
  VX_INIT("2x70 {65,69}{0,63,64}", []() { D* m = new D(2, 70); (*m)[0].set(65); (*m)[0].set(69); (*m)[1].set(0); (*m)[1].set(63); (*m)[1].set(64); return m; });
  VX_INIT("4x4 all ones", []() { D* m = new D(4, 4); for (int i = 0; i < 4; ++i) (*m)[i].set_until(4); return m; });
  VX_INIT("0x6 after remove_trailing_rows", []() { D* m = new D(2, 6); (*m)[1].set(5); m->remove_trailing_rows(2); return m; });
  VX_MUT("resize(3,4)", [](D& m, const D*) { m.resize(3, 4); return std::string(); });
  VX_MUT("resize(1,2)", [](D& m, const D*) { m.resize(1, 2); return std::string(); });
  VX_MUT("resize(2,80)", [](D& m, const D*) { m.resize(2, 80); return std::string(); });
  VX_MUT("resize(9,1)", [](D& m, const D*) { m.resize(9, 1); return std::string(); });
  VX_MUT("clear()", [](D& m, const D*) { m.clear(); return std::string(); });
  VX_MUT("transpose()", [](D& m, const D*) { m.transpose(); return std::string(); });
  VX_MUT("sort_rows()", [](D& m, const D*) { m.sort_rows(); return std::string(); });
  VX_MUT("add_recycled_row({0,last})", [](D& m, const D*) { if (m.num_columns() < 1) return std::string("skipped"); PPL::Bit_Row r; r.set(0); r.set(m.num_columns() - 1); m.add_recycled_row(r); return std::string(); });
  VX_MUT("add_recycled_row({})", [](D& m, const D*) { PPL::Bit_Row r; m.add_recycled_row(r); return std::string(); });
  VX_MUT("remove_trailing_rows(1)", [](D& m, const D*) { if (m.num_rows() < 1) return std::string("skipped"); m.remove_trailing_rows(1); return std::string(); });
  VX_MUT("remove_trailing_columns(1) if they hold no bit", [](D& m, const D*) { if (m.num_columns() < 1 || bitmatrix_max_bit(m) + 1 > (long)m.num_columns() - 1) return std::string("skipped"); m.remove_trailing_columns(1); return std::string(); });
  VX_MUT("remove_trailing_columns(3) if they hold no bit", [](D& m, const D*) { if (m.num_columns() < 3 || bitmatrix_max_bit(m) + 1 > (long)m.num_columns() - 3) return std::string("skipped"); m.remove_trailing_columns(3); return std::string(); });
  VX_MUT("[0].set(1)", [](D& m, const D*) { if (m.num_rows() < 1 || m.num_columns() < 2) return std::string("skipped"); m[0].set(1); return std::string(); });
  VX_MUT("[last].set(last)", [](D& m, const D*) { if (m.num_rows() < 1 || m.num_columns() < 1) return std::string("skipped"); m[m.num_rows() - 1].set(m.num_columns() - 1); return std::string(); });
  VX_MUT("[0].clear(0)", [](D& m, const D*) { if (m.num_rows() < 1 || m.num_columns() < 1) return std::string("skipped"); m[0].clear(0); return std::string(); });
  VX_MUT("[last].clear()", [](D& m, const D*) { if (m.num_rows() < 1) return std::string("skipped"); m[m.num_rows() - 1].clear(); return std::string(); });
  VX_OBS("text", [](D& m, const D*) { return bitmatrix_text(m); });
  VX_OBS("sorted_contains({1}) if sorted", [](D& m, const D*) { if (!bitmatrix_sorted(m)) return std::string("skipped"); PPL::Bit_Row r; r.set(1); return b2s(m.sorted_contains(r)); });
  VX_OBS("count_ones/last of rows", [](D& m, const D*) { std::string s; for (PPL::dimension_type i = 0; i < m.num_rows(); ++i) s += std::to_string(m[i].count_ones()) + "/" + std::to_string(m[i].last()) + " "; return s; });
  VX_OBS("OK()", [](D& m, const D*) { return b2s(m.OK()); });
  VX_BIN("operator=", [](D& m, const D* a) { m = *a; return std::string(); });
  VX_BIN("transpose_assign", [](D& m, const D* a) { m.transpose_assign(*a); return std::string(); });
  VX_BIN("m_swap(copy of arg)", [](D& m, const D* a) { D t(*a); m.m_swap(t); return std::string(); });
  VX_BINOBS("operator==", [](D& m, const D* a) { return b2s(m == *a); });
  fill_io_x<D>(A, []() { return new D(); }, [](const D& a, const D& b) { return a.num_columns() == b.num_columns() && a == b; }, [](const D& m) { return bitmatrix_text(m); });
  return A;
}

// ---- bound matrices: a small menu of coefficient values per coefficient type
template <class N> struct ValMenu;
template <class N> inline N vx_pinf() { N n; PPL::assign_r(n, PPL::PLUS_INFINITY, PPL::ROUND_NOT_NEEDED); return n; }
template <class N, class V> inline N vx_val(const V& v) { N n; PPL::assign_r(n, v, PPL::ROUND_NOT_NEEDED); return n; }
template <class P> struct ValMenu<PPL::Checked_Number<mpq_class, P> > {
  typedef PPL::Checked_Number<mpq_class, P> N;
  static std::vector<std::pair<std::string, N> > get() {
    std::vector<std::pair<std::string, N> > v;
    v.push_back(std::make_pair("0", vx_val<N>(mpq_class(0)))); v.push_back(std::make_pair("1/3", vx_val<N>(mpq_class(1, 3))));
    v.push_back(std::make_pair("-7/2", vx_val<N>(mpq_class(-7, 2)))); v.push_back(std::make_pair("(2^70+3)/3", vx_val<N>(mpq_class((mpz_class(1) << 70) + 3, 3))));
    v.push_back(std::make_pair("+inf", vx_pinf<N>()));
    return v; }
};
template <class P> struct ValMenu<PPL::Checked_Number<mpz_class, P> > {
  typedef PPL::Checked_Number<mpz_class, P> N;
  static std::vector<std::pair<std::string, N> > get() {
    std::vector<std::pair<std::string, N> > v;
    v.push_back(std::make_pair("0", vx_val<N>(mpz_class(0)))); v.push_back(std::make_pair("7", vx_val<N>(mpz_class(7))));
    v.push_back(std::make_pair("-2^70-3", vx_val<N>(mpz_class(-(mpz_class(1) << 70) - 3)))); v.push_back(std::make_pair("+inf", vx_pinf<N>()));
    return v; }
};
template <class F, class P> inline std::vector<std::pair<std::string, PPL::Checked_Number<F, P> > > vx_float_menu() {
  typedef PPL::Checked_Number<F, P> N; typedef std::numeric_limits<F> L;
  std::vector<std::pair<std::string, N> > v;
  v.push_back(std::make_pair("0", vx_val<N>(F(0)))); v.push_back(std::make_pair("1.5", vx_val<N>(F(1.5)))); v.push_back(std::make_pair("-0.0", vx_val<N>(-F(0))));
  v.push_back(std::make_pair("0.1", vx_val<N>(F(0.1)))); v.push_back(std::make_pair("denorm_min", vx_val<N>(L::denorm_min()))); v.push_back(std::make_pair("-min_normal", vx_val<N>(-L::min())));
  v.push_back(std::make_pair("max", vx_val<N>(L::max()))); v.push_back(std::make_pair("-max", vx_val<N>(-L::max()))); v.push_back(std::make_pair("+inf", vx_pinf<N>()));
  return v;
}
template <class P> struct ValMenu<PPL::Checked_Number<double, P> > { typedef PPL::Checked_Number<double, P> N; static std::vector<std::pair<std::string, N> > get() { return vx_float_menu<double, P>(); } };
template <class P> struct ValMenu<PPL::Checked_Number<float, P> > { typedef PPL::Checked_Number<float, P> N; static std::vector<std::pair<std::string, N> > get() { return vx_float_menu<float, P>(); } };
template <class I, class P> inline std::vector<std::pair<std::string, PPL::Checked_Number<I, P> > > vx_int_menu() {
  typedef PPL::Checked_Number<I, P> N; typedef std::numeric_limits<I> L;
  std::vector<std::pair<std::string, N> > v;
  v.push_back(std::make_pair("0", vx_val<N>(I(0)))); v.push_back(std::make_pair("5", vx_val<N>(I(5)))); v.push_back(std::make_pair("-1", vx_val<N>(I(-1))));
  v.push_back(std::make_pair("max finite", vx_val<N>(I(L::max() - 1)))); v.push_back(std::make_pair("min finite", vx_val<N>(I(L::min() + 2)))); v.push_back(std::make_pair("+inf", vx_pinf<N>()));
  return v;
}
template <class P> struct ValMenu<PPL::Checked_Number<int8_t, P> > { typedef PPL::Checked_Number<int8_t, P> N; static std::vector<std::pair<std::string, N> > get() { return vx_int_menu<int8_t, P>(); } };
template <class P> struct ValMenu<PPL::Checked_Number<int16_t, P> > { typedef PPL::Checked_Number<int16_t, P> N; static std::vector<std::pair<std::string, N> > get() { return vx_int_menu<int16_t, P>(); } };
template <class P> struct ValMenu<PPL::Checked_Number<int32_t, P> > { typedef PPL::Checked_Number<int32_t, P> N; static std::vector<std::pair<std::string, N> > get() { return vx_int_menu<int32_t, P>(); } };

template <class N> inline std::string num_text(const N& n) { using namespace PPL::IO_Operators; std::ostringstream s; s << n; return s.str(); }
// bit-exact comparison of two coefficients (distinguishes -0.0 from 0.0 for floats)
template <class N> inline bool num_same(const N& a, const N& b) { return a == b; }

template <class N>
inline ClassAdapter<PPL::DB_Matrix<N> > db_matrix_adapter(const std::string& name) {
  typedef PPL::DB_Matrix<N> D; typedef Mut<D> M;
  ClassAdapter<D> A; A.name = name;
  std::vector<std::pair<std::string, N> > vals = ValMenu<N>::get();
  VX_INIT("()", []() { return new D(); });
  VX_INIT("(2)", []() { return new D(2); });
  VX_INIT("(3) menu values row-major", [vals]() { D* m = new D(3); size_t k = 0; for (int i = 0; i < 3; ++i) for (int j = 0; j < 3; ++j) (*m)[i][j] = vals[k++ % vals.size()].second; return m; });
  VX_INIT("(3) all +inf", []() { D* m = new D(3); for (int i = 0; i < 3; ++i) for (int j = 0; j < 3; ++j) (*m)[i][j] = vx_pinf<N>(); return m; });
  VX_INIT("(5) shrunk to 2 by resize_no_copy, menu values reversed", [vals]() { D* m = new D(5); m->resize_no_copy(2); size_t k = vals.size(); for (int i = 0; i < 2; ++i) for (int j = 0; j < 2; ++j) (*m)[i][j] = vals[--k % vals.size()].second; return m; });
  VX_INIT("(1) grown to 4", [vals]() { D* m = new D(1); (*m)[0][0] = vals[1].second; m->grow(4); return m; });
  VX_MUT("grow(rows+1)", [](D& m, const D*) { m.grow(m.num_rows() + 1); return std::string(); });
  VX_MUT("grow(rows+4)", [](D& m, const D*) { m.grow(m.num_rows() + 4); return std::string(); });
  VX_MUT("resize_no_copy(2)+fill with second menu value", [vals](D& m, const D*) { m.resize_no_copy(2); for (int i = 0; i < 2; ++i) for (int j = 0; j < 2; ++j) m[i][j] = vals[1].second; return std::string(); });
  VX_MUT("resize_no_copy(6)+fill with +inf", [](D& m, const D*) { m.resize_no_copy(6); for (int i = 0; i < 6; ++i) for (int j = 0; j < 6; ++j) m[i][j] = vx_pinf<N>(); return std::string(); });
  VX_MUT("resize_no_copy(0)", [](D& m, const D*) { m.resize_no_copy(0); return std::string(); });
  for (size_t k = 0; k < vals.size(); ++k) {
    N v = vals[k].second;
    VX_MUT("[0][1]=" + vals[k].first, [v](D& m, const D*) { if (m.num_rows() < 2) return std::string("skipped"); m[0][1] = v; return std::string(); });
    VX_MUT("[last][0]=" + vals[k].first, [v](D& m, const D*) { if (m.num_rows() < 1) return std::string("skipped"); m[m.num_rows() - 1][0] = v; return std::string(); });
  }
  VX_OBS("num_rows()", [](D& m, const D*) { return std::to_string(m.num_rows()); });
  VX_OBS("print", [](D& m, const D*) { return io_print(m); });
  VX_OBS("OK()", [](D& m, const D*) { return b2s(m.OK()); });
  VX_BIN("operator=", [](D& m, const D* a) { m = *a; return std::string(); });
  VX_BIN("m_swap(copy of arg)", [](D& m, const D* a) { D t(*a); m.m_swap(t); return std::string(); });
  VX_BINOBS("operator==", [](D& m, const D* a) { return b2s(m == *a); });
  fill_io_x<D>(A, []() { return new D(); }, [](const D& a, const D& b) { return a == b; }, [](const D& m) { return io_print(m); });
  return A;
}

template <class N>
inline ClassAdapter<PPL::OR_Matrix<N> > or_matrix_adapter(const std::string& name) {
  typedef PPL::OR_Matrix<N> D; typedef Mut<D> M;
  ClassAdapter<D> A; A.name = name;
  std::vector<std::pair<std::string, N> > vals = ValMenu<N>::get();
  VX_INIT("(0)", []() { return new D(0); });
  VX_INIT("(1)", []() { return new D(1); });
  VX_INIT("(2) menu values in element order", [vals]() { D* m = new D(2); size_t k = 0; for (typename D::element_iterator i = m->element_begin(), e = m->element_end(); i != e; ++i) *i = vals[k++ % vals.size()].second; return m; });
  VX_INIT("(2) all +inf", []() { D* m = new D(2); for (typename D::element_iterator i = m->element_begin(), e = m->element_end(); i != e; ++i) *i = vx_pinf<N>(); return m; });
  VX_INIT("(4) shrunk to 1, menu values reversed", [vals]() { D* m = new D(4); m->shrink(1); size_t k = vals.size(); for (typename D::element_iterator i = m->element_begin(), e = m->element_end(); i != e; ++i) *i = vals[--k % vals.size()].second; return m; });
  VX_INIT("(1) grown to 3", [vals]() { D* m = new D(1); (*m)[1][0] = vals[1].second; m->grow(3); return m; });
  VX_MUT("grow(dim+1)", [](D& m, const D*) { m.grow(m.space_dimension() + 1); return std::string(); });
  VX_MUT("grow(dim+3)", [](D& m, const D*) { m.grow(m.space_dimension() + 3); return std::string(); });
  VX_MUT("shrink(1)", [](D& m, const D*) { if (m.space_dimension() < 1) return std::string("skipped"); m.shrink(1); return std::string(); });
  VX_MUT("resize_no_copy(2)+fill with second menu value", [vals](D& m, const D*) { m.resize_no_copy(2); for (typename D::element_iterator i = m.element_begin(), e = m.element_end(); i != e; ++i) *i = vals[1].second; return std::string(); });
  VX_MUT("resize_no_copy(5)+fill with +inf", [](D& m, const D*) { m.resize_no_copy(5); for (typename D::element_iterator i = m.element_begin(), e = m.element_end(); i != e; ++i) *i = vx_pinf<N>(); return std::string(); });
  VX_MUT("clear()", [](D& m, const D*) { m.clear(); return std::string(); });
  for (size_t k = 0; k < vals.size(); ++k) {
    N v = vals[k].second;
    VX_MUT("[1][0]=" + vals[k].first, [v](D& m, const D*) { if (m.num_rows() < 2) return std::string("skipped"); m[1][0] = v; return std::string(); });
    VX_MUT("[last][last]=" + vals[k].first, [v](D& m, const D*) { if (m.num_rows() < 2) return std::string("skipped"); PPL::dimension_type r = m.num_rows() - 1; m[r][D::row_size(r) - 1] = v; return std::string(); });
  }
  VX_OBS("space_dimension()/num_rows()", [](D& m, const D*) { return std::to_string(m.space_dimension()) + "/" + std::to_string(m.num_rows()); });
  VX_OBS("print", [](D& m, const D*) { return io_print(m); });
  VX_OBS("OK()", [](D& m, const D*) { return b2s(m.OK()); });
  VX_BIN("operator=", [](D& m, const D* a) { m = *a; return std::string(); });
  VX_BIN("m_swap(copy of arg)", [](D& m, const D* a) { D t(*a); m.m_swap(t); return std::string(); });
  VX_BINOBS("operator==", [](D& m, const D* a) { return b2s(m == *a); });
  fill_io_x<D>(A, []() { return new D(0); }, [](const D& a, const D& b) { return a == b; }, [](const D& m) { return io_print(m); });
  return A;
}

// ---------------------------------------------------------------------------------------------------
// (c) intervals (the elements of Box dumps) and boxes over non-rational intervals
template <class T> struct RawMenu;
template <> struct RawMenu<mpq_class> { static std::vector<std::pair<std::string, mpq_class> > get() {
  std::vector<std::pair<std::string, mpq_class> > v; v.push_back(std::make_pair("0", mpq_class(0))); v.push_back(std::make_pair("1/3", mpq_class(1, 3)));
  v.push_back(std::make_pair("-7/2", mpq_class(-7, 2))); v.push_back(std::make_pair("(2^70+3)/3", mpq_class((mpz_class(1) << 70) + 3, 3))); v.push_back(std::make_pair("2", mpq_class(2))); return v; } };
template <> struct RawMenu<mpz_class> { static std::vector<std::pair<std::string, mpz_class> > get() {
  std::vector<std::pair<std::string, mpz_class> > v; v.push_back(std::make_pair("0", mpz_class(0))); v.push_back(std::make_pair("7", mpz_class(7)));
  v.push_back(std::make_pair("-2^70-3", mpz_class(-(mpz_class(1) << 70) - 3))); v.push_back(std::make_pair("-1", mpz_class(-1))); return v; } };
template <class F> inline std::vector<std::pair<std::string, F> > raw_float_menu() {
  typedef std::numeric_limits<F> L; std::vector<std::pair<std::string, F> > v;
  v.push_back(std::make_pair("0", F(0))); v.push_back(std::make_pair("1.5", F(1.5))); v.push_back(std::make_pair("-0.0", -F(0))); v.push_back(std::make_pair("0.1", F(0.1)));
  v.push_back(std::make_pair("denorm_min", L::denorm_min())); v.push_back(std::make_pair("-min_normal", -L::min())); v.push_back(std::make_pair("max", L::max()));
  v.push_back(std::make_pair("-max", -L::max())); v.push_back(std::make_pair("+inf", L::infinity())); v.push_back(std::make_pair("-inf", -L::infinity()));
  return v; }
template <> struct RawMenu<double> { static std::vector<std::pair<std::string, double> > get() { return raw_float_menu<double>(); } };
template <> struct RawMenu<float> { static std::vector<std::pair<std::string, float> > get() { return raw_float_menu<float>(); } };
template <class I> inline std::vector<std::pair<std::string, I> > raw_int_menu() {
  typedef std::numeric_limits<I> L; std::vector<std::pair<std::string, I> > v;
  v.push_back(std::make_pair("0", I(0))); v.push_back(std::make_pair("5", I(5))); v.push_back(std::make_pair("-1", I(-1)));
  v.push_back(std::make_pair("max", L::max())); v.push_back(std::make_pair("min", L::min())); v.push_back(std::make_pair("max-1", I(L::max() - 1)));
  return v; }
template <> struct RawMenu<int8_t> { static std::vector<std::pair<std::string, int8_t> > get() { return raw_int_menu<int8_t>(); } };
template <> struct RawMenu<int32_t> { static std::vector<std::pair<std::string, int32_t> > get() { return raw_int_menu<int32_t>(); } };

template <class ITV> inline std::string itv_flags(const ITV& x) {
  std::string s;
  s += x.is_empty() ? "E" : "e";
  if (!x.is_empty()) { s += x.is_singleton() ? "S" : "s"; s += x.lower_is_open() ? "(" : "["; s += x.upper_is_open() ? ")" : "]";
    s += x.lower_is_boundary_infinity() ? "L" : "l"; s += x.upper_is_boundary_infinity() ? "U" : "u"; s += x.is_bounded() ? "B" : "b"; s += x.is_universe() ? "V" : "v";
    s += x.is_topologically_closed() ? "C" : "c"; }
  return s;
}

template <class ITV, class T> inline int itv_build1(ITV& x, PPL::Relation_Symbol r, T v) { return (int)x.build(PPL::i_constraint(r, v)); }
template <class ITV, class T> inline int itv_add1(ITV& x, PPL::Relation_Symbol r, T v) { return (int)x.add_constraint(PPL::i_constraint(r, v)); }
template <class ITV, class T> inline int itv_build2(ITV& x, PPL::Relation_Symbol r1, T v1, PPL::Relation_Symbol r2, T v2) { return (int)x.build(PPL::i_constraint(r1, v1), PPL::i_constraint(r2, v2)); }

template <class ITV>
inline ClassAdapter<ITV> interval_adapter(const std::string& name) {
  typedef ITV D; typedef Mut<D> M; typedef typename ITV::boundary_type T;
  ClassAdapter<D> A; A.name = name;
  std::vector<std::pair<std::string, T> > vals = RawMenu<T>::get();
  const bool has_open = ITV::info_type::store_open;
  using PPL::i_constraint;
  T v0 = vals[0].second, v1 = vals[1].second, v2 = vals[2].second, v3 = vals[3].second;
  VX_INIT("universe", []() { D* x = new D(); x->assign(PPL::UNIVERSE); return x; });
  VX_INIT("empty", []() { D* x = new D(); x->assign(PPL::EMPTY); return x; });
  VX_INIT("singleton " + vals[1].first, [v1]() { D* x = new D(); x->assign(v1); return x; });
  VX_INIT("[" + vals[2].first + "," + vals[1].first + "] or reversed", [v1, v2]() { D* x = new D(); if (v2 < v1) itv_build2(*x, PPL::GREATER_OR_EQUAL, v2, PPL::LESS_OR_EQUAL, v1); else itv_build2(*x, PPL::GREATER_OR_EQUAL, v1, PPL::LESS_OR_EQUAL, v2); return x; });
  VX_INIT("lower bounded by " + vals[0].first + " (strict if supported)", [v0, has_open]() { D* x = new D(); itv_build1(*x, has_open ? PPL::GREATER_THAN : PPL::GREATER_OR_EQUAL, v0); return x; });
  VX_INIT("upper bounded by " + vals[3].first + ", emptiness queried", [v3]() { D* x = new D(); itv_build1(*x, PPL::LESS_OR_EQUAL, v3); (void)x->is_empty(); (void)x->is_singleton(); return x; });
  VX_INIT("constructed from " + vals[2].first, [v2]() { return new D(v2); });
  VX_MUT("assign(UNIVERSE)", [](D& x, const D*) { return std::to_string((int)x.assign(PPL::UNIVERSE)); });
  VX_MUT("assign(EMPTY)", [](D& x, const D*) { return std::to_string((int)x.assign(PPL::EMPTY)); });
  for (size_t k = 0; k < vals.size(); ++k) {
    T v = vals[k].second; std::string n = vals[k].first;
    VX_MUT("build(>=" + n + ")", [v](D& x, const D*) { return std::to_string(itv_build1(x, PPL::GREATER_OR_EQUAL, v)); });
    VX_MUT("add_constraint(<=" + n + ")", [v](D& x, const D*) { return std::to_string(itv_add1(x, PPL::LESS_OR_EQUAL, v)); });
    if (has_open) {
      VX_MUT("add_constraint(>" + n + ")", [v](D& x, const D*) { return std::to_string(itv_add1(x, PPL::GREATER_THAN, v)); });
      if (k % 2 == 0) VX_MUT("build(<" + n + ")", [v](D& x, const D*) { return std::to_string(itv_build1(x, PPL::LESS_THAN, v)); });
    }
    if (k % 3 == 0) VX_MUT("assign(" + n + ")", [v](D& x, const D*) { return std::to_string((int)x.assign(v)); });
    if (k % 3 == 1) VX_MUT("join_assign(" + n + ")", [v](D& x, const D*) { return std::to_string((int)x.join_assign(v)); });
    if (k % 3 == 2) VX_MUT("add_assign(x," + n + ")", [v](D& x, const D*) { return std::to_string((int)x.add_assign(x, v)); });
  }
  VX_MUT("lower_extend()", [](D& x, const D*) { return std::to_string((int)x.lower_extend()); });
  VX_MUT("upper_extend()", [](D& x, const D*) { return std::to_string((int)x.upper_extend()); });
  VX_MUT("neg_assign(x)", [](D& x, const D*) { return std::to_string((int)x.neg_assign(x)); });
  VX_MUT("mul_assign(x," + vals[1].first + ")", [v1](D& x, const D*) { return std::to_string((int)x.mul_assign(x, v1)); });
  VX_MUT("topological_closure_assign()", [](D& x, const D*) { x.topological_closure_assign(); return std::string(); });
  VX_MUT("drop_some_non_integer_points()", [](D& x, const D*) { x.drop_some_non_integer_points(); return std::string(); });
  VX_MUT("refine_existential(<," + vals[1].first + ")", [v1](D& x, const D*) { return std::to_string((int)x.refine_existential(PPL::LESS_THAN, v1)); });
  VX_MUT("refine_existential(!=," + vals[0].first + ")", [v0](D& x, const D*) { return std::to_string((int)x.refine_existential(PPL::NOT_EQUAL, v0)); });
  VX_OBS("flags", [](D& x, const D*) { return itv_flags(x); });
  VX_OBS("is_empty()", [](D& x, const D*) { return b2s(x.is_empty()); });
  VX_OBS("is_singleton()", [](D& x, const D*) { if (x.is_empty()) return std::string("skipped"); return b2s(x.is_singleton()); });
  VX_OBS("print", [](D& x, const D*) { return io_print(x); });
  VX_OBS("contains_integer_point()", [](D& x, const D*) { return b2s(x.contains_integer_point()); });
  VX_OBS("infinity_sign()", [](D& x, const D*) { return std::to_string(x.infinity_sign()); });
  VX_OBS("contains(" + vals[0].first + ")", [v0](D& x, const D*) { return b2s(x.contains(v0)); });
  VX_OBS("OK()", [](D& x, const D*) { return b2s(x.OK()); });
  VX_BIN("assign", [](D& x, const D* a) { return std::to_string((int)x.assign(*a)); });
  VX_BIN("join_assign", [](D& x, const D* a) { return std::to_string((int)x.join_assign(*a)); });
  VX_BIN("intersect_assign", [](D& x, const D* a) { return std::to_string((int)x.intersect_assign(*a)); });
  VX_BIN("difference_assign", [](D& x, const D* a) { return std::to_string((int)x.difference_assign(*a)); });
  VX_BIN("add_assign(x,arg)", [](D& x, const D* a) { return std::to_string((int)x.add_assign(x, *a)); });
  VX_BIN("sub_assign(arg,x)", [](D& x, const D* a) { return std::to_string((int)x.sub_assign(*a, x)); });
  VX_BIN("mul_assign(x,arg)", [](D& x, const D* a) { return std::to_string((int)x.mul_assign(x, *a)); });
  VX_BIN("simplify_using_context_assign", [](D& x, const D* a) { return b2s(x.simplify_using_context_assign(*a)); });
  VX_BINOBS("contains", [](D& x, const D* a) { return b2s(x.contains(*a)); });
  VX_BINOBS("strictly_contains", [](D& x, const D* a) { return b2s(x.strictly_contains(*a)); });
  VX_BINOBS("is_disjoint_from", [](D& x, const D* a) { return b2s(x.is_disjoint_from(*a)); });
  VX_BINOBS("operator==", [](D& x, const D* a) { return b2s(x == *a); });
  VX_BINOBS("can_be_exactly_joined_to", [](D& x, const D* a) { return b2s(x.can_be_exactly_joined_to(*a)); });
  fill_io_x<D>(A, []() { D* x = new D(); x->assign(PPL::UNIVERSE); return x; }, [](const D& a, const D& b) { return a == b; }, [](const D& d) { return io_print(d) + " " + itv_flags(d); });
  return A;
}

template <> struct DomTraits<PPL::Double_Box> { static const bool strict = true, grid = false, poly = false, powerset = false, product = false; };
template <> struct DomTraits<PPL::Float_Box> { static const bool strict = true, grid = false, poly = false, powerset = false, product = false; };

// boxes over non-rational intervals: the generic domain alphabet + operations that store special boundary values
template <class BOX>
inline ClassAdapter<BOX> xbox_adapter(const std::string& name) {
  typedef BOX D; typedef Mut<D> M; typedef typename BOX::interval_type ITV; typedef typename ITV::boundary_type T;
  ClassAdapter<D> A = domain_adapter<D>(name);
  Variable x(0), y(1);
  std::vector<std::pair<std::string, T> > vals = RawMenu<T>::get();
  Coefficient huge(1); huge <<= 1030; Coefficient big(1); big <<= 1070;
  VX_MUT("refine_with_constraint(3A>=1)", [x](D& d, const D*) { d.refine_with_constraint(3 * x >= 1); return std::string(); });
  VX_MUT("refine_with_constraint(A<=2^1030)", [x, huge](D& d, const D*) { d.refine_with_constraint(x <= huge); return std::string(); });
  VX_MUT("refine_with_constraint(B>=-2^1030)", [y, huge](D& d, const D*) { d.refine_with_constraint(y >= -huge); return std::string(); });
  VX_MUT("refine_with_constraint(2^1070*A>=1)", [x, big](D& d, const D*) { d.refine_with_constraint(big * x >= 1); return std::string(); });
  VX_MUT("affine_image(A,A,3)", [x](D& d, const D*) { d.affine_image(x, Linear_Expression(x), 3); return std::string(); });
  VX_MUT("affine_image(B,2^1030*B)", [y, huge](D& d, const D*) { d.affine_image(y, huge * y); return std::string(); });
  for (size_t k = 0; k + 1 < vals.size(); k += 2) {
    T lo = vals[k].second, hi = vals[k + 1].second; if (hi < lo) std::swap(lo, hi);
    VX_MUT("set_interval(B,[" + vals[k].first + ".." + vals[k + 1].first + "])", [y, lo, hi](D& d, const D*) {
      if (d.space_dimension() < 2) return std::string("skipped");
      ITV i; itv_build2(i, PPL::GREATER_OR_EQUAL, lo, PPL::LESS_OR_EQUAL, hi); d.set_interval(y, i); return std::string(); });
  }
  VX_OBS("get_interval(A)", [x](D& d, const D*) { if (d.space_dimension() < 1 || d.is_empty()) return std::string("skipped"); return io_print(d.get_interval(x)) + " " + itv_flags(d.get_interval(x)); });
  VX_OBS("get_interval(B)", [y](D& d, const D*) { if (d.space_dimension() < 2 || d.is_empty()) return std::string("skipped"); return io_print(d.get_interval(y)) + " " + itv_flags(d.get_interval(y)); });
  return A;
}

// ---------------------------------------------------------------------------------------------------
// (d) further weakly-relational shapes: the generic domain alphabet + constraints whose bounds sit at the limits
// of the coefficient type (largest finite value, overflow to +infinity, rounding, denormals)
template <class T> struct ShapeBounds {      // bounded integer coefficient types
  static std::vector<std::pair<std::string, Coefficient> > get() {
    std::vector<std::pair<std::string, Coefficient> > v; typedef std::numeric_limits<T> L;
    v.push_back(std::make_pair("max-1", Coefficient((long)L::max() - 1))); v.push_back(std::make_pair("max", Coefficient((long)L::max())));
    v.push_back(std::make_pair("max/2+1", Coefficient((long)L::max() / 2 + 1))); return v; }
};
template <class F> inline std::vector<std::pair<std::string, Coefficient> > float_shape_bounds() {
  std::vector<std::pair<std::string, Coefficient> > v; Coefficient h(1); h <<= 1030; v.push_back(std::make_pair("2^1030", h));
  Coefficient m(1); m <<= (std::numeric_limits<F>::max_exponent - 1); v.push_back(std::make_pair("2^(max_exponent-1)", m));
  Coefficient o(1); o <<= 60; o += 1; v.push_back(std::make_pair("2^60+1", o)); return v; }
template <> struct ShapeBounds<double> { static std::vector<std::pair<std::string, Coefficient> > get() { return float_shape_bounds<double>(); } };
template <> struct ShapeBounds<float> { static std::vector<std::pair<std::string, Coefficient> > get() { return float_shape_bounds<float>(); } };
template <> struct ShapeBounds<mpz_class> { static std::vector<std::pair<std::string, Coefficient> > get() {
  std::vector<std::pair<std::string, Coefficient> > v; Coefficient h(1); h <<= 70; h += 3; v.push_back(std::make_pair("2^70+3", h)); return v; } };
template <> struct ShapeBounds<mpq_class> { static std::vector<std::pair<std::string, Coefficient> > get() { return ShapeBounds<mpz_class>::get(); } };

template <class SH>
inline ClassAdapter<SH> xshape_adapter(const std::string& name) {
  typedef SH D; typedef Mut<D> M; typedef typename SH::coefficient_type_base T;
  ClassAdapter<D> A = domain_adapter<D>(name);
  Variable x(0), y(1);
  std::vector<std::pair<std::string, Coefficient> > bs = ShapeBounds<T>::get();
  for (size_t k = 0; k < bs.size(); ++k) {
    Coefficient b = bs[k].second; std::string n = bs[k].first;
    VX_MUT("refine_with_constraint(A<=" + n + ")", [x, b](D& d, const D*) { d.refine_with_constraint(x <= b); return std::string(); });
    VX_MUT("refine_with_constraint(A-B>=-" + n + ")", [x, y, b](D& d, const D*) { d.refine_with_constraint(x - y >= -b); return std::string(); });
    if (k == 0) VX_MUT("add_constraint(B>=-" + n + ")", [y, b](D& d, const D*) { d.add_constraint(y >= -b); return std::string(); });
  }
  Coefficient big(1); big <<= 1070;
  VX_MUT("refine_with_constraint(3A<=1)", [x](D& d, const D*) { d.refine_with_constraint(3 * x <= 1); return std::string(); });
  VX_MUT("refine_with_constraint(2^1070*A<=1)", [x, big](D& d, const D*) { d.refine_with_constraint(big * x <= 1); return std::string(); });
  VX_MUT("refine_with_constraint(3A-3B<=-1)", [x, y](D& d, const D*) { d.refine_with_constraint(3 * x - 3 * y <= -1); return std::string(); });
  VX_MUT("affine_image(A,A+" + bs[0].first + ")", [x, bs](D& d, const D*) { d.affine_image(x, x + bs[0].second); return std::string(); });
  VX_MUT("affine_image(A,-A)", [x](D& d, const D*) { d.affine_image(x, -x); return std::string(); });
  VX_MUT("affine_image(B,B,3)", [y](D& d, const D*) { d.affine_image(y, Linear_Expression(y), 3); return std::string(); });
  return A;
}

// ---------------------------------------------------------------------------------------------------
// (f) solver states: PIP problems whose solution trees have decision nodes and artificial parameters;
// MIP problems with integer variables, branch-and-bound, cached feasible / optimizing points
inline std::string pip_tree_shape(const PPL::PIP_Tree_Node* n) {
  if (n == 0) return "_";
  std::string s; unsigned na = 0;
  for (PPL::PIP_Tree_Node::Artificial_Parameter_Sequence::const_iterator i = n->art_parameter_begin(); i != n->art_parameter_end(); ++i) ++na;
  if (const PPL::PIP_Decision_Node* d = n->as_decision())
    return "D" + std::to_string(na) + "(" + pip_tree_shape(d->child_node(true)) + "," + pip_tree_shape(d->child_node(false)) + ")";
  return "S" + std::to_string(na);
}

inline ClassAdapter<PPL::PIP_Problem> pip_tree_adapter() {
  typedef PPL::PIP_Problem D; typedef Mut<D> M;
  ClassAdapter<D> A; A.name = "PIP_Problem(decision trees)";
  Variable i(0), j(1), n(2), m(3);
  std::function<D*()> doc = [i, j, n, m]() {
    D* p = new D(4); Variables_Set ps; ps.insert(n); ps.insert(m); p->add_to_parameter_space_dimensions(ps);
    p->add_constraint(3 * j >= -2 * i + 8); p->add_constraint(j <= 4 * i - 4); p->add_constraint(j <= m); p->add_constraint(i <= n); return p; };
  VX_INIT("pip{3j>=-2i+8,j<=4i-4,j<=m,i<=n; n,m params}", doc);
  VX_INIT("same, solved", [doc]() { D* p = doc(); (void)p->solve(); return p; });
  VX_INIT("same, solved with CUTTING_STRATEGY_ALL", [doc]() { D* p = doc(); p->set_control_parameter(D::CUTTING_STRATEGY_ALL); (void)p->solve(); return p; });
  VX_INIT("same, solved, then i+j<=n added (not re-solved)", [doc, i, j, n]() { D* p = doc(); (void)p->solve(); p->add_constraint(i + j <= n); return p; });
  VX_INIT("pip{2i>=n,i<=5; n param; j,m unconstrained}, solved", [i, n]() { D* p = new D(4); Variables_Set ps; ps.insert(n); p->add_to_parameter_space_dimensions(ps); p->add_constraint(2 * i >= n); p->add_constraint(i <= 5); (void)p->solve(); return p; });
  VX_INIT("pip{i>=n,i<=m,n>=m+1; n,m params} (unfeasible context), solved", [i, n, m]() { D* p = new D(4); Variables_Set ps; ps.insert(n); ps.insert(m); p->add_to_parameter_space_dimensions(ps); p->add_constraint(i >= n); p->add_constraint(i <= m); p->add_constraint(n >= m + 1); (void)p->solve(); return p; });
  VX_INIT("doc problem with big parameter m, solved", [doc]() { D* p = doc(); p->set_big_parameter_dimension(3); (void)p->solve(); return p; });
  VX_MUT("add_constraint(j>=1)", [j](D& p, const D*) { p.add_constraint(j >= 1); return std::string(); });
  VX_MUT("add_constraint(i+j<=n)", [i, j, n](D& p, const D*) { p.add_constraint(i + j <= n); return std::string(); });
  VX_MUT("add_constraint(2i+3j>=m-1)", [i, j, m](D& p, const D*) { p.add_constraint(2 * i + 3 * j >= m - 1); return std::string(); });
  VX_MUT("add_constraint(n<=5)", [n](D& p, const D*) { p.add_constraint(n <= 5); return std::string(); });
  VX_MUT("add_constraint(m<=1)", [m](D& p, const D*) { p.add_constraint(m <= 1); return std::string(); });     // makes a 'then' branch unfeasible: the 'else' subtree is merged into its parent
  VX_MUT("add_constraint(2m>=n+1)", [n, m](D& p, const D*) { p.add_constraint(2 * m >= n + 1); return std::string(); });
  VX_MUT("add_constraint(3i==n)", [i, n](D& p, const D*) { p.add_constraint(3 * i == n); return std::string(); });
  VX_MUT("add_constraints({i>=0,j>=0})", [i, j](D& p, const D*) { PPL::Constraint_System cs; cs.insert(i >= 0); cs.insert(j >= 0); p.add_constraints(cs); return std::string(); });
  VX_MUT("add_space_dimensions_and_embed(1,0)", [](D& p, const D*) { p.add_space_dimensions_and_embed(1, 0); return std::string(); });
  VX_MUT("add_space_dimensions_and_embed(0,1)", [](D& p, const D*) { p.add_space_dimensions_and_embed(0, 1); return std::string(); });
  VX_MUT("set_cutting(FIRST)", [](D& p, const D*) { p.set_control_parameter(D::CUTTING_STRATEGY_FIRST); return std::string(); });
  VX_MUT("set_cutting(DEEPEST)", [](D& p, const D*) { p.set_control_parameter(D::CUTTING_STRATEGY_DEEPEST); return std::string(); });
  VX_MUT("set_cutting(ALL)", [](D& p, const D*) { p.set_control_parameter(D::CUTTING_STRATEGY_ALL); return std::string(); });
  VX_MUT("set_pivot(MAX_COLUMN)", [](D& p, const D*) { p.set_control_parameter(D::PIVOT_ROW_STRATEGY_MAX_COLUMN); return std::string(); });
  VX_MUT("set_big_parameter_dimension(2)", [](D& p, const D*) { p.set_big_parameter_dimension(2); return std::string(); });
  VX_MUT("solve()+print", [](D& p, const D*) { return pip_tree_text(p); });
  // incremental re-solve as ONE operation (the comparison of the look-ahead does not solve)
  VX_MUT("add_constraint(m<=1)+solve()+print", [m](D& p, const D*) { p.add_constraint(m <= 1); return pip_tree_text(p); });
  VX_MUT("add_constraint(2m>=n+1)+solve()+print", [n, m](D& p, const D*) { p.add_constraint(2 * m >= n + 1); return pip_tree_text(p); });
  VX_MUT("add_constraint(i+j<=n)+solve()+print", [i, j, n](D& p, const D*) { p.add_constraint(i + j <= n); return pip_tree_text(p); });
  VX_MUT("solution() shape", [](D& p, const D*) { return pip_tree_shape(p.solution()); });
  VX_MUT("optimizing_solution() shape", [](D& p, const D*) { return pip_tree_shape(p.optimizing_solution()); });
  VX_MUT("is_satisfiable()", [](D& p, const D*) { return b2s(p.is_satisfiable()); });
  VX_MUT("clear()", [](D& p, const D*) { p.clear(); return std::string(); });
  VX_OBS("OK()", [](D& p, const D*) { return b2s(p.OK()); });
  VX_OBS("print", [](D& p, const D*) { return io_print(p); });
  VX_OBS("dimensions/parameters/big", [](D& p, const D*) { return std::to_string(p.space_dimension()) + "/" + std::to_string(p.parameter_space_dimensions().size()) + "/" + std::to_string((long)p.get_big_parameter_dimension()); });
  VX_BIN("operator=", [](D& p, const D* a) { p = *a; return std::string(); });
  VX_BIN("m_swap(copy of arg)", [](D& p, const D* a) { D t(*a); p.m_swap(t); return std::string(); });
  // equality does NOT solve: re-solving an already solved problem after add_constraint can crash on the ORIGINAL
  // (incremental-solve defects owned by C07); the solution trees are compared by the solve()/solution() operations
  // of the look-ahead, where a crash of the original is attributed to the original.
  fill_io_x<D>(A, []() { return new D(); }, [](const D& a, const D& b) { return io_print(a) == io_print(b) && a.status == b.status && a.get_big_parameter_dimension() == b.get_big_parameter_dimension(); }, [](const D& d) { return io_print(d); });
  return A;
}

inline std::string mip_solve_text(PPL::MIP_Problem& p) {
  PPL::MIP_Problem_Status s = p.solve();
  if (s == PPL::UNFEASIBLE_MIP_PROBLEM) return "UNFEASIBLE";
  if (s == PPL::UNBOUNDED_MIP_PROBLEM) return "UNBOUNDED feasible " + io_print(p.feasible_point());
  Coefficient n, d; p.optimal_value(n, d);
  return "OPTIMIZED " + io_print(n) + "/" + io_print(d) + " at " + io_print(p.optimizing_point());
}

inline ClassAdapter<PPL::MIP_Problem> mip_int_adapter() {
  typedef PPL::MIP_Problem D; typedef Mut<D> M;
  ClassAdapter<D> A; A.name = "MIP_Problem(integer variables)";
  Variable x(0), y(1), z(2);
  std::function<D*()> knap = [x, y, z]() {
    D* p = new D(3); p->add_constraint(x >= 0); p->add_constraint(y >= 0); p->add_constraint(z >= 0);
    p->add_constraint(3 * x + 2 * y + 4 * z <= 11); p->add_constraint(2 * x - y >= -1); p->add_constraint(x + z <= 3);
    Variables_Set vs; vs.insert(x); vs.insert(y); vs.insert(z); p->add_to_integer_space_dimensions(vs);
    p->set_objective_function(5 * x + 4 * y + 3 * z); return p; };
  VX_INIT("ilp{3A+2B+4C<=11,2A-B>=-1,A+C<=3,>=0; all int; max 5A+4B+3C}", knap);
  VX_INIT("same, solved", [knap]() { D* p = knap(); (void)p->solve(); return p; });
  VX_INIT("same, is_satisfiable() only", [knap]() { D* p = knap(); (void)p->is_satisfiable(); return p; });
  VX_INIT("same, solved, then 2B<=3 pending", [knap, y]() { D* p = knap(); (void)p->solve(); p->add_constraint(2 * y <= 3); return p; });
  // (with A, B unbounded branch-and-bound does not terminate on this problem: a solver matter, not a round-trip one)
  VX_INIT("mip{2A+2B==1 (no integer solution), -3<=A<=3, B free, int A,B}, solved", [x, y]() { D* p = new D(2); p->add_constraint(2 * x + 2 * y == 1); p->add_constraint(x <= 3); p->add_constraint(x >= -3); Variables_Set vs; vs.insert(x); vs.insert(y); p->add_to_integer_space_dimensions(vs); p->set_objective_function(x - y); (void)p->solve(); return p; });
  VX_INIT("mip{A-B<=1,B<=7/2; int B; max A+B; STEEPEST_EDGE_EXACT}, solved", [x, y]() { D* p = new D(2); p->add_constraint(x - y <= 1); p->add_constraint(2 * y <= 7); Variables_Set vs; vs.insert(y); p->add_to_integer_space_dimensions(vs); p->set_objective_function(x + y); p->set_control_parameter(D::PRICING_STEEPEST_EDGE_EXACT); (void)p->solve(); return p; });
  VX_INIT("mip{A>=0,B>=0,A-B<=2; int A; max A (unbounded)}, solved", [x, y]() { D* p = new D(2); p->add_constraint(x >= 0); p->add_constraint(y >= 0); p->add_constraint(x - y <= 2); Variables_Set vs; vs.insert(x); p->add_to_integer_space_dimensions(vs); p->set_objective_function(Linear_Expression(x)); (void)p->solve(); return p; });
  VX_INIT("from constraint system, min 2A+3B, A+B>=3/2, int A", [x, y]() { PPL::Constraint_System cs; cs.insert(2 * x + 2 * y >= 3); cs.insert(x >= 0); cs.insert(y >= 0); cs.insert(x <= 4); D* p = new D(2, cs, 2 * x + 3 * y, PPL::MINIMIZATION); Variables_Set vs; vs.insert(x); p->add_to_integer_space_dimensions(vs); return p; });
  VX_MUT("add_constraint(A<=2)", [x](D& p, const D*) { p.add_constraint(x <= 2); return std::string(); });
  VX_MUT("add_constraint(2A+2B>=3)", [x, y](D& p, const D*) { p.add_constraint(2 * x + 2 * y >= 3); return std::string(); });
  VX_MUT("add_constraint(A-B==0)", [x, y](D& p, const D*) { p.add_constraint(x - y == 0); return std::string(); });
  VX_MUT("add_constraint(3B<=4)", [y](D& p, const D*) { p.add_constraint(3 * y <= 4); return std::string(); });
  VX_MUT("add_constraint(A+B<=-1)", [x, y](D& p, const D*) { p.add_constraint(x + y <= -1); return std::string(); });
  VX_MUT("add_constraints({A>=1,B>=1})", [x, y](D& p, const D*) { PPL::Constraint_System cs; cs.insert(x >= 1); cs.insert(y >= 1); p.add_constraints(cs); return std::string(); });
  VX_MUT("add_space_dimensions_and_embed(1)", [](D& p, const D*) { p.add_space_dimensions_and_embed(1); return std::string(); });
  VX_MUT("add_to_integer_space_dimensions({A})", [x](D& p, const D*) { Variables_Set vs; vs.insert(x); p.add_to_integer_space_dimensions(vs); return std::string(); });
  VX_MUT("add_to_integer_space_dimensions({B})", [y](D& p, const D*) { Variables_Set vs; vs.insert(y); p.add_to_integer_space_dimensions(vs); return std::string(); });
  VX_MUT("set_objective_function(A-2B)", [x, y](D& p, const D*) { p.set_objective_function(x - 2 * y); return std::string(); });
  VX_MUT("set_objective_function(0)", [](D& p, const D*) { p.set_objective_function(Linear_Expression(0)); return std::string(); });
  VX_MUT("set_objective_function(B+7)", [y](D& p, const D*) { p.set_objective_function(y + 7); return std::string(); });
  VX_MUT("set_optimization_mode(MIN)", [](D& p, const D*) { p.set_optimization_mode(PPL::MINIMIZATION); return std::string(); });
  VX_MUT("set_optimization_mode(MAX)", [](D& p, const D*) { p.set_optimization_mode(PPL::MAXIMIZATION); return std::string(); });
  VX_MUT("set_pricing(TEXTBOOK)", [](D& p, const D*) { p.set_control_parameter(D::PRICING_TEXTBOOK); return std::string(); });
  VX_MUT("set_pricing(STEEPEST_FLOAT)", [](D& p, const D*) { p.set_control_parameter(D::PRICING_STEEPEST_EDGE_FLOAT); return std::string(); });
  VX_MUT("solve()", [](D& p, const D*) { return mip_solve_text(p); });
  VX_MUT("is_satisfiable()", [](D& p, const D*) { bool b = p.is_satisfiable(); return b ? "true " + io_print(p.feasible_point()) : std::string("false"); });
  VX_MUT("evaluate_objective_function(feasible_point) if satisfiable", [](D& p, const D*) { if (!p.is_satisfiable()) return std::string("unsat"); Coefficient n, d; p.evaluate_objective_function(p.feasible_point(), n, d); return io_print(n) + "/" + io_print(d); });
  VX_MUT("clear()", [](D& p, const D*) { p.clear(); return std::string(); });
  VX_OBS("OK()", [](D& p, const D*) { return b2s(p.OK()); });
  VX_OBS("print", [](D& p, const D*) { return io_print(p); });
  VX_OBS("integer_space_dimensions/objective/mode", [](D& p, const D*) { return io_print(p.integer_space_dimensions()) + " " + io_print(p.objective_function()) + " " + (p.optimization_mode() == PPL::MAXIMIZATION ? "max" : "min"); });
  VX_BIN("operator=", [](D& p, const D* a) { p = *a; return std::string(); });
  VX_BIN("m_swap(copy of arg)", [](D& p, const D* a) { D t(*a); p.m_swap(t); return std::string(); });
  fill_io_x<D>(A, []() { return new D(); }, [](const D& a, const D& b) { return dump_of(a) == dump_of(b) || io_print(a) == io_print(b); }, [](const D& d) { return io_print(d); });
  return A;
}

} // namespace vf
#endif

// History-replay explorer for arbitrary library classes (used by C13 and C15).
// A state is the operation history that reaches it (objects are rebuilt by replay on fresh
// objects: no copy constructor, no ascii_load is trusted).  States are deduplicated on a key
// (ascii_dump text).  The BFS runs in a forked child that is restarted with a skip list when the
// library crashes, so crashes become attributed outcomes.
#ifndef VERIF_ENGINE_HIST_HH
#define VERIF_ENGINE_HIST_HH 1
#include "engine/common.hh"
#include <memory>
#include <unordered_map>
#include <unordered_set>

namespace vf {

template <class T>
struct Mut {
  std::string name;
  bool binary;                                            // takes a second object of the class
  std::function<std::string(T&, const T*)> f;            // returns a textual return value
  bool observer;                                          // must not change the value
  Mut() : binary(false), observer(false) {}
  Mut(const std::string& n, bool b, std::function<std::string(T&, const T*)> ff, bool obs = false) : name(n), binary(b), f(ff), observer(obs) {}
};

template <class T>
struct ClassAdapter {
  std::string name;
  std::vector<std::pair<std::string, std::function<T*()> > > initials;   // fresh, independently built objects
  std::vector<Mut<T> > muts;
  std::function<std::string(const T&)> dump;
  std::function<T*()> blank;
  std::function<bool(T&, const std::string&)> load;
  std::function<bool(const T&, const T&)> equal;          // semantic equality (may update lazy state)
  std::function<bool(const T&)> ok;
  std::function<std::string(const T&)> print;             // canonical-ish semantic text (optional)
};

// one step of a history: op index, operand = index of an initial (-1 none)
struct Step { int op; int operand; };
typedef std::vector<Step> Hist;       // first step: op = initial index, operand = -2

inline std::string hist_key(const Hist& h) {
  std::string s;
  for (size_t i = 0; i < h.size(); ++i) { s += std::to_string(h[i].op); s += ':'; s += std::to_string(h[i].operand); s += ','; }
  return s;
}

template <class T>
inline std::string apply_mut(const ClassAdapter<T>& A, T& obj, const Step& st) {
  const Mut<T>& m = A.muts[st.op];
  std::unique_ptr<T> arg;
  if (m.binary) arg.reset(A.initials[st.operand].second());
  try { return m.f(obj, arg.get()); }
  catch (const std::invalid_argument& e) { return "exception:invalid_argument"; }
  catch (const std::domain_error& e) { return "exception:domain_error"; }
  catch (const std::length_error& e) { return "exception:length_error"; }
  catch (const std::logic_error& e) { return "exception:logic_error"; }
  catch (const std::overflow_error& e) { return "exception:overflow_error"; }
  catch (const std::runtime_error& e) { return "exception:runtime_error"; }
  catch (const std::exception& e) { return std::string("exception:") + e.what(); }
}

template <class T>
inline T* build(const ClassAdapter<T>& A, const Hist& h) {
  T* o = A.initials[h[0].op].second();
  for (size_t i = 1; i < h.size(); ++i) apply_mut(A, *o, h[i]);
  return o;
}

template <class T>
inline std::string hist_text(const ClassAdapter<T>& A, const Hist& h) {
  std::string s = "[" + jstr(A.initials[h[0].op].first);
  for (size_t i = 1; i < h.size(); ++i) {
    std::string n = A.muts[h[i].op].name;
    if (h[i].operand >= 0) n += " arg=" + A.initials[h[i].operand].first;
    s += "," + jstr(n);
  }
  return s + "]";
}

// BFS to depth D.  Returns the list of distinct states (histories).  Crashing (state, op, operand)
// triples are reported through on_crash and skipped.
template <class T>
inline std::vector<Hist> explore(const ClassAdapter<T>& A, int depth, const Args& args,
                                 std::function<void(const Hist&, const Step&, int sig)> on_crash,
                                 long long* transitions, size_t max_states = 2000000) {
  std::string tmp = args.out + "." + A.name + ".bfs";
  for (size_t i = 0; i < tmp.size(); ++i) if (tmp[i] == '<' || tmp[i] == '>' || tmp[i] == ',' || tmp[i] == ' ') tmp[i] = '_';
  std::set<std::string> skip;
  struct Prog { volatile long long hist_idx; volatile int op, operand; volatile long long trans; volatile int done; };
  Prog* pg = (Prog*)mmap(0, sizeof(Prog), PROT_READ | PROT_WRITE, MAP_SHARED | MAP_ANONYMOUS, -1, 0);
  for (int attempt = 0; attempt < 200; ++attempt) {
    memset((void*)pg, 0, sizeof(Prog));
    fflush(stdout); fflush(stderr);
    pid_t pid = fork();
    if (pid == 0) {
      std::vector<Hist> states; std::unordered_set<std::string> seen;
      FILE* f = fopen(tmp.c_str(), "w");
      for (size_t i = 0; i < A.initials.size(); ++i) {
        Hist h; Step s; s.op = (int)i; s.operand = -2; h.push_back(s);
        std::unique_ptr<T> o(build(A, h));
        if (seen.insert(A.dump(*o)).second) states.push_back(h);
      }
      size_t begin = 0;
      for (int d = 1; d <= depth; ++d) {
        size_t end = states.size();
        for (size_t s = begin; s < end && states.size() < max_states; ++s) {
          for (size_t m = 0; m < A.muts.size(); ++m) {
            int nops = A.muts[m].binary ? (int)A.initials.size() : 1;
            for (int k = 0; k < nops; ++k) {
              Step st; st.op = (int)m; st.operand = A.muts[m].binary ? k : -1;
              Hist h = states[s]; h.push_back(st);
              if (skip.count(hist_key(h))) continue;
              pg->hist_idx = (long long)s; pg->op = st.op; pg->operand = st.operand;
              // persist the parent history so that the parent process can name the crash
              { FILE* c = fopen((tmp + ".cur").c_str(), "w"); std::string k2 = hist_key(h); fwrite(k2.data(), 1, k2.size(), c); fclose(c); }
              alarm(30);
              std::unique_ptr<T> o(build(A, states[s]));
              apply_mut(A, *o, st);
              alarm(0);
              pg->trans++;
              if (seen.insert(A.dump(*o)).second) states.push_back(h);
            }
          }
          if (args.expired()) break;
        }
        begin = end;
        if (args.expired()) break;
      }
      for (size_t i = 0; i < states.size(); ++i) { std::string k = hist_key(states[i]) + "\n"; fwrite(k.data(), 1, k.size(), f); }
      fclose(f);
      pg->done = 1;
      _exit(0);
    }
    int st; waitpid(pid, &st, 0);
    if (WIFEXITED(st) && WEXITSTATUS(st) == 0 && pg->done) break;
    // crashed: read the current step
    std::ifstream c((tmp + ".cur").c_str()); std::string k; std::getline(c, k);
    int sig = WIFSIGNALED(st) ? WTERMSIG(st) : 1000 + WEXITSTATUS(st);
    Hist h; { std::istringstream is(k); std::string tok; while (std::getline(is, tok, ',')) { if (tok.empty()) continue; Step s; sscanf(tok.c_str(), "%d:%d", &s.op, &s.operand); h.push_back(s); } }
    if (h.size() >= 2) { Step last = h.back(); Hist parent(h.begin(), h.end() - 1); on_crash(parent, last, sig); }
    skip.insert(k);
  }
  *transitions = pg->trans;
  std::vector<Hist> out;
  std::ifstream in(tmp.c_str()); std::string line;
  while (std::getline(in, line)) {
    Hist h; std::istringstream is(line); std::string tok;
    while (std::getline(is, tok, ',')) { if (tok.empty()) continue; Step s; sscanf(tok.c_str(), "%d:%d", &s.op, &s.operand); h.push_back(s); }
    if (!h.empty()) out.push_back(h);
  }
  unlink(tmp.c_str()); unlink((tmp + ".cur").c_str());
  munmap((void*)pg, sizeof(Prog));
  return out;
}

} // namespace vf
#endif

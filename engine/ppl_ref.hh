// Conversions between PPL syntactic objects and the reference representation (ref::Cell etc.).
// Only *reads* PPL rows coefficient by coefficient: no PPL algorithm is involved.
#ifndef VERIF_ENGINE_PPL_REF_HH
#define VERIF_ENGINE_PPL_REF_HH 1

#include "ppl-config.h"
#include "version.hh"
#include "ppl_include_files.hh"
#include "ref/linsys.hh"
#include <sstream>

namespace PPL = Parma_Polyhedra_Library;

namespace vf {

inline ref::Q to_q(const PPL::Coefficient& c) {
  std::ostringstream s; s << c;
  return ref::Q(mpz_class(s.str()));
}

inline PPL::Coefficient to_coeff(const mpz_class& z) {
  PPL::Coefficient c;
  PPL::assign_r(c, z, PPL::ROUND_NOT_NEEDED);
  return c;
}

inline ref::Row row_of(const PPL::Constraint& c, int n) {
  ref::Row r; r.a.assign(n, ref::Q(0));
  for (int i = 0; i < n && i < (int)c.space_dimension(); ++i) r.a[i] = to_q(c.coefficient(PPL::Variable(i)));
  r.b = to_q(c.inhomogeneous_term());
  r.k = c.is_equality() ? ref::EQ : c.is_strict_inequality() ? ref::GT : ref::GE;
  return r;
}

inline ref::Cell cell_of(const PPL::Constraint_System& cs, int n) {
  ref::Cell c(n);
  for (PPL::Constraint_System::const_iterator i = cs.begin(), e = cs.end(); i != e; ++i) c.rows.push_back(row_of(*i, n));
  return c;
}

inline ref::Gen gen_of(const PPL::Generator& g, int n) {
  ref::Gen o; o.v.assign(n, ref::Q(0));
  ref::Q d = 1;
  if (g.is_point()) { o.t = 'p'; d = to_q(g.divisor()); }
  else if (g.is_closure_point()) { o.t = 'c'; d = to_q(g.divisor()); }
  else if (g.is_ray()) o.t = 'r';
  else o.t = 'l';
  for (int i = 0; i < n && i < (int)g.space_dimension(); ++i) o.v[i] = to_q(g.coefficient(PPL::Variable(i))) / d;
  return o;
}

inline ref::Gens gens_of(const PPL::Generator_System& gs, int n) {
  ref::Gens o;
  for (PPL::Generator_System::const_iterator i = gs.begin(), e = gs.end(); i != e; ++i) o.push_back(gen_of(*i, n));
  return o;
}

// integer-coefficient linear expression  sum a_i x_i + b
struct LE {
  std::vector<long> a; long b;
  LE() : b(0) {}
  LE(std::initializer_list<long> a_, long b_) : a(a_), b(b_) {}
  PPL::Linear_Expression ppl() const {
    PPL::Linear_Expression e;
    for (size_t i = 0; i < a.size(); ++i) if (a[i] != 0) e += PPL::Coefficient(a[i]) * PPL::Variable(i);
    e += PPL::Coefficient(b);
    return e;
  }
  // force the space dimension of the expression to at least n
  PPL::Linear_Expression ppl(int n) const {
    PPL::Linear_Expression e = ppl();
    if (n > 0 && (int)e.space_dimension() < n) e += 0 * PPL::Variable(n - 1);
    return e;
  }
  ref::Vec vec(int n) const { ref::Vec v(n, ref::Q(0)); for (int i = 0; i < n && i < (int)a.size(); ++i) v[i] = a[i]; return v; }
  int dim() const { int d = 0; for (size_t i = 0; i < a.size(); ++i) if (a[i] != 0) d = i + 1; return d; }
  bool mentions(int v) const { return v < (int)a.size() && a[v] != 0; }
  std::string str() const {
    std::ostringstream s; bool first = true;
    for (size_t i = 0; i < a.size(); ++i) if (a[i]) { s << (a[i] > 0 && !first ? "+" : "") << a[i] << "*" << char('A' + i); first = false; }
    if (b || first) s << (b >= 0 && !first ? "+" : "") << b;
    return s.str();
  }
};

// constraint   e  k  0
struct CN {
  LE e; int k;
  CN() : k(ref::GE) {}
  CN(const LE& e_, int k_) : e(e_), k(k_) {}
  PPL::Constraint ppl() const {
    PPL::Linear_Expression le = e.ppl();
    return k == ref::EQ ? (le == 0) : k == ref::GE ? (le >= 0) : (le > 0);
  }
  ref::Row row(int n) const { return ref::Row(e.vec(n), ref::Q(e.b), k); }
  std::string str() const { return e.str() + (k == ref::EQ ? "=0" : k == ref::GE ? ">=0" : ">0"); }
};

// generator with integer numerators and divisor
struct GN {
  char t; std::vector<long> v; long d;
  GN() : t('p'), d(1) {}
  GN(char t_, std::initializer_list<long> v_, long d_ = 1) : t(t_), v(v_), d(d_) {}
  PPL::Generator ppl() const {
    PPL::Linear_Expression e;
    for (size_t i = 0; i < v.size(); ++i) if (v[i] != 0) e += PPL::Coefficient(v[i]) * PPL::Variable(i);
    if (!v.empty()) e += 0 * PPL::Variable(v.size() - 1);
    switch (t) {
      case 'p': return PPL::Generator::point(e, PPL::Coefficient(d));
      case 'c': return PPL::Generator::closure_point(e, PPL::Coefficient(d));
      case 'r': return PPL::Generator::ray(e);
      default: return PPL::Generator::line(e);
    }
  }
  ref::Gen gen(int n) const {
    ref::Gen g; g.t = t; g.v.assign(n, ref::Q(0));
    for (int i = 0; i < n && i < (int)v.size(); ++i) g.v[i] = (t == 'p' || t == 'c') ? ref::Q(v[i], d) : ref::Q(v[i]);
    for (int i = 0; i < n; ++i) g.v[i].canonicalize();
    return g;
  }
  bool zero() const { for (size_t i = 0; i < v.size(); ++i) if (v[i]) return false; return true; }
  std::string str() const {
    std::ostringstream s; s << t << "(";
    for (size_t i = 0; i < v.size(); ++i) { if (i) s << ","; s << v[i]; }
    s << ")"; if (d != 1) s << "/" << d;
    return s.str();
  }
};

template <typename T>
inline std::string dump_of(const T& x) { std::ostringstream s; x.ascii_dump(s); return s.str(); }

template <typename T>
inline std::string print_of(const T& x) { using namespace PPL::IO_Operators; std::ostringstream s; s << x; return s.str(); }

} // namespace vf
#endif

// Engine F: fault injector (DESIGN.md 3.3).
//
// Include this header from exactly ONE translation unit of a harness executable: it *defines*
// the replaceable global allocation functions (operator new / new[] / delete / delete[] in all
// their forms: throwing, nothrow, sized) and the hook `ppl_set_GMP_memory_allocation_functions`
// that PPL's Init calls before its first GMP allocation, so that the allocation functions of
// GMP (mp_set_memory_functions) go through the same gate.
//
//  * one counter: every allocation request made while the injector is `armed` is numbered
//    1, 2, 3, ...; request number `fail_at` throws std::bad_alloc (nothrow forms return 0);
//    a growing GMP realloc is an allocation request, a shrinking one is not (it cannot fail);
//  * the set of live blocks is kept in an open-addressing table that is itself allocated with
//    malloc (never through the gate).  Every block carries the sequence number of the request
//    that created it, so "blocks that are live now and were created after mark M" is a query;
//  * optional: the call stack (return addresses) of the allocation of every live block
//    (fi::bt_on), resolved lazily to function names through addr2line on /proc/self/exe
//    (the symbol table is enough, no debug information needed).  Used only in the confirming
//    re-run of a leaking (scenario, k), so the enumeration itself pays nothing for it;
//  * a free of a pointer that is not live (double free / foreign pointer) is counted
//    (fi::invalid_frees) and NOT passed on to free() while `strict` is set.
//
// Nothing in here uses PPL code.
#ifndef VERIF_ENGINE_FAULTS_HH
#define VERIF_ENGINE_FAULTS_HH 1

#include <new>
#include <cstdlib>
#include <cstdio>
#include <cstring>
#include <cstdint>
#include <string>
#include <vector>
#include <map>
#include <gmp.h>
#include <execinfo.h>
#include <dlfcn.h>
#include <cxxabi.h>
#include <cctype>
#include <unistd.h>

namespace vf { namespace fi {

enum { BT_DEPTH = 24 };

struct Slot { void* p; unsigned long seq; size_t size; unsigned long req; };   // req: number of the request while armed (0: made while not armed)

struct State {
  // gate
  bool armed;
  unsigned long count;      // allocation requests seen while armed
  unsigned long fail_at;    // 0 = never
  bool fired;
  unsigned long fired_size;
  void* fired_bt_own[BT_DEPTH];   // call stack of the failing request (recorded when bt_enabled)
  void** fired_bt;                // where to record it (own array, or a shared mapping set by the harness)
  int fired_bt_n;
  // live set
  Slot* tab; size_t cap, used;
  void** bts;               // cap * BT_DEPTH return addresses (only when bt_enabled was ever set)
  bool bt_enabled;
  unsigned long seq;        // sequence number of the last tracked block
  unsigned long total_allocs, total_frees;
  unsigned long invalid_frees;
  void* last_invalid;
  bool strict;              // do not forward invalid frees to free()
  bool gmp_hooked;
};

inline State& st() { static State s; return s; }

inline size_t hash_ptr(void* p, size_t cap) {
  uintptr_t x = (uintptr_t)p >> 4;
  x *= 0x9E3779B97F4A7C15ULL;
  return (size_t)(x >> 20) & (cap - 1);
}

inline void tab_init(State& s, size_t cap) {
  s.tab = (Slot*)calloc(cap, sizeof(Slot));
  s.cap = cap; s.used = 0;
  if (!s.tab) { fputs("faults.hh: cannot allocate table\n", stderr); abort(); }
  if (s.bts || s.bt_enabled) {
    s.bts = (void**)calloc(cap * BT_DEPTH, sizeof(void*));
    if (!s.bts) { fputs("faults.hh: cannot allocate backtrace table\n", stderr); abort(); }
  }
}

inline size_t tab_find(State& s, void* p) {   // slot index or cap
  if (!s.tab) return s.cap;
  size_t i = hash_ptr(p, s.cap);
  while (s.tab[i].p) { if (s.tab[i].p == p) return i; i = (i + 1) & (s.cap - 1); }
  return s.cap;
}

inline size_t tab_put(State& s, void* p, unsigned long seq, size_t size) {
  size_t i = hash_ptr(p, s.cap);
  while (s.tab[i].p) i = (i + 1) & (s.cap - 1);
  s.tab[i].p = p; s.tab[i].seq = seq; s.tab[i].size = size; s.tab[i].req = 0;
  ++s.used;
  return i;
}

inline void tab_grow(State& s) {
  Slot* old = s.tab; void** oldb = s.bts; size_t oc = s.cap;
  s.bts = oldb;  // tells tab_init whether a backtrace table is wanted
  tab_init(s, oc ? oc * 2 : (size_t)1 << 16);
  for (size_t i = 0; i < oc; ++i) if (old[i].p) {
    size_t j = tab_put(s, old[i].p, old[i].seq, old[i].size);
    s.tab[j].req = old[i].req;
    if (oldb) memcpy(s.bts + j * BT_DEPTH, oldb + i * BT_DEPTH, BT_DEPTH * sizeof(void*));
  }
  free(old); free(oldb);
}

inline void tab_erase(State& s, size_t i) {   // backward-shift deletion
  size_t mask = s.cap - 1;
  size_t j = i;
  for (;;) {
    j = (j + 1) & mask;
    if (!s.tab[j].p) break;
    size_t h = hash_ptr(s.tab[j].p, s.cap);
    // can the element at j move to i ?  yes iff h is cyclically not in (i, j]
    bool in_between = (i <= j) ? (i < h && h <= j) : (i < h || h <= j);
    if (in_between) continue;
    s.tab[i] = s.tab[j];
    if (s.bts) memcpy(s.bts + i * BT_DEPTH, s.bts + j * BT_DEPTH, BT_DEPTH * sizeof(void*));
    i = j;
  }
  s.tab[i].p = 0;
  if (s.bts) memset(s.bts + i * BT_DEPTH, 0, BT_DEPTH * sizeof(void*));
  --s.used;
}

inline void track(void* p, size_t n) {
  State& s = st();
  if (!s.tab || (s.used + 1) * 2 > s.cap) tab_grow(s);
  size_t i = tab_put(s, p, ++s.seq, n);
  s.tab[i].req = s.armed ? s.count : 0;
  ++s.total_allocs;
  if (s.bt_enabled) {
    if (!s.bts) { s.bts = (void**)calloc(s.cap * BT_DEPTH, sizeof(void*)); if (!s.bts) abort(); }
    void* fr[BT_DEPTH + 2];
    bool was = s.armed; s.armed = false;           // backtrace() may allocate on first use
    int n_fr = backtrace(fr, BT_DEPTH + 2);
    s.armed = was;
    void** dst = s.bts + i * BT_DEPTH;
    int k = 0;
    for (int f = 2; f < n_fr && k < BT_DEPTH; ++f) dst[k++] = fr[f];   // skip track() and the gate
    for (; k < BT_DEPTH; ++k) dst[k] = 0;
  }
}

// returns false when p is not a live block
inline bool untrack(void* p) {
  State& s = st();
  size_t i = tab_find(s, p);
  if (i == s.cap) { ++s.invalid_frees; s.last_invalid = p; return false; }
  tab_erase(s, i);
  ++s.total_frees;
  return true;
}

// the gate: true when this request must fail
inline bool gate(size_t n) {
  State& s = st();
  if (!s.armed) return false;
  ++s.count;
  if (s.count == s.fail_at) {
    s.fired = true; s.fired_size = n;
    if (s.bt_enabled) {
      void* fr[BT_DEPTH + 2];
      s.armed = false;
      int n_fr = backtrace(fr, BT_DEPTH + 2);
      s.armed = true;
      void** dst = s.fired_bt ? s.fired_bt : s.fired_bt_own;
      int k = 0;
      for (int f = 2; f < n_fr && k < BT_DEPTH; ++f) dst[k++] = fr[f];   // skip gate() and the allocation function
      s.fired_bt_n = k;
      for (; k < BT_DEPTH; ++k) dst[k] = 0;
    }
    return true;
  }
  return false;
}

inline void* do_alloc(size_t n, bool nothrow) {
  if (gate(n)) { if (nothrow) return 0; throw std::bad_alloc(); }
  void* p = malloc(n ? n : 1);
  if (!p) { if (nothrow) return 0; throw std::bad_alloc(); }
  track(p, n);
  return p;
}

inline void do_free(void* p) {
  if (!p) return;
  if (untrack(p) || !st().strict) free(p);
}

// ---- GMP allocation functions
extern "C" inline void* vf_fi_gmp_alloc(size_t n) { return do_alloc(n, false); }
extern "C" inline void vf_fi_gmp_free(void* p, size_t) { do_free(p); }
extern "C" inline void* vf_fi_gmp_realloc(void* q, size_t old_size, size_t new_size) {
  if (!q) return do_alloc(new_size, false);
  if (new_size == 0) { do_free(q); return 0; }
  State& s = st();
  if (new_size > old_size && gate(new_size)) throw std::bad_alloc();
  size_t i = tab_find(s, q);
  void* p = realloc(q, new_size);
  if (!p) throw std::bad_alloc();
  if (i != s.cap) { tab_erase(s, i); --s.total_allocs; }   // the block moved: still one allocation
  track(p, new_size);
  return p;
}

inline void hook_gmp() {
  State& s = st();
  if (s.gmp_hooked) return;
  s.gmp_hooked = true;
  mp_set_memory_functions(vf_fi_gmp_alloc, vf_fi_gmp_realloc, vf_fi_gmp_free);
}

// ---- control interface for harnesses
inline unsigned long mark() { return st().seq; }
inline size_t live_count() { return st().used; }
inline void arm(unsigned long fail_at) { State& s = st(); s.count = 0; s.fail_at = fail_at; s.fired = false; s.fired_bt_n = 0; s.armed = true; }
// call stack of the request that was made to fail in the last armed period (bt_on must have been set)
inline std::vector<void*> fired_stack() {
  State& s = st(); void** src = s.fired_bt ? s.fired_bt : s.fired_bt_own;
  return std::vector<void*>(src, src + BT_DEPTH);
}
inline unsigned long disarm() { State& s = st(); s.armed = false; return s.count; }
inline bool fired() { return st().fired; }
inline void bt_on(bool on) { st().bt_enabled = on; }

// scoped suspension of the gate for harness bookkeeping that allocates
struct Pause { bool was; Pause() : was(st().armed) { st().armed = false; } ~Pause() { st().armed = was; } };

struct LiveBlock { void* p; unsigned long seq; size_t size; unsigned long req; void* bt[BT_DEPTH]; };
// is the block (p, seq) still live?
inline bool still_live(void* p, unsigned long seq) { State& s = st(); size_t i = tab_find(s, p); return i != s.cap && s.tab[i].seq == seq; }

// live blocks created after `since` (ordered by creation); storage is malloc'd by the caller's vector
// *after* the scan so that the result does not contain itself
inline size_t live_since(unsigned long since, LiveBlock* out, size_t max_out) {
  State& s = st();
  size_t n = 0;
  for (size_t i = 0; i < s.cap; ++i) if (s.tab[i].p && s.tab[i].seq > since) {
    if (n < max_out) {
      out[n].p = s.tab[i].p; out[n].seq = s.tab[i].seq; out[n].size = s.tab[i].size; out[n].req = s.tab[i].req;
      if (s.bts) memcpy(out[n].bt, s.bts + i * BT_DEPTH, sizeof out[n].bt); else memset(out[n].bt, 0, sizeof out[n].bt);
    }
    ++n;
  }
  size_t m = n < max_out ? n : max_out;
  for (size_t i = 1; i < m; ++i) {          // insertion sort by seq
    LiveBlock t = out[i]; size_t j = i;
    while (j > 0 && out[j - 1].seq > t.seq) { out[j] = out[j - 1]; --j; }
    out[j] = t;
  }
  return n;
}

// ---- symbolisation of return addresses that lie in the main executable
inline std::string demangle(const char* m) {
  int stt = 0; char* d = abi::__cxa_demangle(m, 0, 0, &stt);
  std::string r = (stt == 0 && d) ? d : m;
  free(d);
  return r;
}

// resolves many addresses at once; returns one function name per address ("" if unknown / not in the exe)
inline std::vector<std::string> symbolize_uncached(const std::vector<void*>& addrs);
inline std::vector<std::string> symbolize(const std::vector<void*>& addrs) {
  // addr2line is slow to start: resolve every address once per process
  Pause pz;
  static std::map<void*, std::string>* cache = new std::map<void*, std::string>();
  std::vector<void*> missing;
  for (size_t i = 0; i < addrs.size(); ++i) if (addrs[i] && !cache->count(addrs[i])) { missing.push_back(addrs[i]); (*cache)[addrs[i]] = ""; }
  if (!missing.empty()) {
    std::vector<std::string> r = symbolize_uncached(missing);
    for (size_t i = 0; i < missing.size(); ++i) (*cache)[missing[i]] = r[i];
  }
  std::vector<std::string> out(addrs.size());
  for (size_t i = 0; i < addrs.size(); ++i) if (addrs[i]) out[i] = (*cache)[addrs[i]];
  return out;
}
inline std::vector<std::string> symbolize_uncached(const std::vector<void*>& addrs) {
  Pause pz;
  std::vector<std::string> out(addrs.size());
  std::string cmd = "addr2line -f -e /proc/self/exe";
  // /proc/self/exe of the *child* would be addr2line: use the real path
  char exe[4096]; ssize_t len = readlink("/proc/self/exe", exe, sizeof exe - 1);
  if (len <= 0) return out;
  exe[len] = 0;
  cmd = std::string("addr2line -f -e '") + exe + "'";
  std::vector<size_t> idx;
  for (size_t i = 0; i < addrs.size(); ++i) {
    Dl_info di;
    if (!addrs[i] || !dladdr(addrs[i], &di) || !di.dli_fname) continue;
    // main executable: dli_fbase is the load base of a PIE (or 0x400000 style for non-PIE)
    std::string fn = di.dli_fname;
    const char* base_name = strrchr(exe, '/'); base_name = base_name ? base_name + 1 : exe;
    if (fn.find(base_name) == std::string::npos) {
      // a shared library (libgmp, libstdc++): dladdr's nearest exported symbol is good enough
      if (di.dli_sname) out[i] = demangle(di.dli_sname);
      continue;
    }
    uintptr_t a = (uintptr_t)addrs[i] - 1;     // inside the call instruction
    uintptr_t rel = a - (uintptr_t)di.dli_fbase;
    char b[64]; snprintf(b, sizeof b, " 0x%lx", (unsigned long)rel);
    cmd += b; idx.push_back(i);
  }
  if (idx.empty()) return out;
  cmd += " 2>/dev/null";
  FILE* f = popen(cmd.c_str(), "r");
  if (!f) return out;
  char line[8192]; size_t k = 0; int which = 0;
  while (fgets(line, sizeof line, f)) {
    size_t L = strlen(line); while (L && (line[L - 1] == '\n' || line[L - 1] == '\r')) line[--L] = 0;
    if (which == 0) { if (k < idx.size()) out[idx[k]] = (strcmp(line, "??") == 0) ? "" : demangle(line); }
    else ++k;
    which ^= 1;
  }
  pclose(f);
  return out;
}

// "Parma_Polyhedra_Library::CO_Tree::copy_data_from(CO_Tree const&)" -> "CO_Tree::copy_data_from"
inline std::string short_name(const std::string& full) {
  std::string s = full;
  // drop the argument list: cut at the first '(' at template depth 0
  int depth = 0; size_t cut = std::string::npos;
  for (size_t i = 0; i < s.size(); ++i) {
    char c = s[i];
    if (c == '<') ++depth; else if (c == '>') { if (depth > 0) --depth; }
    else if (c == '(' && depth == 0) {
      if (s.compare(i, 21, "(anonymous namespace)") == 0) { i += 20; continue; }
      cut = i; break;
    }
  }
  if (cut != std::string::npos) s = s.substr(0, cut);
  // drop a leading return type ("void Foo<...>::bar"): keep the part after the last space at depth 0
  depth = 0; size_t sp = std::string::npos;
  for (size_t i = 0; i < s.size(); ++i) {
    char c = s[i];
    if (c == '<') ++depth; else if (c == '>') { if (depth > 0) --depth; }
    else if (c == ' ' && depth == 0 && s.compare(i + 1, 8, "operator") != 0) sp = i;
  }
  if (sp != std::string::npos && s.find("operator") == std::string::npos) s = s.substr(sp + 1);
  // strip template arguments
  std::string t; depth = 0;
  for (size_t i = 0; i < s.size(); ++i) {
    char c = s[i];
    if (c == '<') { ++depth; continue; }
    if (c == '>') { if (depth > 0) --depth; continue; }
    if (depth == 0) t += c;
  }
  const char* ns = "Parma_Polyhedra_Library::";
  size_t p;
  while ((p = t.find(ns)) != std::string::npos) t.erase(p, strlen(ns));
  while ((p = t.find("(anonymous namespace)::")) != std::string::npos) t.erase(p, 23);
  return t;
}

// does the frame belong to a function of the library under test (namespace Parma_Polyhedra_Library)?
inline bool is_ppl_frame(const std::string& full) {
  if (full.find("Parma_Polyhedra_Library::") == std::string::npos) return false;
  // the function's own qualified name (return type, arguments and template arguments removed) must be in the namespace
  std::string own = full;
  {
    int depth = 0; size_t cut = std::string::npos;
    for (size_t i = 0; i < own.size(); ++i) {
      char c = own[i];
      if (c == '<') ++depth; else if (c == '>') { if (depth > 0) --depth; }
      else if (c == '(' && depth == 0) { if (own.compare(i, 21, "(anonymous namespace)") == 0) { i += 20; continue; } cut = i; break; }
    }
    if (cut != std::string::npos) own = own.substr(0, cut);
    depth = 0; size_t sp = std::string::npos;
    for (size_t i = 0; i < own.size(); ++i) {
      char c = own[i];
      if (c == '<') ++depth; else if (c == '>') { if (depth > 0) --depth; }
      else if (c == ' ' && depth == 0 && own.compare(i + 1, 8, "operator") != 0) sp = i;
    }
    if (sp != std::string::npos && own.find("operator") == std::string::npos) own = own.substr(sp + 1);
  }
  if (own.compare(0, 25, "Parma_Polyhedra_Library::") != 0) return false;
  // allocator-ish helpers that say nothing about who owns the block
  static const char* skip[] = { "Parma_Polyhedra_Library::Checked::", "Parma_Polyhedra_Library::Checked_Number",
                                "Parma_Polyhedra_Library::Coefficient_traits", "Parma_Polyhedra_Library::Temp_",
                                "Parma_Polyhedra_Library::Dirty_Temp", "Parma_Polyhedra_Library::assign_r",
                                "Parma_Polyhedra_Library::Implementation::", 0 };
  for (int i = 0; skip[i]; ++i) if (own.compare(0, strlen(skip[i]), skip[i]) == 0) return false;
  return true;
}
// a frame of GMP (C code: cannot clean up when an allocation function throws) or of the C++ run-time library
inline bool is_third_party_frame(const std::string& full) {
  if (full.empty()) return false;
  if (full.compare(0, 5, "__gmp") == 0 || full.compare(0, 4, "mpz_") == 0 || full.compare(0, 4, "mpq_") == 0 || full.compare(0, 4, "mpn_") == 0) return true;
  if (full.find("Parma_Polyhedra_Library::") != std::string::npos || full.find("c14") != std::string::npos || full.find("vf::") != std::string::npos) return false;
  if (full.compare(0, 5, "std::") == 0 || full.find(" std::") != std::string::npos || full.compare(0, 10, "operator<<") == 0 || full.compare(0, 10, "operator>>") == 0) return true;
  return false;
}

// name of the innermost PPL function on the allocation stack of a block ("" when none)
inline std::string alloc_site(const std::vector<std::string>& names, size_t from, size_t n, std::string* chain = 0) {
  std::string site;
  for (size_t i = from; i < from + n && i < names.size(); ++i) {
    if (names[i].empty()) continue;
    if (chain && chain->size() < 1500) { if (!chain->empty()) *chain += " <- "; *chain += short_name(names[i]); }
    if (site.empty() && is_ppl_frame(names[i])) site = short_name(names[i]);
  }
  return site;
}

inline std::string ident(const std::string& s) {   // "CO_Tree::copy_data_from" -> "CO_Tree_copy_data_from"
  std::string o;
  for (size_t i = 0; i < s.size(); ++i) {
    char c = s[i];
    if (isalnum((unsigned char)c) || c == '_') o += c;
    else if (!o.empty() && o[o.size() - 1] != '_') o += '_';
  }
  while (!o.empty() && o[o.size() - 1] == '_') o.erase(o.size() - 1);
  return o;
}

} } // namespace vf::fi

// ---- the replaced global allocation functions (all forms)
void* operator new(std::size_t n) { return vf::fi::do_alloc(n, false); }
void* operator new[](std::size_t n) { return vf::fi::do_alloc(n, false); }
void* operator new(std::size_t n, const std::nothrow_t&) noexcept { return vf::fi::do_alloc(n, true); }
void* operator new[](std::size_t n, const std::nothrow_t&) noexcept { return vf::fi::do_alloc(n, true); }
void operator delete(void* p) noexcept { vf::fi::do_free(p); }
void operator delete[](void* p) noexcept { vf::fi::do_free(p); }
void operator delete(void* p, const std::nothrow_t&) noexcept { vf::fi::do_free(p); }
void operator delete[](void* p, const std::nothrow_t&) noexcept { vf::fi::do_free(p); }
void operator delete(void* p, std::size_t) noexcept { vf::fi::do_free(p); }
void operator delete[](void* p, std::size_t) noexcept { vf::fi::do_free(p); }

// Called by PPL::Init::Init() before the library's first GMP allocation (the library's own
// definition of this function is an empty one in a separate archive member).
extern "C" void ppl_set_GMP_memory_allocation_functions(void) { vf::fi::hook_gmp(); }

#endif

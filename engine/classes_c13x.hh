// C13 extension adapters (groups 7.. of harness/c13.cc).
//
//  * operations with two argument positions that can alias each other or the receiver
//    (bounded_affine_image(v, e, e), generalized_affine_image(e, rel, e), limited extrapolations with
//    y == receiver and cs == the receiver's own constraints(), widenings with tokens, wrap_assign with the
//    receiver's own constraints as guard ...);
//  * arguments that are references INTO the receiver (x.add_constraints(x.constraints()),
//    x.add_constraint(*x.constraints().begin()), x.add_generators(x.generators()),
//    x.refine_with_constraints(x.minimized_constraints()), gs.insert(*gs.begin()) ...);
//  * the recycling entry points (add_recycled_*, insert(..., Recycle_Input)): the donor is afterwards assigned
//    to, used and destroyed, the receiver must equal the result of the copying entry point;
//  * classes not explored by groups 1-6.
//
// Conventions (see harness/c13.cc): a "binary" operation takes another pool slot as argument, so the pool
// engine supplies every aliasing (receiver == argument) by itself and compares with the same call on
// independently rebuilt operands.  An operation tagged "[alias]" / "[recycle]" has a twin tagged "[copy]"
// (same name otherwise) that the reference side executes instead.
#ifndef VERIF_ENGINE_CLASSES_C13X_HH
#define VERIF_ENGINE_CLASSES_C13X_HH 1
#include "engine/classes.hh"
#include <algorithm>
#include "interfaces/interfaced_boxes.hh"      // Z_Box, Double_Box and their interval policies

namespace vf {
namespace x13 {

using PPL::Constraint_System; using PPL::Generator_System; using PPL::Congruence_System; using PPL::Grid_Generator_System;
using PPL::Grid_Generator; using PPL::dimension_type;

// atomic text (no blank, no comma): compared by the oracle
inline std::string atom(std::string s) { for (size_t i = 0; i < s.size(); ++i) if (s[i] == ' ' || s[i] == ',' || s[i] == '\n') s[i] = '_'; return s; }

template <class D> inline void keep_only(ClassAdapter<D>& A, const std::vector<std::string>& prefixes) {
  std::vector<Mut<D> > k;
  for (size_t i = 0; i < A.muts.size(); ++i) {
    bool keep = A.muts[i].binary;                     // every binary operation is kept
    for (size_t j = 0; j < prefixes.size() && !keep; ++j) keep = A.muts[i].name.compare(0, prefixes[j].size(), prefixes[j]) == 0;
    if (keep) k.push_back(A.muts[i]);
  }
  A.muts.swap(k);
}
template <class D> inline void drop_named(ClassAdapter<D>& A, const std::vector<std::string>& prefixes) {
  std::vector<Mut<D> > k;
  for (size_t i = 0; i < A.muts.size(); ++i) {
    bool drop = false;
    for (size_t j = 0; j < prefixes.size() && !drop; ++j) drop = A.muts[i].name.compare(0, prefixes[j].size(), prefixes[j]) == 0;
    if (!drop) k.push_back(A.muts[i]);
  }
  A.muts.swap(k);
}

// the unary operations kept when an adapter of classes.hh is reused for a further instantiation: one per
// distinct mutation path (constraint side, generator side, image, dimension changes) + lazy-state observers
inline std::vector<std::string> lite_unary() {
  const char* k[] = { "refine_with_constraint(A>=0)", "refine_with_constraint(A+B<=2)", "refine_with_constraint(0>=1)", "add_constraint(A==1)",
    "add_constraints(", "refine_with_congruence(A=0 mod 2)", "add_congruence(A=1)", "unconstrain(A)", "affine_image(A,B)", "affine_image(B,2A-B+1,2)",
    "affine_preimage(A,A+B)", "add_space_dimensions_and_embed(1)",
    "remove_higher_space_dimensions(1)", "fold_space_dimensions(", "topological_closure_assign()",
    "minimized_constraints()", "congruences()", "is_empty()", "is_universe()", "maximize(", "OK()",
    "add_generator(p(3,0))", "add_generator(r(0,1))", "add_generators(", "add_recycled_generators(", "add_recycled_constraints(", "generators()", "minimized_generators()",
    "add_grid_generator(p(1,1)/3)", "add_grid_generator(q(2,0))", "minimized_grid_generators()", "grid_generators()",
    "add_disjunct(", "omega_reduce()", "pairwise_reduce()", "collapse()" };
  return std::vector<std::string>(k, k + sizeof k / sizeof k[0]);
}
// the few state-changing operations given to an adapter that only ADDS operations to a class of groups 1-6
inline std::vector<std::string> mini_unary() {
  const char* k[] = { "refine_with_constraint(A>=0)", "refine_with_constraint(A+B<=2)", "refine_with_constraint(0>=1)", "affine_image(A,B)",
    "add_space_dimensions_and_embed(1)", "minimized_constraints()", "is_empty()", "is_universe()", "OK()", "minimized_generators()", "generators()",
    "add_generator(r(0,1))", "minimized_grid_generators()", "add_grid_generator(q(2,0))", "minimized_congruences()", "add_disjunct(halfplane", "omega_reduce()" };
  return std::vector<std::string>(k, k + sizeof k / sizeof k[0]);
}
template <class D> inline void strip_binary(ClassAdapter<D>& A) {       // binary operations already explored by groups 1-6
  std::vector<Mut<D> > k; for (size_t i = 0; i < A.muts.size(); ++i) if (!A.muts[i].binary) k.push_back(A.muts[i]); A.muts.swap(k);
}

template <class D> inline bool has_mut(const ClassAdapter<D>& A, const std::string& n) { for (size_t i = 0; i < A.muts.size(); ++i) if (A.muts[i].name == n) return true; return false; }
template <class D> inline void add_plain_binary(ClassAdapter<D>& A) {       // x.op(x) in the additional lazy states of the new initial objects
  typedef Mut<D> M;
  if (!has_mut(A, "intersection_assign")) A.muts.push_back(M("intersection_assign", true, [](D& d, const D* a) { d.intersection_assign(*a); return std::string(); }));
  if (!has_mut(A, "upper_bound_assign")) A.muts.push_back(M("upper_bound_assign", true, [](D& d, const D* a) { d.upper_bound_assign(*a); return std::string(); }));
  if (!has_mut(A, "m_swap(copy of arg)")) A.muts.push_back(M("m_swap(copy of arg)", true, [](D& d, const D* a) { D t(*a); d.m_swap(t); d.m_swap(d); return std::string(); }));
}

template <class D, class F>
inline void alias_pair(ClassAdapter<D>& A, const std::string& name, bool binary, F f, const char* tag = "[alias]") {
  typedef Mut<D> M;
  A.muts.push_back(M(name + tag, binary, [f](D& d, const D* a) { return f(d, a, true); }));
  A.muts.push_back(M(name + "[copy]", binary, [f](D& d, const D* a) { return f(d, a, false); }));
}

// =========================================================================================================
// ABSOLUTE oracles (they do not depend on the rebuilt twin, which goes through the same library code).
//  * an operation may return "INVARIANT:<clause>|<what>": check_transition reports it by itself;
//  * equality must agree with mutual containment, also once both sides have been minimized;
//  * a system handed out by const reference, copy-constructed and assigned into fresh objects, must be OK()
//    (Linear_System::OK() checks the sorted flag against the rows) and must describe the same set.
inline std::string& eq_alarm() { static std::string s; return s; }       // set by consistent_equal, read by check_transition
inline std::string marker(const std::string& clause, const std::string& what) { return "INVARIANT:" + clause + "|" + what; }

inline void min_desc(const void*) {}
inline void min_desc(const PPL::Polyhedron* p) { if (p->space_dimension() > 0) { (void)p->minimized_constraints(); (void)p->minimized_generators(); } }
inline void min_desc(const PPL::Grid* g) { if (g->space_dimension() > 0) { (void)g->minimized_congruences(); (void)g->minimized_grid_generators(); } }
template <class D> inline void minimize_both_descriptions(const D& d, int) { min_desc(&d); }

// "" when == / != agree with mutual containment (before and after minimization), else a description
template <class D> inline std::string equality_inconsistency(const D& a, const D& b, bool* mutual_out = 0) {
  if (a.space_dimension() != b.space_dimension()) { if (mutual_out) *mutual_out = false; return std::string(); }
  const bool mutual = a.contains(b) && b.contains(a);       // a function of the two values: computed once
  if (mutual_out) *mutual_out = mutual;
  for (int round = 0; round < 2; ++round) {
    bool eq = (a == b), ne = (a != b);
    if (eq != mutual || ne == eq) {
      using namespace PPL::IO_Operators; std::ostringstream o;
      o << (round ? "after minimizing both sides: " : "") << "operator== says " << b2s(eq) << ", operator!= says " << b2s(ne) << ", mutual containment says " << b2s(mutual) << " for " << a << " and " << b;
      return o.str().substr(0, 300);
    }
    if (round == 0) { minimize_both_descriptions(a, 0); minimize_both_descriptions(b, 0); }
  }
  return std::string();
}
// the semantic equality used by the pool oracle for the simple domains of groups 7-11: mutual containment, and
// operator== must agree with it once both sides are minimized (one round only: this is the hot path; the
// operations "copies of ...()" and "operator== with a copy" apply the full two-round check with operator!=)
template <class D> inline bool consistent_equal(const D& a, const D& b) {
  if (a.space_dimension() != b.space_dimension()) return false;
  minimize_both_descriptions(a, 0); minimize_both_descriptions(b, 0);
  const bool mutual = a.contains(b) && b.contains(a);
  const bool eq = (a == b);
  if (eq != mutual && eq_alarm().empty()) {
    using namespace PPL::IO_Operators; std::ostringstream o;
    o << "after minimizing both sides: operator== says " << b2s(eq) << ", mutual containment says " << b2s(mutual) << " for " << a << " and " << b;
    eq_alarm() = o.str().substr(0, 300);
  }
  return mutual;
}

// copy-construct and assign a system obtained by const reference; build the domain from the copies
template <class D, class SYS>
inline std::string check_system_copies(const D& d, const SYS& s, const std::string& accessor, bool exact, bool by_constraints) {
  SYS c1(s);
  SYS c2; c2 = s;
  if (!c1.OK()) return marker("invariant:temporary", "copy-constructed copy of " + accessor + " is not OK()");
  if (!c2.OK()) return marker("invariant:temporary", "assigned copy of " + accessor + " is not OK()");
  if (io_print(c1) != io_print(s) || io_print(c2) != io_print(s)) return marker("invariant:temporary", "copy of " + accessor + " prints differently from the original");
  if (!exact) return std::string();
  if (!by_constraints && d.is_empty()) return std::string();          // an empty generator system carries no space dimension
  D q1(c1), q2(c2), q0(s);
  D* qs[3] = { &q1, &q2, &q0 };
  for (int k = 0; k < 3; ++k) {
    D& q = *qs[k];
    if (q.space_dimension() < d.space_dimension()) { if (by_constraints) q.add_space_dimensions_and_embed(d.space_dimension() - q.space_dimension()); else continue; }
    const char* which = k == 0 ? "the copy-constructed copy of " : k == 1 ? "the assigned copy of " : "";
    if (!q.OK()) return marker("invariant:temporary", "object built from " + std::string(which) + accessor + " is not OK()");
    bool same = false;
    std::string w = equality_inconsistency(q, d, &same);
    if (!same) return marker("invariant:temporary", "object built from " + std::string(which) + accessor + " denotes a different set: " + io_print(q).substr(0, 120));
    if (!w.empty()) return marker("equality:disagrees-with-mutual-containment", "object built from " + std::string(which) + accessor + " vs its source: " + w);
    // against an independently minimized equal object
    D r(d); minimize_both_descriptions(r, 0); minimize_both_descriptions(q, 0);
    w = equality_inconsistency(q, r);
    if (!w.empty()) return marker("equality:disagrees-with-mutual-containment", "object built from " + std::string(which) + accessor + " vs a minimized copy of its source: " + w);
  }
  return std::string();
}

template <class PH>
inline void add_system_copy_oracles(ClassAdapter<PH>& A, const PPL::Polyhedron*) {
  typedef Mut<PH> M; typedef PH D;
  Variable x(0), y(1);
  A.muts.push_back(M("copies of constraints()", false, [](D& d, const D*) { return check_system_copies(d, d.constraints(), "constraints()", true, true); }, true));
  A.muts.push_back(M("copies of minimized_constraints()", false, [](D& d, const D*) { return check_system_copies(d, d.minimized_constraints(), "minimized_constraints()", true, true); }, true));
  A.muts.push_back(M("copies of generators()", false, [](D& d, const D*) { return check_system_copies(d, d.generators(), "generators()", true, false); }, true));
  A.muts.push_back(M("copies of minimized_generators()", false, [](D& d, const D*) { return check_system_copies(d, d.minimized_generators(), "minimized_generators()", true, false); }, true));
  A.muts.push_back(M("copies of congruences()", false, [](D& d, const D*) { Congruence_System cg(d.congruences()); return check_system_copies(d, cg, "congruences()", false, true); }, true));
  // lazy states with pending rows next to a part flagged as sorted by an earlier comparison
  A.muts.push_back(M("operator== with a copy", false, [](D& d, const D*) { D c(d); std::string w = equality_inconsistency(d, c); if (!w.empty()) return marker("equality:disagrees-with-mutual-containment", "object vs its copy: " + w); return b2s(d == c); }, true));
  A.muts.push_back(M("add_generator(p(-1,1))", false, [x, y](D& d, const D*) { d.add_generator(PPL::point(-x + y)); return std::string(); }));
  A.muts.push_back(M("add_constraint(A-B>=-1)", false, [x, y](D& d, const D*) { d.add_constraint(x - y >= -1); return std::string(); }));
  A.initials.push_back(std::make_pair(std::string("square[0,2]^2 minimized and ==-compared + pending vertex (-1,1)"), std::function<PH*()>([x, y]() {
    PH* d = new PH(2); d->add_constraint(x >= 0); d->add_constraint(x <= 2); d->add_constraint(y >= 0); d->add_constraint(y <= 2);
    (void)d->minimized_generators(); { PH c(*d); (void)(*d == c); } d->add_generator(PPL::point(-x + y)); return d; })));
  A.initials.push_back(std::make_pair(std::string("pentagon by generators minimized and ==-compared + pending constraint A+B>=1"), std::function<PH*()>([x, y]() {
    Generator_System gs; gs.insert(PPL::point(-x + y)); gs.insert(PPL::point(0 * x)); gs.insert(PPL::point(2 * x)); gs.insert(PPL::point(2 * x + 2 * y)); gs.insert(PPL::point(2 * y));
    PH* d = new PH(gs); (void)d->minimized_constraints(); { PH c(*d); (void)(*d == c); } d->add_constraint(x + y >= 1); return d; })));
}
inline void add_system_copy_oracles(ClassAdapter<PPL::Grid>& A, const PPL::Grid*) {
  typedef PPL::Grid D; typedef Mut<D> M;
  A.muts.push_back(M("copies of congruences()", false, [](D& d, const D*) { return check_system_copies(d, d.congruences(), "congruences()", true, true); }, true));
  A.muts.push_back(M("copies of minimized_congruences()", false, [](D& d, const D*) { return check_system_copies(d, d.minimized_congruences(), "minimized_congruences()", true, true); }, true));
  A.muts.push_back(M("copies of grid_generators()", false, [](D& d, const D*) { return check_system_copies(d, d.grid_generators(), "grid_generators()", true, false); }, true));
  A.muts.push_back(M("copies of minimized_grid_generators()", false, [](D& d, const D*) { return check_system_copies(d, d.minimized_grid_generators(), "minimized_grid_generators()", true, false); }, true));
  A.muts.push_back(M("operator== with a copy", false, [](D& d, const D*) { D c(d); std::string w = equality_inconsistency(d, c); if (!w.empty()) return marker("equality:disagrees-with-mutual-containment", "object vs its copy: " + w); return b2s(d == c); }, true));
}
template <class D> inline void add_system_copy_oracles(ClassAdapter<D>& A, const void*) {     // boxes, shapes: systems are returned by value
  typedef Mut<D> M;
  A.muts.push_back(M("operator== with a copy", false, [](D& d, const D*) { D c(d); std::string w = equality_inconsistency(d, c); if (!w.empty()) return marker("equality:disagrees-with-mutual-containment", "object vs its copy: " + w); return b2s(d == c); }, true));
}

template <class D> inline bool widen_pre(D& d, const D* a) { return d.space_dimension() == a->space_dimension() && (a == &d || d.contains(*a)); }

// ---------------------------------------------------------------------------------------------------------
// two expression arguments bound to one object (every domain)
// `light': the reduced selection used for powersets and products (the operation is applied disjunct by disjunct /
// component by component to code that the simple domains explore in full)
template <class D>
inline void add_same_expression_ops(ClassAdapter<D>& A, bool light = false) {
  Variable x(0), y(1);
  struct E { const char* n; Linear_Expression e; };
  std::vector<E> es; { E e1 = {"B+1", y + 1}, e2 = {"A+B", x + y}, e3 = {"2A", 2 * x}, e4 = {"3", Linear_Expression(3)}; es.push_back(e1); es.push_back(e2); es.push_back(e3); es.push_back(e4); }
  for (size_t i = 0; i < es.size(); ++i) {
    if (light && i >= 2) break;
    Linear_Expression e = es[i].e; std::string n = es[i].n;
    alias_pair(A, "bounded_affine_image(A," + n + "," + n + ")", false, [x, e](D& d, const D*, bool al) {
      if (al) d.bounded_affine_image(x, e, e); else { Linear_Expression e2(e); d.bounded_affine_image(x, e, e2); } return std::string(); });
    if (i < 2 && !light) alias_pair(A, "bounded_affine_preimage(A," + n + "," + n + ")", false, [x, e](D& d, const D*, bool al) {
      if (al) d.bounded_affine_preimage(x, e, e); else { Linear_Expression e2(e); d.bounded_affine_preimage(x, e, e2); } return std::string(); });
    struct R { const char* n; PPL::Relation_Symbol r; bool strict; };
    const R rs[3] = { {"<=", PPL::LESS_OR_EQUAL, false}, {"==", PPL::EQUAL, false}, {">", PPL::GREATER_THAN, true} };
    for (int k = 0; k < 3; ++k) {
      if (rs[k].strict && !DomTraits<D>::strict) continue;
      if (light && (i != 1 || k == 2)) continue;
      PPL::Relation_Symbol r = rs[k].r;
      alias_pair(A, "generalized_affine_image(" + n + "," + rs[k].n + "," + n + ")", false, [e, r](D& d, const D*, bool al) {
        if (al) d.generalized_affine_image(e, r, e); else { Linear_Expression e2(e); d.generalized_affine_image(e, r, e2); } return std::string(); });
      if ((i == 1 || i == 2) && !light) alias_pair(A, "generalized_affine_preimage(" + n + "," + rs[k].n + "," + n + ")", false, [e, r](D& d, const D*, bool al) {
        if (al) d.generalized_affine_preimage(e, r, e); else { Linear_Expression e2(e); d.generalized_affine_preimage(e, r, e2); } return std::string(); });
    }
  }
}

// ---------------------------------------------------------------------------------------------------------
// arguments taken from (a slot that may be) the receiver: constraints / congruences
template <class CS> inline bool sys_empty(const CS& s) { return s.begin() == s.end(); }

template <class D>
inline void add_into_receiver_ops(ClassAdapter<D>& A) {
  typedef Mut<D> M;
  A.muts.push_back(M("add_constraints(arg.constraints())", true, [](D& d, const D* a) { d.add_constraints(a->constraints()); return std::string(); }));
  A.muts.push_back(M("add_constraints(arg.minimized_constraints())", true, [](D& d, const D* a) { d.add_constraints(a->minimized_constraints()); return std::string(); }));
  A.muts.push_back(M("refine_with_constraints(arg.constraints())", true, [](D& d, const D* a) { d.refine_with_constraints(a->constraints()); return std::string(); }));
  A.muts.push_back(M("refine_with_constraints(arg.minimized_constraints())", true, [](D& d, const D* a) { d.refine_with_constraints(a->minimized_constraints()); return std::string(); }));
  // one element of the receiver's own system passed by reference (which element is "first" depends on the
  // representation, but adding / testing ANY of the receiver's own constraints leaves the value unchanged, so
  // the twin -- the same call with a copy of the element -- is representation independent)
  alias_pair(A, "add_constraint(first of own constraints())", false, [](D& d, const D*, bool al) {
    const Constraint_System& cs = d.constraints(); if (sys_empty(cs)) return std::string();
    if (al) { const Constraint& c = *cs.begin(); d.add_constraint(c); } else { Constraint c(*cs.begin()); d.add_constraint(c); } return std::string(); });
  alias_pair(A, "refine_with_constraint(last of own minimized_constraints())", false, [](D& d, const D*, bool al) {
    const Constraint_System& cs = d.minimized_constraints(); if (sys_empty(cs)) return std::string();
    Constraint_System::const_iterator i = cs.begin(), n = i; for (++n; n != cs.end(); ++n) i = n;
    if (al) { const Constraint& c = *i; d.refine_with_constraint(c); } else { Constraint c(*i); d.refine_with_constraint(c); } return std::string(); });
  alias_pair(A, "relation_with(first of own constraints())", false, [](D& d, const D*, bool al) {
    const Constraint_System& cs = d.constraints(); if (sys_empty(cs)) return std::string("true");
    if (al) { const Constraint& c = *cs.begin(); return b2s(d.relation_with(c).implies(PPL::Poly_Con_Relation::is_included())); }
    Constraint c(*cs.begin()); return b2s(d.relation_with(c).implies(PPL::Poly_Con_Relation::is_included())); });
  A.muts.push_back(M("add_congruences(arg.congruences())", true, [](D& d, const D* a) { d.add_congruences(a->congruences()); return std::string(); }));
  A.muts.push_back(M("refine_with_congruences(arg.minimized_congruences())", true, [](D& d, const D* a) { d.refine_with_congruences(a->minimized_congruences()); return std::string(); }));
  alias_pair(A, "add_congruence(first of own congruences())", false, [](D& d, const D*, bool al) {
    const Congruence_System& cs = d.congruences(); if (sys_empty(cs)) return std::string();
    if (al) { const Congruence& c = *cs.begin(); d.add_congruence(c); } else { Congruence c(*cs.begin()); d.add_congruence(c); } return std::string(); });
  alias_pair(A, "refine_with_congruence(first of own minimized_congruences())", false, [](D& d, const D*, bool al) {
    const Congruence_System& cs = d.minimized_congruences(); if (sys_empty(cs)) return std::string();
    if (al) { const Congruence& c = *cs.begin(); d.refine_with_congruence(c); } else { Congruence c(*cs.begin()); d.refine_with_congruence(c); } return std::string(); });
  A.muts.push_back(M("assign(D(arg.constraints()))", true, [](D& d, const D* a) { d = D(a->constraints()); return std::string(); }));
  A.muts.push_back(M("assign(D(arg.congruences()))", true, [](D& d, const D* a) { d = D(a->congruences()); return std::string(); }));
}

// ---- recycling entry points.  The donor is built from the argument slot's own description (so that with
// receiver == argument it is a copy of the receiver's own system); after the call it is assigned to, used
// and destroyed ("afterlife"); the receiver must equal what the copying entry point gives (twin).
template <class SYS> inline std::string donor_afterlife(SYS& donor, const SYS& fresh, int how) {
  // documented contract: the donor "can be safely destroyed"; assignment to it must therefore work as well
  // (operator= destroys the old value).  Nothing else is assumed about the donor's value.
  if (how == 0) return "donor-ok";                       // destroyed by the caller's scope
  if (how == 1) { donor = fresh; if (!donor.OK()) return "donor-not-OK-after-assignment"; if (io_print(donor) != io_print(fresh)) return "donor-differs-after-assignment"; return "donor-ok"; }
  if (how == 2) { SYS other(fresh); using std::swap; swap(donor, other); if (!donor.OK()) return "donor-not-OK-after-swap"; if (io_print(donor) != io_print(fresh)) return "donor-differs-after-swap"; return "donor-ok"; }
  return "donor-ok";
}

template <class D, class SYS, class GET, class REC, class CPY>
inline void add_recycle_ops(ClassAdapter<D>& A, const std::string& entry, const std::string& src, GET get, REC rec, CPY cpy, const SYS& fresh) {
  for (int how = 1; how < 2; ++how) {       // (the swap-with-fresh afterlife is explored on the systems themselves, group 12)
    static const char* hn[3] = {"destroy", "assign-to", "swap-with-fresh"};
    alias_pair(A, entry + "(donor=" + src + ";then " + hn[how] + " donor)", true, [get, rec, cpy, fresh, how](D& d, const D* a, bool real) {
      SYS donor(get(*a));
      if (!real) { cpy(d, donor); return std::string("donor-ok"); }
      rec(d, donor);
      std::string r = donor_afterlife(donor, fresh, how);
      return r; }, "[recycle]");
  }
  // the receiver is a temporary that dies first: the donor must survive it
  alias_pair(A, entry + "(on a temporary copy of the receiver that is destroyed before the donor;donor=" + src + ")", true, [get, rec, cpy, fresh](D& d, const D* a, bool real) {
    SYS donor(get(*a));
    if (!real) { cpy(d, donor); return std::string("donor-ok"); }
    { D tmp(d); try { rec(tmp, donor); } catch (const std::exception&) {} }      // a rejected call still leaves the donor destructible / assignable
    std::string r = donor_afterlife(donor, fresh, 1);
    SYS donor2(get(*a)); rec(d, donor2);
    return r; }, "[recycle]");
}

// `same_as_copying': the reference side uses the copying entry point add_constraints / add_congruences (simple
// domains: the recycling entry point is documented to differ only in what happens to the argument).  For the
// products the two entry points treat the components differently (one component is refined, not added to), so
// the reference side uses the recycling entry point on a donor that is simply destroyed.
template <class D>
inline void add_recycle_constraint_ops(ClassAdapter<D>& A, bool same_as_copying = true) {
  Variable x(0), y(1);
  Constraint_System fresh; fresh.insert(x + y >= 7); fresh.insert(x == 3);
  add_recycle_ops<D, Constraint_System>(A, "add_recycled_constraints", "arg.constraints()",
    [](const D& a) { return Constraint_System(a.constraints()); },
    [](D& d, Constraint_System& s) { d.add_recycled_constraints(s); },
    [same_as_copying](D& d, const Constraint_System& s) { if (same_as_copying) d.add_constraints(s); else { Constraint_System t(s); d.add_recycled_constraints(t); } }, fresh);
  Congruence_System cfresh; cfresh.insert((x + y %= 1) / 5); cfresh.insert(x == 3);
  add_recycle_ops<D, Congruence_System>(A, "add_recycled_congruences", "arg.congruences()",
    [](const D& a) { return Congruence_System(a.congruences()); },
    [](D& d, Congruence_System& s) { d.add_recycled_congruences(s); },
    [same_as_copying](D& d, const Congruence_System& s) { if (same_as_copying) d.add_congruences(s); else { Congruence_System t(s); d.add_recycled_congruences(t); } }, cfresh);
}

// ---- limited extrapolations: (y, cs) with y == receiver and / or cs == the receiver's own constraints.
// With cs = receiver.constraints() every constraint of cs is satisfied by the receiver x, so the result is
// widen(x, y) /\ x = x whatever the representation: compared by value with the call on a copy of cs.
// With cs = y.constraints() (a reference into the const argument, which the operation minimizes) the result
// depends on WHICH constraints describe y (redundant ones included), which is not part of y's value: the call is
// made on a copy of the receiver and only has to be safe (sanitizers) and to leave y's value alone.
template <class D, class F>
inline void add_limited(ClassAdapter<D>& A, const std::string& nm, F f, bool all_forms = true) {
  typedef Mut<D> M;
  alias_pair(A, nm + "(arg,receiver.constraints())", true, [f](D& d, const D* a, bool al) {
    if (!widen_pre(d, a)) return std::string("skipped");
    if (al) f(d, *a, d.constraints(), (unsigned*)0); else { Constraint_System cs(d.constraints()); f(d, *a, cs, (unsigned*)0); }
    return std::string(); });
  if (all_forms) A.muts.push_back(M(nm + "(arg,arg.constraints()) on a copy of the receiver", true, [f](D& d, const D* a) { if (!widen_pre(d, a)) return std::string("skipped"); D t(d); f(t, *a, a->constraints(), (unsigned*)0); return std::string(t.OK() ? "" : "copy-not-OK"); }, true));
  if (all_forms) A.muts.push_back(M(nm + "(arg,arg.minimized_constraints(),tokens=1) on a copy of the receiver", true, [f](D& d, const D* a) { if (!widen_pre(d, a)) return std::string("skipped"); D t(d); unsigned tk = 1; f(t, *a, a->minimized_constraints(), &tk); return std::string(t.OK() ? "" : "copy-not-OK"); }, true));
}
template <class D, class F>
inline void add_widening(ClassAdapter<D>& A, const std::string& nm, F f, bool plain = true) {
  typedef Mut<D> M;
  if (plain) A.muts.push_back(M(nm + "(arg)", true, [f](D& d, const D* a) { if (!widen_pre(d, a)) return std::string("skipped"); f(d, *a, (unsigned*)0); return std::string(); }));
  A.muts.push_back(M(nm + "(arg,tokens=2)", true, [f](D& d, const D* a) { if (!widen_pre(d, a)) return std::string("skipped"); unsigned t = 2; f(d, *a, &t); return std::to_string(t); }));
}

template <class D>
inline void add_wrap_op(ClassAdapter<D>& A) {
  // the guard constraint system is the receiver's own constraints() (reference into the receiver) vs a copy
  alias_pair(A, "wrap_assign(all dims,BITS_8,UNSIGNED,WRAPS,&receiver.constraints())", false, [](D& d, const D*, bool al) {
    Variables_Set vs; for (dimension_type i = 0; i < d.space_dimension(); ++i) vs.insert(Variable(i));
    if (d.space_dimension() == 0 || d.space_dimension() > 3) return std::string("skipped");
    if (al) { const Constraint_System& cs = d.constraints(); d.wrap_assign(vs, PPL::BITS_8, PPL::UNSIGNED, PPL::OVERFLOW_WRAPS, &cs); }
    else { Constraint_System cs(d.constraints()); d.wrap_assign(vs, PPL::BITS_8, PPL::UNSIGNED, PPL::OVERFLOW_WRAPS, &cs); }
    return std::string(); });
}

// ---- per-domain additions
template <class PH>
inline void add_domain_specific(ClassAdapter<PH>& A, const PPL::Polyhedron*) {
  typedef Mut<PH> M; typedef PH D;
  Variable x(0), y(1);
  A.initials.push_back(std::make_pair(std::string("gens{p(0,0),p(2,1)/2,r(1,1)}"), std::function<PH*()>([x, y]() { Generator_System gs; gs.insert(PPL::point()); gs.insert(PPL::point(2 * x + y, 2)); gs.insert(PPL::ray(x + y)); return new PH(gs); })));
  A.initials.push_back(std::make_pair(std::string("square,both minimized + pending constraint"), std::function<PH*()>([x, y]() { PH* d = new PH(2); d->add_constraint(x >= 0); d->add_constraint(x <= 1); d->add_constraint(y >= 0); d->add_constraint(y <= 1); (void)d->minimized_generators(); (void)d->minimized_constraints(); d->add_constraint(x + y <= 1); return d; })));
  A.initials.push_back(std::make_pair(std::string("segment,both minimized + pending generator"), std::function<PH*()>([x, y]() { Generator_System gs; gs.insert(PPL::point(x)); gs.insert(PPL::point(y)); PH* d = new PH(gs); (void)d->minimized_constraints(); (void)d->minimized_generators(); d->add_generator(PPL::point(x + y)); return d; })));
  A.muts.push_back(M("add_generators(arg.generators())", true, [](D& d, const D* a) { d.add_generators(a->generators()); return std::string(); }));
  A.muts.push_back(M("add_generators(arg.minimized_generators())", true, [](D& d, const D* a) { d.add_generators(a->minimized_generators()); return std::string(); }));
  alias_pair(A, "add_generator(first of own generators())", false, [](D& d, const D*, bool al) {
    const Generator_System& gs = d.generators(); if (sys_empty(gs)) return std::string();
    if (al) { const Generator& g = *gs.begin(); d.add_generator(g); } else { Generator g(*gs.begin()); d.add_generator(g); } return std::string(); });
  alias_pair(A, "add_generator(last of own minimized_generators())", false, [](D& d, const D*, bool al) {
    const Generator_System& gs = d.minimized_generators(); if (sys_empty(gs)) return std::string();
    Generator_System::const_iterator i = gs.begin(), n = i; for (++n; n != gs.end(); ++n) i = n;
    if (al) { const Generator& g = *i; d.add_generator(g); } else { Generator g(*i); d.add_generator(g); } return std::string(); });
  alias_pair(A, "relation_with(first of own generators())", false, [](D& d, const D*, bool al) {
    const Generator_System& gs = d.generators(); if (sys_empty(gs)) return std::string("true");
    if (al) { const Generator& g = *gs.begin(); return b2s(d.relation_with(g) == PPL::Poly_Gen_Relation::subsumes()); }
    Generator g(*gs.begin()); return b2s(d.relation_with(g) == PPL::Poly_Gen_Relation::subsumes()); });
  A.muts.push_back(M("assign(D(arg.generators()))", true, [](D& d, const D* a) { d = D(a->generators()); return std::string(); }));
  A.muts.push_back(M("assign(D(copy of arg.constraints(),Recycle_Input))", true, [](D& d, const D* a) { Constraint_System cs(a->constraints()); d = D(cs, PPL::Recycle_Input()); cs = Constraint_System(); return std::string(); }));
  A.muts.push_back(M("assign(D(copy of arg.generators(),Recycle_Input))", true, [](D& d, const D* a) { Generator_System gs(a->generators()); d = D(gs, PPL::Recycle_Input()); gs = Generator_System(); return std::string(); }));
  Generator_System fresh; fresh.insert(PPL::point(3 * x)); fresh.insert(PPL::line(x - y));
  add_recycle_ops<D, Generator_System>(A, "add_recycled_generators", "arg.generators()",
    [](const D& a) { return Generator_System(a.generators()); },
    [](D& d, Generator_System& s) { d.add_recycled_generators(s); }, [](D& d, const Generator_System& s) { d.add_generators(s); }, fresh);
  // (the plain forms are explored by groups 1 and 2)
  add_widening(A, "H79_widening_assign", [](D& d, const D& a, unsigned* t) { d.H79_widening_assign(a, t); }, false);
  add_widening(A, "BHRZ03_widening_assign", [](D& d, const D& a, unsigned* t) { d.BHRZ03_widening_assign(a, t); }, false);
  add_limited(A, "limited_H79_extrapolation_assign", [](D& d, const D& a, const Constraint_System& cs, unsigned* t) { d.limited_H79_extrapolation_assign(a, cs, t); });
  add_limited(A, "limited_BHRZ03_extrapolation_assign", [](D& d, const D& a, const Constraint_System& cs, unsigned* t) { d.limited_BHRZ03_extrapolation_assign(a, cs, t); });
  add_limited(A, "bounded_H79_extrapolation_assign", [](D& d, const D& a, const Constraint_System& cs, unsigned* t) { d.bounded_H79_extrapolation_assign(a, cs, t); }, false);
  add_limited(A, "bounded_BHRZ03_extrapolation_assign", [](D& d, const D& a, const Constraint_System& cs, unsigned* t) { d.bounded_BHRZ03_extrapolation_assign(a, cs, t); }, false);
  A.muts.push_back(M("positive_time_elapse_assign", true, [](D& d, const D* a) { d.positive_time_elapse_assign(*a); return std::string(); }));
  A.muts.push_back(M("poly_hull_assign", true, [](D& d, const D* a) { d.poly_hull_assign(*a); return std::string(); }));
}

inline void add_domain_specific(ClassAdapter<PPL::Grid>& A, const PPL::Grid*) {
  typedef PPL::Grid D; typedef Mut<D> M;
  Variable x(0), y(1);
  A.initials.push_back(std::make_pair(std::string("lattice{A=0mod2,A+B=1mod3}"), std::function<D*()>([x, y]() { D* d = new D(2); d->add_congruence((x %= 0) / 2); d->add_congruence((x + y %= 1) / 3); return d; })));
  A.initials.push_back(std::make_pair(std::string("gens{p(1,0)/2,q(0,3),l(1,1)}"), std::function<D*()>([x, y]() { D* d = new D(2, PPL::EMPTY); d->add_grid_generator(PPL::grid_point(x, 2)); d->add_grid_generator(PPL::parameter(3 * y)); d->add_grid_generator(PPL::grid_line(x + y)); return d; })));
  A.initials.push_back(std::make_pair(std::string("lattice,both minimized"), std::function<D*()>([x, y]() { D* d = new D(2); d->add_congruence((x %= 0) / 2); d->add_congruence((y %= 1) / 3); (void)d->minimized_grid_generators(); (void)d->minimized_congruences(); return d; })));
  A.muts.push_back(M("add_grid_generators(arg.grid_generators())", true, [](D& d, const D* a) { d.add_grid_generators(a->grid_generators()); return std::string(); }));
  A.muts.push_back(M("add_grid_generators(arg.minimized_grid_generators())", true, [](D& d, const D* a) { d.add_grid_generators(a->minimized_grid_generators()); return std::string(); }));
  alias_pair(A, "add_grid_generator(first of own grid_generators())", false, [](D& d, const D*, bool al) {
    const Grid_Generator_System& gs = d.grid_generators(); if (gs.begin() == gs.end()) return std::string();
    if (al) { const Grid_Generator& g = *gs.begin(); d.add_grid_generator(g); } else { Grid_Generator g(*gs.begin()); d.add_grid_generator(g); } return std::string(); });
  alias_pair(A, "relation_with(first of own grid_generators())", false, [](D& d, const D*, bool al) {
    const Grid_Generator_System& gs = d.grid_generators(); if (gs.begin() == gs.end()) return std::string("true");
    if (al) { const Grid_Generator& g = *gs.begin(); return b2s(d.relation_with(g) == PPL::Poly_Gen_Relation::subsumes()); }
    Grid_Generator g(*gs.begin()); return b2s(d.relation_with(g) == PPL::Poly_Gen_Relation::subsumes()); });
  alias_pair(A, "relation_with(first of own congruences())", false, [](D& d, const D*, bool al) {
    const Congruence_System& cs = d.congruences(); if (cs.begin() == cs.end()) return std::string("true");
    if (al) { const Congruence& g = *cs.begin(); return b2s(d.relation_with(g).implies(PPL::Poly_Con_Relation::is_included())); }
    Congruence g(*cs.begin()); return b2s(d.relation_with(g).implies(PPL::Poly_Con_Relation::is_included())); });
  A.muts.push_back(M("assign(D(arg.grid_generators()))", true, [](D& d, const D* a) { d = D(a->grid_generators()); return std::string(); }));
  A.muts.push_back(M("assign(D(copy of arg.congruences(),Recycle_Input))", true, [](D& d, const D* a) { Congruence_System cs(a->congruences()); d = D(cs, PPL::Recycle_Input()); cs = Congruence_System(); return std::string(); }));
  A.muts.push_back(M("assign(D(copy of arg.grid_generators(),Recycle_Input))", true, [](D& d, const D* a) { Grid_Generator_System gs(a->grid_generators()); d = D(gs, PPL::Recycle_Input()); gs = Grid_Generator_System(); return std::string(); }));
  Grid_Generator_System fresh; fresh.insert(PPL::grid_point(3 * x)); fresh.insert(PPL::grid_line(x - y));
  add_recycle_ops<D, Grid_Generator_System>(A, "add_recycled_grid_generators", "arg.grid_generators()",
    [](const D& a) { return Grid_Generator_System(a.grid_generators()); },
    [](D& d, Grid_Generator_System& s) { d.add_recycled_grid_generators(s); }, [](D& d, const Grid_Generator_System& s) { d.add_grid_generators(s); }, fresh);
  add_widening(A, "congruence_widening_assign", [](D& d, const D& a, unsigned* t) { d.congruence_widening_assign(a, t); });
  add_widening(A, "generator_widening_assign", [](D& d, const D& a, unsigned* t) { d.generator_widening_assign(a, t); });
  // limited extrapolations take a congruence system
  struct L { const char* n; int k; };
  const L ls[3] = { {"limited_congruence_extrapolation_assign", 0}, {"limited_generator_extrapolation_assign", 1}, {"limited_extrapolation_assign", 2} };
  for (int i = 0; i < 3; ++i) {
    int k = ls[i].k; std::string nm = ls[i].n;
    std::function<void(D&, const D&, const Congruence_System&, unsigned*)> f = [k](D& d, const D& a, const Congruence_System& cs, unsigned* t) {
      if (k == 0) d.limited_congruence_extrapolation_assign(a, cs, t); else if (k == 1) d.limited_generator_extrapolation_assign(a, cs, t); else d.limited_extrapolation_assign(a, cs, t); };
    A.muts.push_back(M(nm + "(arg,arg.congruences()) on a copy of the receiver", true, [f](D& d, const D* a) { if (!widen_pre(d, a)) return std::string("skipped"); D t(d); f(t, *a, a->congruences(), (unsigned*)0); return std::string(t.OK() ? "" : "copy-not-OK"); }, true));
    alias_pair(A, nm + "(arg,receiver.congruences())", true, [f](D& d, const D* a, bool al) {
      if (!widen_pre(d, a)) return std::string("skipped");
      if (al) f(d, *a, d.congruences(), (unsigned*)0); else { Congruence_System cs(d.congruences()); f(d, *a, cs, (unsigned*)0); }
      return std::string(); });
    A.muts.push_back(M(nm + "(arg,arg.minimized_congruences(),tokens=1) on a copy of the receiver", true, [f](D& d, const D* a) { if (!widen_pre(d, a)) return std::string("skipped"); D t(d); unsigned tk = 1; f(t, *a, a->minimized_congruences(), &tk); return std::string(t.OK() ? "" : "copy-not-OK"); }, true));
  }
  // modulus forms with both expressions bound to one object
  Linear_Expression e = x + y;
  alias_pair(A, "generalized_affine_image(A+B,==,A+B,mod 3)", false, [e](D& d, const D*, bool al) {
    if (al) d.generalized_affine_image(e, PPL::EQUAL, e, Coefficient(3)); else { Linear_Expression e2(e); d.generalized_affine_image(e, PPL::EQUAL, e2, Coefficient(3)); } return std::string(); });
  alias_pair(A, "generalized_affine_preimage(A+B,==,A+B,mod 3)", false, [e](D& d, const D*, bool al) {
    if (al) d.generalized_affine_preimage(e, PPL::EQUAL, e, Coefficient(3)); else { Linear_Expression e2(e); d.generalized_affine_preimage(e, PPL::EQUAL, e2, Coefficient(3)); } return std::string(); });
}

template <class ITV>
inline void add_domain_specific(ClassAdapter<PPL::Box<ITV> >& A, const PPL::Box<ITV>*) {
  typedef PPL::Box<ITV> D; typedef Mut<D> M;
  add_widening(A, "CC76_widening_assign", [](D& d, const D& a, unsigned* t) { d.CC76_widening_assign(a, t); });
  add_limited(A, "limited_CC76_extrapolation_assign", [](D& d, const D& a, const Constraint_System& cs, unsigned* t) { d.limited_CC76_extrapolation_assign(a, cs, t); });
  A.muts.push_back(M("CC76_narrowing_assign(if arg contains)", true, [](D& d, const D* a) { if (d.space_dimension() != a->space_dimension() || (a != &d && !a->contains(d))) return std::string("skipped"); d.CC76_narrowing_assign(*a); return std::string(); }));
}

template <class D>
inline void add_shape_specific(ClassAdapter<D>& A, bool bds) {
  typedef Mut<D> M;
  add_widening(A, "CC76_extrapolation_assign", [](D& d, const D& a, unsigned* t) { d.CC76_extrapolation_assign(a, t); });
  add_widening(A, "BHMZ05_widening_assign", [](D& d, const D& a, unsigned* t) { d.BHMZ05_widening_assign(a, t); });
  add_limited(A, "limited_CC76_extrapolation_assign", [](D& d, const D& a, const Constraint_System& cs, unsigned* t) { d.limited_CC76_extrapolation_assign(a, cs, t); });
  add_limited(A, "limited_BHMZ05_extrapolation_assign", [](D& d, const D& a, const Constraint_System& cs, unsigned* t) { d.limited_BHMZ05_extrapolation_assign(a, cs, t); });
  A.muts.push_back(M("CC76_narrowing_assign(if arg contains)", true, [](D& d, const D* a) { if (d.space_dimension() != a->space_dimension() || (a != &d && !a->contains(d))) return std::string("skipped"); d.CC76_narrowing_assign(*a); return std::string(); }));
}
template <class T>
inline void add_domain_specific(ClassAdapter<PPL::BD_Shape<T> >& A, const PPL::BD_Shape<T>*) {
  typedef PPL::BD_Shape<T> D;
  add_shape_specific(A, true);
  add_widening(A, "H79_widening_assign", [](D& d, const D& a, unsigned* t) { d.H79_widening_assign(a, t); });
  add_limited(A, "limited_H79_extrapolation_assign", [](D& d, const D& a, const Constraint_System& cs, unsigned* t) { d.limited_H79_extrapolation_assign(a, cs, t); });
}
template <class T>
inline void add_domain_specific(ClassAdapter<PPL::Octagonal_Shape<T> >& A, const PPL::Octagonal_Shape<T>*) { add_shape_specific(A, false); }

// adapter that only ADDS operations to a simple domain already explored by groups 1-6
template <class D>
inline ClassAdapter<D> domain_alias_adapter(const std::string& name) {
  ClassAdapter<D> A; A.name = name;
  add_domain_initials(A);
  add_common_domain_ops(A);
  strip_binary(A);
  keep_only(A, mini_unary());
  add_same_expression_ops(A);
  add_into_receiver_ops(A);
  add_recycle_constraint_ops(A);
  add_wrap_op(A);
  add_domain_specific(A, (const D*)0);
  add_system_copy_oracles(A, (const D*)0);
  add_plain_binary(A);
  if (DomTraits<D>::grid) {
    // Grid::constraints() keeps the equalities only and tells that the grid is empty only once that has been
    // DETECTED (a lazy, const step): what it returns is not a function of the grid's value, so operations fed with
    // it are not either.  The congruence-based forms (exact descriptions) are kept.
    drop_named(A, std::vector<std::string>({"add_constraints(arg.", "refine_with_constraints(arg.", "add_constraint(first of own constraints",
      "refine_with_constraint(last of own minimized_constraints", "relation_with(first of own constraints", "assign(D(arg.constraints()))",
      "add_recycled_constraints(", "wrap_assign("}));
  }
  fill_io<D>(A, []() { return new D(0, PPL::UNIVERSE); });
  A.equal = [](const D& a, const D& b) { return consistent_equal(a, b); };
  return A;
}

// a further instantiation of a simple domain: reduced unary menu of classes.hh, all its binary operations, + the additions
template <class D>
inline ClassAdapter<D> domain_full_adapter(const std::string& name) {
  ClassAdapter<D> A = domain_adapter<D>(name);
  keep_only(A, lite_unary());
  add_same_expression_ops(A);
  add_into_receiver_ops(A);
  add_recycle_constraint_ops(A);
  add_wrap_op(A);
  add_domain_specific(A, (const D*)0);
  add_system_copy_oracles(A, (const D*)0);
  add_plain_binary(A);
  A.equal = [](const D& a, const D& b) { return consistent_equal(a, b); };
  return A;
}


// =========================================================================================================
// powersets
inline void ps_bgp99(PPL::Pointset_Powerset<PPL::C_Polyhedron>& d, const PPL::Pointset_Powerset<PPL::C_Polyhedron>& a) { d.BGP99_extrapolation_assign(a, PPL::widen_fun_ref(&PPL::Polyhedron::H79_widening_assign), 2); }
inline void ps_bhz03(PPL::Pointset_Powerset<PPL::C_Polyhedron>& d, const PPL::Pointset_Powerset<PPL::C_Polyhedron>& a) { d.BHZ03_widening_assign<PPL::BHRZ03_Certificate>(a, PPL::widen_fun_ref(&PPL::Polyhedron::BHRZ03_widening_assign)); }
inline void ps_bgp99(PPL::Pointset_Powerset<PPL::NNC_Polyhedron>& d, const PPL::Pointset_Powerset<PPL::NNC_Polyhedron>& a) { d.BGP99_extrapolation_assign(a, PPL::widen_fun_ref(&PPL::Polyhedron::H79_widening_assign), 2); }
inline void ps_bhz03(PPL::Pointset_Powerset<PPL::NNC_Polyhedron>& d, const PPL::Pointset_Powerset<PPL::NNC_Polyhedron>& a) { d.BHZ03_widening_assign<PPL::H79_Certificate>(a, PPL::widen_fun_ref(&PPL::Polyhedron::H79_widening_assign)); }
inline void ps_bgp99(PPL::Pointset_Powerset<PPL::Grid>& d, const PPL::Pointset_Powerset<PPL::Grid>& a) { d.BGP99_extrapolation_assign(a, PPL::widen_fun_ref(&PPL::Grid::widening_assign), 2); }
inline void ps_bhz03(PPL::Pointset_Powerset<PPL::Grid>& d, const PPL::Pointset_Powerset<PPL::Grid>& a) { d.BHZ03_widening_assign<PPL::Grid_Certificate>(a, PPL::widen_fun_ref(&PPL::Grid::widening_assign)); }
inline void ps_bgp99(PPL::Pointset_Powerset<PPL::Rational_Box>& d, const PPL::Pointset_Powerset<PPL::Rational_Box>& a) { d.BGP99_extrapolation_assign(a, PPL::widen_fun_ref(&PPL::Rational_Box::widening_assign), 2); }
inline void ps_bhz03(PPL::Pointset_Powerset<PPL::Rational_Box>& d, const PPL::Pointset_Powerset<PPL::Rational_Box>& a) { d.BHZ03_widening_assign<PPL::H79_Certificate>(a, PPL::widen_fun_ref(&PPL::Rational_Box::widening_assign)); }

// The powerset extrapolations work on the SYNTACTIC powerset (which disjuncts, in which order), which is not part
// of the value (omega-reduction is a lazy const operation; geometric equality is the value).  They are applied to
// canonical forms: omega-reduced, disjuncts ordered by a semantic key (affine dimension and the suprema /
// infima of A, B, A+B, A-B), so that the outcome is a function of the values.
template <class P> inline std::string disjunct_key(const P& p) {
  Variable x(0), y(1);
  std::string k = std::to_string(p.space_dimension()) + ":" + std::to_string(p.affine_dimension());
  if (p.space_dimension() < 2) return k;
  Linear_Expression es[4] = { Linear_Expression(x), Linear_Expression(y), x + y, x - y };
  for (int i = 0; i < 4; ++i) for (int s = 0; s < 2; ++s) {
    Coefficient n, d; bool m;
    bool b = s ? p.maximize(es[i], n, d, m) : p.minimize(es[i], n, d, m);
    if (b) { mpq_class q(n, d); q.canonicalize(); k += "|" + q.get_str() + (m ? "!" : "~"); } else k += "|inf";
  }
  return k;
}
template <class P> inline PPL::Pointset_Powerset<P> canonical_powerset(const PPL::Pointset_Powerset<P>& ps) {
  typedef PPL::Pointset_Powerset<P> D;
  ps.omega_reduce();
  std::vector<std::pair<std::string, P> > ds;
  for (typename D::const_iterator i = ps.begin(); i != ps.end(); ++i) ds.push_back(std::make_pair(disjunct_key(i->pointset()), i->pointset()));
  std::stable_sort(ds.begin(), ds.end(), [](const std::pair<std::string, P>& a, const std::pair<std::string, P>& b) { return a.first < b.first; });
  D r(ps.space_dimension(), PPL::EMPTY);
  for (size_t i = 0; i < ds.size(); ++i) r.add_disjunct(ds[i].second);
  return r;
}
template <class P, class F>
inline std::string canonical_widen(PPL::Pointset_Powerset<P>& d, const PPL::Pointset_Powerset<P>* a, F f) {
  typedef PPL::Pointset_Powerset<P> D;
  if (d.space_dimension() != a->space_dimension()) return std::string("skipped");
  D cx = canonical_powerset(d);
  if (a == &d) { f(cx, cx); }                                  // aliased: y is the receiver itself
  else { D cy = canonical_powerset(*a); if (!cy.definitely_entails(cx)) return std::string("skipped"); f(cx, cy); }
  d.m_swap(cx);
  return std::string();
}

template <class P>
inline void add_powerset_extras(ClassAdapter<PPL::Pointset_Powerset<P> >& A) {
  typedef PPL::Pointset_Powerset<P> D; typedef Mut<D> M;
  Variable x(0), y(1);
  A.initials.push_back(std::make_pair(std::string("three-overlapping,omega-reduced"), std::function<D*()>([x, y]() {
    D* d = new D(2, PPL::EMPTY);
    for (int k = 0; k < 3; ++k) { P a(2); a.refine_with_constraint(x >= k); a.refine_with_constraint(x <= k + 2); a.refine_with_constraint(y >= 0); a.refine_with_constraint(y <= 1 + k % 2); d->add_disjunct(a); }
    d->omega_reduce(); return d; })));
  add_same_expression_ops(A, true);
  A.muts.push_back(M("BGP99_extrapolation_assign(arg,widening,2) on canonical forms", true, [](D& d, const D* a) { return canonical_widen(d, a, [](D& x, const D& y) { ps_bgp99(x, y); }); }));
  A.muts.push_back(M("BHZ03_widening_assign(arg,widening) on canonical forms", true, [](D& d, const D* a) { return canonical_widen(d, a, [](D& x, const D& y) { ps_bhz03(x, y); }); }));
  A.muts.push_back(M("BGP99_extrapolation_assign(arg,widening,2) on a copy of the receiver", true, [](D& d, const D* a) { if (d.space_dimension() != a->space_dimension() || (a != &d && !a->definitely_entails(d))) return std::string(); D t(d); ps_bgp99(t, *a); return std::string(t.OK() ? "" : "copy-not-OK"); }, true));
  A.muts.push_back(M("BHZ03_widening_assign(arg,widening) on a copy of the receiver", true, [](D& d, const D* a) { if (d.space_dimension() != a->space_dimension() || (a != &d && !a->definitely_entails(d))) return std::string(); D t(d); ps_bhz03(t, *a); return std::string(t.OK() ? "" : "copy-not-OK"); }, true));
  alias_pair(A, "add_disjunct(last of own disjuncts)", false, [](D& d, const D*, bool al) {
    if (d.begin() == d.end()) return std::string();
    typename D::const_iterator i = d.begin(), n = i; for (++n; n != d.end(); ++n) i = n;
    if (al) d.add_disjunct(i->pointset()); else { P c(i->pointset()); d.add_disjunct(c); } return std::string(); });
  A.muts.push_back(M("upper_bound_assign_if_exact", true, [](D& d, const D* a) { return b2s(d.upper_bound_assign_if_exact(*a)); }));
  A.muts.push_back(M("drop_disjuncts(begin,end)", false, [](D& d, const D*) { d.drop_disjuncts(d.begin(), d.end()); return std::string(); }));
  A.muts.push_back(M("m_swap(copy of arg)", true, [](D& d, const D* a) { D t(*a); d.m_swap(t); d.m_swap(d); return std::string(); }));
  // copy-on-write: a disjunct taken from the argument is shared between the two powersets until one is changed
  A.muts.push_back(M("add_every_disjunct_of_arg", true, [](D& d, const D* a) {
    if (a->space_dimension() != d.space_dimension()) return std::string("skipped");
    std::vector<P> ds; for (typename D::const_iterator i = a->begin(); i != a->end(); ++i) ds.push_back(i->pointset());
    for (size_t k = 0; k < ds.size(); ++k) d.add_disjunct(ds[k]); return std::string(); }));
}
template <class P>
inline ClassAdapter<PPL::Pointset_Powerset<P> > powerset_full_adapter(const std::string& name) {
  ClassAdapter<PPL::Pointset_Powerset<P> > A = powerset_adapter<P>(name);
  keep_only(A, lite_unary());
  // the number and the order of the disjuncts are not part of the value (omega-reduction is a lazy, const operation)
  // (contains / strictly_contains / definitely_entails are documented disjunct by disjunct, i.e. on the syntactic powerset)
  drop_named(A, std::vector<std::string>({"size()", "drop_first_disjunct", "contains", "strictly_contains", "definitely_entails", "add_first_disjunct_of_arg"}));
  add_powerset_extras(A);
  return A;
}
template <class P>
inline ClassAdapter<PPL::Pointset_Powerset<P> > powerset_alias_adapter(const std::string& name) {
  ClassAdapter<PPL::Pointset_Powerset<P> > A = powerset_adapter<P>(name);
  strip_binary(A);
  keep_only(A, mini_unary());
  A.muts.push_back(Mut<PPL::Pointset_Powerset<P> >("pairwise_reduce()", false, [](PPL::Pointset_Powerset<P>& d, const PPL::Pointset_Powerset<P>*) { d.pairwise_reduce(); return std::string(); }));
  add_powerset_extras(A);
  return A;
}

// =========================================================================================================
// products
template <class D>
inline void add_product_extras(ClassAdapter<D>& A) {
  typedef Mut<D> M;
  add_same_expression_ops(A, true);
  add_into_receiver_ops(A);
  add_recycle_constraint_ops(A, false);
  add_widening(A, "widening_assign", [](D& d, const D& a, unsigned* t) { d.widening_assign(a, t); });
  A.muts.push_back(M("upper_bound_assign_if_exact", true, [](D& d, const D* a) { return b2s(d.upper_bound_assign_if_exact(*a)); }));
  A.muts.push_back(M("assign(D(arg.domain1()))", true, [](D& d, const D* a) { d = D(a->domain1()); return std::string(); }));
  A.muts.push_back(M("assign(D(arg.domain2()))", true, [](D& d, const D* a) { d = D(a->domain2()); return std::string(); }));
  A.muts.push_back(M("m_swap(copy of arg)", true, [](D& d, const D* a) { D t(*a); d.m_swap(t); d.m_swap(d); return std::string(); }));
}
template <class D>
inline ClassAdapter<D> product_full_adapter(const std::string& name) {
  ClassAdapter<D> A = product_adapter<D>(name);
  keep_only(A, lite_unary());
  add_product_extras(A);
  return A;
}
template <class D>
inline ClassAdapter<D> product_alias_adapter(const std::string& name) {
  ClassAdapter<D> A = product_adapter<D>(name);
  strip_binary(A);
  keep_only(A, mini_unary());
  add_product_extras(A);
  add_plain_binary(A);
  return A;
}

// =========================================================================================================
// single rows: Constraint, Generator, Congruence, Grid_Generator
template <class R>
inline void row_common(ClassAdapter<R>& A) {
  typedef Mut<R> M;
  Variable x(0), y(1);
  A.muts.push_back(M("set_representation(DENSE)", false, [](R& r, const R*) { r.set_representation(PPL::DENSE); return std::string(); }));
  A.muts.push_back(M("set_representation(SPARSE)", false, [](R& r, const R*) { r.set_representation(PPL::SPARSE); return std::string(); }));
  A.muts.push_back(M("set_space_dimension(4)", false, [](R& r, const R*) { r.set_space_dimension(4); return std::string(); }));
  A.muts.push_back(M("swap_space_dimensions(A,B)", false, [x, y](R& r, const R*) { if (r.space_dimension() < 2) return std::string("skipped"); r.swap_space_dimensions(x, y); return std::string(); }));
  A.muts.push_back(M("permute_space_dimensions({A,B})", false, [x, y](R& r, const R*) { if (r.space_dimension() < 2) return std::string("skipped"); std::vector<Variable> c; c.push_back(x); c.push_back(y); r.permute_space_dimensions(c); return std::string(); }));
  A.muts.push_back(M("shift_space_dimensions(A,1)", false, [x](R& r, const R*) { if (r.space_dimension() < 1) return std::string("skipped"); r.shift_space_dimensions(x, 1); return std::string(); }));
  A.muts.push_back(M("print", false, [](R& r, const R*) { return io_print(r); }, true));
  A.muts.push_back(M("coefficient(A)", false, [x](R& r, const R*) { if (r.space_dimension() < 1) return std::string("skipped"); return io_print(r.coefficient(x)); }, true));
  A.muts.push_back(M("space_dimension", false, [](R& r, const R*) { return std::to_string(r.space_dimension()); }, true));
  A.muts.push_back(M("OK()", false, [](R& r, const R*) { return b2s(r.OK()); }, true));
  A.muts.push_back(M("assign(R(arg,DENSE))", true, [](R& r, const R* a) { r = R(*a, PPL::DENSE); return std::string(); }));
  A.muts.push_back(M("assign(R(arg,SPARSE))", true, [](R& r, const R* a) { r = R(*a, PPL::SPARSE); return std::string(); }));
  A.muts.push_back(M("assign(R(arg,space_dim 4))", true, [](R& r, const R* a) { if (a->space_dimension() > 4) return std::string("skipped"); r = R(*a, (dimension_type)4); return std::string(); }));
  A.muts.push_back(M("assign(R(arg,space_dim 4,DENSE))", true, [](R& r, const R* a) { if (a->space_dimension() > 4) return std::string("skipped"); r = R(*a, (dimension_type)4, PPL::DENSE); return std::string(); }));
  A.muts.push_back(M("m_swap(copy of arg)", true, [](R& r, const R* a) { R t(*a); r.m_swap(t); r.m_swap(r); return std::string(); }));
  A.dump = [](const R& d) { return dump_of(d); };
  A.ok = [](const R& d) { return d.OK(); };
  A.print = [](const R& d) { return io_print(d) + " [dim " + std::to_string(d.space_dimension()) + "]"; };
}
template <class R>
inline void row_normalize_ops(ClassAdapter<R>& A) {  // Constraint, Generator, Congruence
  typedef Mut<R> M;
  A.muts.push_back(M("sign_normalize()", false, [](R& r, const R*) { r.sign_normalize(); return std::string(); }));
  A.muts.push_back(M("strong_normalize()", false, [](R& r, const R*) { r.strong_normalize(); return std::string(); }));
}
template <class R>
inline void row_equiv_ops(ClassAdapter<R>& A) {    // Constraint, Generator, Grid_Generator
  typedef Mut<R> M;
  Variable x(0);
  A.muts.push_back(M("set_space_dimension(1)", false, [](R& r, const R*) { r.set_space_dimension(1); return std::string(); }));
  A.muts.push_back(M("remove_space_dimensions({A})", false, [x](R& r, const R*) { if (r.space_dimension() < 1) return std::string("skipped"); Variables_Set vs; vs.insert(x); return b2s(r.remove_space_dimensions(vs)); }));
  A.muts.push_back(M("is_equivalent_to", true, [](R& r, const R* a) { return b2s(r.is_equivalent_to(*a)); }, true));
  A.muts.push_back(M("is_equal_to", true, [](R& r, const R* a) { return b2s(r.is_equal_to(*a)); }, true));
  A.equal = [](const R& a, const R& b) { return a.space_dimension() == b.space_dimension() && a.is_equivalent_to(b); };
}

inline ClassAdapter<Constraint> constraint_adapter() {
  typedef Constraint R; typedef Mut<R> M;
  ClassAdapter<R> A; A.name = "Constraint";
  Variable x(0), y(1), z(2);
  A.initials.push_back(std::make_pair(std::string("A-2B>=3"), std::function<R*()>([x, y]() { return new R(x - 2 * y >= 3); })));
  A.initials.push_back(std::make_pair(std::string("2A+4C==6 (DENSE)"), std::function<R*()>([x, z]() { return new R(2 * x + 4 * z == 6, PPL::DENSE); })));
  A.initials.push_back(std::make_pair(std::string("B>1"), std::function<R*()>([y]() { return new R(y > 1); })));
  A.initials.push_back(std::make_pair(std::string("0>=1"), std::function<R*()>([]() { return new R(Constraint::zero_dim_false()); })));
  row_common(A); row_equiv_ops(A); row_normalize_ops(A);
  A.muts.push_back(M("is_tautological", false, [](R& r, const R*) { return b2s(r.is_tautological()); }, true));
  A.muts.push_back(M("is_inconsistent", false, [](R& r, const R*) { return b2s(r.is_inconsistent()); }, true));
  A.muts.push_back(M("type", false, [](R& r, const R*) { return std::to_string((int)r.type()); }, true));
  A.muts.push_back(M("assign(Constraint(Congruence(arg)))", true, [](R& r, const R* a) { if (!a->is_equality()) return std::string("skipped"); PPL::Congruence cg(*a); r = R(cg); return std::string(); }));
  A.muts.push_back(M("assign(expression(arg)-expression(arg)>=0)", true, [](R& r, const R* a) { Linear_Expression e(a->expression()); r = (e - e >= 0); return std::string(); }));
  A.muts.push_back(M("assign(receiver+arg as expressions >= 0)", true, [](R& r, const R* a) { Linear_Expression e1(r.expression()), e2(a->expression()); r = (e1 + e2 >= 0); return std::string(); }));
  return A;
}
inline ClassAdapter<Generator> generator_adapter() {
  typedef Generator R; typedef Mut<R> M;
  ClassAdapter<R> A; A.name = "Generator";
  Variable x(0), y(1), z(2);
  A.initials.push_back(std::make_pair(std::string("p(A-2B)/3"), std::function<R*()>([x, y]() { return new R(PPL::point(x - 2 * y, 3)); })));
  A.initials.push_back(std::make_pair(std::string("r(2A+4C) (DENSE)"), std::function<R*()>([x, z]() { return new R(PPL::ray(2 * x + 4 * z), PPL::DENSE); })));
  A.initials.push_back(std::make_pair(std::string("c(B)/2"), std::function<R*()>([y]() { return new R(PPL::closure_point(y, 2)); })));
  A.initials.push_back(std::make_pair(std::string("l(A-B)"), std::function<R*()>([x, y]() { return new R(PPL::line(x - y)); })));
  row_common(A); row_equiv_ops(A); row_normalize_ops(A);
  A.muts.push_back(M("divisor", false, [](R& r, const R*) { if (r.is_line_or_ray()) return std::string("skipped"); return io_print(r.divisor()); }, true));
  A.muts.push_back(M("type", false, [](R& r, const R*) { return std::to_string((int)r.type()); }, true));
  A.muts.push_back(M("assign(point(expression(arg),divisor(arg)))", true, [](R& r, const R* a) { if (a->is_line_or_ray()) return std::string("skipped"); Linear_Expression e(a->expression()); r = PPL::point(e, a->divisor()); return std::string(); }));
  return A;
}
inline ClassAdapter<Grid_Generator> grid_generator_adapter() {
  typedef Grid_Generator R; typedef Mut<R> M;
  ClassAdapter<R> A; A.name = "Grid_Generator";
  Variable x(0), y(1), z(2);
  A.initials.push_back(std::make_pair(std::string("p(A-2B)/3"), std::function<R*()>([x, y]() { return new R(PPL::grid_point(x - 2 * y, 3)); })));
  A.initials.push_back(std::make_pair(std::string("q(2A+4C)/2 (DENSE)"), std::function<R*()>([x, z]() { return new R(PPL::parameter(2 * x + 4 * z, 2), PPL::DENSE); })));
  A.initials.push_back(std::make_pair(std::string("l(A-B)"), std::function<R*()>([x, y]() { return new R(PPL::grid_line(x - y)); })));
  row_common(A); row_equiv_ops(A);
  A.muts.push_back(M("divisor", false, [](R& r, const R*) { if (r.is_line()) return std::string("skipped"); return io_print(r.divisor()); }, true));
  A.muts.push_back(M("scale_to_divisor(6)", false, [](R& r, const R*) { if (r.is_line() || r.divisor() == 0 || Coefficient(6) % r.divisor() != 0) return std::string("skipped"); r.scale_to_divisor(Coefficient(6)); return std::string(); }));
  alias_pair(A, "scale_to_divisor(twice the own divisor; own divisor by reference)", false, [](R& r, const R*, bool al) {
    if (r.is_line() || r.divisor() == 0) return std::string("skipped");
    r.scale_to_divisor(2 * r.divisor());
    if (al) r.scale_to_divisor(r.divisor()); else { Coefficient c(r.divisor()); r.scale_to_divisor(c); } return std::string(); });
  alias_pair(A, "set_divisor(own coefficient of A by reference)", false, [x](R& r, const R*, bool al) {
    if (r.is_line() || r.space_dimension() < 1 || r.coefficient(x) <= 0) return std::string("skipped");
    if (al) r.set_divisor(r.coefficient(x)); else { Coefficient c(r.coefficient(x)); r.set_divisor(c); } return std::string(); });
  A.muts.push_back(M("all_homogeneous_terms_are_zero", false, [](R& r, const R*) { return b2s(r.all_homogeneous_terms_are_zero()); }, true));
  return A;
}
inline ClassAdapter<Congruence> congruence_adapter() {
  typedef Congruence R; typedef Mut<R> M;
  ClassAdapter<R> A; A.name = "Congruence";
  Variable x(0), y(1), z(2);
  A.initials.push_back(std::make_pair(std::string("A-2B=3 mod 5"), std::function<R*()>([x, y]() { return new R((x - 2 * y %= 3) / 5); })));
  A.initials.push_back(std::make_pair(std::string("2A+4C=6 mod 0 (DENSE)"), std::function<R*()>([x, z]() { return new R((2 * x + 4 * z %= 6) / 0, PPL::DENSE); })));
  A.initials.push_back(std::make_pair(std::string("B=1 mod 2"), std::function<R*()>([y]() { return new R((y %= 1) / 2); })));
  row_common(A); row_normalize_ops(A);
  A.muts.push_back(M("normalize()", false, [](R& r, const R*) { r.normalize(); return std::string(); }));
  A.muts.push_back(M("set_modulus(4)", false, [](R& r, const R*) { r.set_modulus(Coefficient(4)); return std::string(); }));
  alias_pair(A, "set_modulus(own inhomogeneous term by reference)", false, [](R& r, const R*, bool al) {
    if (r.inhomogeneous_term() < 0) return std::string("skipped");
    if (al) r.set_modulus(r.inhomogeneous_term()); else { Coefficient c(r.inhomogeneous_term()); r.set_modulus(c); } return std::string(); });
  A.muts.push_back(M("scale(3)", false, [](R& r, const R*) { r.scale(Coefficient(3)); return std::string(); }));
  alias_pair(A, "scale(own modulus by reference)", false, [](R& r, const R*, bool al) {
    if (r.modulus() == 0) return std::string("skipped");
    if (al) r.scale(r.modulus()); else { Coefficient c(r.modulus()); r.scale(c); } return std::string(); });
  alias_pair(A, "scale(own coefficient of A by reference)", false, [x](R& r, const R*, bool al) {
    if (r.space_dimension() < 1 || r.coefficient(x) <= 0) return std::string("skipped");
    if (al) r.scale(r.coefficient(x)); else { Coefficient c(r.coefficient(x)); r.scale(c); } return std::string(); });
  alias_pair(A, "affine_preimage(A,A+B+1,own coefficient of A by reference)", false, [x, y](R& r, const R*, bool al) {
    if (r.space_dimension() < 2 || r.coefficient(x) == 0) return std::string("skipped");
    if (al) r.affine_preimage(x, x + y + 1, r.coefficient(x)); else { Coefficient c(r.coefficient(x)); r.affine_preimage(x, x + y + 1, c); } return std::string(); });
  A.muts.push_back(M("affine_preimage(A,A+B+1,2)", false, [x, y](R& r, const R*) { if (r.space_dimension() < 2) return std::string("skipped"); r.affine_preimage(x, x + y + 1, Coefficient(2)); return std::string(); }));
  A.muts.push_back(M("affine_preimage(A,expression(arg),1)", true, [x](R& r, const R* a) { if (r.space_dimension() < 1 || a->space_dimension() > r.space_dimension()) return std::string("skipped"); Linear_Expression e(a->expression()); r.affine_preimage(x, e, Coefficient(1)); return std::string(); }));
  A.muts.push_back(M("modulus", false, [](R& r, const R*) { return io_print(r.modulus()); }, true));
  A.muts.push_back(M("is_tautological", false, [](R& r, const R*) { return b2s(r.is_tautological()); }, true));
  A.muts.push_back(M("is_inconsistent", false, [](R& r, const R*) { return b2s(r.is_inconsistent()); }, true));
  A.muts.push_back(M("operator==", true, [](R& r, const R* a) { return b2s(r == *a); }, true));
  A.muts.push_back(M("assign(Congruence(Constraint(arg)))", true, [](R& r, const R* a) { if (!a->is_equality()) return std::string("skipped"); Constraint c(*a); r = R(c); return std::string(); }));
  A.equal = [](const R& a, const R& b) { return a.space_dimension() == b.space_dimension() && a == b; };
  return A;
}

// =========================================================================================================
// systems: the four systems with the recycling insertions, representation changes, m_swap
template <class SYS, class ELEM>
inline void sys_common_extras(ClassAdapter<SYS>& A) {
  typedef Mut<SYS> M;
  A.muts.push_back(M("set_representation(DENSE)", false, [](SYS& s, const SYS*) { s.set_representation(PPL::DENSE); return std::string(); }));
  A.muts.push_back(M("set_representation(SPARSE)", false, [](SYS& s, const SYS*) { s.set_representation(PPL::SPARSE); return std::string(); }));
  A.muts.push_back(M("OK()", false, [](SYS& s, const SYS*) { return b2s(s.OK()); }, true));
  A.muts.push_back(M("insert(last element of arg)", true, [](SYS& s, const SYS* a) {
    if (a->begin() == a->end()) return std::string("skipped");
    typename SYS::const_iterator i = a->begin(), n = i; for (++n; n != a->end(); ++n) i = n;
    const ELEM& e = *i; s.insert(e); return std::string(); }));
  A.muts.push_back(M("assign(SYS(arg,DENSE))", true, [](SYS& s, const SYS* a) { s = SYS(*a, PPL::DENSE); return std::string(); }));
  A.muts.push_back(M("assign(SYS(arg,SPARSE))", true, [](SYS& s, const SYS* a) { s = SYS(*a, PPL::SPARSE); return std::string(); }));
  A.muts.push_back(M("m_swap(copy of arg)", true, [](SYS& s, const SYS* a) { SYS t(*a); s.m_swap(t); s.m_swap(s); return std::string(); }));
  // recycling insertion of one element: the donor element is afterwards assigned to and destroyed
  alias_pair(A, "insert(copy of first element of arg,Recycle_Input)", true, [](SYS& s, const SYS* a, bool real) {
    if (a->begin() == a->end()) return std::string("skipped");
    ELEM donor(*a->begin());
    if (!real) { s.insert(donor); return std::string("donor-ok"); }
    s.insert(donor, PPL::Recycle_Input());
    ELEM fresh(*a->begin()); donor = fresh;
    if (!donor.OK()) return std::string("donor-not-OK-after-assignment");
    if (io_print(donor) != io_print(fresh)) return std::string("donor-differs-after-assignment");
    return std::string("donor-ok"); }, "[recycle]");
}
template <class SYS>
inline void sys_recycle_whole(ClassAdapter<SYS>& A, const SYS& fresh) {
  for (int how = 1; how < 3; ++how) {
    static const char* hn[3] = {"destroy", "assign-to", "swap-with-fresh"};
    alias_pair(A, std::string("insert(copy of arg,Recycle_Input;then ") + hn[how] + " donor)", true, [fresh, how](SYS& s, const SYS* a, bool real) {
      SYS donor(*a);
      if (!real) { for (typename SYS::const_iterator i = donor.begin(); i != donor.end(); ++i) s.insert(*i); return std::string("donor-ok"); }
      s.insert(donor, PPL::Recycle_Input());
      return donor_afterlife(donor, fresh, how); }, "[recycle]");
  }
}

inline ClassAdapter<Grid_Generator_System> ggsys_adapter() {
  typedef Grid_Generator_System D; typedef Mut<D> M;
  ClassAdapter<D> A; A.name = "Grid_Generator_System";
  Variable x(0), y(1), z(2);
  A.initials.push_back(std::make_pair(std::string("{}"), std::function<D*()>([]() { return new D(); })));
  A.initials.push_back(std::make_pair(std::string("{p(0,0),q(1,1)}"), std::function<D*()>([x, y]() { D* s = new D(); s->insert(PPL::grid_point(0 * y)); s->insert(PPL::parameter(x + y)); return s; })));
  A.initials.push_back(std::make_pair(std::string("{p(1,0,2)/3,l(0,0,1)} (DENSE)"), std::function<D*()>([x, z]() { D* s = new D(PPL::DENSE); s->insert(PPL::grid_point(x + 2 * z, 3)); s->insert(PPL::grid_line(z)); return s; })));
  A.muts.push_back(M("insert(p(2,1))", false, [x, y](D& s, const D*) { s.insert(PPL::grid_point(2 * x + y)); return std::string(); }));
  A.muts.push_back(M("insert(q(1,0)/2)", false, [x](D& s, const D*) { s.insert(PPL::parameter(x, 2)); return std::string(); }));
  A.muts.push_back(M("insert(l(0,1))", false, [y](D& s, const D*) { s.insert(PPL::grid_line(y)); return std::string(); }));
  A.muts.push_back(M("insert(first element of itself)", false, [](D& s, const D*) { if (s.begin() == s.end()) return std::string("skipped"); s.insert(*s.begin()); return std::string(); }));
  A.muts.push_back(M("clear()", false, [](D& s, const D*) { s.clear(); return std::string(); }));
  A.muts.push_back(M("print", false, [](D& s, const D*) { return io_print(s); }, true));
  A.muts.push_back(M("space_dimension", false, [](D& s, const D*) { return std::to_string(s.space_dimension()); }, true));
  A.muts.push_back(M("num_rows/lines/parameters", false, [](D& s, const D*) { return std::to_string(s.num_rows()) + "/" + std::to_string(s.num_lines()) + "/" + std::to_string(s.num_parameters()); }, true));
  A.muts.push_back(M("insert(first element of arg)", true, [](D& s, const D* a) { if (a->begin() == a->end()) return std::string("skipped"); s.insert(*a->begin()); return std::string(); }));
  A.muts.push_back(M("is_equal_to", true, [](D& s, const D* a) { return b2s(s.is_equal_to(*a)); }, true));
  sys_common_extras<D, Grid_Generator>(A);
  D fresh; fresh.insert(PPL::grid_point(3 * x)); fresh.insert(PPL::grid_line(x - y));
  sys_recycle_whole(A, fresh);
  A.dump = [](const D& d) { return dump_of(d); };
  A.blank = []() { return new D(); };
  A.load = [](D& d, const std::string& t) { std::istringstream s(t); return d.ascii_load(s); };
  A.equal = [](const D& a, const D& b) { return io_print(a) == io_print(b); };
  A.ok = [](const D& d) { return d.OK(); };
  A.print = [](const D& d) { return io_print(d); };
  return A;
}
inline ClassAdapter<Constraint_System> consys_x_adapter() {
  ClassAdapter<Constraint_System> A = consys_adapter(); A.name = "Constraint_System (recycling, representations)";
  sys_common_extras<Constraint_System, Constraint>(A);
  return A;
}
inline ClassAdapter<Generator_System> gensys_x_adapter() {
  ClassAdapter<Generator_System> A = gensys_adapter(); A.name = "Generator_System (recycling, representations)";
  sys_common_extras<Generator_System, Generator>(A);
  return A;
}
inline ClassAdapter<Congruence_System> cgsys_x_adapter() {
  ClassAdapter<Congruence_System> A = cgsys_adapter(); A.name = "Congruence_System (recycling, representations)";
  sys_common_extras<Congruence_System, Congruence>(A);
  Variable x(0), y(1);
  Congruence_System fresh; fresh.insert((x + y %= 1) / 5); fresh.insert(x == 3);
  sys_recycle_whole(A, fresh);
  return A;
}

// =========================================================================================================
// linear expressions: a pool that MIXES the two representations, expression-valued operators
inline ClassAdapter<Linear_Expression> linexpr_mixed_adapter() {
  typedef Linear_Expression D; typedef Mut<D> M;
  ClassAdapter<D> A = linexpr_adapter(PPL::DENSE, "Linear_Expression<DENSE+SPARSE>");
  Variable x(0), y(1), z(2);
  A.initials.push_back(std::make_pair(std::string("A-C+5 (SPARSE)"), std::function<D*()>([x, z]() { D* e = new D(PPL::SPARSE); *e += x; *e -= z; *e += 5; return e; })));   // 4
  A.initials.push_back(std::make_pair(std::string("-4B (SPARSE)"), std::function<D*()>([y]() { D* e = new D(PPL::SPARSE); *e -= 4 * y; return e; })));                        // 5
  keep_only(A, std::vector<std::string>({"+=A", "*=0", "set_space_dimension(4)", "set_space_dimension(1)", "print", "set_coefficient(A,0)"}));
  A.muts.push_back(M("set_representation(SPARSE)", false, [](D& e, const D*) { e.set_representation(PPL::SPARSE); return std::string(); }));
  A.muts.push_back(M("set_representation(DENSE)", false, [](D& e, const D*) { e.set_representation(PPL::DENSE); return std::string(); }));
  A.muts.push_back(M("permute_space_dimensions({A,B,C})", false, [x, y, z](D& e, const D*) { if (e.space_dimension() < 3) return std::string("skipped"); std::vector<Variable> c; c.push_back(x); c.push_back(y); c.push_back(z); e.permute_space_dimensions(c); return std::string(); }));
  A.muts.push_back(M("OK()", false, [](D& e, const D*) { return b2s(e.OK()); }, true));
  A.muts.push_back(M("is_zero", false, [](D& e, const D*) { return b2s(e.is_zero()); }, true));
  // expression-valued operators assigned back to an operand: every position aliased
  A.muts.push_back(M("assign(arg+arg)", true, [](D& e, const D* a) { e = *a + *a; return std::string(); }));
  A.muts.push_back(M("assign(receiver+arg)", true, [](D& e, const D* a) { e = e + *a; return std::string(); }));
  A.muts.push_back(M("assign(arg-receiver)", true, [](D& e, const D* a) { e = *a - e; return std::string(); }));
  A.muts.push_back(M("assign(3*arg)", true, [](D& e, const D* a) { e = 3 * *a; return std::string(); }));
  A.muts.push_back(M("assign(-arg)", true, [](D& e, const D* a) { e = -*a; return std::string(); }));
  // a Coefficient argument that is a reference to one of the receiver's own coefficients vs a copy of it
  alias_pair(A, "+=(own inhomogeneous term by reference)", false, [](D& e, const D*, bool al) { if (al) e += e.inhomogeneous_term(); else { Coefficient c(e.inhomogeneous_term()); e += c; } return std::string(); });
  alias_pair(A, "-=(own inhomogeneous term by reference)", false, [](D& e, const D*, bool al) { if (al) e -= e.inhomogeneous_term(); else { Coefficient c(e.inhomogeneous_term()); e -= c; } return std::string(); });
  alias_pair(A, "*=(own coefficient of A by reference)", false, [x](D& e, const D*, bool al) { if (e.space_dimension() < 1) return std::string("skipped"); if (al) e *= e.coefficient(x); else { Coefficient c(e.coefficient(x)); e *= c; } return std::string(); });
  alias_pair(A, "*=(own inhomogeneous term by reference)", false, [](D& e, const D*, bool al) { if (al) e *= e.inhomogeneous_term(); else { Coefficient c(e.inhomogeneous_term()); e *= c; } return std::string(); });
  alias_pair(A, "add_mul_assign(own coefficient of A by reference,arg)", true, [x](D& e, const D* a, bool al) { if (e.space_dimension() < 1) return std::string("skipped"); if (al) PPL::add_mul_assign(e, e.coefficient(x), *a); else { Coefficient c(e.coefficient(x)); PPL::add_mul_assign(e, c, *a); } return std::string(); });
  alias_pair(A, "sub_mul_assign(own inhomogeneous term by reference,arg)", true, [](D& e, const D* a, bool al) { if (al) PPL::sub_mul_assign(e, e.inhomogeneous_term(), *a); else { Coefficient c(e.inhomogeneous_term()); PPL::sub_mul_assign(e, c, *a); } return std::string(); });
  alias_pair(A, "add_mul_assign(own coefficient of A by reference,Variable B)", false, [x, y](D& e, const D*, bool al) { if (e.space_dimension() < 1) return std::string("skipped"); if (al) PPL::add_mul_assign(e, e.coefficient(x), y); else { Coefficient c(e.coefficient(x)); PPL::add_mul_assign(e, c, y); } return std::string(); });
  alias_pair(A, "linear_combine(arg,own coefficient of A by reference,own inhomogeneous term by reference)", true, [x](D& e, const D* a, bool al) {
    if (e.space_dimension() != a->space_dimension() || e.space_dimension() < 1 || e.coefficient(x) == 0 || e.inhomogeneous_term() == 0) return std::string("skipped");
    if (al) e.linear_combine(*a, e.coefficient(x), e.inhomogeneous_term()); else { Coefficient c1(e.coefficient(x)), c2(e.inhomogeneous_term()); e.linear_combine(*a, c1, c2); } return std::string(); });
  alias_pair(A, "set_coefficient(B,own coefficient of A by reference)", false, [x, y](D& e, const D*, bool al) { if (e.space_dimension() < 2) return std::string("skipped"); if (al) e.set_coefficient(y, e.coefficient(x)); else { Coefficient c(e.coefficient(x)); e.set_coefficient(y, c); } return std::string(); });
  alias_pair(A, "set_inhomogeneous_term(own coefficient of A by reference)", false, [x](D& e, const D*, bool al) { if (e.space_dimension() < 1) return std::string("skipped"); if (al) e.set_inhomogeneous_term(e.coefficient(x)); else { Coefficient c(e.coefficient(x)); e.set_inhomogeneous_term(c); } return std::string(); });
  A.muts.push_back(M("linear_combine_lax(0,3)", true, [](D& e, const D* a) { if (e.space_dimension() != a->space_dimension()) return std::string("skipped"); e.linear_combine_lax(*a, Coefficient(0), Coefficient(3)); return std::string(); }));
  A.muts.push_back(M("linear_combine_lax(2,-2)", true, [](D& e, const D* a) { if (e.space_dimension() != a->space_dimension()) return std::string("skipped"); e.linear_combine_lax(*a, Coefficient(2), Coefficient(-2)); return std::string(); }));
  A.muts.push_back(M("linear_combine(3,1)", true, [](D& e, const D* a) { if (e.space_dimension() != a->space_dimension()) return std::string("skipped"); e.linear_combine(*a, Coefficient(3), Coefficient(1)); return std::string(); }));
  A.muts.push_back(M("linear_combine(1,-1,range 1..2)", true, [](D& e, const D* a) { if (e.space_dimension() != a->space_dimension() || e.space_dimension() < 2) return std::string("skipped"); e.linear_combine(*a, Coefficient(1), Coefficient(-1), 1, 3); return std::string(); }));
  A.muts.push_back(M("assign(Linear_Expression(arg,SPARSE))", true, [](D& e, const D* a) { e = D(*a, PPL::SPARSE); return std::string(); }));
  A.muts.push_back(M("assign(Linear_Expression(arg,space_dim 4))", true, [](D& e, const D* a) { if (a->space_dimension() > 4) return std::string("skipped"); e = D(*a, (dimension_type)4); return std::string(); }));
  A.muts.push_back(M("m_swap(copy of arg)", true, [](D& e, const D* a) { D t(*a); e.m_swap(t); e.m_swap(e); return std::string(); }));
  A.muts.push_back(M("compare", true, [](D& e, const D* a) { return std::to_string(PPL::compare(e, *a)); }, true));
  return A;
}


// =========================================================================================================
// intervals: the three-operand forms to.op_assign(x, y) with every aliasing of to / x / y
template <class ITV>
inline ClassAdapter<ITV> interval_adapter(const std::string& name) {
  typedef ITV D; typedef Mut<D> M;
  ClassAdapter<D> A; A.name = name;
  struct Mk { static D* make(int lo, bool lo_open, bool lo_inf, int hi, bool hi_open, bool hi_inf) {
    D* i = new D(); i->assign(PPL::UNIVERSE);
    if (!lo_inf) { D t; t.assign(lo); i->refine_existential(lo_open ? PPL::GREATER_THAN : PPL::GREATER_OR_EQUAL, t); }
    if (!hi_inf) { D t; t.assign(hi); i->refine_existential(hi_open ? PPL::LESS_THAN : PPL::LESS_OR_EQUAL, t); }
    return i; } };
  A.initials.push_back(std::make_pair(std::string("[0,2]"), std::function<D*()>([]() { return Mk::make(0, false, false, 2, false, false); })));
  A.initials.push_back(std::make_pair(std::string("[-3,1]"), std::function<D*()>([]() { return Mk::make(-3, false, false, 1, false, false); })));
  A.initials.push_back(std::make_pair(std::string("[1,+inf)"), std::function<D*()>([]() { return Mk::make(1, false, false, 0, false, true); })));
  A.initials.push_back(std::make_pair(std::string("empty"), std::function<D*()>([]() { D* i = new D(); i->assign(PPL::EMPTY); return i; })));
  A.initials.push_back(std::make_pair(std::string("[2,2]"), std::function<D*()>([]() { return Mk::make(2, false, false, 2, false, false); })));
  A.initials.push_back(std::make_pair(std::string("(-inf,-1]"), std::function<D*()>([]() { return Mk::make(0, false, true, -1, false, false); })));
  A.muts.push_back(M("assign(UNIVERSE)", false, [](D& d, const D*) { d.assign(PPL::UNIVERSE); return std::string(); }));
  A.muts.push_back(M("assign(EMPTY)", false, [](D& d, const D*) { d.assign(PPL::EMPTY); return std::string(); }));
  A.muts.push_back(M("assign(3)", false, [](D& d, const D*) { d.assign(3); return std::string(); }));
  A.muts.push_back(M("topological_closure_assign()", false, [](D& d, const D*) { d.topological_closure_assign(); return std::string(); }));
  A.muts.push_back(M("lower_extend()", false, [](D& d, const D*) { d.lower_extend(); return std::string(); }));
  A.muts.push_back(M("upper_extend()", false, [](D& d, const D*) { d.upper_extend(); return std::string(); }));
  A.muts.push_back(M("is_empty", false, [](D& d, const D*) { return b2s(d.is_empty()); }, true));
  A.muts.push_back(M("is_singleton", false, [](D& d, const D*) { return b2s(d.is_singleton()); }, true));
  A.muts.push_back(M("is_bounded", false, [](D& d, const D*) { return b2s(d.is_bounded()); }, true));
  A.muts.push_back(M("OK()", false, [](D& d, const D*) { return b2s(d.OK()); }, true));
  struct T3 { const char* n; int k; };
  const T3 t3[7] = { {"add_assign", 0}, {"sub_assign", 1}, {"mul_assign", 2}, {"div_assign", 3}, {"join_assign", 4}, {"intersect_assign", 5}, {"difference_assign", 6} };
  for (int i = 0; i < 7; ++i) {
    int k = t3[i].k; std::string n = t3[i].n;
    std::function<std::string(D&, const D&, const D&)> f = [k](D& to, const D& x, const D& y) {
      if (k == 3) { D z; z.assign(0); if (!y.is_disjoint_from(z) || y.is_empty() || x.is_empty()) return std::string("skipped"); }
      switch (k) { case 0: to.add_assign(x, y); break; case 1: to.sub_assign(x, y); break; case 2: to.mul_assign(x, y); break; case 3: to.div_assign(x, y); break;
                   case 4: to.join_assign(x, y); break; case 5: to.intersect_assign(x, y); break; default: to.difference_assign(x, y); }
      return std::string(); };
    A.muts.push_back(M(n + "(receiver,arg)", true, [f](D& d, const D* a) { return f(d, d, *a); }));
    A.muts.push_back(M(n + "(arg,receiver)", true, [f](D& d, const D* a) { return f(d, *a, d); }));
    A.muts.push_back(M(n + "(arg,arg)", true, [f](D& d, const D* a) { return f(d, *a, *a); }));
  }
  A.muts.push_back(M("assign(arg)", true, [](D& d, const D* a) { d.assign(*a); return std::string(); }));
  A.muts.push_back(M("neg_assign(arg)", true, [](D& d, const D* a) { d.neg_assign(*a); return std::string(); }));
  A.muts.push_back(M("join_assign(arg)", true, [](D& d, const D* a) { d.join_assign(*a); return std::string(); }));
  A.muts.push_back(M("intersect_assign(arg)", true, [](D& d, const D* a) { d.intersect_assign(*a); return std::string(); }));
  A.muts.push_back(M("difference_assign(arg)", true, [](D& d, const D* a) { d.difference_assign(*a); return std::string(); }));
  // (lower_approximation_difference_assign is declared but not defined anywhere in the library)
  A.muts.push_back(M("simplify_using_context_assign(arg)", true, [](D& d, const D* a) { return b2s(d.simplify_using_context_assign(*a)); }));
  A.muts.push_back(M("empty_intersection_assign(arg)", true, [](D& d, const D* a) { d.empty_intersection_assign(*a); return std::string(); }));
  A.muts.push_back(M("refine_existential(<=,arg)", true, [](D& d, const D* a) { d.refine_existential(PPL::LESS_OR_EQUAL, *a); return std::string(); }));
  A.muts.push_back(M("refine_existential(>,arg)", true, [](D& d, const D* a) { d.refine_existential(PPL::GREATER_THAN, *a); return std::string(); }));
  A.muts.push_back(M("refine_existential(==,arg)", true, [](D& d, const D* a) { d.refine_existential(PPL::EQUAL, *a); return std::string(); }));
  A.muts.push_back(M("refine_universal(<=,arg)", true, [](D& d, const D* a) { d.refine_universal(PPL::LESS_OR_EQUAL, *a); return std::string(); }));
  A.muts.push_back(M("refine_universal(>,arg)", true, [](D& d, const D* a) { d.refine_universal(PPL::GREATER_THAN, *a); return std::string(); }));
  A.muts.push_back(M("+=", true, [](D& d, const D* a) { d += *a; return std::string(); }));
  A.muts.push_back(M("-=", true, [](D& d, const D* a) { d -= *a; return std::string(); }));
  A.muts.push_back(M("*=", true, [](D& d, const D* a) { d *= *a; return std::string(); }));
  A.muts.push_back(M("m_swap(copy of arg)", true, [](D& d, const D* a) { D t(*a); d.m_swap(t); d.m_swap(d); return std::string(); }));
  A.muts.push_back(M("contains", true, [](D& d, const D* a) { return b2s(d.contains(*a)); }, true));
  A.muts.push_back(M("strictly_contains", true, [](D& d, const D* a) { return b2s(d.strictly_contains(*a)); }, true));
  A.muts.push_back(M("is_disjoint_from", true, [](D& d, const D* a) { return b2s(d.is_disjoint_from(*a)); }, true));
  A.muts.push_back(M("can_be_exactly_joined_to", true, [](D& d, const D* a) { return b2s(d.can_be_exactly_joined_to(*a)); }, true));
  A.muts.push_back(M("operator==", true, [](D& d, const D* a) { return b2s(d == *a); }, true));
  A.dump = [](const D& d) { return dump_of(d); };
  A.equal = [](const D& a, const D& b) { return (a.is_empty() && b.is_empty()) || a == b; };
  A.ok = [](const D& d) { return d.OK(); };
  A.print = [](const D& d) { return io_print(d); };
  return A;
}

// =========================================================================================================
// checked numbers (extended): to = x op y with every aliasing of to / x / y
template <class N> inline PPL::Result cn_gcd(N& to, const N& x, const N& y, bool lcm, std::true_type) { return lcm ? PPL::lcm_assign_r(to, x, y, PPL::ROUND_UP) : PPL::gcd_assign_r(to, x, y, PPL::ROUND_UP); }
template <class N> inline PPL::Result cn_gcd(N&, const N&, const N&, bool, std::false_type) { return PPL::V_EQ; }
template <class N, bool INTEGRAL>
inline ClassAdapter<N> checked_number_adapter(const std::string& name) {
  typedef N D; typedef Mut<D> M;
  ClassAdapter<D> A; A.name = name;
  A.initials.push_back(std::make_pair(std::string("6"), std::function<D*()>([]() { return new D(6, PPL::ROUND_NOT_NEEDED); })));
  A.initials.push_back(std::make_pair(std::string("-4"), std::function<D*()>([]() { return new D(-4, PPL::ROUND_NOT_NEEDED); })));
  A.initials.push_back(std::make_pair(std::string("+inf"), std::function<D*()>([]() { D* n = new D(); PPL::assign_r(*n, PPL::PLUS_INFINITY, PPL::ROUND_NOT_NEEDED); return n; })));
  A.initials.push_back(std::make_pair(std::string("0"), std::function<D*()>([]() { return new D(0, PPL::ROUND_NOT_NEEDED); })));
  A.muts.push_back(M("assign(9)", false, [](D& d, const D*) { PPL::assign_r(d, 9, PPL::ROUND_NOT_NEEDED); return std::string(); }));
  A.muts.push_back(M("assign(-inf)", false, [](D& d, const D*) { PPL::assign_r(d, PPL::MINUS_INFINITY, PPL::ROUND_NOT_NEEDED); return std::string(); }));
  A.muts.push_back(M("print", false, [](D& d, const D*) { return atom(io_print(d)); }, true));
  struct T3 { const char* n; int k; };
  const T3 t3[8] = { {"add_assign_r", 0}, {"sub_assign_r", 1}, {"mul_assign_r", 2}, {"div_assign_r", 3}, {"gcd_assign_r", 4}, {"lcm_assign_r", 5}, {"add_mul_assign_r", 6}, {"sub_mul_assign_r", 7} };
  for (int i = 0; i < 8; ++i) {
    int k = t3[i].k; std::string n = t3[i].n;
    std::function<std::string(D&, const D&, const D&)> f = [k](D& to, const D& x, const D& y) {
      if (PPL::is_not_a_number(x) || PPL::is_not_a_number(y) || PPL::is_not_a_number(to)) return std::string("skipped");
      // the policy under test does not check inf - inf, 0 * inf, inf / inf: arithmetic on finite operands only
      if ((PPL::infinity_sign(x) != 0) || (PPL::infinity_sign(y) != 0) || (PPL::infinity_sign(to) != 0)) return std::string("skipped");
      if ((k == 4 || k == 5) && !INTEGRAL) return std::string("skipped");
      if ((k == 4 || k == 5) && (!PPL::is_integer(x) || !PPL::is_integer(y) || (PPL::infinity_sign(x) != 0) || (PPL::infinity_sign(y) != 0))) return std::string("skipped");
      if ((k == 6 || k == 7) && ((PPL::infinity_sign(x) != 0) || (PPL::infinity_sign(y) != 0) || (PPL::infinity_sign(to) != 0))) return std::string("skipped");
      if (k == 3 && (y == 0 || (PPL::infinity_sign(x) != 0) || (PPL::infinity_sign(y) != 0))) return std::string("skipped");
      PPL::Result r;
      switch (k) { case 0: r = PPL::add_assign_r(to, x, y, PPL::ROUND_UP); break; case 1: r = PPL::sub_assign_r(to, x, y, PPL::ROUND_UP); break;
                   case 2: r = PPL::mul_assign_r(to, x, y, PPL::ROUND_UP); break; case 3: r = PPL::div_assign_r(to, x, y, PPL::ROUND_UP); break;
                   case 4: r = cn_gcd(to, x, y, false, std::integral_constant<bool, INTEGRAL>()); break; case 5: r = cn_gcd(to, x, y, true, std::integral_constant<bool, INTEGRAL>()); break;
                   case 6: r = PPL::add_mul_assign_r(to, x, y, PPL::ROUND_UP); break; default: r = PPL::sub_mul_assign_r(to, x, y, PPL::ROUND_UP); }
      return std::to_string((int)r); };
    A.muts.push_back(M(n + "(receiver,receiver,arg)", true, [f](D& d, const D* a) { return f(d, d, *a); }));
    A.muts.push_back(M(n + "(receiver,arg,receiver)", true, [f](D& d, const D* a) { return f(d, *a, d); }));
    A.muts.push_back(M(n + "(receiver,arg,arg)", true, [f](D& d, const D* a) { return f(d, *a, *a); }));
  }
  A.muts.push_back(M("neg_assign_r(receiver,arg)", true, [](D& d, const D* a) { if (PPL::is_not_a_number(*a)) return std::string("skipped"); PPL::neg_assign_r(d, *a, PPL::ROUND_UP); return std::string(); }));
  A.muts.push_back(M("abs_assign_r(receiver,arg)", true, [](D& d, const D* a) { if (PPL::is_not_a_number(*a)) return std::string("skipped"); PPL::abs_assign_r(d, *a, PPL::ROUND_UP); return std::string(); }));
  A.muts.push_back(M("mul_2exp_assign_r(receiver,arg,3)", true, [](D& d, const D* a) { if (PPL::is_not_a_number(*a)) return std::string("skipped"); PPL::mul_2exp_assign_r(d, *a, 3u, PPL::ROUND_UP); return std::string(); }));
  A.muts.push_back(M("less_than", true, [](D& d, const D* a) { if (PPL::is_not_a_number(*a) || PPL::is_not_a_number(d)) return std::string("skipped"); return b2s(d < *a); }, true));
  A.muts.push_back(M("m_swap(copy of arg)", true, [](D& d, const D* a) { D t(*a); using std::swap; swap(d, t); swap(d, d); return std::string(); }));
  A.dump = [](const D& d) { return io_print(d); };
  A.equal = [](const D& a, const D& b) { return io_print(a) == io_print(b); };
  A.ok = [](const D& d) { return d.OK(); };
  A.print = [](const D& d) { return io_print(d); };
  return A;
}

// =========================================================================================================
// internal containers (documented contracts only): rows, matrices, bit rows, bit matrices
template <class R> inline std::string row_text(const R& r) { std::string s = "["; for (dimension_type i = 0; i < r.size(); ++i) { if (i) s += ";"; s += io_print(r.get(i)); } return s + "]"; }
template <class R, class OTHER>
inline ClassAdapter<R> row_adapter(const std::string& name) {
  typedef R D; typedef Mut<D> M;
  ClassAdapter<D> A; A.name = name;
  A.initials.push_back(std::make_pair(std::string("[1;0;2;0]"), std::function<D*()>([]() { D* r = new D(4); r->insert(0, Coefficient(1)); r->insert(2, Coefficient(2)); return r; })));
  A.initials.push_back(std::make_pair(std::string("[0;-3;0;0;5;7] cap 8"), std::function<D*()>([]() { D* r = new D(6, 8); r->insert(1, Coefficient(-3)); r->insert(4, Coefficient(5)); r->insert(5, Coefficient(7)); return r; })));
  A.initials.push_back(std::make_pair(std::string("[]"), std::function<D*()>([]() { return new D(); })));
  A.initials.push_back(std::make_pair(std::string("[4;4]"), std::function<D*()>([]() { D* r = new D(2); r->insert(0, Coefficient(4)); r->insert(1, Coefficient(4)); return r; })));
  A.muts.push_back(M("insert(1,9)", false, [](D& r, const D*) { if (r.size() < 2) return std::string("skipped"); r.insert(1, Coefficient(9)); return std::string(); }));
  alias_pair(A, "insert(0,own element 1 by reference)", false, [](D& r, const D*, bool al) { if (r.size() < 2) return std::string("skipped"); if (al) r.insert(0, r.get(1)); else { Coefficient c(r.get(1)); r.insert(0, c); } return std::string(); });
  alias_pair(A, "insert(3,own element 1 by reference)", false, [](D& r, const D*, bool al) { if (r.size() < 4) return std::string("skipped"); if (al) r.insert(3, r.get(1)); else { Coefficient c(r.get(1)); r.insert(3, c); } return std::string(); });
  A.muts.push_back(M("reset(0)", false, [](D& r, const D*) { if (r.size() < 1) return std::string("skipped"); r.reset(0); return std::string(); }));
  A.muts.push_back(M("resize(5)", false, [](D& r, const D*) { r.resize(5); return std::string(); }));
  A.muts.push_back(M("resize(2)", false, [](D& r, const D*) { r.resize(2); return std::string(); }));
  A.muts.push_back(M("swap_coefficients(0,1)", false, [](D& r, const D*) { if (r.size() < 2) return std::string("skipped"); r.swap_coefficients(0, 1); return std::string(); }));
  A.muts.push_back(M("swap_coefficients(1,1)", false, [](D& r, const D*) { if (r.size() < 2) return std::string("skipped"); r.swap_coefficients(1, 1); return std::string(); }));
  A.muts.push_back(M("add_zeroes_and_shift(1,1)", false, [](D& r, const D*) { if (r.size() < 1) return std::string("skipped"); r.add_zeroes_and_shift(1, 1); return std::string(); }));
  A.muts.push_back(M("normalize()", false, [](D& r, const D*) { r.normalize(); return std::string(); }));
  A.muts.push_back(M("clear()", false, [](D& r, const D*) { r.clear(); return std::string(); }));
  A.muts.push_back(M("print", false, [](D& r, const D*) { return row_text(r); }, true));
  A.muts.push_back(M("OK()", false, [](D& r, const D*) { return b2s(r.OK()); }, true));
  A.muts.push_back(M("operator==", true, [](D& r, const D* a) { return b2s(r == *a); }, true));
  A.muts.push_back(M("assign(R(arg,capacity 9))", true, [](D& r, const D* a) { if (a->size() > 9) return std::string("skipped"); r = D(*a, (dimension_type)9); return std::string(); }));
  A.muts.push_back(M("assign(R(arg,size+1,capacity 9))", true, [](D& r, const D* a) { if (a->size() + 1 > 9) return std::string("skipped"); r = D(*a, a->size() + 1, (dimension_type)9); return std::string(); }));
  A.muts.push_back(M("assign(R(OTHER(arg)))", true, [](D& r, const D* a) { OTHER o(*a); r = D(o); return std::string(); }));
  A.muts.push_back(M("m_swap(copy of arg)", true, [](D& r, const D* a) { D t(*a); r.m_swap(t); r.m_swap(r); return std::string(); }));
  // the mixed-representation swap(Row&, Row&): afterwards the receiver holds arg's value and the temporary the receiver's
  A.muts.push_back(M("swap(receiver,OTHER(arg)) then swap(OTHER(old receiver),receiver) twice", true, [](D& r, const D* a) {
    OTHER o(*a); using std::swap; swap(r, o);                 // r = arg, o = old receiver
    if (row_text(r) != row_text(*a) && a != &r) return std::string("cross-swap-lost-the-argument");
    OTHER o2(r); swap(o2, r); swap(r, o2);                    // no net effect
    swap(o, r); swap(r, o);                                   // no net effect
    return std::string("ok"); }));
  A.dump = [](const D& d) { return dump_of(d); };
  A.equal = [](const D& a, const D& b) { return a.size() == b.size() && row_text(a) == row_text(b); };
  A.ok = [](const D& d) { return d.OK(); };
  A.print = [](const D& d) { return row_text(d); };
  return A;
}

inline void mx_remove_column_op(ClassAdapter<PPL::Matrix<PPL::Sparse_Row> >& A) {
  typedef PPL::Matrix<PPL::Sparse_Row> D;
  A.muts.push_back(Mut<D>("remove_column(0)", false, [](D& m, const D*) { if (m.num_columns() < 1) return std::string("skipped"); m.remove_column(0); return std::string(); }));
}
inline void mx_remove_column_op(ClassAdapter<PPL::Matrix<PPL::Dense_Row> >&) {}     // not instantiable for dense rows
template <class R>
inline ClassAdapter<PPL::Matrix<R> > matrix_adapter(const std::string& name) {
  typedef PPL::Matrix<R> D; typedef Mut<D> M;
  ClassAdapter<D> A; A.name = name;
  struct Tx { static std::string text(const D& m) { std::string s; for (dimension_type i = 0; i < m.num_rows(); ++i) { s += row_text(m[i]); s += "/"; } return s + " cols=" + std::to_string(m.num_columns()); } };
  A.initials.push_back(std::make_pair(std::string("2x3"), std::function<D*()>([]() { D* m = new D(2, 3); (*m)[0].insert(0, Coefficient(1)); (*m)[0].insert(2, Coefficient(2)); (*m)[1].insert(1, Coefficient(-3)); return m; })));
  A.initials.push_back(std::make_pair(std::string("3x3"), std::function<D*()>([]() { D* m = new D(3); for (int i = 0; i < 3; ++i) (*m)[i].insert(i, Coefficient(i + 4)); (*m)[2].insert(0, Coefficient(7)); return m; })));
  A.initials.push_back(std::make_pair(std::string("0x0"), std::function<D*()>([]() { return new D(); })));
  A.muts.push_back(M("add_zero_rows(1)", false, [](D& m, const D*) { m.add_zero_rows(1); return std::string(); }));
  A.muts.push_back(M("add_zero_columns(1)", false, [](D& m, const D*) { m.add_zero_columns(1); return std::string(); }));
  A.muts.push_back(M("add_zero_columns(1,0)", false, [](D& m, const D*) { if (m.num_columns() < 1) return std::string("skipped"); m.add_zero_columns(1, 0); return std::string(); }));
  A.muts.push_back(M("add_zero_rows_and_columns(1,1)", false, [](D& m, const D*) { m.add_zero_rows_and_columns(1, 1); return std::string(); }));
  mx_remove_column_op(A);
  A.muts.push_back(M("remove_trailing_columns(1)", false, [](D& m, const D*) { if (m.num_columns() < 1) return std::string("skipped"); m.remove_trailing_columns(1); return std::string(); }));
  A.muts.push_back(M("remove_trailing_rows(1)", false, [](D& m, const D*) { if (m.num_rows() < 1) return std::string("skipped"); m.remove_trailing_rows(1); return std::string(); }));
  A.muts.push_back(M("swap_columns(0,1)", false, [](D& m, const D*) { if (m.num_columns() < 2) return std::string("skipped"); m.swap_columns(0, 1); return std::string(); }));
  A.muts.push_back(M("permute_columns(cycle 1 2)", false, [](D& m, const D*) { if (m.num_columns() < 3) return std::string("skipped"); std::vector<dimension_type> c; c.push_back(1); c.push_back(2); c.push_back(0); m.permute_columns(c); return std::string(); }));
  A.muts.push_back(M("resize(3,4)", false, [](D& m, const D*) { m.resize(3, 4); return std::string(); }));
  A.muts.push_back(M("resize(1,2)", false, [](D& m, const D*) { m.resize(1, 2); return std::string(); }));
  A.muts.push_back(M("clear()", false, [](D& m, const D*) { m.clear(); return std::string(); }));
  A.muts.push_back(M("set [0][0] = 5", false, [](D& m, const D*) { if (m.num_rows() < 1 || m.num_columns() < 1) return std::string("skipped"); m[0].insert(0, Coefficient(5)); return std::string(); }));
  A.muts.push_back(M("OK()", false, [](D& m, const D*) { return b2s(m.OK()); }, true));
  A.muts.push_back(M("print", false, [](D& m, const D*) { return Tx::text(m); }, true));
  A.muts.push_back(M("add_row(first row of arg)", true, [](D& m, const D* a) { if (a->num_rows() < 1 || a->num_columns() != m.num_columns()) return std::string("skipped"); m.add_row((*a)[0]); return std::string(); }));
  A.muts.push_back(M("add_row(last row of arg)", true, [](D& m, const D* a) { if (a->num_rows() < 1 || a->num_columns() != m.num_columns()) return std::string("skipped"); m.add_row((*a)[a->num_rows() - 1]); return std::string(); }));
  alias_pair(A, "add_recycled_row(copy of first row of arg)", true, [](D& m, const D* a, bool real) {
    if (a->num_rows() < 1 || a->num_columns() != m.num_columns()) return std::string("skipped");
    R donor((*a)[0]);
    if (!real) { m.add_row(donor); return std::string("donor-ok"); }
    m.add_recycled_row(donor);
    R fresh((*a)[0]); donor = fresh; if (!donor.OK() || row_text(donor) != row_text(fresh)) return std::string("donor-bad-after-assignment");
    return std::string("donor-ok"); }, "[recycle]");
  A.muts.push_back(M("m_swap(copy of arg)", true, [](D& m, const D* a) { D t(*a); m.m_swap(t); m.m_swap(m); return std::string(); }));
  A.muts.push_back(M("operator==", true, [](D& m, const D* a) { return b2s(m == *a); }, true));
  A.dump = [](const D& d) { return dump_of(d); };
  A.equal = [](const D& a, const D& b) { return Tx::text(a) == Tx::text(b); };
  A.ok = [](const D& d) { return d.OK(); };
  A.print = [](const D& d) { return Tx::text(d); };
  return A;
}

inline std::string bitrow_text(const PPL::Bit_Row& r) { std::string s = "{"; for (unsigned long i = r.first(); i != PPL::C_Integer<unsigned long>::max; i = r.next(i)) { s += std::to_string(i); s += ";"; } return s + "}"; }
inline ClassAdapter<PPL::Bit_Row> bit_row_adapter() {
  typedef PPL::Bit_Row D; typedef Mut<D> M;
  ClassAdapter<D> A; A.name = "Bit_Row";
  A.initials.push_back(std::make_pair(std::string("{0;3}"), std::function<D*()>([]() { D* r = new D(); r->set(0); r->set(3); return r; })));
  A.initials.push_back(std::make_pair(std::string("{3;70;130}"), std::function<D*()>([]() { D* r = new D(); r->set(3); r->set(70); r->set(130); return r; })));
  A.initials.push_back(std::make_pair(std::string("{}"), std::function<D*()>([]() { return new D(); })));
  A.muts.push_back(M("set(5)", false, [](D& r, const D*) { r.set(5); return std::string(); }));
  A.muts.push_back(M("set(200)", false, [](D& r, const D*) { r.set(200); return std::string(); }));
  A.muts.push_back(M("clear(3)", false, [](D& r, const D*) { r.clear(3); return std::string(); }));
  A.muts.push_back(M("set_until(4)", false, [](D& r, const D*) { r.set_until(4); return std::string(); }));
  A.muts.push_back(M("clear_from(64)", false, [](D& r, const D*) { r.clear_from(64); return std::string(); }));
  A.muts.push_back(M("clear()", false, [](D& r, const D*) { r.clear(); return std::string(); }));
  A.muts.push_back(M("print", false, [](D& r, const D*) { return bitrow_text(r); }, true));
  A.muts.push_back(M("count_ones/last", false, [](D& r, const D*) { return std::to_string(r.count_ones()) + "/" + std::to_string(r.last()); }, true));
  A.muts.push_back(M("OK()", false, [](D& r, const D*) { return b2s(r.OK()); }, true));
  struct T3 { const char* n; int k; };
  const T3 t3[3] = { {"union_assign", 0}, {"intersection_assign", 1}, {"difference_assign", 2} };
  for (int i = 0; i < 3; ++i) {
    int k = t3[i].k; std::string n = t3[i].n;
    std::function<std::string(D&, const D&, const D&)> f = [k](D& to, const D& x, const D& y) { if (k == 0) to.union_assign(x, y); else if (k == 1) to.intersection_assign(x, y); else to.difference_assign(x, y); return std::string(); };
    A.muts.push_back(M(n + "(receiver,arg)", true, [f](D& d, const D* a) { return f(d, d, *a); }));
    A.muts.push_back(M(n + "(arg,receiver)", true, [f](D& d, const D* a) { return f(d, *a, d); }));
    A.muts.push_back(M(n + "(arg,arg)", true, [f](D& d, const D* a) { return f(d, *a, *a); }));
  }
  A.muts.push_back(M("assign(Bit_Row(receiver,arg))", true, [](D& d, const D* a) { d = D(d, *a); return std::string(); }));
  A.muts.push_back(M("m_swap(copy of arg)", true, [](D& d, const D* a) { D t(*a); d.m_swap(t); d.m_swap(d); return std::string(); }));
  A.muts.push_back(M("compare", true, [](D& d, const D* a) { return std::to_string(PPL::compare(d, *a)); }, true));
  A.muts.push_back(M("subset_or_equal", true, [](D& d, const D* a) { return b2s(PPL::subset_or_equal(d, *a)); }, true));
  A.muts.push_back(M("strict_subset", true, [](D& d, const D* a) { return b2s(PPL::strict_subset(d, *a)); }, true));
  A.dump = [](const D& d) { return bitrow_text(d); };
  A.equal = [](const D& a, const D& b) { return a == b; };
  A.ok = [](const D& d) { return d.OK(); };
  A.print = [](const D& d) { return bitrow_text(d); };
  return A;
}
inline ClassAdapter<PPL::Bit_Matrix> bit_matrix_adapter() {
  typedef PPL::Bit_Matrix D; typedef Mut<D> M;
  ClassAdapter<D> A; A.name = "Bit_Matrix";
  struct Tx { static std::string text(const D& m) { std::string s; for (dimension_type i = 0; i < m.num_rows(); ++i) s += bitrow_text(m[i]); return s + " " + std::to_string(m.num_rows()) + "x" + std::to_string(m.num_columns()); } };
  A.initials.push_back(std::make_pair(std::string("2x3"), std::function<D*()>([]() { D* m = new D(2, 3); (*m)[0].set(0); (*m)[0].set(2); (*m)[1].set(1); return m; })));
  A.initials.push_back(std::make_pair(std::string("3x3"), std::function<D*()>([]() { D* m = new D(3, 3); for (int i = 0; i < 3; ++i) (*m)[i].set(2 - i); (*m)[0].set(0); return m; })));
  A.initials.push_back(std::make_pair(std::string("0x0"), std::function<D*()>([]() { return new D(); })));
  A.muts.push_back(M("transpose()", false, [](D& m, const D*) { m.transpose(); return std::string(); }));
  A.muts.push_back(M("sort_rows()", false, [](D& m, const D*) { m.sort_rows(); return std::string(); }));
  A.muts.push_back(M("resize(3,4)", false, [](D& m, const D*) { m.resize(3, 4); return std::string(); }));
  A.muts.push_back(M("resize(1,2)", false, [](D& m, const D*) { m.resize(1, 2); return std::string(); }));
  A.muts.push_back(M("remove_trailing_rows(1)", false, [](D& m, const D*) { if (m.num_rows() < 1) return std::string("skipped"); m.remove_trailing_rows(1); return std::string(); }));
  A.muts.push_back(M("remove_trailing_columns(1)", false, [](D& m, const D*) {
    if (m.num_columns() < 1) return std::string("skipped");
    // documented precondition: the removed columns are all zeros
    for (dimension_type i = 0; i < m.num_rows(); ++i) if (m[i][m.num_columns() - 1]) return std::string("skipped");
    m.remove_trailing_columns(1); return std::string(); }));
  A.muts.push_back(M("clear()", false, [](D& m, const D*) { m.clear(); return std::string(); }));
  A.muts.push_back(M("set [0][1]", false, [](D& m, const D*) { if (m.num_rows() < 1 || m.num_columns() < 2) return std::string("skipped"); m[0].set(1); return std::string(); }));
  A.muts.push_back(M("OK()", false, [](D& m, const D*) { return b2s(m.OK()); }, true));
  A.muts.push_back(M("print", false, [](D& m, const D*) { return Tx::text(m); }, true));
  A.muts.push_back(M("transpose_assign(arg)", true, [](D& m, const D* a) { m.transpose_assign(*a); return std::string(); }));
  alias_pair(A, "add_recycled_row(copy of first row of arg)", true, [](D& m, const D* a, bool real) {
    if (a->num_rows() < 1 || a->num_columns() != m.num_columns()) return std::string("skipped");
    PPL::Bit_Row donor((*a)[0]);
    if (!real) { PPL::Bit_Row c(donor); m.add_recycled_row(c); return std::string("donor-ok"); }
    m.add_recycled_row(donor);
    PPL::Bit_Row fresh((*a)[0]); donor = fresh; if (!donor.OK() || !(donor == fresh)) return std::string("donor-bad-after-assignment");
    donor.set(1); return std::string("donor-ok"); }, "[recycle]");
  A.muts.push_back(M("sort_rows() of a copy then sorted_contains(first row of arg)", true, [](D& m, const D* a) { if (a->num_rows() < 1) return std::string("skipped"); D t(m); t.sort_rows(); return b2s(t.sorted_contains((*a)[0])); }, true));
  A.muts.push_back(M("m_swap(copy of arg)", true, [](D& m, const D* a) { D t(*a); m.m_swap(t); m.m_swap(m); return std::string(); }));
  A.muts.push_back(M("operator==", true, [](D& m, const D* a) { return b2s(m == *a); }, true));
  A.dump = [](const D& d) { return dump_of(d); };
  A.equal = [](const D& a, const D& b) { return a == b; };
  A.ok = [](const D& d) { return d.OK(); };
  A.print = [](const D& d) { return Tx::text(d); };
  return A;
}

} // namespace x13
} // namespace vf
#endif

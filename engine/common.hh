// Common harness plumbing: argument parsing, JSONL result records, a crash-attributing
// fork pool that shards a deterministic list of work items over worker processes.
#ifndef VERIF_ENGINE_COMMON_HH
#define VERIF_ENGINE_COMMON_HH 1

#include <string>
#include <vector>
#include <map>
#include <set>
#include <sstream>
#include <fstream>
#include <iostream>
#include <functional>
#include <cstdio>
#include <cstdlib>
#include <cstring>
#include <ctime>
#include <unistd.h>
#include <fcntl.h>
#include <signal.h>
#include <sys/mman.h>
#include <sys/wait.h>
#include <sys/time.h>
#include <sys/resource.h>

namespace vf {

inline double now_s() {
  struct timeval tv; gettimeofday(&tv, 0);
  return tv.tv_sec + tv.tv_usec * 1e-6;
}

inline std::string jesc(const std::string& s) {
  std::string o; o.reserve(s.size() + 8);
  for (size_t i = 0; i < s.size(); ++i) {
    unsigned char c = s[i];
    if (c == '"') o += "\\\""; else if (c == '\\') o += "\\\\";
    else if (c == '\n') o += "\\n"; else if (c == '\t') o += "\\t"; else if (c == '\r') o += "\\r";
    else if (c < 0x20) { char b[8]; snprintf(b, sizeof b, "\\u%04x", c); o += b; }
    else o += c;
  }
  return o;
}
inline std::string jstr(const std::string& s) { return "\"" + jesc(s) + "\""; }

// minimal JSON object builder
struct J {
  std::string s; bool first;
  J() : s("{"), first(true) {}
  J& raw(const std::string& k, const std::string& v) { if (!first) s += ","; first = false; s += jstr(k) + ":" + v; return *this; }
  J& str(const std::string& k, const std::string& v) { return raw(k, jstr(v)); }
  J& num(const std::string& k, long long v) { return raw(k, std::to_string(v)); }
  J& dbl(const std::string& k, double v) { char b[64]; snprintf(b, sizeof b, "%.3f", v); return raw(k, b); }
  J& boolean(const std::string& k, bool v) { return raw(k, v ? "true" : "false"); }
  J& arr(const std::string& k, const std::vector<std::string>& raw_items) {
    std::string a = "[";
    for (size_t i = 0; i < raw_items.size(); ++i) { if (i) a += ","; a += raw_items[i]; }
    return raw(k, a + "]");
  }
  std::string done() const { return s + "}"; }
};

struct Args {
  std::string tier, out, replay;
  int jobs; double deadline; long seed;
  std::vector<std::string> rest;
  double t0;
  Args() : tier("quick"), jobs(16), deadline(600), seed(0), t0(now_s()) {}
  bool thorough() const { return tier == "thorough"; }
  double left() const { return deadline - (now_s() - t0); }
  bool expired() const { return left() <= 0; }
  bool has(const std::string& f) const { for (size_t i = 0; i < rest.size(); ++i) if (rest[i] == f) return true; return false; }
  std::string opt(const std::string& f, const std::string& def = "") const {
    for (size_t i = 0; i + 1 < rest.size(); ++i) if (rest[i] == f) return rest[i + 1];
    return def;
  }
};

inline Args parse_args(int argc, char** argv) {
  Args a;
  for (int i = 1; i < argc; ++i) {
    std::string s = argv[i];
    if (s == "--tier" && i + 1 < argc) a.tier = argv[++i];
    else if (s == "--out" && i + 1 < argc) a.out = argv[++i];
    else if (s == "--jobs" && i + 1 < argc) a.jobs = atoi(argv[++i]);
    else if (s == "--deadline" && i + 1 < argc) a.deadline = atof(argv[++i]);
    else if (s == "--seed" && i + 1 < argc) a.seed = atol(argv[++i]);
    else if (s == "--replay" && i + 1 < argc) a.replay = argv[++i];
    else a.rest.push_back(s);
  }
  if (a.jobs < 1) a.jobs = 1;
  return a;
}

// ---- result sink: every process appends whole lines to the same O_APPEND file
struct Sink {
  std::string path;
  void open(const std::string& p) { path = p; if (!p.empty()) { FILE* f = fopen(p.c_str(), "a"); if (f) fclose(f); } }
  void line(const std::string& l) const {
    if (path.empty()) { fputs((l + "\n").c_str(), stdout); fflush(stdout); return; }
    // one write() on an O_APPEND descriptor: records of concurrent workers never interleave
    int fd = ::open(path.c_str(), O_WRONLY | O_APPEND | O_CREAT, 0644);
    if (fd < 0) { perror("sink"); _exit(3); }
    std::string s = l + "\n";
    size_t off = 0;
    while (off < s.size()) { ssize_t w = ::write(fd, s.data() + off, s.size() - off); if (w <= 0) { perror("sink write"); _exit(3); } off += (size_t)w; }
    ::close(fd);
  }
};

inline Sink& sink() { static Sink s; return s; }

// A violation record.  site/clause/trigger identify the finding group (see DESIGN 3.5).
inline void report_violation(const std::string& site, const std::string& clause, const std::string& trigger,
                             const std::string& input_json, const std::string& observed, const std::string& expected,
                             const std::string& detail = "") {
  J j; j.str("t", "viol").str("site", site).str("clause", clause).str("trigger", trigger)
       .raw("input", input_json).str("observed", observed).str("expected", expected).str("detail", detail);
  sink().line(j.done());
}

// ---- counters shared between forked workers (mmap'd)
struct Shared {
  volatile long long counters[64];
  // per worker progress: item, sub (last started)
  volatile long long prog_item[64], prog_sub[64];
  volatile long long viol_groups;   // rough count to cap output
  volatile int in_ref[64];          // worker is inside a reference (oracle) computation
};

inline Shared* shared() {
  static Shared* p = 0;
  if (!p) {
    p = (Shared*)mmap(0, sizeof(Shared), PROT_READ | PROT_WRITE, MAP_SHARED | MAP_ANONYMOUS, -1, 0);
    memset((void*)p, 0, sizeof(Shared));
  }
  return p;
}
inline void count(int idx, long long n = 1) { __sync_fetch_and_add(&shared()->counters[idx], n); }
inline long long counter(int idx) { return shared()->counters[idx]; }

enum { CNT_TRANS = 0, CNT_STATES = 1, CNT_CHECKS = 2, CNT_VIOL = 3, CNT_SKIPPED = 4, CNT_REFCRASH = 5, CNT_USER = 8 };

// Per-group cap on emitted violation records so that a systematic defect does not write gigabytes.
struct ViolCap {
  std::map<std::string, int> seen;
  int cap;
  ViolCap() : cap(5) {}
  bool admit(const std::string& key) { int& c = seen[key]; if (c >= cap) { ++c; return false; } ++c; return true; }
};
inline ViolCap& violcap() { static ViolCap v; return v; }

// ---- fork pool ------------------------------------------------------------------
// Work items 0..N-1; worker w handles items with item % jobs == w, in increasing order.
// fn(item, sub_start) must call step(sub) before each risky sub-step so that a crash can be
// attributed; after a crash the worker is restarted at (item, sub+1).
// on_crash(item, sub, signal, confirmed) is called in the parent.
struct Pool {
  int jobs;
  int worker_id;
  Pool() : jobs(1), worker_id(-1), step_timeout(0) {}
  int step_timeout;
  std::function<void()> at_worker_exit;
  void step(long long sub) {
    if (worker_id >= 0) shared()->prog_sub[worker_id] = sub;
    if (step_timeout > 0) alarm(only_sub >= 0 ? step_timeout * 10 : step_timeout);
  }

  typedef std::function<void(long long item, long long sub_start)> Fn;
  typedef std::function<void(long long item, long long sub, int sig, bool confirmed)> CrashFn;

  // timeout_s: per sub-step wall-clock limit (0 = none) enforced via alarm() in the worker
  void run(long long N, int njobs, const Fn& fn, const CrashFn& on_crash, const Args& args, int step_timeout_s = 0) {
    jobs = njobs; step_timeout = step_timeout_s;
    struct W { pid_t pid; long long start_item, start_sub; bool single; bool confirm; };
    std::vector<W> ws(jobs);
    fflush(stdout); fflush(stderr);
    auto spawn = [&](int w, long long item0, long long sub0, bool single) -> pid_t {
      shared()->prog_item[w] = item0; shared()->prog_sub[w] = sub0 - 1;
      pid_t pid = fork();
      if (pid < 0) { perror("fork"); exit(3); }
      if (pid == 0) {
        worker_id = w;
        if (step_timeout_s > 0) { signal(SIGALRM, SIG_DFL); }
        long long first = item0;
        for (long long it = first; it < N; it += jobs) {
          if (args.expired()) { count(CNT_SKIPPED); continue; }
          shared()->prog_item[w] = it;
          long long s0 = (it == item0) ? sub0 : 0;
          shared()->prog_sub[w] = s0 - 1;
          fn(it, s0);
          if (single) break;
        }
        if (at_worker_exit) at_worker_exit();
        fflush(stdout); fflush(stderr);
        _exit(0);
      }
      return pid;
    };
    int live = 0;
    for (int w = 0; w < jobs; ++w) {
      if (w >= N) { ws[w].pid = -1; continue; }
      ws[w].pid = spawn(w, w, 0, false); ws[w].start_item = w; ws[w].start_sub = 0; ws[w].single = false; ws[w].confirm = false;
      ++live;
    }
    while (live > 0) {
      int st; pid_t p = wait(&st);
      if (p < 0) break;
      int w = -1;
      for (int i = 0; i < jobs; ++i) if (ws[i].pid == p) w = i;
      if (w < 0) continue;
      --live;
      if (WIFEXITED(st) && WEXITSTATUS(st) == 0) {
        if (ws[w].confirm) {
          // the isolated re-run did not crash: not confirmed; continue after it
          on_crash(ws[w].start_item, ws[w].start_sub, 0, false);
          ws[w].start_sub += 1; ws[w].pid = spawn(w, ws[w].start_item, ws[w].start_sub, false); ws[w].confirm = false; ++live;
        }
        continue;
      }
      int sig = WIFSIGNALED(st) ? WTERMSIG(st) : 1000 + WEXITSTATUS(st);
      long long item = shared()->prog_item[w], sub = shared()->prog_sub[w];
      {
        // A crash before the first step() of an item (or before the first step after a restart)
        // happened in the item's preamble: no sub-step can be skipped, so the whole item is
        // skipped.  on_crash(item, -1, sig, true) is called once.
        long long first_sub = (item == ws[w].start_item && !ws[w].confirm) ? ws[w].start_sub : 0;
        if (!ws[w].confirm && !shared()->in_ref[w] && sub < first_sub) {
          on_crash(item, -1, sig, true);
          count(CNT_SKIPPED);
          if (item + jobs < N) { ws[w].pid = spawn(w, item + jobs, 0, false); ws[w].start_item = item + jobs; ws[w].start_sub = 0; ++live; }
          continue;
        }
      }
      if (sub < 0) sub = 0;
      if (shared()->in_ref[w]) {
        // the oracle itself ran out of time/memory on this case: not a verdict on the code under
        // test; the case is counted as skipped (the run is then not exhaustive)
        shared()->in_ref[w] = 0;
        count(CNT_REFCRASH);
        fprintf(stderr, "[pool] reference computation died (signal %d) at item %lld sub %lld: case skipped\n", sig, item, sub);
        ws[w].confirm = false;
        ws[w].pid = spawn(w, item, sub + 1, false); ws[w].start_item = item; ws[w].start_sub = sub + 1; ++live;
        continue;
      }
      if (!ws[w].confirm) {
        // re-run exactly this sub-step alone to confirm
        ws[w].start_item = item; ws[w].start_sub = sub; ws[w].confirm = true;
        crash_only = true;
        ws[w].pid = spawn_single(w, item, sub, fn); ++live;
      } else {
        on_crash(item, ws[w].start_sub, sig, true);
        ws[w].confirm = false;
        ws[w].start_sub += 1;
        ws[w].pid = spawn(w, ws[w].start_item, ws[w].start_sub, false); ++live;
      }
    }
  }
  bool crash_only = false;
  long long only_sub = -1;   // when >= 0 the worker must execute only this sub-step of the item
  pid_t spawn_single(int w, long long item, long long sub, const Fn& fn) {
    shared()->prog_item[w] = item; shared()->prog_sub[w] = sub - 1;
    fflush(stdout); fflush(stderr);
    pid_t pid = fork();
    if (pid < 0) { perror("fork"); exit(3); }
    if (pid == 0) {
      worker_id = w; only_sub = sub;
      fn(item, sub);
      fflush(stdout); fflush(stderr);
      _exit(0);
    }
    return pid;
  }
  // helper for fn bodies: should sub-step `sub` run?
  bool want(long long sub, long long sub_start) const {
    if (only_sub >= 0) return sub == only_sub;
    return sub >= sub_start;
  }
};

inline Pool& pool() { static Pool p; return p; }

// RAII marker around reference computations
struct RefGuard {
  int w;
  RefGuard() : w(pool().worker_id) { if (w >= 0) shared()->in_ref[w] = 1; }
  ~RefGuard() { if (w >= 0) shared()->in_ref[w] = 0; }
};
inline void limit_memory(size_t bytes) {
#if defined(__SANITIZE_ADDRESS__)
  (void)bytes;     // AddressSanitizer reserves terabytes of address space: no RLIMIT_AS
#else
  struct rlimit r; r.rlim_cur = r.rlim_max = bytes; setrlimit(RLIMIT_AS, &r);
#endif
}

inline const char* signame(int sig) {
  switch (sig) { case SIGABRT: return "SIGABRT"; case SIGSEGV: return "SIGSEGV"; case SIGFPE: return "SIGFPE";
    case SIGBUS: return "SIGBUS"; case SIGILL: return "SIGILL"; case SIGALRM: return "SIGALRM(hang)"; case SIGKILL: return "SIGKILL"; default: return "signal/exit"; }
}

} // namespace vf
#endif

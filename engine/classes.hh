// Class adapters (operation alphabets over small fixed menus) for the history-replay explorer.
// Used by C13 (value semantics / aliasing) and C15 (ascii_dump / ascii_load round trip).
#ifndef VERIF_ENGINE_CLASSES_HH
#define VERIF_ENGINE_CLASSES_HH 1
#include "engine/hist.hh"
#include "engine/ppl_ref.hh"

namespace vf {

using PPL::Variable; using PPL::Linear_Expression; using PPL::Coefficient; using PPL::Constraint; using PPL::Generator;
using PPL::Congruence; using PPL::Variables_Set;

template <class T> inline std::string io_print(const T& x) { using namespace PPL::IO_Operators; std::ostringstream s; s << x; return s.str(); }
inline std::string b2s(bool b) { return b ? "true" : "false"; }

template <class D> struct DomTraits { static const bool strict = false, grid = false, poly = false, powerset = false, product = false; };
template <> struct DomTraits<PPL::C_Polyhedron> { static const bool strict = false, grid = false, poly = true, powerset = false, product = false; };
template <> struct DomTraits<PPL::NNC_Polyhedron> { static const bool strict = true, grid = false, poly = true, powerset = false, product = false; };
template <> struct DomTraits<PPL::Grid> { static const bool strict = false, grid = true, poly = false, powerset = false, product = false; };
template <> struct DomTraits<PPL::Rational_Box> { static const bool strict = true, grid = false, poly = false, powerset = false, product = false; };
template <class P> struct DomTraits<PPL::Pointset_Powerset<P> > { static const bool strict = DomTraits<P>::strict, grid = false, poly = false, powerset = true, product = false; };
template <class A, class B, class R> struct DomTraits<PPL::Partially_Reduced_Product<A, B, R> > { static const bool strict = false, grid = false, poly = false, powerset = false, product = true; };

inline void canon_min(const PPL::C_Polyhedron& p) { (void)p.minimized_constraints(); }
inline void canon_min(const PPL::NNC_Polyhedron& p) { (void)p.minimized_constraints(); }
template <class T> inline void canon_min(const T&) {}
template <class D> inline void add_desc_ops(ClassAdapter<D>& A, std::true_type) {
  typedef Mut<D> M;
  Variable x(0), y(1);
  A.muts.push_back(M("constraints()", false, [](D& d, const D*) { return io_print(d.constraints()); }, true));
  A.muts.push_back(M("minimized_constraints()", false, [](D& d, const D*) { return io_print(d.minimized_constraints()); }, true));
  A.muts.push_back(M("congruences()", false, [](D& d, const D*) { return io_print(d.congruences()); }, true));
  A.muts.push_back(M("minimized_congruences()", false, [](D& d, const D*) { return io_print(d.minimized_congruences()); }, true));
  PPL::Constraint_System s; s.insert(x >= 0); s.insert(y <= 3);
  A.muts.push_back(M("add_recycled_constraints({A>=0,B<=3})", false, [s](D& d, const D*) { PPL::Constraint_System t = s; d.add_recycled_constraints(t); return std::string(); }));
  A.initials.push_back(std::make_pair(std::string("point(1,1)minimized"), std::function<D*()>([x, y]() { D* d = new D(2, PPL::UNIVERSE); d->refine_with_constraint(x == 1); d->refine_with_constraint(y == 1); (void)d->minimized_constraints(); return d; })));
}
template <class D> inline void add_desc_ops(ClassAdapter<D>&, std::false_type) {}
template <class D> inline void add_cip_op(ClassAdapter<D>& A, std::true_type) {
  typedef Mut<D> M;
  A.muts.push_back(M("contains_integer_point()", false, [](D& d, const D*) { return b2s(d.contains_integer_point()); }, true));
}
template <class D> inline void add_cip_op(ClassAdapter<D>&, std::false_type) {}

template <class D>
inline void add_common_domain_ops(ClassAdapter<D>& A) {
  typedef Mut<D> M;
  Variable x(0), y(1);
  struct C { const char* n; Constraint c; bool strict; };
  std::vector<C> cs = {
    {"A>=0", x >= 0, false}, {"A<=2", x <= 2, false}, {"A+B<=2", x + y <= 2, false}, {"A-B>=0", x - y >= 0, false},
    {"A==1", x == 1, false}, {"B>=1", y >= 1, false}, {"2A-B>=-1", 2 * x - y >= -1, false}, {"A>0", x > 0, true}, {"B<2", y < 2, true},
    {"0>=1", Linear_Expression(0) >= 1, false},
  };
  for (size_t i = 0; i < cs.size(); ++i) {
    Constraint c = cs[i].c;
    if (cs[i].strict && !DomTraits<D>::strict) continue;
    A.muts.push_back(M(std::string("refine_with_constraint(") + cs[i].n + ")", false, [c](D& d, const D*) { d.refine_with_constraint(c); return std::string(); }));
    if (i < 6 || i == 9) A.muts.push_back(M(std::string("add_constraint(") + cs[i].n + ")", false, [c](D& d, const D*) { d.add_constraint(c); return std::string(); }));
  }
  { PPL::Constraint_System s; s.insert(x >= 0); s.insert(y <= 3);
    A.muts.push_back(M("add_constraints({A>=0,B<=3})", false, [s](D& d, const D*) { d.add_constraints(s); return std::string(); }));
 }
  { Congruence g1 = (x %= 0) / 2, g2 = (x + y %= 1) / 3, g3 = (x %= 1) / 0;
    A.muts.push_back(M("refine_with_congruence(A=0 mod 2)", false, [g1](D& d, const D*) { d.refine_with_congruence(g1); return std::string(); }));
    A.muts.push_back(M("refine_with_congruence(A+B=1 mod 3)", false, [g2](D& d, const D*) { d.refine_with_congruence(g2); return std::string(); }));
    A.muts.push_back(M("add_congruence(A=1)", false, [g3](D& d, const D*) { d.add_congruence(g3); return std::string(); }));
    A.muts.push_back(M("add_congruence(A=0 mod 2)", false, [g1](D& d, const D*) { d.add_congruence(g1); return std::string(); })); }
  A.muts.push_back(M("unconstrain(A)", false, [x](D& d, const D*) { d.unconstrain(x); return std::string(); }));
  A.muts.push_back(M("affine_image(A,A+1)", false, [x](D& d, const D*) { d.affine_image(x, x + 1); return std::string(); }));
  A.muts.push_back(M("affine_image(A,B)", false, [x, y](D& d, const D*) { d.affine_image(x, Linear_Expression(y)); return std::string(); }));
  A.muts.push_back(M("affine_image(B,2A-B+1,2)", false, [x, y](D& d, const D*) { d.affine_image(y, 2 * x - y + 1, 2); return std::string(); }));
  A.muts.push_back(M("affine_preimage(A,A+B)", false, [x, y](D& d, const D*) { d.affine_preimage(x, x + y); return std::string(); }));
  A.muts.push_back(M("affine_preimage(A,B,-1)", false, [x, y](D& d, const D*) { d.affine_preimage(x, Linear_Expression(y), -1); return std::string(); }));
  A.muts.push_back(M("generalized_affine_image(A,<=,B+1)", false, [x, y](D& d, const D*) { d.generalized_affine_image(x, PPL::LESS_OR_EQUAL, y + 1); return std::string(); }));
  A.muts.push_back(M("generalized_affine_image(A+B,>=,2)", false, [x, y](D& d, const D*) { d.generalized_affine_image(x + y, PPL::GREATER_OR_EQUAL, Linear_Expression(2)); return std::string(); }));
  A.muts.push_back(M("generalized_affine_preimage(B,>=,A)", false, [x, y](D& d, const D*) { d.generalized_affine_preimage(y, PPL::GREATER_OR_EQUAL, Linear_Expression(x)); return std::string(); }));
  A.muts.push_back(M("bounded_affine_image(A,B,B+2)", false, [x, y](D& d, const D*) { d.bounded_affine_image(x, Linear_Expression(y), y + 2); return std::string(); }));
  A.muts.push_back(M("bounded_affine_preimage(A,0,B)", false, [x, y](D& d, const D*) { d.bounded_affine_preimage(x, Linear_Expression(0), Linear_Expression(y)); return std::string(); }));
  A.muts.push_back(M("add_space_dimensions_and_embed(1)", false, [](D& d, const D*) { d.add_space_dimensions_and_embed(1); return std::string(); }));
  A.muts.push_back(M("add_space_dimensions_and_project(1)", false, [](D& d, const D*) { d.add_space_dimensions_and_project(1); return std::string(); }));
  A.muts.push_back(M("remove_higher_space_dimensions(1)", false, [](D& d, const D*) { d.remove_higher_space_dimensions(1); return std::string(); }));
  A.muts.push_back(M("remove_space_dimensions({A})", false, [x](D& d, const D*) { Variables_Set vs; vs.insert(x); d.remove_space_dimensions(vs); return std::string(); }));
  A.muts.push_back(M("expand_space_dimension(A,1)", false, [x](D& d, const D*) { d.expand_space_dimension(x, 1); return std::string(); }));
  A.muts.push_back(M("fold_space_dimensions({B},A)", false, [x, y](D& d, const D*) { Variables_Set vs; vs.insert(y); d.fold_space_dimensions(vs, x); return std::string(); }));
  A.muts.push_back(M("topological_closure_assign()", false, [](D& d, const D*) { d.topological_closure_assign(); return std::string(); }));
  // observers (lazy-state changing)
  add_desc_ops(A, std::integral_constant<bool, !DomTraits<D>::powerset>());
  add_cip_op(A, std::integral_constant<bool, !DomTraits<D>::product>());
  A.muts.push_back(M("is_empty()", false, [](D& d, const D*) { return b2s(d.is_empty()); }, true));
  A.muts.push_back(M("is_universe()", false, [](D& d, const D*) { return b2s(d.is_universe()); }, true));
  A.muts.push_back(M("is_bounded()", false, [](D& d, const D*) { return b2s(d.is_bounded()); }, true));
  A.muts.push_back(M("is_topologically_closed()", false, [](D& d, const D*) { return b2s(d.is_topologically_closed()); }, true));
  A.muts.push_back(M("is_discrete()", false, [](D& d, const D*) { return b2s(d.is_discrete()); }, true));
  A.muts.push_back(M("affine_dimension()", false, [](D& d, const D*) { return std::to_string(d.affine_dimension()); }, true));
  A.muts.push_back(M("constrains(A)", false, [x](D& d, const D*) { return b2s(d.constrains(x)); }, true));
  A.muts.push_back(M("maximize(A+B)", false, [x, y](D& d, const D*) { Coefficient n, dd; bool mx; bool r = d.maximize(x + y, n, dd, mx); return r ? "true " + io_print(n) + "/" + io_print(dd) + (mx ? " max" : " sup") : std::string("false"); }, true));
  A.muts.push_back(M("relation_with(A>=1)", false, [x](D& d, const D*) { return io_print(d.relation_with(x >= 1)); }, true));
  A.muts.push_back(M("relation_with(point(A+B))", false, [x, y](D& d, const D*) { return io_print(d.relation_with(PPL::point(x + y))); }, true));
  A.muts.push_back(M("OK()", false, [](D& d, const D*) { return b2s(d.OK()); }, true));
  // binary
  A.muts.push_back(M("intersection_assign", true, [](D& d, const D* a) { d.intersection_assign(*a); return std::string(); }));
  A.muts.push_back(M("upper_bound_assign", true, [](D& d, const D* a) { d.upper_bound_assign(*a); return std::string(); }));
  A.muts.push_back(M("difference_assign", true, [](D& d, const D* a) { d.difference_assign(*a); return std::string(); }));
  A.muts.push_back(M("time_elapse_assign", true, [](D& d, const D* a) { d.time_elapse_assign(*a); return std::string(); }));
  A.muts.push_back(M("concatenate_assign", true, [](D& d, const D* a) { if (d.space_dimension() + a->space_dimension() > 4) return std::string("skipped"); d.concatenate_assign(*a); return std::string(); }));
  A.muts.push_back(M("contains", true, [](D& d, const D* a) { return b2s(d.contains(*a)); }, true));
  A.muts.push_back(M("strictly_contains", true, [](D& d, const D* a) { return b2s(d.strictly_contains(*a)); }, true));
  A.muts.push_back(M("is_disjoint_from", true, [](D& d, const D* a) { return b2s(d.is_disjoint_from(*a)); }, true));
  A.muts.push_back(M("operator==", true, [](D& d, const D* a) { return b2s(d == *a); }, true));
}

template <class D>
inline void add_simple_domain_ops(ClassAdapter<D>& A) {   // not for powersets / products
  typedef Mut<D> M;
  // a meet-preserving simplification is not unique: which redundant constraints of the receiver survive depends on
  // its representation, so polyhedra are brought to minimal form first (value-preserving) to make it a value function
  // (even minimal NNC descriptions are not unique), so the value that is compared is the one the contract fixes:
  // the meet of the result with the context
  A.muts.push_back(M("simplify_using_context_assign", true, [](D& d, const D* a) { canon_min(d); canon_min(*a); D ctx(*a); bool r = d.simplify_using_context_assign(*a); if (ctx.space_dimension() == d.space_dimension()) d.intersection_assign(ctx); return b2s(r); }));
  A.muts.push_back(M("upper_bound_assign_if_exact", true, [](D& d, const D* a) { return b2s(d.upper_bound_assign_if_exact(*a)); }));
  A.muts.push_back(M("widening_assign(if contained)", true, [](D& d, const D* a) { if (d.space_dimension() != a->space_dimension() || !d.contains(*a)) return std::string("skipped"); d.widening_assign(*a); return std::string(); }));
  A.muts.push_back(M("widening_assign(if contained,tokens=1)", true, [](D& d, const D* a) { if (d.space_dimension() != a->space_dimension() || !d.contains(*a)) return std::string("skipped"); unsigned t = 1; d.widening_assign(*a, &t); return std::to_string(t); }));
}

template <class D>
inline void fill_io(ClassAdapter<D>& A, std::function<D*()> blank) {
  A.dump = [](const D& d) { return dump_of(d); };
  A.blank = blank;
  A.load = [](D& d, const std::string& t) { std::istringstream s(t); return d.ascii_load(s); };
  A.equal = [](const D& a, const D& b) { return a.space_dimension() == b.space_dimension() && a == b; };
  A.ok = [](const D& d) { return d.OK(); };
  A.print = [](const D& d) { return io_print(d); };
}

template <class D>
inline void add_domain_initials(ClassAdapter<D>& A) {
  Variable x(0), y(1);
  A.initials.push_back(std::make_pair(std::string("universe(2)"), std::function<D*()>([]() { return new D(2, PPL::UNIVERSE); })));
  A.initials.push_back(std::make_pair(std::string("triangle"), std::function<D*()>([x, y]() { D* d = new D(2, PPL::UNIVERSE); d->refine_with_constraint(x >= 0); d->refine_with_constraint(y >= 0); d->refine_with_constraint(x + y <= 2); return d; })));
  A.initials.push_back(std::make_pair(std::string("strip"), std::function<D*()>([x, y]() { D* d = new D(2, PPL::UNIVERSE); d->refine_with_constraint(x - y >= 0); d->refine_with_constraint(x - y <= 1); (void)d->is_empty(); return d; })));
  A.initials.push_back(std::make_pair(std::string("empty(2)"), std::function<D*()>([]() { return new D(2, PPL::EMPTY); })));
  A.initials.push_back(std::make_pair(std::string("point(1,1)"), std::function<D*()>([x, y]() { D* d = new D(2, PPL::UNIVERSE); d->refine_with_constraint(x == 1); d->refine_with_constraint(y == 1); (void)d->is_universe(); return d; })));
}

template <class D>
inline ClassAdapter<D> domain_adapter(const std::string& name) {
  ClassAdapter<D> A; A.name = name;
  add_domain_initials(A);
  add_common_domain_ops(A);
  add_simple_domain_ops(A);
  fill_io<D>(A, []() { return new D(0, PPL::UNIVERSE); });
  return A;
}

// ---- polyhedra: generator-side operations as well
template <class PH>
inline ClassAdapter<PH> polyhedron_adapter(const std::string& name) {
  ClassAdapter<PH> A = domain_adapter<PH>(name);
  typedef Mut<PH> M;
  Variable x(0), y(1);
  A.initials.push_back(std::make_pair(std::string("gens{p(0,0),p(2,1)/2,r(1,1)}"), std::function<PH*()>([x, y]() { PPL::Generator_System gs; gs.insert(PPL::point()); gs.insert(PPL::point(2 * x + y, 2)); gs.insert(PPL::ray(x + y)); return new PH(gs); })));
  A.muts.push_back(M("add_generator(p(3,0))", false, [x](PH& d, const PH*) { d.add_generator(PPL::point(3 * x)); return std::string(); }));
  A.muts.push_back(M("add_generator(p(1,1)/3)", false, [x, y](PH& d, const PH*) { d.add_generator(PPL::point(x + y, 3)); return std::string(); }));
  A.muts.push_back(M("add_generator(r(0,1))", false, [y](PH& d, const PH*) { d.add_generator(PPL::ray(y)); return std::string(); }));
  A.muts.push_back(M("add_generator(l(1,-1))", false, [x, y](PH& d, const PH*) { d.add_generator(PPL::line(x - y)); return std::string(); }));
  if (DomTraits<PH>::strict) A.muts.push_back(M("add_generator(c(2,2))", false, [x, y](PH& d, const PH*) { d.add_generator(PPL::closure_point(2 * x + 2 * y)); return std::string(); }));
  { PPL::Generator_System gs; gs.insert(PPL::point(x)); gs.insert(PPL::ray(x - y));
    A.muts.push_back(M("add_generators({p(1,0),r(1,-1)})", false, [gs](PH& d, const PH*) { d.add_generators(gs); return std::string(); }));
    A.muts.push_back(M("add_recycled_generators({p(1,0),r(1,-1)})", false, [gs](PH& d, const PH*) { PPL::Generator_System t = gs; d.add_recycled_generators(t); return std::string(); })); }
  A.muts.push_back(M("generators()", false, [](PH& d, const PH*) { return io_print(d.generators()); }, true));
  A.muts.push_back(M("minimized_generators()", false, [](PH& d, const PH*) { return io_print(d.minimized_generators()); }, true));
  A.muts.push_back(M("H79_widening_assign(if contained)", true, [](PH& d, const PH* a) { if (d.space_dimension() != a->space_dimension() || !d.contains(*a)) return std::string("skipped"); d.H79_widening_assign(*a); return std::string(); }));
  A.muts.push_back(M("BHRZ03_widening_assign(if contained)", true, [](PH& d, const PH* a) { if (d.space_dimension() != a->space_dimension() || !d.contains(*a)) return std::string("skipped"); d.BHRZ03_widening_assign(*a); return std::string(); }));
  A.muts.push_back(M("poly_hull_assign", true, [](PH& d, const PH* a) { d.poly_hull_assign(*a); return std::string(); }));
  A.muts.push_back(M("poly_difference_assign", true, [](PH& d, const PH* a) { d.poly_difference_assign(*a); return std::string(); }));
  return A;
}

inline ClassAdapter<PPL::Grid> grid_adapter() {
  typedef PPL::Grid D; typedef Mut<D> M;
  ClassAdapter<D> A = domain_adapter<D>("Grid");
  Variable x(0), y(1);
  A.initials.push_back(std::make_pair(std::string("lattice{A=0mod2,A+B=1mod3}"), std::function<D*()>([x, y]() { D* d = new D(2); d->add_congruence((x %= 0) / 2); d->add_congruence((x + y %= 1) / 3); return d; })));
  A.initials.push_back(std::make_pair(std::string("gens{p(1,0)/2,q(0,3),l(1,1)}"), std::function<D*()>([x, y]() { D* d = new D(2, PPL::EMPTY); d->add_grid_generator(PPL::grid_point(x, 2)); d->add_grid_generator(PPL::parameter(3 * y)); d->add_grid_generator(PPL::grid_line(x + y)); return d; })));
  A.muts.push_back(M("add_congruence(A+B=1 mod 3)", false, [x, y](D& d, const D*) { d.add_congruence((x + y %= 1) / 3); return std::string(); }));
  A.muts.push_back(M("add_congruence(2A=1 mod 2)", false, [x](D& d, const D*) { d.add_congruence((2 * x %= 1) / 2); return std::string(); }));
  A.muts.push_back(M("add_grid_generator(p(1,1)/3)", false, [x, y](D& d, const D*) { d.add_grid_generator(PPL::grid_point(x + y, 3)); return std::string(); }));
  A.muts.push_back(M("add_grid_generator(q(2,0))", false, [x](D& d, const D*) { d.add_grid_generator(PPL::parameter(2 * x)); return std::string(); }));
  A.muts.push_back(M("add_grid_generator(l(0,1))", false, [y](D& d, const D*) { d.add_grid_generator(PPL::grid_line(y)); return std::string(); }));
  A.muts.push_back(M("grid_generators()", false, [](D& d, const D*) { return io_print(d.grid_generators()); }, true));
  A.muts.push_back(M("minimized_grid_generators()", false, [](D& d, const D*) { return io_print(d.minimized_grid_generators()); }, true));
  A.muts.push_back(M("generalized_affine_image(A,=,B+1,1,mod 2)", false, [x, y](D& d, const D*) { d.generalized_affine_image(x, PPL::EQUAL, y + 1, 1, 2); return std::string(); }));
  return A;
}

// ---- powerset
template <class P>
inline ClassAdapter<PPL::Pointset_Powerset<P> > powerset_adapter(const std::string& name) {
  typedef PPL::Pointset_Powerset<P> D; typedef Mut<D> M;
  ClassAdapter<D> A; A.name = name;
  Variable x(0), y(1);
  add_domain_initials(A);
  A.initials.push_back(std::make_pair(std::string("two-squares"), std::function<D*()>([x, y]() {
    D* d = new D(2, PPL::EMPTY);
    P a(2); a.refine_with_constraint(x >= 0); a.refine_with_constraint(x <= 1); a.refine_with_constraint(y >= 0); a.refine_with_constraint(y <= 1);
    P b(2); b.refine_with_constraint(x >= 1); b.refine_with_constraint(x <= 2); b.refine_with_constraint(y >= 0); b.refine_with_constraint(y <= 1);
    d->add_disjunct(a); d->add_disjunct(b); return d; })));
  add_common_domain_ops(A);
  A.muts.push_back(M("add_disjunct(square[0,1])", false, [x, y](D& d, const D*) { P a(2); a.refine_with_constraint(x >= 0); a.refine_with_constraint(x <= 1); a.refine_with_constraint(y >= 0); a.refine_with_constraint(y <= 1); d.add_disjunct(a); return std::string(); }));
  A.muts.push_back(M("add_disjunct(halfplane A>=1)", false, [x](D& d, const D*) { P a(2); a.refine_with_constraint(x >= 1); d.add_disjunct(a); return std::string(); }));
  A.muts.push_back(M("omega_reduce()", false, [](D& d, const D*) { d.omega_reduce(); return std::string(); }, true));
  A.muts.push_back(M("pairwise_reduce()", false, [](D& d, const D*) { d.pairwise_reduce(); return std::string(); }));
  A.muts.push_back(M("collapse()", false, [](D& d, const D*) { d.collapse(); return std::string(); }));
  A.muts.push_back(M("drop_first_disjunct", false, [](D& d, const D*) { if (d.begin() != d.end()) d.drop_disjunct(d.begin()); return std::string(); }));
  A.muts.push_back(M("size()", false, [](D& d, const D*) { return std::to_string(d.size()); }, true));
  A.muts.push_back(M("geometrically_covers", true, [](D& d, const D* a) { return b2s(d.geometrically_covers(*a)); }, true));
  A.muts.push_back(M("geometrically_equals", true, [](D& d, const D* a) { return b2s(d.geometrically_equals(*a)); }, true));
  A.muts.push_back(M("definitely_entails", true, [](D& d, const D* a) { return b2s(d.definitely_entails(*a)); }, true));
  A.muts.push_back(M("meet_assign", true, [](D& d, const D* a) { d.meet_assign(*a); return std::string(); }));
  A.muts.push_back(M("simplify_using_context_assign", true, [](D& d, const D* a) { D ctx(*a); bool r = d.simplify_using_context_assign(*a); if (ctx.space_dimension() == d.space_dimension()) d.intersection_assign(ctx); return b2s(r); }));
  A.muts.push_back(M("add_first_disjunct_of_arg", true, [](D& d, const D* a) { if (a->begin() != a->end() && a->space_dimension() == d.space_dimension()) d.add_disjunct(a->begin()->pointset()); return std::string(); }));
  fill_io<D>(A, []() { return new D(0, PPL::UNIVERSE); });
  // equality of powersets as values is geometric, not syntactic
  A.equal = [](const D& a, const D& b) { return a.space_dimension() == b.space_dimension() && a.geometrically_equals(b); };
  return A;
}

template <class D>
inline ClassAdapter<D> product_adapter(const std::string& name) {
  ClassAdapter<D> A; A.name = name;
  add_domain_initials(A);
  add_common_domain_ops(A);
  fill_io<D>(A, []() { return new D(0, PPL::UNIVERSE); });
  return A;
}

// ---- linear expressions
inline ClassAdapter<Linear_Expression> linexpr_adapter(PPL::Representation r, const std::string& name) {
  typedef Linear_Expression D; typedef Mut<D> M;
  ClassAdapter<D> A; A.name = name;
  Variable x(0), y(1), z(2);
  A.initials.push_back(std::make_pair(std::string("0"), std::function<D*()>([r]() { return new D(r); })));
  A.initials.push_back(std::make_pair(std::string("2A+3B"), std::function<D*()>([r, x, y]() { D* e = new D(r); *e += 2 * x; *e += 3 * y; return e; })));
  A.initials.push_back(std::make_pair(std::string("A-C+5"), std::function<D*()>([r, x, z]() { D* e = new D(r); *e += x; *e -= z; *e += 5; return e; })));
  A.initials.push_back(std::make_pair(std::string("-4B"), std::function<D*()>([r, y]() { D* e = new D(r); *e -= 4 * y; return e; })));
  A.muts.push_back(M("+=A", false, [x](D& e, const D*) { e += x; return std::string(); }));
  A.muts.push_back(M("-=3B", false, [y](D& e, const D*) { e -= 3 * y; return std::string(); }));
  A.muts.push_back(M("+=7", false, [](D& e, const D*) { e += 7; return std::string(); }));
  A.muts.push_back(M("*=2", false, [](D& e, const D*) { e *= 2; return std::string(); }));
  A.muts.push_back(M("*=0", false, [](D& e, const D*) { e *= 0; return std::string(); }));
  A.muts.push_back(M("neg", false, [](D& e, const D*) { PPL::neg_assign(e); return std::string(); }));
  A.muts.push_back(M("set_space_dimension(4)", false, [](D& e, const D*) { e.set_space_dimension(4); return std::string(); }));
  A.muts.push_back(M("set_space_dimension(1)", false, [](D& e, const D*) { e.set_space_dimension(1); return std::string(); }));
  A.muts.push_back(M("swap_space_dimensions(A,B)", false, [x, y](D& e, const D*) { if (e.space_dimension() < 2) return std::string("skipped"); e.swap_space_dimensions(x, y); return std::string(); }));
  A.muts.push_back(M("shift_space_dimensions(A,1)", false, [x](D& e, const D*) { if (e.space_dimension() < 1) return std::string("skipped"); e.shift_space_dimensions(x, 1); return std::string(); }));
  A.muts.push_back(M("remove_space_dimensions({A})", false, [x](D& e, const D*) { if (e.space_dimension() < 1) return std::string("skipped"); Variables_Set vs; vs.insert(x); e.remove_space_dimensions(vs); return std::string(); }));
  A.muts.push_back(M("set_coefficient(B,5)", false, [y](D& e, const D*) { if (e.space_dimension() < 2) return std::string("skipped"); e.set_coefficient(y, Coefficient(5)); return std::string(); }));
  A.muts.push_back(M("set_coefficient(A,0)", false, [x](D& e, const D*) { if (e.space_dimension() < 1) return std::string("skipped"); e.set_coefficient(x, Coefficient(0)); return std::string(); }));
  A.muts.push_back(M("print", false, [](D& e, const D*) { return io_print(e); }, true));
  A.muts.push_back(M("all_homogeneous_terms_are_zero", false, [](D& e, const D*) { return b2s(e.all_homogeneous_terms_are_zero()); }, true));
  A.muts.push_back(M("+=", true, [](D& e, const D* a) { e += *a; return std::string(); }));
  A.muts.push_back(M("-=", true, [](D& e, const D* a) { e -= *a; return std::string(); }));
  A.muts.push_back(M("add_mul_assign(3)", true, [](D& e, const D* a) { PPL::add_mul_assign(e, Coefficient(3), *a); return std::string(); }));
  A.muts.push_back(M("sub_mul_assign(1)", true, [](D& e, const D* a) { PPL::sub_mul_assign(e, Coefficient(1), *a); return std::string(); }));
  A.muts.push_back(M("linear_combine(2,-2)", true, [](D& e, const D* a) { if (e.space_dimension() != a->space_dimension()) return std::string("skipped"); e.linear_combine(*a, Coefficient(2), Coefficient(-2)); return std::string(); }));
  A.muts.push_back(M("is_equal_to", true, [](D& e, const D* a) { return b2s(e.is_equal_to(*a)); }, true));
  A.dump = [](const D& d) { return dump_of(d); };
  A.blank = [r]() { return new D(r); };
  A.load = [](D& d, const std::string& t) { std::istringstream s(t); return d.ascii_load(s); };
  A.equal = [](const D& a, const D& b) { return a.is_equal_to(b); };
  A.ok = [](const D& d) { return d.OK(); };
  A.print = [](const D& d) { return io_print(d); };
  return A;
}

// ---- constraint / generator / congruence systems
inline ClassAdapter<PPL::Constraint_System> consys_adapter() {
  typedef PPL::Constraint_System D; typedef Mut<D> M;
  ClassAdapter<D> A; A.name = "Constraint_System";
  Variable x(0), y(1), z(2);
  A.initials.push_back(std::make_pair(std::string("{}"), std::function<D*()>([]() { return new D(); })));
  A.initials.push_back(std::make_pair(std::string("{A>=0,A+B<=2}"), std::function<D*()>([x, y]() { D* s = new D(); s->insert(x >= 0); s->insert(x + y <= 2); return s; })));
  A.initials.push_back(std::make_pair(std::string("{B>1,C==3}"), std::function<D*()>([y, z]() { D* s = new D(); s->insert(y > 1); s->insert(z == 3); return s; })));
  A.muts.push_back(M("insert(A>=1)", false, [x](D& s, const D*) { s.insert(x >= 1); return std::string(); }));
  A.muts.push_back(M("insert(B<2)", false, [y](D& s, const D*) { s.insert(y < 2); return std::string(); }));
  A.muts.push_back(M("insert(A-C==0)", false, [x, z](D& s, const D*) { s.insert(x - z == 0); return std::string(); }));
  A.muts.push_back(M("insert(first element of itself)", false, [](D& s, const D*) { if (s.begin() == s.end()) return std::string("skipped"); s.insert(*s.begin()); return std::string(); }));
  A.muts.push_back(M("clear()", false, [](D& s, const D*) { s.clear(); return std::string(); }));
  A.muts.push_back(M("print", false, [](D& s, const D*) { return io_print(s); }, true));
  A.muts.push_back(M("has_strict_inequalities", false, [](D& s, const D*) { return b2s(s.has_strict_inequalities()); }, true));
  A.muts.push_back(M("space_dimension", false, [](D& s, const D*) { return std::to_string(s.space_dimension()); }, true));
  A.muts.push_back(M("insert(first element of arg)", true, [](D& s, const D* a) { if (a->begin() == a->end()) return std::string("skipped"); s.insert(*a->begin()); return std::string(); }));
  A.dump = [](const D& d) { return dump_of(d); };
  A.blank = []() { return new D(); };
  A.load = [](D& d, const std::string& t) { std::istringstream s(t); return d.ascii_load(s); };
  A.equal = [](const D& a, const D& b) { return io_print(a) == io_print(b); };
  A.ok = [](const D& d) { return d.OK(); };
  A.print = [](const D& d) { return io_print(d); };
  return A;
}

inline ClassAdapter<PPL::Generator_System> gensys_adapter() {
  typedef PPL::Generator_System D; typedef Mut<D> M;
  ClassAdapter<D> A; A.name = "Generator_System";
  Variable x(0), y(1), z(2);
  A.initials.push_back(std::make_pair(std::string("{}"), std::function<D*()>([]() { return new D(); })));
  A.initials.push_back(std::make_pair(std::string("{p(0,0),r(1,1)}"), std::function<D*()>([x, y]() { D* s = new D(); s->insert(PPL::point(0 * y)); s->insert(PPL::ray(x + y)); return s; })));
  A.initials.push_back(std::make_pair(std::string("{p(1,0,2)/3,c(0,1,0),l(0,0,1)}"), std::function<D*()>([x, y, z]() { D* s = new D(); s->insert(PPL::point(x + 2 * z, 3)); s->insert(PPL::closure_point(y + 0 * z)); s->insert(PPL::line(z)); return s; })));
  A.muts.push_back(M("insert(p(2,1))", false, [x, y](D& s, const D*) { s.insert(PPL::point(2 * x + y)); return std::string(); }));
  A.muts.push_back(M("insert(r(0,-1))", false, [y](D& s, const D*) { s.insert(PPL::ray(-y)); return std::string(); }));
  A.muts.push_back(M("insert(c(1,1)/2)", false, [x, y](D& s, const D*) { s.insert(PPL::closure_point(x + y, 2)); return std::string(); }));
  A.muts.push_back(M("insert(first element of itself)", false, [](D& s, const D*) { if (s.begin() == s.end()) return std::string("skipped"); s.insert(*s.begin()); return std::string(); }));
  A.muts.push_back(M("clear()", false, [](D& s, const D*) { s.clear(); return std::string(); }));
  A.muts.push_back(M("print", false, [](D& s, const D*) { return io_print(s); }, true));
  A.muts.push_back(M("space_dimension", false, [](D& s, const D*) { return std::to_string(s.space_dimension()); }, true));
  A.muts.push_back(M("insert(first element of arg)", true, [](D& s, const D* a) { if (a->begin() == a->end()) return std::string("skipped"); s.insert(*a->begin()); return std::string(); }));
  A.dump = [](const D& d) { return dump_of(d); };
  A.blank = []() { return new D(); };
  A.load = [](D& d, const std::string& t) { std::istringstream s(t); return d.ascii_load(s); };
  A.equal = [](const D& a, const D& b) { return io_print(a) == io_print(b); };
  A.ok = [](const D& d) { return d.OK(); };
  A.print = [](const D& d) { return io_print(d); };
  return A;
}

inline ClassAdapter<PPL::Congruence_System> cgsys_adapter() {
  typedef PPL::Congruence_System D; typedef Mut<D> M;
  ClassAdapter<D> A; A.name = "Congruence_System";
  Variable x(0), y(1), z(2);
  A.initials.push_back(std::make_pair(std::string("{}"), std::function<D*()>([]() { return new D(); })));
  A.initials.push_back(std::make_pair(std::string("{A=0mod2,A+B=1mod3}"), std::function<D*()>([x, y]() { D* s = new D(); s->insert((x %= 0) / 2); s->insert((x + y %= 1) / 3); return s; })));
  A.initials.push_back(std::make_pair(std::string("{C=1}"), std::function<D*()>([z]() { D* s = new D(); s->insert((z %= 1) / 0); return s; })));
  A.muts.push_back(M("insert(B=1 mod 2)", false, [y](D& s, const D*) { s.insert((y %= 1) / 2); return std::string(); }));
  A.muts.push_back(M("insert(A==3)", false, [x](D& s, const D*) { s.insert(x == 3); return std::string(); }));
  A.muts.push_back(M("insert(first element of itself)", false, [](D& s, const D*) { if (s.begin() == s.end()) return std::string("skipped"); s.insert(*s.begin()); return std::string(); }));
  A.muts.push_back(M("clear()", false, [](D& s, const D*) { s.clear(); return std::string(); }));
  A.muts.push_back(M("print", false, [](D& s, const D*) { return io_print(s); }, true));
  A.muts.push_back(M("insert(first element of arg)", true, [](D& s, const D* a) { if (a->begin() == a->end()) return std::string("skipped"); s.insert(*a->begin()); return std::string(); }));
  A.dump = [](const D& d) { return dump_of(d); };
  A.blank = []() { return new D(); };
  A.load = [](D& d, const std::string& t) { std::istringstream s(t); return d.ascii_load(s); };
  A.equal = [](const D& a, const D& b) { return io_print(a) == io_print(b); };
  A.ok = [](const D& d) { return d.OK(); };
  A.print = [](const D& d) { return io_print(d); };
  return A;
}

// ---- MIP / PIP problems
inline ClassAdapter<PPL::MIP_Problem> mip_adapter() {
  typedef PPL::MIP_Problem D; typedef Mut<D> M;
  ClassAdapter<D> A; A.name = "MIP_Problem";
  Variable x(0), y(1);
  A.initials.push_back(std::make_pair(std::string("mip(2)"), std::function<D*()>([]() { return new D(2); })));
  A.initials.push_back(std::make_pair(std::string("mip{A>=0,B>=0,A+B<=3;max A+2B}"), std::function<D*()>([x, y]() { D* p = new D(2); p->add_constraint(x >= 0); p->add_constraint(y >= 0); p->add_constraint(x + y <= 3); p->set_objective_function(x + 2 * y); return p; })));
  A.initials.push_back(std::make_pair(std::string("mip{A+B>=1,A<=3,B<=3,2A-B<=4;int A;solved}"), std::function<D*()>([x, y]() { D* p = new D(2); p->add_constraint(x + y >= 1); p->add_constraint(x <= 3); p->add_constraint(y <= 3); p->add_constraint(2 * x - y <= 4); Variables_Set vs; vs.insert(x); p->add_to_integer_space_dimensions(vs); p->set_objective_function(3 * x + y); (void)p->solve(); return p; })));
  A.muts.push_back(M("add_constraint(A<=2)", false, [x](D& p, const D*) { p.add_constraint(x <= 2); return std::string(); }));
  A.muts.push_back(M("add_constraint(2A+B>=1)", false, [x, y](D& p, const D*) { p.add_constraint(2 * x + y >= 1); return std::string(); }));
  A.muts.push_back(M("add_constraint(A-B==0)", false, [x, y](D& p, const D*) { p.add_constraint(x - y == 0); return std::string(); }));
  A.muts.push_back(M("add_constraint(2B<=3)", false, [y](D& p, const D*) { p.add_constraint(2 * y <= 3); return std::string(); }));
  A.muts.push_back(M("add_space_dimensions_and_embed(1)", false, [](D& p, const D*) { p.add_space_dimensions_and_embed(1); return std::string(); }));
  A.muts.push_back(M("add_to_integer_space_dimensions({B})", false, [y](D& p, const D*) { Variables_Set vs; vs.insert(y); p.add_to_integer_space_dimensions(vs); return std::string(); }));
  A.muts.push_back(M("set_objective_function(A-B)", false, [x, y](D& p, const D*) { p.set_objective_function(x - y); return std::string(); }));
  A.muts.push_back(M("set_objective_function(B)", false, [y](D& p, const D*) { p.set_objective_function(Linear_Expression(y)); return std::string(); }));
  A.muts.push_back(M("set_optimization_mode(MIN)", false, [](D& p, const D*) { p.set_optimization_mode(PPL::MINIMIZATION); return std::string(); }));
  A.muts.push_back(M("set_optimization_mode(MAX)", false, [](D& p, const D*) { p.set_optimization_mode(PPL::MAXIMIZATION); return std::string(); }));
  A.muts.push_back(M("set_pricing(TEXTBOOK)", false, [](D& p, const D*) { p.set_control_parameter(D::PRICING_TEXTBOOK); return std::string(); }));
  A.muts.push_back(M("set_pricing(STEEPEST_EXACT)", false, [](D& p, const D*) { p.set_control_parameter(D::PRICING_STEEPEST_EDGE_EXACT); return std::string(); }));
  A.muts.push_back(M("solve()", false, [](D& p, const D*) {
    PPL::MIP_Problem_Status s = p.solve();
    if (s == PPL::UNFEASIBLE_MIP_PROBLEM) return std::string("UNFEASIBLE");
    if (s == PPL::UNBOUNDED_MIP_PROBLEM) return std::string("UNBOUNDED");
    Coefficient n, d; p.optimal_value(n, d); return "OPTIMIZED " + io_print(n) + "/" + io_print(d) + " at " + io_print(p.optimizing_point()); }));
  A.muts.push_back(M("is_satisfiable()", false, [](D& p, const D*) { bool b = p.is_satisfiable(); return b ? "true " + io_print(p.feasible_point()) : std::string("false"); }));
  A.muts.push_back(M("clear()", false, [](D& p, const D*) { p.clear(); return std::string(); }));
  A.muts.push_back(M("OK()", false, [](D& p, const D*) { return b2s(p.OK()); }, true));
  A.dump = [](const D& d) { return dump_of(d); };
  A.blank = []() { return new D(); };
  A.load = [](D& d, const std::string& t) { std::istringstream s(t); return d.ascii_load(s); };
  A.equal = [](const D& a, const D& b) { return dump_of(a) == dump_of(b) || io_print(a) == io_print(b); };
  A.ok = [](const D& d) { return d.OK(); };
  A.print = [](const D& d) { return io_print(d); };
  return A;
}

inline std::string pip_tree_text(const PPL::PIP_Problem& p) {
  std::ostringstream s;
  PPL::PIP_Problem_Status st = p.solve();
  if (st == PPL::UNFEASIBLE_PIP_PROBLEM) return "UNFEASIBLE";
  p.print_solution(s);
  return s.str();
}

inline ClassAdapter<PPL::PIP_Problem> pip_adapter() {
  typedef PPL::PIP_Problem D; typedef Mut<D> M;
  ClassAdapter<D> A; A.name = "PIP_Problem";
  Variable x(0), y(1), p0(2), q(3);
  A.initials.push_back(std::make_pair(std::string("pip(3)"), std::function<D*()>([]() { return new D(3); })));
  A.initials.push_back(std::make_pair(std::string("pip{2B>=C,2A+B<=2C+1; C param}"), std::function<D*()>([x, y, p0]() {
    D* p = new D(3); Variables_Set ps; ps.insert(p0); p->add_to_parameter_space_dimensions(ps);
    p->add_constraint(2 * y >= p0); p->add_constraint(2 * x + y <= 2 * p0 + 1); return p; })));
  A.initials.push_back(std::make_pair(std::string("pip{A+B>=C, A<=3; C param, solved}"), std::function<D*()>([x, y, p0]() {
    D* p = new D(3); Variables_Set ps; ps.insert(p0); p->add_to_parameter_space_dimensions(ps);
    p->add_constraint(x + y >= p0); p->add_constraint(x <= 3); (void)p->solve(); return p; })));
  A.muts.push_back(M("add_constraint(A>=1)", false, [x](D& p, const D*) { p.add_constraint(x >= 1); return std::string(); }));
  A.muts.push_back(M("add_constraint(3B>=2C-1)", false, [y, p0](D& p, const D*) { p.add_constraint(3 * y >= 2 * p0 - 1); return std::string(); }));
  A.muts.push_back(M("add_constraint(A+B<=C+2)", false, [x, y, p0](D& p, const D*) { p.add_constraint(x + y <= p0 + 2); return std::string(); }));
  A.muts.push_back(M("add_constraint(C<=5)", false, [p0](D& p, const D*) { p.add_constraint(p0 <= 5); return std::string(); }));
  A.muts.push_back(M("add_space_dimensions_and_embed(1,0)", false, [](D& p, const D*) { p.add_space_dimensions_and_embed(1, 0); return std::string(); }));
  A.muts.push_back(M("add_space_dimensions_and_embed(0,1)", false, [](D& p, const D*) { p.add_space_dimensions_and_embed(0, 1); return std::string(); }));
  A.muts.push_back(M("set_cutting(DEEPEST)", false, [](D& p, const D*) { p.set_control_parameter(D::CUTTING_STRATEGY_DEEPEST); return std::string(); }));
  A.muts.push_back(M("set_cutting(ALL)", false, [](D& p, const D*) { p.set_control_parameter(D::CUTTING_STRATEGY_ALL); return std::string(); }));
  A.muts.push_back(M("set_pivot(MAX_COLUMN)", false, [](D& p, const D*) { p.set_control_parameter(D::PIVOT_ROW_STRATEGY_MAX_COLUMN); return std::string(); }));
  A.muts.push_back(M("solve()+print", false, [](D& p, const D*) { return pip_tree_text(p); }));
  A.muts.push_back(M("is_satisfiable()", false, [](D& p, const D*) { return b2s(p.is_satisfiable()); }));
  A.muts.push_back(M("clear()", false, [](D& p, const D*) { p.clear(); return std::string(); }));
  A.muts.push_back(M("OK()", false, [](D& p, const D*) { return b2s(p.OK()); }, true));
  A.dump = [](const D& d) { return dump_of(d); };
  A.blank = []() { return new D(); };
  A.load = [](D& d, const std::string& t) { std::istringstream s(t); return d.ascii_load(s); };
  A.equal = [](const D& a, const D& b) { return pip_tree_text(a) == pip_tree_text(b); };
  A.ok = [](const D& d) { return d.OK(); };
  A.print = [](const D& d) { return io_print(d); };
  return A;
}

} // namespace vf
#endif

// Union-of-cells model values shared by the C09 (powerset) and C10 (product) harnesses.
// Include inside an anonymous namespace after engine/common.hh, engine/ppl_ref.hh and ref/ops.hh
// (with `using namespace vf; using ref::Cell; ...` in effect).  GMP + ref/*.hh only.
#ifndef VERIF_HARNESS_C09_MODEL_HH
#define VERIF_HARNESS_C09_MODEL_HH 1
// ------------------------------------------------------------------ cells and unions
struct CellTab {
  std::vector<Cell> cells;            // normalized
  std::vector<char> empty;
  std::unordered_map<std::string, int> raw, canon;
  static std::string ckey(const Cell& c) {
    if (c.bot) return "bot/" + std::to_string(c.n);
    std::vector<std::string> p;
    for (size_t i = 0; i < c.rows.size(); ++i) p.push_back(ref::row_str(ref::norm(c.rows[i])));
    std::sort(p.begin(), p.end());
    std::string s = std::to_string(c.n) + ":";
    for (size_t i = 0; i < p.size(); ++i) { s += p[i]; s += ";"; }
    return s;
  }
  int id(const Cell& c0) {
    std::string rk = std::to_string(c0.n) + (c0.bot ? "B" : "") + ref::cell_str(c0);
    std::unordered_map<std::string, int>::iterator it = raw.find(rk);
    if (it != raw.end()) return it->second;
    Cell c = ref::normalized(c0);
    std::string ck = ckey(c);
    it = canon.find(ck);
    int r;
    if (it != canon.end()) r = it->second;
    else { r = (int)cells.size(); cells.push_back(c); empty.push_back(c.bot); canon[ck] = r; }
    raw[rk] = r;
    return r;
  }
  const Cell& operator[](int i) const { return cells[i]; }
};
CellTab CT;

typedef std::vector<int> U;     // a union of cells, in sequence order (ids into CT), empties included

std::string ukey(const U& u) {   // set-level key: sorted unique non-empty ids
  std::vector<int> v;
  for (size_t i = 0; i < u.size(); ++i) if (!CT.empty[u[i]]) v.push_back(u[i]);
  std::sort(v.begin(), v.end()); v.erase(std::unique(v.begin(), v.end()), v.end());
  std::string s;
  for (size_t i = 0; i < v.size(); ++i) { s += std::to_string(v[i]); s += ","; }
  return s;
}
USet uset(const U& u) { USet o; for (size_t i = 0; i < u.size(); ++i) if (!CT.empty[u[i]]) o.push_back(CT[u[i]]); return o; }
std::string ustr(const U& u) {
  std::string s = "{";
  for (size_t i = 0; i < u.size(); ++i) { if (i) s += " | "; s += ref::cell_str(CT[u[i]]); }
  return s + "}";
}
bool uempty(const U& u) { for (size_t i = 0; i < u.size(); ++i) if (!CT.empty[u[i]]) return false; return true; }

std::unordered_map<std::string, bool> SUBMEMO;
bool usubset(const U& a, const U& b) {
  std::string ka = ukey(a), kb = ukey(b);
  if (ka == kb || ka.empty()) return true;
  std::string k = ka + "<" + kb;
  std::unordered_map<std::string, bool>::iterator it = SUBMEMO.find(k);
  if (it != SUBMEMO.end()) return it->second;
  RefGuard g;
  bool r = ref::subset(uset(a), uset(b));
  SUBMEMO[k] = r;
  return r;
}
bool uequal(const U& a, const U& b) { return usubset(a, b) && usubset(b, a); }
bool csubset(int a, int b) { U x(1, a), y(1, b); return usubset(x, y); }

// witness text for a != b
std::string uwitness(const U& got, const U& want) {
  RefGuard g;
  USet G = uset(got), W = uset(want);
  Vec x;
  for (size_t i = 0; i < G.size(); ++i) if (ref::find_point_outside(G[i], W, x)) return "point " + ref::vec_str(x) + " is in the result of PPL but not in the reference set";
  for (size_t i = 0; i < W.size(); ++i) if (ref::find_point_outside(W[i], G, x)) return "point " + ref::vec_str(x) + " is in the reference set but not in the result of PPL";
  return "";
}

U umeet(const U& a, const U& b) {
  U o;
  for (size_t i = 0; i < a.size(); ++i) for (size_t j = 0; j < b.size(); ++j) {
    if (CT.empty[a[i]] || CT.empty[b[j]]) continue;
    int id = CT.id(ref::meet(CT[a[i]], CT[b[j]]));
    if (!CT.empty[id]) o.push_back(id);
  }
  return o;
}
U uunion(const U& a, const U& b) { U o = a; o.insert(o.end(), b.begin(), b.end()); return o; }

std::unordered_map<std::string, U> DIFFMEMO;
U udiff(const U& a, const U& b) {
  std::string k = ukey(a) + "\\" + ukey(b);
  std::unordered_map<std::string, U>::iterator it = DIFFMEMO.find(k);
  if (it != DIFFMEMO.end()) return it->second;
  RefGuard g;
  std::vector<Cell> cur;
  for (size_t i = 0; i < a.size(); ++i) if (!CT.empty[a[i]]) cur.push_back(CT[a[i]]);
  for (size_t j = 0; j < b.size(); ++j) {
    if (CT.empty[b[j]]) continue;
    const Cell& bj = CT[b[j]];
    std::vector<Cell> next;
    for (size_t c = 0; c < cur.size(); ++c) {
      Cell acc = cur[c];
      for (size_t r = 0; r < bj.rows.size(); ++r) {
        Rows np = ref::neg_pieces(bj.rows[r]);
        for (size_t p = 0; p < np.size(); ++p) {
          Cell piece = acc; piece.rows.push_back(np[p]);
          if (!ref::is_empty(piece)) next.push_back(ref::normalized(piece));
        }
        acc.rows.push_back(bj.rows[r]);
      }
    }
    cur.swap(next);
  }
  U o;
  for (size_t i = 0; i < cur.size(); ++i) o.push_back(CT.id(cur[i]));
  // self-check of the reference: (a \ b) u (a /\ b) == a  and  (a \ b) /\ b == {}
  static int selfchecks = 0;
  if (selfchecks < 400) {
    ++selfchecks;
    if (!uequal(uunion(o, umeet(a, b)), a) || !uempty(umeet(o, b))) {
      sink().line(J().str("t", "error").str("msg", "reference difference failed its self-check on " + ustr(a) + " minus " + ustr(b)).done());
      _exit(4);
    }
  }
  DIFFMEMO[k] = o;
  return o;
}

template <typename F>
U umap(const U& a, F f, bool keep_empty = true) {
  U o;
  for (size_t i = 0; i < a.size(); ++i) {
    int id = CT.id(f(CT[a[i]]));
    if (keep_empty || !CT.empty[id]) o.push_back(id);
  }
  return o;
}

ref::Sup usup(const U& a, const Vec& e, const Q& e0, bool maxi) {
  ref::Sup best; best.status = 0; best.value = 0; best.attained = false;
  for (size_t i = 0; i < a.size(); ++i) {
    if (CT.empty[a[i]]) continue;
    ref::Sup s = maxi ? ref::sup(CT[a[i]], e, e0) : ref::inf(CT[a[i]], e, e0);
    if (s.status == 0) continue;
    if (s.status == 2) { best.status = 2; return best; }
    if (best.status == 0) best = s;
    else if ((maxi && s.value > best.value) || (!maxi && s.value < best.value)) best = s;
    else if (s.value == best.value) best.attained = best.attained || s.attained;
  }
  return best;
}

// omega-reduced at the model level: no empty cell, no cell included in another one
bool model_reduced(const U& s) {
  for (size_t i = 0; i < s.size(); ++i) {
    if (CT.empty[s[i]]) return false;
    for (size_t j = 0; j < s.size(); ++j) if (i != j && csubset(s[i], s[j])) return false;
  }
  return true;
}

// base-level upper bound of all the disjuncts (polyhedral domains): iterated hull
std::unordered_map<std::string, int> HULLMEMO;
int hull_all(const U& s, int dim, bool nnc) {
  std::string k = std::to_string(dim) + (nnc ? "N" : "C");
  for (size_t i = 0; i < s.size(); ++i) if (!CT.empty[s[i]]) { k += std::to_string(s[i]); k += ","; }
  std::unordered_map<std::string, int>::iterator it = HULLMEMO.find(k);
  if (it != HULLMEMO.end()) return it->second;
  RefGuard g;
  Cell acc = Cell::empty(dim);
  for (size_t i = 0; i < s.size(); ++i) if (!CT.empty[s[i]]) acc = ref::hull(acc, CT[s[i]], nnc);
  int r = CT.id(acc);
  HULLMEMO[k] = r;
  return r;
}
// memoised binary cell operation (time elapse, ...)
std::unordered_map<std::string, int> BINMEMO;
template <typename F>
int memo2(const char* tag, int a, int b, F f) {
  std::string k = std::string(tag) + std::to_string(a) + "," + std::to_string(b);
  std::unordered_map<std::string, int>::iterator it = BINMEMO.find(k);
  if (it != BINMEMO.end()) return it->second;
  RefGuard g;
  int r = CT.id(f(CT[a], CT[b]));
  BINMEMO[k] = r;
  return r;
}

// is cell `h` the smallest element of a weakly relational domain (BDS / box) containing union s?
// checked on the bounding functionals of the domain: sup over h == max sup over the cells
std::string tight_enclosure(int h, const U& s, int dim, bool kBDS, bool kBox) {
  U hu(1, h);
  if (!usubset(s, hu)) return "not-an-upper-bound";
  if (uempty(s)) return CT.empty[h] ? "" : "not-least(empty union)";
  std::vector<Vec> fs;
  for (int i = 0; i < dim; ++i) { Vec v(dim, Q(0)); v[i] = 1; fs.push_back(v); v[i] = -1; fs.push_back(v); }
  if (kBDS) for (int i = 0; i < dim; ++i) for (int j = 0; j < dim; ++j) if (i != j) { Vec v(dim, Q(0)); v[i] = 1; v[j] = -1; fs.push_back(v); }
  RefGuard g;
  for (size_t f = 0; f < fs.size(); ++f) {
    ref::Sup a = ref::sup(CT[h], fs[f], Q(0)), b = usup(s, fs[f], Q(0), true);
    if (a.status != b.status) return "not-least(bound " + ref::vec_str(fs[f]) + ")";
    if (a.status == 1 && (a.value != b.value || (kBox && a.attained != b.attained))) return "not-least(bound " + ref::vec_str(fs[f]) + ")";
  }
  return "";
}

#endif

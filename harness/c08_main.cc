// C08 driver: one executable, the explorer is chosen by  --explorer poly|shapes|grid|pps  (see harness/c08_*.cc).
#include <cstring>
#include <cstdio>
int c08_poly_main(int, char**);
int c08_shapes_main(int, char**);
int c08_grid_main(int, char**);
int c08_pps_main(int, char**);
int main(int argc, char** argv) {
  const char* which = "poly";
  for (int i = 1; i + 1 < argc; ++i) if (!strcmp(argv[i], "--explorer")) which = argv[i + 1];
  if (!strcmp(which, "poly")) return c08_poly_main(argc, argv);
  if (!strcmp(which, "shapes")) return c08_shapes_main(argc, argv);
  if (!strcmp(which, "grid")) return c08_grid_main(argc, argv);
  if (!strcmp(which, "pps")) return c08_pps_main(argc, argv);
  fprintf(stderr, "c08: unknown explorer %s\n", which);
  return 3;
}

// shapes.cc part 4: states, phase A, result checks (enclosure / exact / best + terminal observer layer).
namespace {

struct State { D* obj; int dim; int cls; int parent; int op; int depth; std::string sig; };
static std::vector<State> ST;
static std::vector<int> CLS_DEPTH;          // first depth at which a value class was reached in phase A
static std::unordered_map<std::string, int> SEEN;
static long long TRANS_A = 0;
static std::set<std::string> SIGS;
typedef std::unique_ptr<D> PD;

static D* fresh(int dim, bool empty) { return new D(dim, empty ? PPL::EMPTY : PPL::UNIVERSE); }

static std::vector<std::string> history_of(int s) {
  std::vector<std::string> h;
  while (s >= 0 && ST[s].parent >= 0) { h.push_back(OPS[ST[s].op].name); s = ST[s].parent; }
  if (s >= 0) h.push_back(std::string(SHAPE_NAME) + "(" + std::to_string(ST[s].dim) + "," + (cls_empty(ST[s].cls) ? "EMPTY" : "UNIVERSE") + ")");
  std::reverse(h.begin(), h.end());
  return h;
}
static std::string hist_json(int s) {
  std::vector<std::string> h = history_of(s);
  std::string a = "[";
  for (size_t i = 0; i < h.size(); ++i) { if (i) a += ","; a += jstr(h[i]); }
  return a + "]";
}
static std::string input_json(int s, const std::string& op, int operand) {
  J j; j.str("shape", SHAPE_NAME).raw("history", hist_json(s)).str("op", op);
  if (operand >= 0) j.raw("operand_history", hist_json(operand));
  j.str("receiver_gamma", cellstr(ST[s].cls)).str("signature", ST[s].sig);
  if (operand >= 0) j.str("operand_gamma", cellstr(ST[operand].cls)).str("operand_signature", ST[operand].sig);
  return j.done();
}


static const Op* CUR_OP = 0; static const Query* CUR_Q = 0;     // the step being judged (for trigger evaluation)
static int CUR_CLS = -1, CUR_OCLS = -1;
static std::string CUR_SIG, CUR_OSIG;      // status signatures of the receiver / operand of the step being judged
static std::string auto_trigger(const std::string& clause);       // shapes_triggers.hh
static bool LAST_BAD = false;                 // the result of the current step has a NaN / -inf matrix entry
static std::vector<int> CUR_PIECES;           // classes of the exact result of the current step
static int CUR_LOST = -1, CUR_AFTER = -1;     // the piece that is not enclosed / the class of the result
static std::function<std::string()> LAZY_INPUT;                    // builds the "input" record of the current step on demand
static const std::string LAZY = "@";
static void viol(const std::string& site, const std::string& clause, const std::string& trig0, const std::string& inj,
                 const std::string& obs, const std::string& exp, const std::string& detail = "") {
  count(CNT_VIOL);
  std::string trig = trig0;
  std::string inj_s = (inj == LAZY && LAZY_INPUT) ? LAZY_INPUT() : inj;
  if (inj_s.size() > 7 && inj_s.compare(0, 7, "@after:") == 0) inj_s = J().raw("after", LAZY_INPUT ? LAZY_INPUT() : std::string("{}")).str("then", inj_s.substr(7)).done();
  if (trig == "none") { RefGuard guard; trig = auto_trigger(clause); }
  if (violcap().admit(site + "|" + clause + "|" + trig)) report_violation(site, clause, trig, inj_s, obs, exp, detail);
}
static std::string site_of(const std::string& opname) { return DOM() + "::" + opname.substr(0, opname.find('(')); }

// gamma of an object as a value class; reports unreadable matrices
static int gamma_cls(const D& x, const std::string& site, const std::string& inj) {
  BAD_ENTRY = false;
  Cell g = A::gamma(x);
  if (BAD_ENTRY) LAST_BAD = true;
  if (BAD_ENTRY) viol(site, "invariant:matrix-entry-nan-or-minus-infinity", "none", inj, "NaN/-inf entry", "finite or +inf entries");
  RefGuard guard;
  return CL.classify(g);
}
// the set must not lose points (C03) / must not change (C04)
static bool same_value(int before, int after) { return CFG.c04 ? before == after : cls_subset(before, after); }

static std::string witness_outside(int small, int big) {      // a point of CL[small] outside CL[big]
  Vec x; if (ref::find_point_outside(CL[small], CL[big], x)) return "point " + ref::vec_str(x); return "";
}

// ------------------------------------------------------------------ known-finding triggers (narrow predicates)
struct TrigIn { const Op* op; const Query* q; int cls, ocls; std::string clause; };
static std::string trigger_for(const TrigIn& t);     // part 5

// ------------------------------------------------------------------ terminal observer layer
static std::unordered_map<std::string, std::string> QMEMO;
static std::unordered_map<std::string, bool> SOUNDMEMO;
static std::unordered_map<std::string, int> CSMEMO;

static int cons_cls(const PPL::Constraint_System& cs, int n) {
  Cell c = cell_of(cs, n);
  RefGuard guard;
  return CL.classify(c);
}
static std::string run_query(const Query& q, D& p, const D* o) {
  try { return q.run(p, o); } catch (const std::exception& ex) { return std::string("exception:") + ex.what(); }
}
// compare one answer; returns true if fine
static bool judge_query(size_t qi, const std::string& got, int cls, int ocls, const std::string& site, const std::string& inj) {
  const Query& q = QS[qi];
  const Cell* oc = ocls >= 0 ? &CL[ocls] : 0;
  count(CNT_CHECKS);
  if (got.compare(0, 10, "exception:") == 0) { viol(site, "unexpected-exception", "none", inj, got, "an answer"); return false; }
  if (CFG.c04) {
    std::string mk = std::to_string(cls) + "|" + std::to_string(ocls) + "|" + std::to_string(qi);
    std::unordered_map<std::string, std::string>::iterator it = QMEMO.find(mk);
    std::string want;
    if (it != QMEMO.end()) want = it->second; else { RefGuard guard; want = q.expect(CL[cls], oc); QMEMO[mk] = want; }
    bool okk = got == want || (want == "IS_or_I" && (got == "IS" || got == "I"));
    if (!okk) { TrigIn t{0, &q, cls, ocls, "query:answer!=exact"}; viol(site, "query:answer!=exact", trigger_for(t), inj, got, want); return false; }
    if (q.witness) { RefGuard guard; std::string w = q.witness(got, CL[cls]); if (!w.empty()) { viol(site, w, "none", inj, got + " @" + ref::vec_str(LAST_WITNESS), "a point of the set (its closure when not included)"); return false; } }
    return true;
  }
  std::string mk = std::to_string(cls) + "|" + std::to_string(ocls) + "|" + std::to_string(qi) + "|" + got;
  std::unordered_map<std::string, bool>::iterator it = SOUNDMEMO.find(mk);
  bool okk;
  if (it != SOUNDMEMO.end()) okk = it->second; else { RefGuard guard; okk = q.sound(got, CL[cls], oc); SOUNDMEMO[mk] = okk; }
  if (!okk) { TrigIn t{0, &q, cls, ocls, "query:definite-answer-false"}; RefGuard guard; viol(site, "query:definite-answer-false", trigger_for(t), inj, got, "exact answer: " + q.expect(CL[cls], oc)); }
  return okk;
}

// r denotes class `cls` (its gamma was just read).  Observers must agree with it and must not change it.
static void terminal_layer(D& r, int cls, const std::string& site, const std::string& inj) {
  int n = r.space_dimension();
  // OK() re-runs the closure and demands an identical matrix: with rounding or saturating bound types the closure is
  // not idempotent, so the invariant is only demanded for the exact types (mpq, mpz)
  static const bool check_ok = EXACT_T || (!BT<BTy>::is_float && BT<BTy>::bits == 0);
  bool okk = !check_ok;
  if (check_ok) { try { okk = r.OK(); } catch (...) {} }
  if (!okk) { viol(site, "invariant:OK()", "none", inj, "OK() false", "OK() true"); return; }
  // terminal queries, each on a fresh clone
  for (size_t qi = 0; qi < QS.size(); ++qi) {
    if (!QS[qi].terminal) continue;
    PD c(A::clone(r));
    std::string got = run_query(QS[qi], *c, 0);
    judge_query(qi, got, cls, -1, site, "@after:" + QS[qi].name);
    count(CNT_CHECKS);
    if (A::same_repr(*c, r)) continue;
    int c2 = gamma_cls(*c, site, inj);
    if (!same_value(cls, c2)) viol(site, "value:changed-by-" + QS[qi].name, "none", inj, cellstr(c2), cellstr(cls), witness_outside(cls, c2));
  }
  // minimized_constraints() on a clone, constraints() on the object itself
  PD orig(A::clone(r));
  for (int which = 0; which < 2; ++which) {
    PD c; D* x = &r; if (which == 0) { c.reset(A::clone(r)); x = c.get(); }
    const char* nm = which == 0 ? "minimized_constraints" : "constraints";
    Cell cc;
    try { cc = cell_of(which == 0 ? x->minimized_constraints() : x->constraints(), n); }
    catch (const std::exception& ex) { viol(site, "unexpected-exception", "none", inj, std::string(nm) + ": " + ex.what(), "a constraint system"); continue; }
    int cm; { RefGuard guard; cm = CL.classify(cc); }
    count(CNT_CHECKS, 2);
    bool fine = CFG.c04 ? cm == cls : cls_subset(cls, cm);
    if (!fine) { TrigIn t{0, 0, cls, -1, std::string("value:") + nm + "!=gamma"}; viol(site, std::string("value:") + nm + "!=gamma", trigger_for(t), inj, cellstr(cm), cellstr(cls), witness_outside(cls, cm)); }
    int c2 = A::same_repr(*x, *orig) ? cls : gamma_cls(*x, site, inj);
    if (!same_value(cls, c2)) viol(site, std::string("value:changed-by-") + nm, "none", inj, cellstr(c2), cellstr(cls), witness_outside(cls, c2));
    if (which == 0 && CFG.c04 && fine && !cls_empty(cls)) {
      // no redundant row
      RefGuard guard;
      std::string key = "NR" + ref::cell_str(cc);
      std::unordered_map<std::string, int>::iterator it = CSMEMO.find(key);
      int red;
      if (it != CSMEMO.end()) red = it->second;
      else {
        red = -1;
        for (size_t i = 0; i < cc.rows.size() && red < 0; ++i) {
          if (ref::trivial(cc.rows[i]) == 1) { red = (int)i; break; }
          Cell rest(n); for (size_t j = 0; j < cc.rows.size(); ++j) if (j != i) rest.rows.push_back(cc.rows[j]);
          if (ref::implies(rest, cc.rows[i])) red = (int)i;
        }
        CSMEMO[key] = red;
      }
      if (red >= 0) viol(site, "minimized_constraints:redundant-row", "none", inj, ref::cell_str(cc), "row " + std::to_string(red) + " is implied by the others");
    }
  }
}

// ------------------------------------------------------------------ checking the result of an operation
struct WantInfo { std::vector<int> pieces; int want; };
static std::unordered_map<std::string, WantInfo> WANTMEMO;
static std::unordered_map<std::string, std::string> CUSTMEMO, RETMEMO;

// returns the class of the result
static int check_op_result(int cls, int ocls, size_t oi, D& p, const std::string& ret, const std::string& inj, bool do_terminal) {
  const Op& op = OPS[oi];
  std::string site = site_of(op.name);
  LAST_BAD = false; CUR_PIECES.clear(); CUR_LOST = -1;
  int after = gamma_cls(p, site, inj);
  LAST_BAD = BAD_ENTRY; CUR_AFTER = after;
  const Cell* ocell = ocls >= 0 ? &CL[ocls] : 0;
  std::string base = std::to_string(cls) + "|" + std::to_string(ocls) + "|" + std::to_string(oi);
  count(CNT_CHECKS);
  if (op.custom) {
    std::string mk = base + "|" + std::to_string(after) + "|" + ret;
    std::unordered_map<std::string, std::string>::iterator it = CUSTMEMO.find(mk);
    std::string clause;
    if (it != CUSTMEMO.end()) clause = it->second; else { RefGuard guard; clause = op.custom(CL[cls], ocell, CL[after], ret); CUSTMEMO[mk] = clause; }
    if (!clause.empty()) { TrigIn t{&op, 0, cls, ocls, clause}; viol(site, clause, trigger_for(t), inj, cellstr(after) + " ret=" + ret, "see clause"); }
  } else {
    std::unordered_map<std::string, WantInfo>::iterator it = WANTMEMO.find(base);
    if (it == WANTMEMO.end()) {
      RefGuard guard;
      WantInfo w; w.want = -1;
      USet u = op.exact(CL[cls], ocell);
      int n = CL[after].n;
      for (size_t i = 0; i < u.size(); ++i) { int c = CL.classify(u[i]); if (!cls_empty(c)) w.pieces.push_back(c); n = u[i].n; }
      std::sort(w.pieces.begin(), w.pieces.end()); w.pieces.erase(std::unique(w.pieces.begin(), w.pieces.end()), w.pieces.end());
      if (CFG.c04 && op.mode == M_EXACT) w.want = w.pieces.empty() ? CL.classify(Cell::empty(n)) : w.pieces[0];
      if (CFG.c04 && op.mode == M_BEST) { USet v; for (int c : w.pieces) v.push_back(CL[c]); w.want = CL.classify(alphaD(v, n)); }
      if (op.refret) RETMEMO[base] = op.refret(CL[cls], ocell);
      it = WANTMEMO.insert(std::make_pair(base, w)).first;
    }
    const WantInfo& w = it->second;
    CUR_PIECES = w.pieces;
    bool lost = false;
    for (size_t i = 0; i < w.pieces.size() && !lost; ++i) if (!cls_subset(w.pieces[i], after)) {
      lost = true; CUR_LOST = w.pieces[i];
      TrigIn t{&op, 0, cls, ocls, "enclosure:result-loses-points"};
      RefGuard guard;
      viol(site, "enclosure:result-loses-points", trigger_for(t), inj, cellstr(after), "superset of " + cellstr(w.pieces[i]), witness_outside(w.pieces[i], after) + " is in the exact result");
    }
    if (!lost && w.want >= 0 && after != w.want) {
      std::string clause = op.mode == M_EXACT ? "exact:result-too-large" : "best:result-not-smallest";
      if (!cls_subset(w.want, after)) clause = "best:result-loses-points-of-alpha";
      TrigIn t{&op, 0, cls, ocls, clause};
      RefGuard guard;
      viol(site, clause, trigger_for(t), inj, cellstr(after), cellstr(w.want), witness_outside(after, w.want) + " is in the result only");
    }
    if (CFG.c04 && op.within && !cls_subset(after, cls)) viol(site, "refine:result-not-subset-of-receiver", "none", inj, cellstr(after), "subset of " + cellstr(cls));
    if (op.refret && CFG.c04) { const std::string& wr = RETMEMO[base]; if (wr != ret) viol(site, "return:value!=exact", "none", inj, ret, wr); }
  }
  if (do_terminal) terminal_layer(p, after, site, inj);
  return after;
}

// ------------------------------------------------------------------ phase A
static int add_state(D* obj, int dim, int cls, int parent, int op, int depth) {
  std::string key = dump_of(*obj);
  std::unordered_map<std::string, int>::iterator it = SEEN.find(key);
  if (it != SEEN.end()) { delete obj; return -1; }
  State s; s.obj = obj; s.dim = dim; s.cls = cls; s.parent = parent; s.op = op; s.depth = depth; s.sig = A::sig(*obj);
  SIGS.insert(s.sig);
  ST.push_back(s);
  SEEN[key] = (int)ST.size() - 1;
  if ((int)CLS_DEPTH.size() <= cls) CLS_DEPTH.resize(cls + 1, 1 << 20);
  if (CLS_DEPTH[cls] > depth) CLS_DEPTH[cls] = depth;
  return (int)ST.size() - 1;
}
static void check_clone(const D& a, const D& b) {
  if (dump_of(a) != dump_of(b)) { sink().line(J().str("t", "error").str("msg", "clone is not faithful (dump differs)").done()); _exit(4); }
}

static void phase_a() {
  for (int dim = CFG.mindim; dim <= CFG.maxdim; ++dim) for (int e = 0; e < 2; ++e) {
    D* p = fresh(dim, e);
    int cls = gamma_cls(*p, DOM() + "::(constructor)", "{}");
    int want = CL.classify(e ? Cell::empty(dim) : Cell::universe(dim));
    if (cls != want) viol(DOM() + "::(constructor)", "exact:result-too-large", "none", J().str("shape", SHAPE_NAME).num("dim", dim).boolean("empty", e).done(), cellstr(cls), cellstr(want));
    add_state(p, dim, cls, -1, -1, 0);
  }
  for (int d = 0; d <= CFG.depth; ++d) {
    // the level list grows while observers discover new lazy states of the same depth
    for (size_t s = 0; s < ST.size(); ++s) {
      if (ST[s].depth != d) continue;
      for (size_t oi = 0; oi < OPS.size(); ++oi) {
        const Op& op = OPS[oi];
        if (!op.builder) continue;
        if (!op.observer && d == CFG.depth) continue;
        Ctx cx; cx.dim = ST[s].dim; cx.cls = ST[s].cls; cx.ocls = -1; cx.odim = -1;
        if (!op.ok(cx)) continue;
        D* c = A::clone(*ST[s].obj);
        CUR_SIG = ST[s].sig; CUR_OSIG.clear(); CUR_OP = &op; CUR_Q = 0; CUR_CLS = ST[s].cls; CUR_OCLS = -1;
        if (s < 64) check_clone(*ST[s].obj, *c);
        LAZY_INPUT = [s, &op]() { return input_json((int)s, op.name, -1); };
        try { op.apply(*c, 0); }
        catch (const std::exception& ex) {
          viol(site_of(op.name), "unexpected-exception", "none", LAZY, ex.what(), "no exception");
          delete c; continue;
        }
        ++TRANS_A;
        int ncls = check_op_result(ST[s].cls, -1, oi, *c, "", LAZY, false);
        add_state(c, ST[s].dim, ncls, (int)s, (int)oi, op.observer ? d : d + 1);
      }
    }
    if (ARGS.left() < ARGS.deadline * 0.5) break;
  }
}

} // namespace
#include "harness/shapes_part5.hh"

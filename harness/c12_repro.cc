// C12: stand-alone reproducers of the genuine defects recorded in known_findings.d/C12.json (no harness code).
//   bin/vcheck harness c12_repro   -> prints the path of the executable; run it without arguments
#include "ppl-config.h"
#include "version.hh"
#include "ppl_include_files.hh"
#include "interfaces/interfaced_boxes.hh"
#include <iostream>
using namespace Parma_Polyhedra_Library;
typedef Rational_Interval RIv;
static RIv mk(int lo_inf, bool lo_open, int lo, int hi_inf, bool up_open, int up) {
  mpq_class l(lo), u(up); RIv r; r.assign(UNIVERSE);
  if (!lo_inf) r.refine_existential(lo_open ? GREATER_THAN : GREATER_OR_EQUAL, l);
  if (!hi_inf) r.refine_existential(up_open ? LESS_THAN : LESS_OR_EQUAL, u);
  return r;
}
int main() {
  { // F1: mul_assign, both operands straddle zero
    RIv x = mk(0,0,-2, 0,0,1), y = mk(1,0,0, 0,0,1), z; z.mul_assign(x, y);
    std::cout << "F1a  " << x << " * " << y << " = " << z << "   contains(-50)=" << z.contains(mpq_class(-50)) << "  (1 * -50 = -50)\n";
    RIv a = mk(0,1,-1, 0,0,2), b = mk(0,0,-3, 0,1,1), c; c.mul_assign(a, b);
    std::cout << "F1b  " << a << " * " << b << " = " << c << "   contains(-6)=" << c.contains(mpq_class(-6)) << "  (2 * -3 = -6)\n";
  }
  { // F2: three-operand difference_assign
    RIv x = mk(0,0,-2, 0,0,2), y = mk(0,0,-1, 0,0,1), z = mk(0,0,5, 0,0,7), w = x;
    z.difference_assign(x, y); w.difference_assign(y);
    std::cout << "F2a  z=[5,7]; z.difference_assign(" << x << ", " << y << ") = " << z << "   (in-place form: " << w << ")\n";
    RIv x2 = mk(0,0,0, 0,0,2), y2 = mk(0,0,0, 0,0,1), z2, w2 = x2;
    z2.assign(UNIVERSE); z2.difference_assign(x2, y2); w2.difference_assign(y2);
    std::cout << "F2b  z.difference_assign(" << x2 << ", " << y2 << ") = " << z2 << "   (in-place form: " << w2 << ")\n";
  }
  { // F3: refine_universal with an operand unbounded on the compared side
    RIv x = mk(0,0,-2, 0,0,1), y = mk(1,0,0, 0,0,-1), e; e.assign(EMPTY);
    RIv z = x; z.refine_universal(LESS_OR_EQUAL, y);
    std::cout << "F3a  " << x << ".refine_universal(<=, " << y << ") = " << z << "   (no a is <= every b of y: expected [])\n";
    RIv u; u.assign(UNIVERSE); z = e; z.refine_universal(GREATER_THAN, u);
    std::cout << "F3b  [].refine_universal(>, " << u << ") = " << z << "  is_empty=" << z.is_empty() << "\n";
  }
  { // F4: refine_universal NOT_EQUAL
    RIv x = mk(0,0,0, 0,0,2), y = mk(0,0,0, 0,0,1), z = x; z.refine_universal(NOT_EQUAL, y);
    std::cout << "F4   " << x << ".refine_universal(!=, " << y << ") = " << z << "   (documented: smallest interval containing x \\ y = (1, 2])\n";
  }
  { // F5: wrap_assign, width exactly 2^w
    RIv x = mk(0,0,-128, 0,0,128), r; r.assign(UNIVERSE); RIv z = x;
    z.wrap_assign(BITS_8, UNSIGNED, r);
    std::cout << "F5   " << x << ".wrap_assign(BITS_8, UNSIGNED, universe) = " << z << "   (0 -> 0, 1 -> 1, -1 -> 255 are lost)\n";
    Rational_Box b(1); b.add_constraint(Variable(0) >= -128); b.add_constraint(Variable(0) <= 128);
    b.wrap_assign(Variables_Set(Variable(0)), BITS_8, UNSIGNED, OVERFLOW_WRAPS);
    using namespace IO_Operators; std::cout << "F5box Rational_Box{-128<=A<=128}.wrap_assign(A, BITS_8, UNSIGNED, OVERFLOW_WRAPS) = " << b << "\n";
  }
  { // F6: int8 wrap unsigned
    typedef Interval<int8_t, Native_Integer_Box_Interval_Info> I8; I8 x, r; r.assign(UNIVERSE); x.assign(UNIVERSE);
    int8_t lo = -1, hi = 127; x.refine_existential(GREATER_OR_EQUAL, lo); x.refine_existential(LESS_OR_EQUAL, hi);
    I8 z = x; z.wrap_assign(BITS_8, UNSIGNED, r);
    std::cout << "F6   Int8 interval [-1,127].wrap_assign(BITS_8, UNSIGNED, universe): [" << (int)z.lower() << "," << (int)z.upper() << "]  (0..126 are lost)\n";
  }
  { // F7: native int division (root cause: C11 div_signed_int)
    typedef Interval<int8_t, Native_Integer_Box_Interval_Info> I8; I8 x, y, z;
    int8_t a = 127, b = -2; x.assign(a); y.assign(b); z.div_assign(x, y);
    std::cout << "F7   Int8 interval [127,127] / [-2,-2] = [" << (int)z.lower() << "," << (int)z.upper() << "]   (-63.5 is not inside)\n";
  }
  { // F8/F9: Floating_Point_Expression classes (needs -fpermissive to compile at all)
    typedef Interval<double, Floating_Point_Box_Interval_Info> FPI; typedef float_ieee754_double FMT;
    using namespace IO_Operators;
    std::cout << "F8   Floating_Point_Expression<double>::absolute_error = " << Floating_Point_Expression<FPI, FMT>::absolute_error << "\n";
    Box<FPI> box(2); FPI one(1.0); box.set_interval(Variable(0), one); box.set_interval(Variable(1), one);
    std::map<dimension_type, Linear_Form<FPI> > lf;
    Sum_Floating_Point_Expression<FPI, FMT> e(new Variable_Floating_Point_Expression<FPI, FMT>(0), new Variable_Floating_Point_Expression<FPI, FMT>(1));
    Linear_Form<FPI> r; bool ok = e.linearize(box, lf, r);
    std::cout << "F8   Sum(x0, x1).linearize with x0 = x1 = [1,1] returns " << ok << "\n";
    Constant_Floating_Point_Expression<FPI, FMT> c("0.1"); c.linearize(box, lf, r);
    std::cout << "F9   Constant_Floating_Point_Expression(\"0.1\") -> inhomogeneous term "
              << (r.inhomogeneous_term().lower_is_open() ? "(" : "[") << r.inhomogeneous_term().lower() << ", " << r.inhomogeneous_term().upper()
              << (r.inhomogeneous_term().upper_is_open() ? ")" : "]") << " contains the double 0.1? " << r.inhomogeneous_term().contains(0.1) << "\n";
  }
  { // F10: relative error of the IBM_SINGLE (base 16) analysed format
    typedef Interval<double, Floating_Point_Box_Interval_Info> FPI;
    Linear_Form<FPI> f(FPI(1.0)), r; f.relative_error(IBM_SINGLE, r);
    std::cout << "F10  relative_error(IBM_SINGLE) of the constant form 1: upper bound = " << r.inhomogeneous_term().upper() << "  (one ulp of a 6-hex-digit value is up to 16^-5 = 9.5e-07 of it)\n";
  }
  return 0;
}

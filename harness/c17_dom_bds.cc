// C17 adapters: bounded difference shapes over mpq and mpz.
#include "harness/c17_adapt.hh"
namespace c17 {
std::vector<Domain*> domains_bds() {
  std::vector<Domain*> v;
  v.push_back(new SimpleDomain<PPL::BD_Shape<mpq_class> >("BD_Shape<mpq_class>", false));
  v.push_back(new SimpleDomain<PPL::BD_Shape<mpz_class> >("BD_Shape<mpz_class>", false));
  return v;
}
}

// C08 for convex polyhedra (C and NNC): H79 and BHRZ03 widenings, their limited and bounded extrapolations.
// See harness/c08_common.hh for the game and the oracle.  Built with -fno-access-control (cloning only).
#include "harness/c08_common.hh"

using namespace c08;
using PPL::Polyhedron; using PPL::C_Polyhedron; using PPL::NNC_Polyhedron; using PPL::Variable;
using PPL::Linear_Expression; using PPL::Coefficient; using PPL::Constraint; using PPL::Generator;

static Args ARGS;

struct PolyDom : CellSpace<PolyDom> {
  typedef Polyhedron Obj;
  std::string name; int dim; bool nnc; int menu_limit;
  PolyDom(bool nnc_, int dim_, int ml) : name(nnc_ ? "NNC_Polyhedron" : "C_Polyhedron"), dim(dim_), nnc(nnc_), menu_limit(ml) {}

  Polyhedron* fresh(bool empty) const {
    if (nnc) return new NNC_Polyhedron(dim, empty ? PPL::EMPTY : PPL::UNIVERSE);
    return new C_Polyhedron(dim, empty ? PPL::EMPTY : PPL::UNIVERSE);
  }
  Polyhedron* clone(const Polyhedron& s) const {
    Polyhedron* c = nnc ? (Polyhedron*)new NNC_Polyhedron(0, PPL::UNIVERSE) : (Polyhedron*)new C_Polyhedron(0, PPL::UNIVERSE);
    c->con_sys.assign_with_pending(s.con_sys);
    c->gen_sys.assign_with_pending(s.gen_sys);
    c->sat_c = s.sat_c;
    c->sat_g = s.sat_g;
    c->status = s.status;
    c->space_dim = s.space_dim;
    return c;
  }
  std::string dump(const Polyhedron& p) const { return dump_of(p); }
  Cell value(const Polyhedron& p) const {
    std::unique_ptr<Polyhedron> c(clone(p));
    if (c->marked_empty()) return Cell::empty(dim);
    return cell_of(c->constraints(), dim);
  }
  void join(Polyhedron& a, const Polyhedron& b) const { a.upper_bound_assign(b); }
  bool ok(const Polyhedron& p) const { return p.OK(); }
  // doc/definitions.dox (Widening Operators): on NNC polyhedra the widenings "are not directly applied to the NNC polyhedra,
  // but rather to their internal representations": with strict constraints in play the result may depend on the epsilon
  // representation.  Such cases are counted, not reported (unless --caveat-as-violation).
  static bool has_strict(const Cell& c) { if (c.bot) return false; for (size_t i = 0; i < c.rows.size(); ++i) if (c.rows[i].k == ref::GT) return true; return false; }
  std::string repdep_caveat(const std::string&, const Cell& older, const Cell& newer, const std::string&, const std::string&, const std::string&) const {
    if (nnc && (has_strict(older) || has_strict(newer))) return "nnc_argument_with_strict_constraint";
    return "";
  }
  Polyhedron* empty() const { return fresh(true); }

  // ---- menu of increments
  struct Spec { std::string name; std::vector<GN> g; bool nnc_only; };
  void menu(std::vector<MenuItemT<Polyhedron, Cell> >& out) const {
    std::vector<Spec> sp;
    if (dim == 2) {
      sp = {
        {"point(0,0)", {GN('p', {0, 0})}, false},
        {"segment(0,0)-(3,0)", {GN('p', {0, 0}), GN('p', {3, 0})}, false},
        {"square[0,1]^2", {GN('p', {0, 0}), GN('p', {1, 0}), GN('p', {0, 1}), GN('p', {1, 1})}, false},
        // "circumscribed polygon through all the vertices, sharing no facet": joins in which the newer polyhedron touches the older one
        // exactly at its vertices (square S(1) -> diamond D(2) -> square S(2) -> D(4), triangle -> hexagon).  H79 then drops every
        // constraint and the first BHRZ03 heuristic ("combining constraints") produces a candidate whose certificate does not decrease:
        // the only situation in which its certificate test decides.
        {"square[-1,1]^2", {GN('p', {-1, -1}), GN('p', {1, -1}), GN('p', {-1, 1}), GN('p', {1, 1})}, false},
        {"diamond|A|+|B|<=2", {GN('p', {2, 0}), GN('p', {0, 2}), GN('p', {-2, 0}), GN('p', {0, -2})}, false},
        {"square[-2,2]^2", {GN('p', {-2, -2}), GN('p', {2, -2}), GN('p', {-2, 2}), GN('p', {2, 2})}, false},
        {"triangle(0,0)(4,0)(0,4)", {GN('p', {0, 0}), GN('p', {4, 0}), GN('p', {0, 4})}, false},
        {"hexagon through (0,0)(4,0)(0,4)", {GN('p', {0, 0}), GN('p', {2, -1}), GN('p', {4, 0}), GN('p', {3, 3}), GN('p', {0, 4}), GN('p', {-1, 2})}, false},
        {"open-square(0,1)^2", {GN('c', {0, 0}), GN('c', {1, 0}), GN('c', {0, 1}), GN('c', {1, 1}), GN('p', {1, 1}, 2)}, true},
        {"square[2,3]x[1,2]", {GN('p', {2, 1}), GN('p', {3, 1}), GN('p', {2, 2}), GN('p', {3, 2})}, false},
        {"point(-1,3)", {GN('p', {-1, 3})}, false},
        {"ray(0,0)+(1,1)", {GN('p', {0, 0}), GN('r', {1, 1})}, false},
        {"point(1/2,-2)", {GN('p', {1, -4}, 2)}, false},
        {"line(0,-3)+(1,0)", {GN('p', {0, -3}), GN('l', {1, 0})}, false},
        {"ray(0,2)+(-1,0)", {GN('p', {0, 2}), GN('r', {-1, 0})}, false},
        {"halfopen-segment[(0,0),(3,0))", {GN('p', {0, 0}), GN('c', {3, 0})}, true},
        {"segment(1,1)-(2,4)", {GN('p', {1, 1}), GN('p', {2, 4})}, false},
        {"halfplane A+B<=-2", {GN('p', {-1, -1}), GN('l', {1, -1}), GN('r', {-1, -1})}, false},
        {"open-halfplane A>3", {GN('c', {3, 0}), GN('p', {4, 0}), GN('l', {0, 1}), GN('r', {1, 0})}, true},
        {"diamond|A|+|B|<=4", {GN('p', {4, 0}), GN('p', {0, 4}), GN('p', {-4, 0}), GN('p', {0, -4})}, false},
        {"point(5,5)", {GN('p', {5, 5})}, false},
      };
    } else {
      sp = {
        {"point(0)", {GN('p', {0})}, false},
        {"segment[0,3]", {GN('p', {0}), GN('p', {3})}, false},
        {"point(-1)", {GN('p', {-1})}, false},
        {"point(1/2)", {GN('p', {1}, 2)}, false},
        {"open(0,1)", {GN('c', {0}), GN('c', {1}), GN('p', {1}, 2)}, true},
        {"ray>=5", {GN('p', {5}), GN('r', {1})}, false},
        {"halfopen[1,2)", {GN('p', {1}), GN('c', {2})}, true},
        {"ray<=-3", {GN('p', {-3}), GN('r', {-1})}, false},
        {"point(7/3)", {GN('p', {7}, 3)}, false},
        {"line", {GN('p', {0}), GN('l', {1})}, false},
      };
    }
    for (size_t i = 0; i < sp.size(); ++i) {
      if (sp[i].nnc_only && !nnc) continue;
      if ((int)out.size() >= menu_limit) break;
      MenuItemT<Polyhedron, Cell> m; m.name = sp[i].name;
      PPL::Generator_System gs; ref::Gens rg;
      for (size_t k = 0; k < sp[i].g.size(); ++k) { gs.insert(sp[i].g[k].ppl()); rg.push_back(sp[i].g[k].gen(dim)); }
      Polyhedron* p = fresh(true);
      p->add_generators(gs);
      m.obj.reset(p);
      m.cell = ref::normalized(ref::from_gens_dd(rg, dim, nnc));
      m.cls = -1;
      out.push_back(m);
    }
  }

  // ---- synthetic representations of a value
  static Linear_Expression le_of(const Constraint& c) { Linear_Expression e(c.expression()); return e; }
  void reps(const Polyhedron& natural, const Cell& value, std::vector<RepT<Polyhedron> >& out) const {
    auto add = [&](const std::string& n, Polyhedron* p) { RepT<Polyhedron> r; r.name = n; r.obj.reset(p); out.push_back(r); };
    if (value.bot) {
      add("marked-empty", fresh(true));
      { Polyhedron* p = fresh(false); p->add_constraint(Variable(0) >= 1); p->add_constraint(Variable(0) <= 0); add("unsat-constraints-unmarked", p); }
      return;
    }
    std::unique_ptr<Polyhedron> c(clone(natural));
    PPL::Constraint_System mcs = c->minimized_constraints();
    PPL::Generator_System mgs = c->minimized_generators();
    // 1. constraints only / generators only
    { Polyhedron* p = fresh(false); p->add_constraints(mcs); add("from-min-constraints", p); }
    { Polyhedron* p = fresh(true); p->add_generators(mgs); add("from-min-generators", p); }
    // 2. everything minimized
    { Polyhedron* p = clone(*c); (void)p->minimized_constraints(); (void)p->minimized_generators(); add("both-minimized", p); }
    // 3. constraints reversed with redundant ones
    {
      std::vector<Constraint> v; for (PPL::Constraint_System::const_iterator i = mcs.begin(); i != mcs.end(); ++i) v.push_back(*i);
      PPL::Constraint_System cs;
      for (size_t i = 0; i + 1 < v.size(); ++i) if (!v[i].is_equality() && !v[i + 1].is_equality()) cs.insert(le_of(v[i]) + le_of(v[i + 1]) >= 0);
      for (size_t i = v.size(); i-- > 0; ) { cs.insert(v[i]); if (!v[i].is_equality()) cs.insert(le_of(v[i]) + 1 >= 0); }
      Polyhedron* p = fresh(false); p->add_constraints(cs); add("redundant-reversed-constraints", p);
    }
    // 4. generators reversed with redundant ones
    {
      std::vector<Generator> v; for (PPL::Generator_System::const_iterator i = mgs.begin(); i != mgs.end(); ++i) v.push_back(*i);
      PPL::Generator_System gs;
      std::vector<Generator> pts, rays;
      for (size_t i = 0; i < v.size(); ++i) { if (v[i].is_point()) pts.push_back(v[i]); if (v[i].is_ray()) rays.push_back(v[i]); }
      for (size_t i = v.size(); i-- > 0; ) gs.insert(v[i]);
      for (size_t i = 0; i + 1 < pts.size(); ++i) {
        Linear_Expression e = pts[i + 1].divisor() * Linear_Expression(pts[i].expression()) + pts[i].divisor() * Linear_Expression(pts[i + 1].expression());
        gs.insert(Generator::point(e, 2 * pts[i].divisor() * pts[i + 1].divisor()));
      }
      for (size_t i = 0; i + 1 < rays.size(); ++i) gs.insert(Generator::ray(Linear_Expression(rays[i].expression()) + Linear_Expression(rays[i + 1].expression())));
      if (nnc) for (size_t i = 0; i < pts.size(); ++i) gs.insert(Generator::closure_point(Linear_Expression(pts[i].expression()), pts[i].divisor()));
      Polyhedron* p = fresh(true); p->add_generators(gs); add("redundant-reversed-generators", p);
    }
    // 5. minimized + a pending redundant constraint / generator
    {
      Polyhedron* p = clone(*c); (void)p->minimized_constraints(); (void)p->minimized_generators();
      bool done = false;
      for (PPL::Constraint_System::const_iterator i = mcs.begin(); i != mcs.end() && !done; ++i) if (!i->is_equality()) { p->add_constraint(le_of(*i) + 2 >= 0); done = true; }
      if (!done) p->add_constraint(Linear_Expression(1) >= 0);
      add("minimized+pending-constraint", p);
    }
    {
      Polyhedron* p = clone(*c); (void)p->minimized_constraints(); (void)p->minimized_generators();
      for (PPL::Generator_System::const_iterator i = mgs.begin(); i != mgs.end(); ++i) if (i->is_point()) { p->add_generator(*i); break; }
      add("minimized+pending-generator", p);
    }
    // 6. constraints then observers (generators computed, flags as the observers leave them)
    { Polyhedron* p = fresh(false); p->add_constraints(mcs); (void)p->is_empty(); (void)p->is_bounded(); add("constraints+observers", p); }
    { Polyhedron* p = fresh(true); p->add_generators(mgs); (void)p->is_universe(); (void)p->constraints(); add("generators+observers", p); }
  }

  // known defect: the Certificate-Certificate overload orders the affine and lineality dimensions the wrong way round
  static std::string cert_trigger(const Cell& x, const Cell& r) {
    if (ref::is_empty(x) || ref::is_empty(r)) return "none";
    PolyShape a = poly_shape(x), b = poly_shape(r);
    return (a.affdim != b.affdim || a.lin != b.lin) ? "affine_or_lineality_dimension_differs" : "none";
  }
  void ops(std::vector<OpDefT<PolyDom> >& out) const {
    {
      OpDefT<PolyDom> o; o.name = "H79_widening_assign"; o.site = "Polyhedron::H79_widening_assign"; o.widening = true;
      o.plain = [](Polyhedron& n, const Polyhedron& x, unsigned* tp) { n.H79_widening_assign(x, tp); };
      o.limited_name = "limited_H79_extrapolation_assign"; o.bounded_name = "bounded_H79_extrapolation_assign";
      o.limited = [](Polyhedron& n, const Polyhedron& x, const PPL::Constraint_System& cs, unsigned* tp) { n.limited_H79_extrapolation_assign(x, cs, tp); };
      o.bounded = [](Polyhedron& n, const Polyhedron& x, const PPL::Constraint_System& cs, unsigned* tp) { n.bounded_H79_extrapolation_assign(x, cs, tp); };
      o.libcert_name = "H79_Certificate";
      o.libcert = [](const Polyhedron& x, const Polyhedron& r) { if (x.is_empty()) return 1; PPL::H79_Certificate c(x); return c.compare(r); };
      o.libcert_consistency = [](const Polyhedron& x, const Polyhedron& r) -> std::string {
        PPL::H79_Certificate cx(x), cr(r); int a = cx.compare(r), b = cx.compare(cr);
        return a == b ? "" : "H79_Certificate(x).compare(x') = " + std::to_string(a) + " but H79_Certificate(x).compare(H79_Certificate(x')) = " + std::to_string(b); };
      o.libcert_consistency_trigger = cert_trigger;
      o.measure = measure_H79;
      o.measure_informational = nnc;     // NNC: the widening works on the internal representation (documented), the value-level measure is informational
      out.push_back(o);
    }
    {
      OpDefT<PolyDom> o; o.name = "BHRZ03_widening_assign"; o.site = "Polyhedron::BHRZ03_widening_assign"; o.widening = true;
      o.plain = [](Polyhedron& n, const Polyhedron& x, unsigned* tp) { n.BHRZ03_widening_assign(x, tp); };
      o.limited_name = "limited_BHRZ03_extrapolation_assign"; o.bounded_name = "bounded_BHRZ03_extrapolation_assign";
      o.limited = [](Polyhedron& n, const Polyhedron& x, const PPL::Constraint_System& cs, unsigned* tp) { n.limited_BHRZ03_extrapolation_assign(x, cs, tp); };
      o.bounded = [](Polyhedron& n, const Polyhedron& x, const PPL::Constraint_System& cs, unsigned* tp) { n.bounded_BHRZ03_extrapolation_assign(x, cs, tp); };
      o.libcert_name = "BHRZ03_Certificate";
      o.libcert = [](const Polyhedron& x, const Polyhedron& r) { if (x.is_empty()) return 1; PPL::BHRZ03_Certificate c(x); return c.compare(r); };
      o.libcert_consistency = [](const Polyhedron& x, const Polyhedron& r) -> std::string {
        PPL::BHRZ03_Certificate cx(x), cr(r); int a = cx.compare(r), b = cx.compare(cr);
        return a == b ? "" : "BHRZ03_Certificate(x).compare(x') = " + std::to_string(a) + " but BHRZ03_Certificate(x).compare(BHRZ03_Certificate(x')) = " + std::to_string(b); };
      o.libcert_consistency_trigger = cert_trigger;
      o.measure = measure_BHRZ03;
      o.measure_complete = [](const Cell& c) { if (ref::is_empty(c)) return true; return poly_shape(c).lin == 0; };
      o.measure_informational = nnc;
      out.push_back(o);
    }
  }

  std::vector<CN> limits() const {
    using ref::GE; using ref::GT;
    std::vector<CN> l;
    if (dim == 2) {
      l = { CN(LE({-1, 0}, 3), GE), CN(LE({0, -1}, 4), GE), CN(LE({1, 0}, 1), GE), CN(LE({-1, -1}, 5), GE), CN(LE({1, -1}, 2), GE), CN(LE({0, 1}, 0), ref::EQ) };
      // NNC: strict limits in BOTH orientations across every line direction of the menu (a line is stored with one orientation
      // only, and the selection of the limiting constraints evaluates the sign of the scalar product with it); the capped
      // quick-tier list (first cap-1 and last) keeps A > -3 and A < 4
      if (nnc) { l.insert(l.begin() + 2, CN(LE({1, 0}, 3), GT)); l.push_back(CN(LE({0, 1}, 4), GT)); l.push_back(CN(LE({-1, -1}, 6), GT)); l.push_back(CN(LE({-1, 0}, 4), GT)); }
    } else {
      l = { CN(LE({-1}, 3), GE), CN(LE({1}, 1), GE), CN(LE({-2}, 5), GE), CN(LE({1}, 0), ref::EQ) };
      if (nnc) { l.insert(l.begin() + 2, CN(LE({1}, 3), GT)); l.push_back(CN(LE({-1}, 4), GT)); }
    }
    return l;
  }
};

int c08_poly_main(int argc, char** argv) {
  ARGS = parse_args(argc, argv);
  sink().open(ARGS.out);
  double t0 = now_s();
  std::string topo = ARGS.opt("--topology", "both");
  std::string dims = ARGS.opt("--dims", "1,2");
  int depth = atoi(ARGS.opt("--depth", "12").c_str());
  int menu_limit = atoi(ARGS.opt("--menu", ARGS.thorough() ? "18" : "13").c_str());
  std::string repmode = ARGS.opt("--reps", ARGS.thorough() ? "full" : "star");

  std::vector<std::unique_ptr<PolyDom> > doms;
  std::vector<std::unique_ptr<Game<PolyDom> > > games;
  int base = 0;
  for (int nnc = 0; nnc < 2; ++nnc) {
    if (topo == "C" && nnc) continue;
    if (topo == "NNC" && !nnc) continue;
    for (int dim = 1; dim <= 2; ++dim) {
      if (dims.find(char('0' + dim)) == std::string::npos) continue;
      doms.emplace_back(new PolyDom(nnc, dim, menu_limit));
      games.emplace_back(new Game<PolyDom>(*doms.back(), ARGS, base));
      Game<PolyDom>& g = *games.back();
      g.max_depth = depth; g.limit_cap = atoi(ARGS.opt("--limits", ARGS.thorough() ? "0" : "4").c_str()); g.rep_mode = repmode == "full" ? 1 : 0; g.caveat_as_violation = ARGS.has("--caveat-as-violation");
      g.phase_a();
      g.make_items();
      base += (int)g.OPS.size();
      for (size_t oi = 0; oi < g.G.size(); ++oi)
        fprintf(stderr, "[c08_poly] %s dim %d %s: states=%zu edges=%zu closed=%d depth=%d classes=%zu (%.1fs)\n", doms.back()->name.c_str(), dim,
                g.OPS[oi].name.c_str(), g.G[oi].nodes.size(), g.G[oi].edges.size(), (int)g.G[oi].closed, g.G[oi].depth_done, g.CL.size(), now_s() - t0);
    }
  }
  double ta = now_s() - t0;
  // phase B: all edges of all games, interleaved
  std::vector<std::pair<int, int> > items;
  for (size_t gi = 0; gi < games.size(); ++gi) for (size_t i = 0; i < games[gi]->ITEMS.size(); ++i) items.push_back(std::make_pair((int)gi, (int)i));
  // deterministic shuffle so that heavy graphs are spread over the workers
  { unsigned long s = 12345; for (size_t i = items.size(); i > 1; --i) { s = s * 6364136223846793005UL + 1442695040888963407UL; std::swap(items[i - 1], items[(s >> 33) % i]); } }
  Pool::Fn fn = [&](long long item, long long sub_start) { games[items[item].first]->run_item(items[item].second, sub_start); };
  Pool::CrashFn cf = [&](long long item, long long sub, int sig, bool confirmed) { games[items[item].first]->on_crash(items[item].second, sub, sig, confirmed); };
  limit_memory(6ULL << 30);
  pool().run((long long)items.size(), ARGS.jobs, fn, cf, ARGS, 120);
  bool complete = counter(CNT_SKIPPED) == 0 && counter(CNT_REFCRASH) == 0;
  long states = 0, edges = 0; bool all_closed = true;
  std::vector<std::string> per_op, samples;
  for (size_t gi = 0; gi < games.size(); ++gi) {
    Game<PolyDom>::Summary s = games[gi]->finish();
    states += s.states; edges += s.edges; all_closed = all_closed && s.all_closed;
    per_op.insert(per_op.end(), s.per_op.begin(), s.per_op.end());
    for (size_t i = 0; i < s.samples.size() && samples.size() < 6; ++i) samples.push_back(s.samples[i]);
  }
  J extra; extra.arr("graphs", per_op).boolean("all_graphs_closed", all_closed).num("menu_size_limit", menu_limit).str("representation_pairs", repmode)
    .dbl("phaseA_s", ta).num("items_skipped_by_deadline", counter(CNT_SKIPPED)).num("cases_skipped_oracle_resource_limit", counter(CNT_REFCRASH))
    .num("violation_records", counter(CNT_VIOL));
  J st; st.str("t", "stats").num("states", std::max(1L, states)).num("transitions", std::max(1LL, (long long)counter(CNT_TRANS)))
    .num("traces_validated_against_impl", counter(CNT_TRANS)).boolean("exhaustive", complete)
    .str("bound", "polyhedra " + topo + ", dims " + dims + ", menu of " + std::to_string(menu_limit) + " increments, every start element, closure or depth " + std::to_string(depth) + ", representation pairs: " + repmode + ", tokens {null,0,1,2}, limiting subsets of size <= 2")
    .arr("samples", samples).raw("extra", extra.done()).dbl("wall_s", now_s() - t0);
  sink().line(st.done());
  return 0;
}

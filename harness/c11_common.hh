// C11 part 1: numeric kernel of PPL (Checked:: / Checked_Number) against an exact GMP oracle.
// Shared plumbing: extended exact values, decoding of stored values (own code, not PPL's),
// exact semantics of every operation, the judge implementing clauses (a)-(d), cell registry.
#ifndef VERIF_C11_COMMON_HH
#define VERIF_C11_COMMON_HH 1

// Only the numeric kernel is included (not ppl_include_files.hh): the harness then depends on -- and is rebuilt
// for -- changes of the checked-number headers only.  c11_main.cc includes initializer.hh, whose static Init object
// puts the FPU in the rounding mode the library runs in (upward).
#include "ppl-config.h"
#include "version.hh"
#include "Checked_Number_defs.hh"
#include "checked_numeric_limits.hh"
#include "WRD_coefficient_types_defs.hh"
#if defined(PPL_CHECKED_INTEGERS) || defined(PPL_NATIVE_INTEGERS)
#include "Coefficient_defs.hh"
#endif
#include "engine/common.hh"
#include <gmpxx.h>
#include <memory>
#include <limits>
#include <cmath>
#include <cfloat>
#include <climits>
#include <stdint.h>

namespace c11 {

namespace PPL = Parma_Polyhedra_Library;
using PPL::Result;
using PPL::Rounding_Dir;

// ------------------------------------------------------------------ extended exact values
enum { K_FIN = 0, K_PINF = 1, K_MINF = -1, K_NAN = 2 };

struct XVal {            // a value of the extended reals (or NaN); rational when finite
  int kind;
  mpq_class q;
  XVal() : kind(K_FIN), q(0) {}
  explicit XVal(int k) : kind(k), q(0) {}
  explicit XVal(const mpq_class& v) : kind(K_FIN), q(v) {}
  bool fin() const { return kind == K_FIN; }
  bool inf() const { return kind == K_PINF || kind == K_MINF; }
  bool nan() const { return kind == K_NAN; }
  int sign() const { return kind == K_PINF ? 1 : kind == K_MINF ? -1 : sgn(q); }
  // decimal text; very long numerals (long double denormals have ~5000 digits) are abbreviated deterministically so that
  // a record stays far below the 4096 bytes that several processes can append to the result file atomically
  std::string str() const {
    switch (kind) { case K_PINF: return "+inf"; case K_MINF: return "-inf"; case K_NAN: return "nan"; default: break; }
    std::string s = q.get_str();
    if (s.size() <= 160) return s;
    unsigned long long h = 1469598103934665603ULL;
    for (size_t i = 0; i < s.size(); ++i) { h ^= (unsigned char)s[i]; h *= 1099511628211ULL; }
    char b[64]; snprintf(b, sizeof b, "[%zu chars, fnv1a=%016llx]", s.size(), h);
    return s.substr(0, 60) + "..." + s.substr(s.size() - 20) + b;
  }
};

// reasons why an exact result is undefined; each is governed by one policy switch
enum Undef { U_NONE = 0, U_NAN_INPUT, U_INF_ADD_INF, U_INF_SUB_INF, U_INF_MUL_ZERO, U_DIV_ZERO, U_INF_DIV_INF,
             U_INF_MOD, U_MOD_ZERO, U_SQRT_NEG };

// special codes of Result (r >> 8), src/Result_defs.hh
enum { C_DIV_ZERO = 2, C_INF_ADD_INF = 3, C_INF_DIV_INF = 4, C_INF_MOD = 5, C_INF_MUL_ZERO = 6, C_INF_SUB_INF = 7,
       C_MOD_ZERO = 8, C_SQRT_NEG = 9, C_UNK_NEG = 10, C_UNK_POS = 11 };

struct Exact {           // exact mathematical result: finite rational, sqrt of a rational, +-inf, or undefined
  int kind;              // K_FIN / K_PINF / K_MINF / K_NAN(undefined)
  mpq_class q;           // value, or radicand when is_sqrt
  bool is_sqrt;
  Undef why;
  unsigned codes;        // bit mask of acceptable special codes when undefined
  std::vector<mpq_class> interm;   // intermediate exact values the implementation necessarily forms
  Exact() : kind(K_FIN), q(0), is_sqrt(false), why(U_NONE), codes(0) {}
  static Exact fin(const mpq_class& v) { Exact e; e.q = v; return e; }
  static Exact inf(int s) { Exact e; e.kind = s > 0 ? K_PINF : K_MINF; return e; }
  static Exact undef(Undef w, unsigned codes) { Exact e; e.kind = K_NAN; e.why = w; e.codes = codes; return e; }
  static Exact of(const XVal& x) { if (x.nan()) return undef(U_NAN_INPUT, 0); Exact e; e.kind = x.kind; e.q = x.q; return e; }
  bool defined() const { return kind != K_NAN; }
  std::string str() const {
    switch (kind) { case K_PINF: return "+inf"; case K_MINF: return "-inf";
      case K_NAN: { static const char* n[] = {"?", "nan-operand", "inf+(-inf)", "inf-inf", "inf*0", "x/0", "inf/inf", "inf mod", "x mod 0", "sqrt(negative)"}; return std::string("undefined(") + n[why] + ")"; }
      default: return is_sqrt ? "sqrt(" + XVal(q).str() + ")" : XVal(q).str(); }
  }
};

// sign of (E - R), both defined and R not NaN
inline int cmp_exact(const Exact& E, const XVal& R) {
  if (E.kind == K_PINF) return R.kind == K_PINF ? 0 : 1;
  if (E.kind == K_MINF) return R.kind == K_MINF ? 0 : -1;
  if (R.kind == K_PINF) return -1;
  if (R.kind == K_MINF) return 1;
  if (!E.is_sqrt) return cmp(E.q, R.q);
  if (sgn(R.q) <= 0) return sgn(E.q) > 0 ? 1 : (sgn(R.q) < 0 ? 1 : 0);
  mpq_class s2 = R.q * R.q;
  return cmp(E.q, s2);
}

inline mpz_class floor_q(const mpq_class& q) { mpz_class r; mpz_fdiv_q(r.get_mpz_t(), q.get_num_mpz_t(), q.get_den_mpz_t()); return r; }
inline mpz_class ceil_q(const mpq_class& q) { mpz_class r; mpz_cdiv_q(r.get_mpz_t(), q.get_num_mpz_t(), q.get_den_mpz_t()); return r; }
inline mpz_class trunc_q(const mpq_class& q) { mpz_class r; mpz_tdiv_q(r.get_mpz_t(), q.get_num_mpz_t(), q.get_den_mpz_t()); return r; }
inline mpq_class pow2(unsigned e) { mpz_class z(1); z <<= e; return mpq_class(z); }
inline bool is_int_q(const mpq_class& q) { return q.get_den() == 1; }

// ------------------------------------------------------------------ exact semantics of the operations
inline Exact ex_assign(const XVal& x) { return Exact::of(x); }
inline Exact ex_neg(const XVal& x) { if (x.nan()) return Exact::of(x); if (x.inf()) return Exact::inf(-x.sign()); return Exact::fin(-x.q); }
inline Exact ex_abs(const XVal& x) { if (x.nan()) return Exact::of(x); if (x.inf()) return Exact::inf(1); Exact e = Exact::fin(abs(x.q)); e.interm.push_back(e.q); return e; }
inline Exact ex_floor(const XVal& x) { if (!x.fin()) return Exact::of(x); return Exact::fin(mpq_class(floor_q(x.q))); }
inline Exact ex_ceil(const XVal& x) { if (!x.fin()) return Exact::of(x); return Exact::fin(mpq_class(ceil_q(x.q))); }
inline Exact ex_trunc(const XVal& x) { if (!x.fin()) return Exact::of(x); return Exact::fin(mpq_class(trunc_q(x.q))); }
inline Exact ex_sqrt(const XVal& x) {
  if (x.nan()) return Exact::of(x);
  if (x.kind == K_MINF || (x.fin() && sgn(x.q) < 0)) return Exact::undef(U_SQRT_NEG, 1u << C_SQRT_NEG);
  if (x.kind == K_PINF) return Exact::inf(1);
  mpz_class rn, rd;
  if (mpz_perfect_square_p(x.q.get_num_mpz_t()) && mpz_perfect_square_p(x.q.get_den_mpz_t())) {
    mpz_sqrt(rn.get_mpz_t(), x.q.get_num_mpz_t()); mpz_sqrt(rd.get_mpz_t(), x.q.get_den_mpz_t());
    mpq_class r(rn, rd); r.canonicalize(); return Exact::fin(r);
  }
  Exact e; e.q = x.q; e.is_sqrt = true; return e;
}
inline Exact ex_add(const XVal& x, const XVal& y) {
  if (x.nan() || y.nan()) return Exact::undef(U_NAN_INPUT, 0);
  if (x.inf() && y.inf()) return x.kind == y.kind ? Exact::inf(x.sign()) : Exact::undef(U_INF_ADD_INF, 1u << C_INF_ADD_INF);
  if (x.inf()) return Exact::inf(x.sign());
  if (y.inf()) return Exact::inf(y.sign());
  return Exact::fin(x.q + y.q);
}
inline Exact ex_sub(const XVal& x, const XVal& y) {
  if (x.nan() || y.nan()) return Exact::undef(U_NAN_INPUT, 0);
  if (x.inf() && y.inf()) return x.kind != y.kind ? Exact::inf(x.sign()) : Exact::undef(U_INF_SUB_INF, 1u << C_INF_SUB_INF);
  if (x.inf()) return Exact::inf(x.sign());
  if (y.inf()) return Exact::inf(-y.sign());
  return Exact::fin(x.q - y.q);
}
inline Exact ex_mul(const XVal& x, const XVal& y) {
  if (x.nan() || y.nan()) return Exact::undef(U_NAN_INPUT, 0);
  if (x.inf() || y.inf()) {
    int s = x.sign() * y.sign();
    return s == 0 ? Exact::undef(U_INF_MUL_ZERO, 1u << C_INF_MUL_ZERO) : Exact::inf(s);
  }
  return Exact::fin(x.q * y.q);
}
inline Exact ex_div(const XVal& x, const XVal& y) {
  if (x.nan() || y.nan()) return Exact::undef(U_NAN_INPUT, 0);
  if (x.inf() && y.inf()) return Exact::undef(U_INF_DIV_INF, 1u << C_INF_DIV_INF);
  if (y.fin() && sgn(y.q) == 0) return Exact::undef(U_DIV_ZERO, 1u << C_DIV_ZERO);
  if (x.inf()) return Exact::inf(x.sign() * y.sign());
  if (y.inf()) return Exact::fin(0);
  return Exact::fin(x.q / y.q);
}
inline Exact ex_idiv(const XVal& x, const XVal& y) {
  Exact e = ex_div(x, y);
  if (e.kind == K_FIN) e.q = mpq_class(trunc_q(e.q));
  return e;
}
inline Exact ex_rem(const XVal& x, const XVal& y) {
  if (x.nan() || y.nan()) return Exact::undef(U_NAN_INPUT, 0);
  if (x.inf()) return Exact::undef(U_INF_MOD, (1u << C_INF_MOD) | (1u << C_MOD_ZERO));
  if (y.fin() && sgn(y.q) == 0) return Exact::undef(U_MOD_ZERO, (1u << C_MOD_ZERO) | (1u << C_DIV_ZERO));
  if (y.inf()) return Exact::fin(x.q);
  mpq_class t(trunc_q(x.q / y.q));
  return Exact::fin(x.q - t * y.q);
}
inline Exact ex_add_2exp(const XVal& x, unsigned e) { if (!x.fin()) return Exact::of(x); return Exact::fin(x.q + pow2(e)); }
inline Exact ex_sub_2exp(const XVal& x, unsigned e) { if (!x.fin()) return Exact::of(x); return Exact::fin(x.q - pow2(e)); }
inline Exact ex_mul_2exp(const XVal& x, unsigned e) { if (!x.fin()) return Exact::of(x); return Exact::fin(x.q * pow2(e)); }
inline Exact ex_div_2exp(const XVal& x, unsigned e) { if (!x.fin()) return Exact::of(x); return Exact::fin(x.q / pow2(e)); }
inline Exact ex_umod_2exp(const XVal& x, unsigned e) {
  if (x.nan()) return Exact::of(x);
  if (x.inf()) return Exact::undef(U_INF_MOD, 1u << C_INF_MOD);
  mpq_class m = pow2(e);
  return Exact::fin(x.q - mpq_class(floor_q(x.q / m)) * m);
}
inline Exact ex_smod_2exp(const XVal& x, unsigned e) {
  Exact r = ex_umod_2exp(x, e);
  if (r.kind == K_FIN) { mpq_class m = pow2(e); if (r.q >= m / 2) r.q -= m; }
  return r;
}
inline Exact ex_gcd(const XVal& x, const XVal& y) {   // finite integers or NaN only
  if (x.nan() || y.nan()) return Exact::undef(U_NAN_INPUT, 0);
  mpz_class g; mpz_gcd(g.get_mpz_t(), x.q.get_num_mpz_t(), y.q.get_num_mpz_t());
  Exact e = Exact::fin(mpq_class(g)); e.interm.push_back(abs(x.q)); e.interm.push_back(abs(y.q)); return e;
}
inline Exact ex_lcm(const XVal& x, const XVal& y) {
  if (x.nan() || y.nan()) return Exact::undef(U_NAN_INPUT, 0);
  mpz_class g; mpz_lcm(g.get_mpz_t(), x.q.get_num_mpz_t(), y.q.get_num_mpz_t());
  Exact e = Exact::fin(mpq_class(g));
  if (sgn(x.q) != 0 && sgn(y.q) != 0) { e.interm.push_back(abs(x.q)); e.interm.push_back(abs(y.q)); }
  return e;
}
// to (+|-) x*y : the product is formed first, then the sum
inline Exact ex_fused(const XVal& to, const XVal& x, const XVal& y, bool add) {
  if (to.nan() || x.nan() || y.nan()) return Exact::undef(U_NAN_INPUT, 0);
  Exact p = ex_mul(x, y);
  if (!p.defined()) return p;
  XVal pv; pv.kind = p.kind; pv.q = p.q;
  Exact r = add ? ex_add(to, pv) : ex_sub(to, pv);
  if (p.kind == K_FIN) r.interm.push_back(p.q);
  return r;
}

// ------------------------------------------------------------------ policies as run-time flags
struct PolFlags {
  bool ovf, inf_add, inf_sub, inf_mul0, div0, inf_div, inf_mod, sqrt_neg, has_nan, has_inf, fpu_inexact, fpu_nan;
  bool checks(Undef u) const {
    switch (u) { case U_INF_ADD_INF: return inf_add; case U_INF_SUB_INF: return inf_sub; case U_INF_MUL_ZERO: return inf_mul0;
      case U_DIV_ZERO: case U_MOD_ZERO: return div0; case U_INF_DIV_INF: return inf_div; case U_INF_MOD: return inf_mod;
      case U_SQRT_NEG: return sqrt_neg; default: return true; }
  }
};
template <class P> inline PolFlags flags_of() {
  PolFlags f;
  f.ovf = P::check_overflow; f.inf_add = P::check_inf_add_inf; f.inf_sub = P::check_inf_sub_inf; f.inf_mul0 = P::check_inf_mul_zero;
  f.div0 = P::check_div_zero; f.inf_div = P::check_inf_div_inf; f.inf_mod = P::check_inf_mod; f.sqrt_neg = P::check_sqrt_neg;
  f.has_nan = P::has_nan; f.has_inf = P::has_infinity; f.fpu_inexact = P::check_fpu_inexact; f.fpu_nan = P::check_fpu_nan_result;
  return f;
}

// a fully checking policy without special values (to see V_DIV_ZERO etc. with nothing storable)
struct Checks_NoExt_Policy {
  const_bool_nodef(check_overflow, true);
  const_bool_nodef(check_inf_add_inf, true);
  const_bool_nodef(check_inf_sub_inf, true);
  const_bool_nodef(check_inf_mul_zero, true);
  const_bool_nodef(check_div_zero, true);
  const_bool_nodef(check_inf_div_inf, true);
  const_bool_nodef(check_inf_mod, true);
  const_bool_nodef(check_sqrt_neg, true);
  const_bool_nodef(has_nan, false);
  const_bool_nodef(has_infinity, false);
  const_bool_nodef(check_fpu_inexact, true);
  const_bool_nodef(check_fpu_nan_result, true);
  static void handle_result(Result) {}
};

// Bounded_Integer_Coefficient_Policy is only declared in the checked-integer configurations; a policy is a pure
// bundle of compile-time switches, so in the GMP configuration a switch-identical copy instantiates the same code.
#if defined(PPL_CHECKED_INTEGERS) || defined(PPL_NATIVE_INTEGERS)
typedef PPL::Bounded_Integer_Coefficient_Policy Bounded_Policy;
#else
struct Bounded_Policy {
  const_bool_nodef(check_overflow, true);
  const_bool_nodef(check_inf_add_inf, false);
  const_bool_nodef(check_inf_sub_inf, false);
  const_bool_nodef(check_inf_mul_zero, false);
  const_bool_nodef(check_div_zero, false);
  const_bool_nodef(check_inf_div_inf, false);
  const_bool_nodef(check_inf_mod, false);
  const_bool_nodef(check_sqrt_neg, false);
  const_bool_nodef(has_nan, false);
  const_bool_nodef(has_infinity, false);
  const_bool_nodef(convertible, true);
  const_bool_nodef(check_fpu_inexact, false);
  const_bool_nodef(check_fpu_nan_result, true);
  static void handle_result(Result) {}
};
#endif

template <class P> struct PName;
template <> struct PName<PPL::Debug_WRD_Extended_Number_Policy> { static const char* s() { return "Debug_WRD_Extended_Number_Policy"; } };
template <> struct PName<PPL::WRD_Extended_Number_Policy> { static const char* s() { return "WRD_Extended_Number_Policy"; } };
template <> struct PName<PPL::Extended_Number_Policy> { static const char* s() { return "Extended_Number_Policy"; } };
template <> struct PName<Bounded_Policy> { static const char* s() { return "Bounded_Integer_Coefficient_Policy"; } };
template <> struct PName<Checks_NoExt_Policy> { static const char* s() { return "Checks_NoExt_Policy(harness)"; } };
template <class T> struct PName<PPL::Checked_Number_Transparent_Policy<T> > { static const char* s() { return "Checked_Number_Transparent_Policy"; } };

// ------------------------------------------------------------------ types
enum TClass { TC_SINT, TC_UINT, TC_FLT, TC_MPZ, TC_MPQ };
inline const char* tclass_name(TClass c) { static const char* n[] = {"signed_int", "unsigned_int", "float", "mpz", "mpq"}; return n[c]; }

template <class T> struct TI;
template <class T> struct Fam;
#define C11_FAM(T, N) template <> struct Fam<T> { static const int v = N; };
C11_FAM(signed char, 0) C11_FAM(unsigned char, 1) C11_FAM(short, 2) C11_FAM(unsigned short, 3) C11_FAM(int, 4) C11_FAM(unsigned int, 5)
C11_FAM(long, 6) C11_FAM(unsigned long, 7) C11_FAM(long long, 8) C11_FAM(unsigned long long, 9) C11_FAM(float, 10) C11_FAM(double, 11)
C11_FAM(long double, 12) C11_FAM(mpz_class, 13) C11_FAM(mpq_class, 14)
static const int FAM_CONV = 15;
static const char* const FAM_NAMES[16] = {"int8_t", "uint8_t", "int16_t", "uint16_t", "int32_t", "uint32_t", "int64_t", "uint64_t", "long_long",
  "unsigned_long_long", "float", "double", "long_double", "mpz_class", "mpq_class", "conversions"};
#define C11_INT_TI(T, NAME, CLS) template <> struct TI<T> { static const char* name() { return NAME; } static const TClass cls = CLS; \
  static const int bits = sizeof(T) * 8; };
C11_INT_TI(signed char, "int8_t", TC_SINT) C11_INT_TI(unsigned char, "uint8_t", TC_UINT)
C11_INT_TI(short, "int16_t", TC_SINT) C11_INT_TI(unsigned short, "uint16_t", TC_UINT)
C11_INT_TI(int, "int32_t", TC_SINT) C11_INT_TI(unsigned int, "uint32_t", TC_UINT)
C11_INT_TI(long, "int64_t", TC_SINT) C11_INT_TI(unsigned long, "uint64_t", TC_UINT)
C11_INT_TI(long long, "long_long", TC_SINT) C11_INT_TI(unsigned long long, "unsigned_long_long", TC_UINT)
template <> struct TI<float> { static const char* name() { return "float"; } static const TClass cls = TC_FLT; static const int bits = 32; };
template <> struct TI<double> { static const char* name() { return "double"; } static const TClass cls = TC_FLT; static const int bits = 64; };
template <> struct TI<long double> { static const char* name() { return "long_double"; } static const TClass cls = TC_FLT; static const int bits = 80; };
template <> struct TI<mpz_class> { static const char* name() { return "mpz_class"; } static const TClass cls = TC_MPZ; static const int bits = 0; };
template <> struct TI<mpq_class> { static const char* name() { return "mpq_class"; } static const TClass cls = TC_MPQ; static const int bits = 0; };

// ---- exact value of native numbers (independent of the FPU rounding mode)
template <class T> inline mpq_class q_of_int(T v) {
  mpz_class z;
  if (v < 0) { unsigned long long m = 0ULL - (unsigned long long)(long long)v; mpz_import(z.get_mpz_t(), 1, 1, sizeof m, 0, 0, &m); z = -z; }
  else { unsigned long long m = (unsigned long long)v; mpz_import(z.get_mpz_t(), 1, 1, sizeof m, 0, 0, &m); }
  return mpq_class(z);
}
inline mpq_class q_of_flt(long double v) {   // v finite
  if (v == 0) return mpq_class(0);
  int e; long double m = frexpl(v, &e);      // exact
  bool neg = m < 0; if (neg) m = -m;
  long double scaled = ldexpl(m, 64);        // exact: an integer < 2^64
  unsigned long long mant = (unsigned long long)scaled;
  mpz_class z; mpz_import(z.get_mpz_t(), 1, 1, sizeof mant, 0, 0, &mant);
  mpq_class q(z);
  long ex = (long)e - 64;
  if (ex >= 0) q *= pow2((unsigned)ex); else q /= pow2((unsigned)(-ex));
  return neg ? mpq_class(-q) : q;
}

// ---- reserved encodings of extended native integers (DESIGN C11; verified against Extended_Int at start-up)
template <class T> struct IntEnc {
  static const bool is_signed = (T(-1) < T(0));
  static T tmin() { return std::numeric_limits<T>::min(); }
  static T tmax() { return std::numeric_limits<T>::max(); }
  static T pinf() { return tmax(); }
  static T minf() { return is_signed ? tmin() : T(tmax() - 1); }
  static T nan(bool has_inf) { return is_signed ? T(tmin() + (has_inf ? 1 : 0)) : T(tmax() - (has_inf ? 2 : 0)); }
  static T fmin(bool has_inf, bool has_nan) { return is_signed ? T(tmin() + (has_inf ? 1 : 0) + (has_nan ? 1 : 0)) : T(0); }
  static T fmax(bool has_inf, bool has_nan) { return is_signed ? T(tmax() - (has_inf ? 1 : 0)) : T(tmax() - (has_inf ? 2 : 0) - (has_nan ? 1 : 0)); }
};

// ---- decoding of a raw stored value under (has_inf, has_nan)
template <class T> inline typename PPL::Enable_If<(TI<T>::cls == TC_SINT || TI<T>::cls == TC_UINT), XVal>::type
decode(const T& v, bool has_inf, bool has_nan) {
  if (has_nan && v == IntEnc<T>::nan(has_inf)) return XVal(K_NAN);
  if (has_inf && v == IntEnc<T>::pinf()) return XVal(K_PINF);
  if (has_inf && v == IntEnc<T>::minf()) return XVal(K_MINF);
  return XVal(q_of_int(v));
}
template <class T> inline typename PPL::Enable_If<(TI<T>::cls == TC_FLT), XVal>::type
decode(const T& v, bool, bool) {
  if (v != v) return XVal(K_NAN);
  if (v > std::numeric_limits<T>::max()) return XVal(K_PINF);
  if (v < -std::numeric_limits<T>::max()) return XVal(K_MINF);
  return XVal(q_of_flt(v));
}
inline XVal decode(const mpz_class& v, bool has_inf, bool has_nan) {
  int s = v.get_mpz_t()->_mp_size;
  if (has_nan && s == INT_MIN + 1) return XVal(K_NAN);
  if (has_inf && s == INT_MIN) return XVal(K_MINF);
  if (has_inf && s == INT_MAX) return XVal(K_PINF);
  return XVal(mpq_class(v));
}
inline XVal decode(const mpq_class& v, bool has_inf, bool has_nan) {
  if ((has_inf || has_nan) && mpz_sgn(v.get_den_mpz_t()) == 0) {
    int s = mpz_sgn(v.get_num_mpz_t());
    if (s == 0) return XVal(K_NAN);
    return XVal(s > 0 ? K_PINF : K_MINF);
  }
  return XVal(v);
}

// ------------------------------------------------------------------ destination description
struct DestInfo {
  TClass cls; PolFlags pf;
  mpq_class fmin, fmax;          // finite range (integers) / +-max (floats)
  int p, emin, emax;             // floats: precision, min normal exponent, max exponent
  bool int_like() const { return cls == TC_SINT || cls == TC_UINT; }
  bool representable(const Exact& E) const {
    if (!E.defined()) return false;
    if (E.kind != K_FIN) return pf.has_inf;
    if (E.is_sqrt) return false;
    return representable_q(E.q);
  }
  bool representable_q(const mpq_class& q) const {
    switch (cls) {
    case TC_SINT: case TC_UINT: return is_int_q(q) && q >= fmin && q <= fmax;
    case TC_MPZ: return is_int_q(q);
    case TC_MPQ: return true;
    default: {
      if (sgn(q) == 0) return true;
      const mpz_class& d = q.get_den();
      if (mpz_popcount(d.get_mpz_t()) != 1) return false;
      long k = (long)mpz_sizeinbase(d.get_mpz_t(), 2) - 1;
      mpz_class n = abs(q.get_num());
      long j = (long)mpz_scan1(n.get_mpz_t(), 0);
      long nb = (long)mpz_sizeinbase(n.get_mpz_t(), 2) - j;   // significant bits
      long lo = j - k, hi = lo + nb - 1;                      // exponents of lowest / highest set bit
      return nb <= p && lo >= emin - (p - 1) && hi <= emax;
    } }
  }
  // no value of the finite range is a floor/ceil/trunc of E
  bool out_of_span(const Exact& E) const {
    if (!int_like()) return false;
    if (E.kind != K_FIN) return true;
    if (E.is_sqrt) return false;
    return mpq_class(floor_q(E.q)) > fmax || mpq_class(ceil_q(E.q)) < fmin;
  }
};
template <class T, class P> inline typename PPL::Enable_If<(TI<T>::cls == TC_SINT || TI<T>::cls == TC_UINT), DestInfo>::type dest_info() {
  DestInfo d; d.cls = TI<T>::cls; d.pf = flags_of<P>();
  d.fmin = q_of_int(IntEnc<T>::fmin(P::has_infinity, P::has_nan)); d.fmax = q_of_int(IntEnc<T>::fmax(P::has_infinity, P::has_nan));
  d.p = d.emin = d.emax = 0; return d;
}
template <class T, class P> inline typename PPL::Enable_If<(TI<T>::cls == TC_FLT), DestInfo>::type dest_info() {
  DestInfo d; d.cls = TC_FLT; d.pf = flags_of<P>();
  d.fmax = q_of_flt(std::numeric_limits<T>::max()); d.fmin = -d.fmax;
  d.p = std::numeric_limits<T>::digits; d.emin = std::numeric_limits<T>::min_exponent - 1; d.emax = std::numeric_limits<T>::max_exponent - 1;
  return d;
}
template <class T, class P> inline typename PPL::Enable_If<(TI<T>::cls == TC_MPZ || TI<T>::cls == TC_MPQ), DestInfo>::type dest_info() {
  DestInfo d; d.cls = TI<T>::cls; d.pf = flags_of<P>(); d.p = d.emin = d.emax = 0; return d;
}

// ------------------------------------------------------------------ rounding directions
struct DirInfo { unsigned v; const char* name; };
static const DirInfo DIRS[8] = {
  {0u, "ROUND_DOWN"}, {1u, "ROUND_UP"}, {6u, "ROUND_IGNORE"}, {7u, "ROUND_NOT_NEEDED"},
  {8u, "ROUND_DOWN|ROUND_STRICT_RELATION"}, {9u, "ROUND_UP|ROUND_STRICT_RELATION"},
  {14u, "ROUND_IGNORE|ROUND_STRICT_RELATION"}, {15u, "ROUND_NOT_NEEDED|ROUND_STRICT_RELATION"} };
inline const char* dir_name(unsigned d) { for (int i = 0; i < 8; ++i) if (DIRS[i].v == d) return DIRS[i].name; return "?"; }

inline std::string result_name(unsigned r) {
  static const char* rel[] = {"V_EMPTY", "V_EQ", "V_LT", "V_LE", "V_GT", "V_GE", "V_NE", "V_LGE"};
  static const char* spc[] = {"", "CVT_STR_UNK", "DIV_ZERO", "INF_ADD_INF", "INF_DIV_INF", "INF_MOD", "INF_MUL_ZERO", "INF_SUB_INF", "MOD_ZERO", "SQRT_NEG", "UNKNOWN_NEG_OVERFLOW", "UNKNOWN_POS_OVERFLOW"};
  unsigned cls = r & 0x30u; std::string s;
  if (cls == 0x30u) { unsigned c = r >> 8; s = std::string("V_NAN") + (c && c < 12 ? std::string("/V_") + spc[c] : ""); }
  else { s = rel[r & 7u]; if (cls == 0x10u) s += "|MINUS_INFINITY"; if (cls == 0x20u) s += "|PLUS_INFINITY"; }
  if (r & 0x40u) s += "|V_OVERFLOW";
  if (r & 0x80u) s += "|V_UNREPRESENTABLE";
  return s + "(" + std::to_string(r) + ")";
}

// ------------------------------------------------------------------ counters
enum { CN_CALLS_BASE = vf::CNT_USER,        // + family index (0..19)
       CN_SKIP_ILLEGAL = vf::CNT_USER + 24, CN_UNKNOWN_OVF = vf::CNT_USER + 25, CN_NONSTRICT = vf::CNT_USER + 26,
       CN_CELLS = vf::CNT_USER + 27, CN_NOT_OPTIMAL = vf::CNT_USER + 28, CN_PRED = vf::CNT_USER + 29, CN_CRASH = vf::CNT_USER + 30 };
struct Local { long long calls, skipped, unknown, nonstrict, notopt, pred; Local() : calls(0), skipped(0), unknown(0), nonstrict(0), notopt(0), pred(0) {} };
inline Local& local() { static Local l; return l; }
inline void flush_local(int fam) {
  Local& l = local();
  vf::count(CN_CALLS_BASE + fam, l.calls); vf::count(vf::CNT_TRANS, l.calls + l.pred); vf::count(CN_SKIP_ILLEGAL, l.skipped);
  vf::count(CN_UNKNOWN_OVF, l.unknown); vf::count(CN_NONSTRICT, l.nonstrict); vf::count(CN_NOT_OPTIMAL, l.notopt); vf::count(CN_PRED, l.pred);
  l = Local();
}

// ------------------------------------------------------------------ legality of an input under a policy
// (operand space restricted to what the enabled checks make legal; NOT_NEEDED only where its precondition holds)
inline bool legal(const DestInfo& D, const Exact& E, unsigned dir, bool nan_governed_by_fpu_nan) {
  const PolFlags& pf = D.pf;
  if (!E.defined()) {
    if ((dir & 7u) == 7u) return false;
    if (E.why == U_NAN_INPUT) return nan_governed_by_fpu_nan ? pf.fpu_nan : true;
    return pf.checks(E.why);
  }
  if ((dir & 7u) == 7u) {
    if (!D.representable(E)) return false;
    for (size_t i = 0; i < E.interm.size(); ++i) if (!D.representable_q(E.interm[i])) return false;
    return true;
  }
  if (!pf.ovf && D.int_like()) {
    // overflow is unchecked: every rounding of the result and every intermediate must be in range
    if (E.kind != K_FIN) return false;
    if (!E.is_sqrt && (mpq_class(floor_q(E.q)) < D.fmin || mpq_class(ceil_q(E.q)) > D.fmax)) return false;
    for (size_t i = 0; i < E.interm.size(); ++i) if (!D.representable_q(E.interm[i])) return false;
  }
  return true;
}

// ------------------------------------------------------------------ the judge: clauses (a)-(d)
// returns 0 or the name of the violated clause
inline const char* judge(const DestInfo& D, const Exact& E, unsigned r, const XVal& S, unsigned dir) {
  unsigned cls = r & 0x30u, rel = r & 7u, code = r >> 8; bool ovf = r & 0x40u, unrep = r & 0x80u;
  unsigned rd = dir & 7u;
  if (!E.defined()) {
    if (cls != 0x30u) return "d:undefined-result-not-classified-NaN";
    if (E.codes && code != 0 && !(E.codes & (1u << code))) return "d:wrong-special-code";
    if (D.pf.has_nan && !unrep && !S.nan()) return "d:NaN-result-but-NaN-not-stored";
    return 0;
  }
  if (cls == 0x30u) {
    if (code == C_UNK_NEG || code == C_UNK_POS) { ++local().unknown; return 0; }   // documented "unknown": asserts nothing
    return "a:NaN-class-for-defined-result";
  }
  XVal R;
  if (cls == 0x20u) { R.kind = K_PINF; if (!unrep && S.kind != K_PINF) return "a:class-plus-infinity-but-other-value-stored"; }
  else if (cls == 0x10u) { R.kind = K_MINF; if (!unrep && S.kind != K_MINF) return "a:class-minus-infinity-but-other-value-stored"; }
  else {
    if (unrep) return 0;                       // stored value unspecified, nothing asserted about a value
    if (S.nan()) return "c:NaN-stored-with-normal-class";
    if (D.cls != TC_FLT && !S.fin()) return "c:reserved-encoding-stored-with-normal-class";
    R = S;
  }
  int ord = cmp_exact(E, R);
  bool ok = (ord < 0 && (rel & 2u)) || (ord == 0 && (rel & 1u)) || (ord > 0 && (rel & 4u));
  if (!ok) return "a:asserted-relation-false";
  if (rd == 1u && ord > 0) return "b:round-up-stored-below-exact";
  if (rd == 0u && ord < 0) return "b:round-down-stored-above-exact";
  if (cls == 0u && !ovf && D.out_of_span(E)) return "c:out-of-range-result-not-classified";
  if (rd == 7u && ord != 0) return "nn:not-needed-but-not-exact";
  if ((dir & 8u) && rd != 7u && (rel == 3u || rel == 5u || rel == 7u)) ++local().nonstrict;
  return 0;
}

// ------------------------------------------------------------------ cells and items
struct Cell {
  std::string type, policy, group;
  int fam;                 // counter family
  long long nsub;          // number of sub-steps (operand tuples)
  int nops;                // operations in the group (each enumerated under 8 directions unless preds)
  int ndirs;
  std::function<void(long long lo, long long hi, long long sub_start)> run;
  std::function<std::string(long long sub)> describe;   // operand tuple of a sub-step (crash reports)
  struct Operands { XVal x, y, z; bool hx, hy, hz, he; unsigned exp; Operands() : hx(false), hy(false), hz(false), he(false), exp(0) {} };
  std::function<Operands(long long sub)> operands;
  TClass dcls, scls; bool is_conv; int dbits; std::string to_type, from_type;
  Cell() : fam(0), nsub(0), nops(0), ndirs(8), dcls(TC_SINT), scls(TC_SINT), is_conv(false), dbits(0) {}
};
inline std::vector<Cell>& cells() { static std::vector<Cell> c; return c; }

// what the worker is executing right now (copied to shared memory by the crash signal handler)
struct Cur { const char* volatile op; volatile unsigned dir; Cur() : op(""), dir(0) {} };
inline Cur& cur() { static Cur c; return c; }

// replay / filter: only the matching (op, dir, operands) is executed and both sides are printed
struct Filter { bool on; std::string type, policy, op, dir, x, y, z, exp; Filter() : on(false) {} };
inline Filter& filter() { static Filter f; return f; }

// narrow triggers of known findings: predicates over the input evaluated here
struct CaseCtx {
  const char* type; const char* policy; const char* op; TClass dcls; TClass scls; const char* from_type;
  unsigned dir; const XVal* x; const XVal* y; const XVal* z; unsigned exp; bool has_exp; int dbits;
  CaseCtx() : type(""), policy(""), op(""), dcls(TC_SINT), scls(TC_SINT), from_type(0), dir(0), x(0), y(0), z(0), exp(0), has_exp(false), dbits(0) {}
};
std::string trigger_of(const CaseCtx& c, const Exact& E, unsigned r, const XVal& S, const char* clause);

inline std::string site_of(const CaseCtx& c) {
  std::string op = c.op; size_t ip = op.find("(in-place)"); if (ip != std::string::npos) op = op.substr(0, ip);
  std::string s = op + ":" + tclass_name(c.dcls);
  if (c.from_type) s += std::string("<-") + tclass_name(c.scls);
  return s;
}
inline std::string input_json(const CaseCtx& c) {
  vf::J j; j.str("type", c.type).str("policy", c.policy).str("op", c.op).str("dir", dir_name(c.dir));
  if (c.from_type) j.str("from_type", c.from_type);
  if (c.x) j.str("x", c.x->str());
  if (c.y) j.str("y", c.y->str());
  if (c.z) j.str("to_before", c.z->str());
  if (c.has_exp) j.num("exp", c.exp);
  return j.done();
}
inline void report(const CaseCtx& c, const Exact& E, unsigned r, const XVal& S, const char* clause, const std::string& extra = "") {
  std::string site = site_of(c), trig = trigger_of(c, E, r, S, clause);
  if (!vf::violcap().admit(site + "|" + clause + "|" + trig)) return;
  vf::report_violation(site, clause, trig, input_json(c), "result=" + result_name(r) + " stored=" + S.str() + extra,
                       "exact=" + E.str() + " and a Result whose relation/classification is true of (exact, stored)", "");
}
inline bool filter_match(const CaseCtx& c) {
  const Filter& f = filter();
  if (!f.on) return true;
  if (f.type != c.type || f.policy != c.policy || f.op != c.op || f.dir != dir_name(c.dir)) return false;
  if (c.x && f.x != c.x->str()) return false;
  if (c.y && f.y != c.y->str()) return false;
  if (c.z && f.z != c.z->str()) return false;
  if (c.has_exp && !f.exp.empty() && f.exp != std::to_string(c.exp)) return false;
  return true;
}
// common tail of every checked call
inline void verdict(const CaseCtx& c, const DestInfo& D, const Exact& E, unsigned r, const XVal& S) {
  ++local().calls;
  const char* cl = judge(D, E, r, S, c.dir);
  if (filter().on) {
    printf("REPLAY %s\n  implementation: result=%s stored=%s\n  reference: exact=%s\n  verdict: %s\n", input_json(c).c_str(),
           result_name(r).c_str(), S.str().c_str(), E.str().c_str(), cl ? cl : "ok");
    return;
  }
  if (cl) report(c, E, r, S, cl);
}

void register_int8(); void register_uint8(); void register_int16(); void register_int32(); void register_int64(); void register_llong();
void register_float(); void register_double(); void register_ldouble(); void register_mpz(); void register_mpq();
void register_conv_a(); void register_conv_b(); void register_conv_c(); void register_conv_d(); void register_conv_e();

} // namespace c11
#endif

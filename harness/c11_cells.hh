// C11 part 1: generic enumeration templates (one "cell" = type x policy x operation group).
#ifndef VERIF_C11_CELLS_HH
#define VERIF_C11_CELLS_HH 1
#include "harness/c11_common.hh"

namespace c11 {

// ---- how a number is held: Checked_Number<T, P>, or the raw native T (To: Check_Overflow_Policy, From: Transparent)
template <class T, class P> struct CNW {
  typedef PPL::Checked_Number<T, P> W; typedef T Raw; typedef P ToP; typedef P FromP;
  static T& raw(W& w) { return w.raw_value(); }
  static const char* pname() { return PName<P>::s(); }
};
template <class T> struct RAWW {
  typedef T W; typedef T Raw; typedef PPL::Check_Overflow_Policy<T> ToP; typedef PPL::Checked_Number_Transparent_Policy<T> FromP;
  static T& raw(W& w) { return w; }
  static const char* pname() { return "raw_native(To=Check_Overflow_Policy,From=Transparent_Policy)"; }
};

// thorough tier: wider alphabets (set in main() before the cells are registered)
inline bool& thorough_alphabets() { static bool t = false; return t; }

// ---- alphabet entries
template <class T> struct Ent { T raw; XVal xv; };
template <class T> struct Alpha { std::vector<Ent<T> > v; size_t size() const { return v.size(); } const Ent<T>& operator[](size_t i) const { return v[i]; } };

template <class T> inline void put(T& dst, const Ent<T>& e) { dst = e.raw; }
template <> inline void put<mpz_class>(mpz_class& dst, const Ent<mpz_class>& e) {
  if (e.xv.fin()) { dst = e.raw; return; }
  dst = 0; dst.get_mpz_t()->_mp_size = e.xv.nan() ? INT_MIN + 1 : (e.xv.kind == K_PINF ? INT_MAX : INT_MIN);
}
template <> inline void put<mpq_class>(mpq_class& dst, const Ent<mpq_class>& e) {
  if (e.xv.fin()) { dst = e.raw; return; }
  dst.get_num() = e.xv.nan() ? 0 : (e.xv.kind == K_PINF ? 1 : -1); dst.get_den() = 0;
}

// ---- integer alphabets
template <class T> inline void add_raw_int(std::vector<T>& out, const mpz_class& z) {
  mpz_class lo = q_of_int(std::numeric_limits<T>::min()).get_num(), hi = q_of_int(std::numeric_limits<T>::max()).get_num();
  if (z < lo || z > hi) return;
  T v;
  if (z < 0) { mpz_class m = -z; unsigned long long u = 0; mpz_export(&u, 0, 1, sizeof u, 0, 0, m.get_mpz_t()); v = (T)(0ULL - u); }
  else { unsigned long long u = 0; mpz_export(&u, 0, 1, sizeof u, 0, 0, z.get_mpz_t()); v = (T)u; }
  for (size_t i = 0; i < out.size(); ++i) if (out[i] == v) return;
  out.push_back(v);
}
// exhaustive for 8 bits, ~24..28 boundary values otherwise (raw encodings: reserved ones decode to specials)
template <class T> inline std::vector<T> int_raws(bool small16 = false) {
  std::vector<T> out;
  const int b = sizeof(T) * 8;
  mpz_class lo = q_of_int(std::numeric_limits<T>::min()).get_num(), hi = q_of_int(std::numeric_limits<T>::max()).get_num();
  if (b == 8 && !small16) { for (mpz_class z = lo; z <= hi; ++z) add_raw_int<T>(out, z); return out; }
  mpz_class one(1);
  if (small16) {
    long s[] = {-100, -11, -2, -1, 0, 1, 2, 3, 11, 100};
    for (int i = 0; i < 3; ++i) add_raw_int<T>(out, lo + i);
    for (size_t i = 0; i < sizeof s / sizeof s[0]; ++i) add_raw_int<T>(out, mpz_class(s[i]));
    add_raw_int<T>(out, (one << (b / 2)));
    for (int i = 2; i >= 0; --i) add_raw_int<T>(out, hi - i);
    if (out.size() > 16) out.resize(16);
    if (thorough_alphabets()) {   // 32 values
      long s2[] = {-64, -63, -17, -5, -3, 5, 7, 15, 17, 31, 63, 64, 65}; mpz_class q = one << (b - 2);
      for (size_t i = 0; i < sizeof s2 / sizeof s2[0] && out.size() < 29; ++i) add_raw_int<T>(out, mpz_class(s2[i]));
      add_raw_int<T>(out, q); add_raw_int<T>(out, -q); add_raw_int<T>(out, q - 1);
    }
    return out;
  }
  for (int i = 0; i < 4; ++i) add_raw_int<T>(out, lo + i);
  long s[] = {-100, -11, -3, -2, -1, 0, 1, 2, 3, 7, 11, 100};
  for (size_t i = 0; i < sizeof s / sizeof s[0]; ++i) add_raw_int<T>(out, mpz_class(s[i]));
  mpz_class h = one << (b / 2), q = one << (b - 2), m = one << (b - 1);
  add_raw_int<T>(out, -h - 1); add_raw_int<T>(out, -h); add_raw_int<T>(out, -q);
  add_raw_int<T>(out, h - 1); add_raw_int<T>(out, h); add_raw_int<T>(out, h + 1); add_raw_int<T>(out, q);
  add_raw_int<T>(out, m - 1); add_raw_int<T>(out, m); add_raw_int<T>(out, m + 1);
  for (int i = 3; i >= 0; --i) add_raw_int<T>(out, hi - i);
  if (thorough_alphabets())
    for (int k = 2; k <= b; ++k) {
      if (b == 64 && k > 9 && k < b - 9 && k % 6 != 0) continue;
      mpz_class pw = one << k;
      add_raw_int<T>(out, pw - 1); add_raw_int<T>(out, pw); add_raw_int<T>(out, pw + 1);
      add_raw_int<T>(out, -pw - 1); add_raw_int<T>(out, -pw); add_raw_int<T>(out, -pw + 1);
    }
  return out;
}
template <class T, class FromP> inline Alpha<T> int_alpha(bool small16 = false) {
  Alpha<T> a; std::vector<T> r = int_raws<T>(small16);
  for (size_t i = 0; i < r.size(); ++i) { Ent<T> e; e.raw = r[i]; e.xv = decode(r[i], FromP::has_infinity, FromP::has_nan); a.v.push_back(e); }
  return a;
}

// ---- floating point alphabet (~45 values)
template <class T> inline std::vector<T> flt_raws(bool small16 = false) {
  typedef std::numeric_limits<T> L;
  std::vector<T> out;
  const int p = L::digits;
  volatile T third = T(1) / T(3), tenth = T(1) / T(10);
  T base[] = { T(0), -T(0), L::denorm_min(), -L::denorm_min(), L::min(), -L::min(), T(1), T(-1),
               T(1) + L::epsilon(), T(1) - L::epsilon() / 2, T(2), T(-2), T(3), T(-3), T(0.5), T(1.5), T(2.5), T(-2.5), T(-0.5), T(-0.0009765625), T(0.0009765625),
               (T)tenth, (T)third, (T)(third + L::epsilon() / 4), T(7), T(100),
               T(126.5), T(-128.5), T(127), T(128), T(255), T(256), T(32767), T(32768), T(65535.5), T(-32768.75),
               std::ldexp(T(1), 31), -std::ldexp(T(1), 31), std::ldexp(T(1), 32), std::ldexp(T(1), 63), -std::ldexp(T(1), 63),
               std::ldexp(T(1), 64), std::ldexp(T(1), p) - 1, std::ldexp(T(1), p), std::ldexp(T(1), p) + 2,
               L::max(), -L::max(), L::max() / 2, L::infinity(), -L::infinity(), L::quiet_NaN() };
  T small[] = { T(0), L::denorm_min(), L::min(), T(1), T(-1), T(1) + L::epsilon(), T(3), T(-2.5), (T)tenth, (T)third,
                std::ldexp(T(1), p) - 1, L::max(), -L::max(), L::infinity(), -L::infinity(), L::quiet_NaN() };
  T* src = small16 ? small : base; size_t n = small16 ? sizeof small / sizeof small[0] : sizeof base / sizeof base[0];
  std::vector<T> all(src, src + n);
  if (thorough_alphabets()) {
    if (small16) { T more[] = { -L::denorm_min(), -L::min(), T(2), T(-3), T(0.5), T(1) - L::epsilon() / 2, std::ldexp(T(1), p), std::ldexp(T(1), 63), -std::ldexp(T(1), 31),
                                L::max() / 2, T(7), T(-0.0009765625), T(126.5), T(100), -(T)tenth, T(65535.5) };
      all.insert(all.end(), more, more + sizeof more / sizeof more[0]); }
    else {
      int ks[] = { L::min_exponent - 1, L::min_exponent, L::min_exponent + p, -p, -p / 2, -2, -1, 1, 2, 7, 8, 15, 16, p - 1, p + 1, 30, 33, 62, 65, 100, L::max_exponent - 2, L::max_exponent - 1 };
      for (size_t i = 0; i < sizeof ks / sizeof ks[0]; ++i) {
        T v = std::ldexp(T(1), ks[i]);
        all.push_back(v); all.push_back(-v); all.push_back(v * (T(1) + L::epsilon())); all.push_back(-(v * (T(1) + L::epsilon())));
        T w = v * (T(2) - L::epsilon()); if (w <= L::max()) { all.push_back(w); all.push_back(-w); }
      }
    }
  }
  src = &all[0]; n = all.size();
  for (size_t i = 0; i < n; ++i) {
    bool dup = false;
    for (size_t k = 0; k < out.size(); ++k)
      if (memcmp(&out[k], &src[i], sizeof(T) == 16 ? 10 : sizeof(T)) == 0) dup = true;
    if (!dup) out.push_back(src[i]);
  }
  return out;
}
template <class T> inline Alpha<T> flt_alpha(bool small16 = false) {
  Alpha<T> a; std::vector<T> r = flt_raws<T>(small16);
  for (size_t i = 0; i < r.size(); ++i) { Ent<T> e; e.raw = r[i]; e.xv = decode(r[i], true, true); a.v.push_back(e); }
  return a;
}

// ---- mpz / mpq alphabets (~20 values + specials)
template <class FromP> inline Alpha<mpz_class> mpz_alpha(bool small16 = false) {
  Alpha<mpz_class> a; mpz_class one(1);
  std::vector<mpz_class> r;
  long s[] = {0, 1, -1, 2, -2, 3, 7, -7, 10, 100, -100};
  for (size_t i = 0; i < sizeof s / sizeof s[0]; ++i) r.push_back(mpz_class(s[i]));
  if (!small16) { r.push_back((one << 31) - 1); r.push_back(one << 31); r.push_back(-(one << 31)); r.push_back(one << 32); r.push_back((one << 63) - 1); }
  r.push_back(one << 63); r.push_back(-(one << 63) - 1);
  if (!small16) { r.push_back(-(one << 63)); r.push_back((one << 64) - 1); r.push_back(one << 64); r.push_back((one << 64) + 1); r.push_back(one << 100); }
  mpz_class t; mpz_ui_pow_ui(t.get_mpz_t(), 10, 30); r.push_back(t); if (!small16) r.push_back(-t);
  for (size_t i = 0; i < r.size(); ++i) { Ent<mpz_class> e; e.raw = r[i]; e.xv = XVal(mpq_class(r[i])); a.v.push_back(e); }
  if (FromP::has_infinity) { Ent<mpz_class> e; e.raw = 0; e.xv = XVal(K_PINF); a.v.push_back(e); e.xv = XVal(K_MINF); a.v.push_back(e); }
  if (FromP::has_nan) { Ent<mpz_class> e; e.raw = 0; e.xv = XVal(K_NAN); a.v.push_back(e); }
  return a;
}
template <class FromP> inline Alpha<mpq_class> mpq_alpha(bool small16 = false) {
  Alpha<mpq_class> a; mpz_class one(1);
  std::vector<mpq_class> r;
  long s[][2] = {{0, 1}, {1, 1}, {-1, 1}, {1, 2}, {-1, 2}, {1, 3}, {-1, 3}, {2, 3}, {3, 2}, {-7, 2}, {5, 3}, {7, 1}, {100, 1}, {1, 100}, {2, 1}, {4, 1}, {9, 4}, {1, 4}, {2, 9}};
  size_t ns = sizeof s / sizeof s[0]; if (small16) ns = 11;
  for (size_t i = 0; i < ns; ++i) r.push_back(mpq_class(s[i][0], s[i][1]));
  r.push_back(mpq_class(one << 64)); r.push_back(mpq_class(one, one << 64));
  if (!small16) {
    mpq_class q((one << 64) + 1, 3); q.canonicalize(); r.push_back(q);
    mpz_class t; mpz_ui_pow_ui(t.get_mpz_t(), 10, 30); mpq_class u(t, 7); u.canonicalize(); r.push_back(u);
    mpz_ui_pow_ui(t.get_mpz_t(), 10, 20); r.push_back(mpq_class(-t));
  }
  for (size_t i = 0; i < r.size(); ++i) { Ent<mpq_class> e; e.raw = r[i]; e.xv = XVal(r[i]); a.v.push_back(e); }
  if (FromP::has_infinity) { Ent<mpq_class> e; e.raw = 0; e.xv = XVal(K_PINF); a.v.push_back(e); e.xv = XVal(K_MINF); a.v.push_back(e); }
  if (FromP::has_nan) { Ent<mpq_class> e; e.raw = 0; e.xv = XVal(K_NAN); a.v.push_back(e); }
  return a;
}

template <class T, class FromP, TClass C = TI<T>::cls> struct AlphaOf;
template <class T, class FromP> struct AlphaOf<T, FromP, TC_SINT> { static Alpha<T> make(bool s16) { return int_alpha<T, FromP>(s16); } };
template <class T, class FromP> struct AlphaOf<T, FromP, TC_UINT> { static Alpha<T> make(bool s16) { return int_alpha<T, FromP>(s16); } };
template <class T, class FromP> struct AlphaOf<T, FromP, TC_FLT> { static Alpha<T> make(bool s16) { return flt_alpha<T>(s16); } };
template <class FromP> struct AlphaOf<mpz_class, FromP, TC_MPZ> { static Alpha<mpz_class> make(bool s16) { return mpz_alpha<FromP>(s16); } };
template <class FromP> struct AlphaOf<mpq_class, FromP, TC_MPQ> { static Alpha<mpq_class> make(bool s16) { return mpq_alpha<FromP>(s16); } };

inline std::vector<unsigned> exps_for(TClass c, int bits) {
  std::vector<unsigned> e;
  if (c == TC_SINT || c == TC_UINT) { unsigned b = bits; unsigned v[] = {0, 1, 2, 3, b / 2, b - 2, b - 1, b, b + 1, 2 * b}; e.assign(v, v + 10); }
  else if (c == TC_FLT) { unsigned v[] = {0, 1, 2, 3, 10, 31, 52, 63}; e.assign(v, v + 8); }
  else { unsigned v[] = {0, 1, 2, 3, 31, 64, 100}; e.assign(v, v + 7); }
  std::vector<unsigned> u;
  for (size_t i = 0; i < e.size(); ++i) { bool d = false; for (size_t k = 0; k < u.size(); ++k) if (u[k] == e[i]) d = true; if (!d) u.push_back(e[i]); }
  return u;
}

// operation sets
enum { OPS_IDIV = 1, OPS_GCD = 2, OPS_GCDEXT = 4, OPS_ROUNDINT = 8 };
template <class T> struct OpSet;
#define C11_OPSET(T, V) template <> struct OpSet<T> { static const unsigned v = V; };
C11_OPSET(signed char, 15) C11_OPSET(unsigned char, 15) C11_OPSET(short, 15) C11_OPSET(unsigned short, 15) C11_OPSET(int, 15) C11_OPSET(unsigned int, 15)
C11_OPSET(long, 15) C11_OPSET(unsigned long, 15) C11_OPSET(long long, 15) C11_OPSET(unsigned long long, 15)
C11_OPSET(float, OPS_GCD | OPS_ROUNDINT) C11_OPSET(double, OPS_GCD | OPS_ROUNDINT) C11_OPSET(long double, OPS_GCD | OPS_ROUNDINT)
// gcdext_assign_r<mpz_class> does not compile (gcdext_mpz has 3 policy parameters, the dispatcher passes 5)
C11_OPSET(mpz_class, OPS_IDIV | OPS_GCD | OPS_ROUNDINT) C11_OPSET(mpq_class, OPS_IDIV | OPS_ROUNDINT)

template <bool B> struct BoolTag {};

// ---- one checked call
#define C11_CALL_HEAD(OPNAME, EXACT)                                                               \
  ctx.op = OPNAME; cur().op = OPNAME; const Exact E = EXACT;                                        \
  for (int di = 0; di < 8; ++di) {                                                                  \
    ctx.dir = DIRS[di].v; cur().dir = ctx.dir;                                                      \
    if (!legal(D, E, ctx.dir, nan_by_fpu)) { ++local().skipped; continue; }                         \
    if (!filter_match(ctx)) continue;

#define C11_CALL_TAIL(CALL)                                                                         \
    unsigned r = (unsigned)(CALL);                                                                  \
    verdict(ctx, D, E, r, decode(WT::raw(to), WT::ToP::has_infinity, WT::ToP::has_nan));            \
  }

template <class WT> struct Runner {
  typedef typename WT::W W; typedef typename WT::Raw T;
  typedef std::shared_ptr<Alpha<T> > AP;

  static CaseCtx mkctx() { CaseCtx c; c.type = TI<T>::name(); c.policy = WT::pname(); c.dcls = TI<T>::cls; c.scls = TI<T>::cls; c.dbits = TI<T>::bits; return c; }
  static const bool nan_by_fpu = (TI<T>::cls == TC_FLT);

  // ------------------------------------------------ unary group: assign floor ceil trunc neg abs sqrt
  static void unary(AP A, long long lo, long long hi, long long sub_start) {
    const DestInfo D = dest_info<T, typename WT::ToP>(); CaseCtx ctx = mkctx();
    for (long long sub = lo; sub < hi; ++sub) {
      if (!vf::pool().want(sub, sub_start)) continue;
      vf::pool().step(sub);
      const Ent<T>& ex = (*A)[sub]; W x; put(WT::raw(x), ex); ctx.x = &ex.xv;
      { C11_CALL_HEAD("assign", ex_assign(ex.xv)) W to = W(); C11_CALL_TAIL(PPL::assign_r(to, x, (Rounding_Dir)ctx.dir)) }
      { C11_CALL_HEAD("neg", ex_neg(ex.xv)) W to = W(); C11_CALL_TAIL(PPL::neg_assign_r(to, x, (Rounding_Dir)ctx.dir)) }
      { C11_CALL_HEAD("abs", ex_abs(ex.xv)) W to = W(); C11_CALL_TAIL(PPL::abs_assign_r(to, x, (Rounding_Dir)ctx.dir)) }
      { C11_CALL_HEAD("sqrt", ex_sqrt(ex.xv)) W to = W(); C11_CALL_TAIL(PPL::sqrt_assign_r(to, x, (Rounding_Dir)ctx.dir)) }
      { C11_CALL_HEAD("floor", ex_floor(ex.xv)) W to = W(); C11_CALL_TAIL(PPL::floor_assign_r(to, x, (Rounding_Dir)ctx.dir)) }
      { C11_CALL_HEAD("ceil", ex_ceil(ex.xv)) W to = W(); C11_CALL_TAIL(PPL::ceil_assign_r(to, x, (Rounding_Dir)ctx.dir)) }
      { C11_CALL_HEAD("trunc", ex_trunc(ex.xv)) W to = W(); C11_CALL_TAIL(PPL::trunc_assign_r(to, x, (Rounding_Dir)ctx.dir)) }
      // in-place variant (to aliases the operand)
      { C11_CALL_HEAD("neg(in-place)", ex_neg(ex.xv)) W to = W(); put(WT::raw(to), ex); C11_CALL_TAIL(PPL::neg_assign_r(to, to, (Rounding_Dir)ctx.dir)) }
      { C11_CALL_HEAD("sqrt(in-place)", ex_sqrt(ex.xv)) W to = W(); put(WT::raw(to), ex); C11_CALL_TAIL(PPL::sqrt_assign_r(to, to, (Rounding_Dir)ctx.dir)) }
    }
  }

  // ------------------------------------------------ 2exp group
  static void twoexp(AP A, std::vector<unsigned> EX, long long lo, long long hi, long long sub_start) {
    const DestInfo D = dest_info<T, typename WT::ToP>(); CaseCtx ctx = mkctx(); ctx.has_exp = true;
    const long long ne = (long long)EX.size();
    for (long long sub = lo; sub < hi; ++sub) {
      if (!vf::pool().want(sub, sub_start)) continue;
      vf::pool().step(sub);
      const Ent<T>& ex = (*A)[sub / ne]; const unsigned e = EX[sub % ne]; W x; put(WT::raw(x), ex); ctx.x = &ex.xv; ctx.exp = e;
      { C11_CALL_HEAD("add_2exp", ex_add_2exp(ex.xv, e)) W to = W(); C11_CALL_TAIL(PPL::add_2exp_assign_r(to, x, e, (Rounding_Dir)ctx.dir)) }
      { C11_CALL_HEAD("sub_2exp", ex_sub_2exp(ex.xv, e)) W to = W(); C11_CALL_TAIL(PPL::sub_2exp_assign_r(to, x, e, (Rounding_Dir)ctx.dir)) }
      { C11_CALL_HEAD("mul_2exp", ex_mul_2exp(ex.xv, e)) W to = W(); C11_CALL_TAIL(PPL::mul_2exp_assign_r(to, x, e, (Rounding_Dir)ctx.dir)) }
      { C11_CALL_HEAD("div_2exp", ex_div_2exp(ex.xv, e)) W to = W(); C11_CALL_TAIL(PPL::div_2exp_assign_r(to, x, e, (Rounding_Dir)ctx.dir)) }
      { C11_CALL_HEAD("div_2exp(in-place)", ex_div_2exp(ex.xv, e)) W to = W(); put(WT::raw(to), ex); C11_CALL_TAIL(PPL::div_2exp_assign_r(to, to, e, (Rounding_Dir)ctx.dir)) }
      { C11_CALL_HEAD("umod_2exp", ex_umod_2exp(ex.xv, e)) W to = W(); C11_CALL_TAIL(PPL::umod_2exp_assign_r(to, x, e, (Rounding_Dir)ctx.dir)) }
      if (e >= 1) {   // x smod 2^0 is not a meaningful request (the integer code shifts by exp - 1)
        C11_CALL_HEAD("smod_2exp", ex_smod_2exp(ex.xv, e)) W to = W(); C11_CALL_TAIL(PPL::smod_2exp_assign_r(to, x, e, (Rounding_Dir)ctx.dir)) }
    }
  }

  // ------------------------------------------------ binary group
  static void idiv_part(BoolTag<false>, const DestInfo&, CaseCtx&, W&, W&, const Ent<T>&, const Ent<T>&) {}
  static void idiv_part(BoolTag<true>, const DestInfo& D, CaseCtx& ctx, W& x, W& y, const Ent<T>& ex, const Ent<T>& ey) {
    { C11_CALL_HEAD("idiv", ex_idiv(ex.xv, ey.xv)) W to = W(); C11_CALL_TAIL(PPL::idiv_assign_r(to, x, y, (Rounding_Dir)ctx.dir)) }
  }
  static bool gcd_operand_ok(const XVal& v) { return v.nan() || (v.fin() && is_int_q(v.q)); }
  static void gcd_part(BoolTag<false>, const DestInfo&, CaseCtx&, W&, W&, const Ent<T>&, const Ent<T>&) {}
  static void gcd_part(BoolTag<true>, const DestInfo& D, CaseCtx& ctx, W& x, W& y, const Ent<T>& ex, const Ent<T>& ey) {
    if (!gcd_operand_ok(ex.xv) || !gcd_operand_ok(ey.xv)) return;
    { C11_CALL_HEAD("gcd", ex_gcd(ex.xv, ey.xv)) W to = W(); C11_CALL_TAIL(PPL::gcd_assign_r(to, x, y, (Rounding_Dir)ctx.dir)) }
    { C11_CALL_HEAD("lcm", ex_lcm(ex.xv, ey.xv)) W to = W(); C11_CALL_TAIL(PPL::lcm_assign_r(to, x, y, (Rounding_Dir)ctx.dir)) }
  }
  static void gcdext_part(BoolTag<false>, const DestInfo&, CaseCtx&, W&, W&, const Ent<T>&, const Ent<T>&) {}
  static void gcdext_part(BoolTag<true>, const DestInfo& D, CaseCtx& ctx, W& x, W& y, const Ent<T>& ex, const Ent<T>& ey) {
    if (!gcd_operand_ok(ex.xv) || !gcd_operand_ok(ey.xv)) return;
    ctx.op = "gcdext"; const Exact E = ex_gcd(ex.xv, ey.xv);
    for (int di = 0; di < 8; ++di) {
      ctx.dir = DIRS[di].v;
      if (!legal(D, E, ctx.dir, nan_by_fpu)) { ++local().skipped; continue; }
      if (!filter_match(ctx)) continue;
      W to = W(), s = W(), t = W();
      unsigned r = (unsigned)PPL::gcdext_assign_r(to, s, t, x, y, (Rounding_Dir)ctx.dir);
      XVal S = decode(WT::raw(to), WT::ToP::has_infinity, WT::ToP::has_nan);
      if (!E.defined() || r == 1u) {
        verdict(ctx, D, E, r, S);
        if (E.defined() && r == 1u && S.fin() && !filter().on && TI<T>::cls != TC_UINT) {   // Bezout coefficients are signed
          XVal sv = decode(WT::raw(s), WT::ToP::has_infinity, WT::ToP::has_nan), tv = decode(WT::raw(t), WT::ToP::has_infinity, WT::ToP::has_nan);
          if (!sv.fin() || !tv.fin() || sv.q * ex.xv.q + tv.q * ey.xv.q != S.q)
            report(ctx, E, r, S, "gcdext:bezout-identity-false", " s=" + sv.str() + " t=" + tv.str());
        }
      } else {
        ++local().calls;
        bool excuse = false;   // |x| or |y| not representable: an overflow report is legitimate
        for (size_t i = 0; i < E.interm.size(); ++i) if (!D.representable_q(E.interm[i])) excuse = true;
        if (!excuse && !filter().on) report(ctx, E, r, S, "gcdext:non-exact-result-without-cause");
      }
    }
  }
  static void binary(AP A, long long lo, long long hi, long long sub_start) {
    const DestInfo D = dest_info<T, typename WT::ToP>(); CaseCtx ctx = mkctx();
    const long long n = (long long)A->size();
    for (long long sub = lo; sub < hi; ++sub) {
      if (!vf::pool().want(sub, sub_start)) continue;
      vf::pool().step(sub);
      const Ent<T>& ex = (*A)[sub / n]; const Ent<T>& ey = (*A)[sub % n];
      W x, y; put(WT::raw(x), ex); put(WT::raw(y), ey); ctx.x = &ex.xv; ctx.y = &ey.xv;
      { C11_CALL_HEAD("add", ex_add(ex.xv, ey.xv)) W to = W(); C11_CALL_TAIL(PPL::add_assign_r(to, x, y, (Rounding_Dir)ctx.dir)) }
      { C11_CALL_HEAD("sub", ex_sub(ex.xv, ey.xv)) W to = W(); C11_CALL_TAIL(PPL::sub_assign_r(to, x, y, (Rounding_Dir)ctx.dir)) }
      { C11_CALL_HEAD("mul", ex_mul(ex.xv, ey.xv)) W to = W(); C11_CALL_TAIL(PPL::mul_assign_r(to, x, y, (Rounding_Dir)ctx.dir)) }
      { C11_CALL_HEAD("div", ex_div(ex.xv, ey.xv)) W to = W(); C11_CALL_TAIL(PPL::div_assign_r(to, x, y, (Rounding_Dir)ctx.dir)) }
      { C11_CALL_HEAD("rem", ex_rem(ex.xv, ey.xv)) W to = W(); C11_CALL_TAIL(PPL::rem_assign_r(to, x, y, (Rounding_Dir)ctx.dir)) }
      // in-place: to aliases the first operand
      { C11_CALL_HEAD("add(in-place)", ex_add(ex.xv, ey.xv)) W to = W(); put(WT::raw(to), ex); C11_CALL_TAIL(PPL::add_assign_r(to, to, y, (Rounding_Dir)ctx.dir)) }
      { C11_CALL_HEAD("div(in-place)", ex_div(ex.xv, ey.xv)) W to = W(); put(WT::raw(to), ex); C11_CALL_TAIL(PPL::div_assign_r(to, to, y, (Rounding_Dir)ctx.dir)) }
      idiv_part(BoolTag<(OpSet<T>::v & OPS_IDIV) != 0>(), D, ctx, x, y, ex, ey);
      gcd_part(BoolTag<(OpSet<T>::v & OPS_GCD) != 0>(), D, ctx, x, y, ex, ey);
      gcdext_part(BoolTag<(OpSet<T>::v & OPS_GCDEXT) != 0>(), D, ctx, x, y, ex, ey);
    }
  }

  // ------------------------------------------------ fused group: to (+|-)= x*y over all triples of a 16-value alphabet
  static void fused(AP A, long long lo, long long hi, long long sub_start) {
    const DestInfo D = dest_info<T, typename WT::ToP>(); CaseCtx ctx = mkctx();
    const long long n = (long long)A->size();
    for (long long sub = lo; sub < hi; ++sub) {
      if (!vf::pool().want(sub, sub_start)) continue;
      vf::pool().step(sub);
      const Ent<T>& ez = (*A)[sub / (n * n)]; const Ent<T>& ex = (*A)[(sub / n) % n]; const Ent<T>& ey = (*A)[sub % n];
      W x, y; put(WT::raw(x), ex); put(WT::raw(y), ey); ctx.x = &ex.xv; ctx.y = &ey.xv; ctx.z = &ez.xv;
      { C11_CALL_HEAD("add_mul", ex_fused(ez.xv, ex.xv, ey.xv, true)) W to = W(); put(WT::raw(to), ez); C11_CALL_TAIL(PPL::add_mul_assign_r(to, x, y, (Rounding_Dir)ctx.dir)) }
      { C11_CALL_HEAD("sub_mul", ex_fused(ez.xv, ex.xv, ey.xv, false)) W to = W(); put(WT::raw(to), ez); C11_CALL_TAIL(PPL::sub_mul_assign_r(to, x, y, (Rounding_Dir)ctx.dir)) }
    }
  }

  // ------------------------------------------------ predicates: sgn cmp is_integer is_not_a_number is_*_infinity classify
  static void pred_fail(CaseCtx& ctx, const char* what, const std::string& got, const std::string& want) {
    ctx.op = what; ctx.dir = 6u;
    std::string site = site_of(ctx), clause = std::string("pred:") + what + "-wrong";
    if (!vf::violcap().admit(site + "|" + clause)) return;
    vf::report_violation(site, clause, "none", input_json(ctx), got, want, "");
  }
  static void preds(AP A, long long lo, long long hi, long long sub_start) {
    CaseCtx ctx = mkctx();
    const long long n = (long long)A->size();
    const bool hi_ = WT::FromP::has_infinity, hn = WT::FromP::has_nan;
    for (long long sub = lo; sub < hi; ++sub) {
      if (!vf::pool().want(sub, sub_start)) continue;
      vf::pool().step(sub);
      const Ent<T>& ex = (*A)[sub / n]; const Ent<T>& ey = (*A)[sub % n];
      W x, y; put(WT::raw(x), ex); put(WT::raw(y), ey); ctx.x = &ex.xv; ctx.y = &ey.xv;
      if (filter().on) continue;
      { // cmp
        int got = 99; try { got = PPL::cmp(x, y); } catch (int) { got = 2; } catch (...) { got = 98; }
        int want = (ex.xv.nan() || ey.xv.nan()) ? 2 : (ex.xv.kind != K_FIN || ey.xv.kind != K_FIN)
                   ? (ex.xv.kind == ey.xv.kind ? 0 : ((ex.xv.kind == K_PINF || ey.xv.kind == K_MINF) ? 1 : -1)) : (cmp(ex.xv.q, ey.xv.q) > 0 ? 1 : (cmp(ex.xv.q, ey.xv.q) < 0 ? -1 : 0));
        ++local().pred;
        if (got != want) pred_fail(ctx, "cmp", std::to_string(got), std::to_string(want) + " (2 = not comparable, thrown)");
      }
      if (sub % n == 0) {
        ctx.y = 0;
        int got = 99; try { got = PPL::sgn(x); } catch (int) { got = 2; } catch (...) { got = 98; }
        int want = ex.xv.nan() ? 2 : ex.xv.sign();
        ++local().pred; if (got != want) pred_fail(ctx, "sgn", std::to_string(got), std::to_string(want));
        bool g;
        g = PPL::is_not_a_number(x); ++local().pred; if (g != (hn && ex.xv.nan())) pred_fail(ctx, "is_not_a_number", g ? "true" : "false", ex.xv.nan() ? "true" : "false");
        g = PPL::is_minus_infinity(x); ++local().pred; if (g != (hi_ && ex.xv.kind == K_MINF)) pred_fail(ctx, "is_minus_infinity", g ? "true" : "false", "decoded " + ex.xv.str());
        g = PPL::is_plus_infinity(x); ++local().pred; if (g != (hi_ && ex.xv.kind == K_PINF)) pred_fail(ctx, "is_plus_infinity", g ? "true" : "false", "decoded " + ex.xv.str());
        if (!ex.xv.inf()) { g = PPL::is_integer(x); ++local().pred; bool w = ex.xv.fin() && is_int_q(ex.xv.q);
          if (g != w) pred_fail(ctx, "is_integer", g ? "true" : "false", w ? "true" : "false"); }
        ctx.y = &ey.xv;
      }
    }
  }

  static void add_cell(const char* group, int nops, int ndirs, long long nsub,
                       std::function<void(long long, long long, long long)> run, std::function<Cell::Operands(long long)> ops) {
    Cell c; c.type = TI<T>::name(); c.policy = WT::pname(); c.group = group; c.fam = Fam<T>::v; c.nsub = nsub; c.nops = nops; c.ndirs = ndirs;
    c.dcls = TI<T>::cls; c.scls = TI<T>::cls; c.dbits = TI<T>::bits; c.to_type = TI<T>::name();
    c.run = run; c.operands = ops;
    c.describe = [ops](long long s) { Cell::Operands o = ops(s); std::string d;
      if (o.hz) d += "to=" + o.z.str() + " "; if (o.hx) d += "x=" + o.x.str(); if (o.hy) d += " y=" + o.y.str(); if (o.he) d += " exp=" + std::to_string(o.exp); return d; };
    cells().push_back(c);
  }
  static void register_all() {
    AP A(new Alpha<T>(AlphaOf<T, typename WT::FromP>::make(false)));
    AP A16(new Alpha<T>(AlphaOf<T, typename WT::FromP>::make(true)));
    std::vector<unsigned> EX = exps_for(TI<T>::cls, TI<T>::bits);
    const long long n = (long long)A->size(), n16 = (long long)A16->size(), ne = (long long)EX.size();
    using namespace std::placeholders;
    add_cell("unary", 9, 8, n, std::bind(&Runner::unary, A, _1, _2, _3),
             [A](long long s) { Cell::Operands o; o.hx = true; o.x = (*A)[s].xv; return o; });
    add_cell("2exp", 7, 8, n * ne, std::bind(&Runner::twoexp, A, EX, _1, _2, _3),
             [A, EX, ne](long long s) { Cell::Operands o; o.hx = true; o.x = (*A)[s / ne].xv; o.he = true; o.exp = EX[s % ne]; return o; });
    int nbin = 7 + ((OpSet<T>::v & OPS_IDIV) ? 1 : 0) + ((OpSet<T>::v & OPS_GCD) ? 2 : 0) + ((OpSet<T>::v & OPS_GCDEXT) ? 1 : 0);
    add_cell("binary", nbin, 8, n * n, std::bind(&Runner::binary, A, _1, _2, _3),
             [A, n](long long s) { Cell::Operands o; o.hx = o.hy = true; o.x = (*A)[s / n].xv; o.y = (*A)[s % n].xv; return o; });
    add_cell("fused", 2, 8, n16 * n16 * n16, std::bind(&Runner::fused, A16, _1, _2, _3),
             [A16, n16](long long s) { Cell::Operands o; o.hx = o.hy = o.hz = true; o.z = (*A16)[s / (n16 * n16)].xv; o.x = (*A16)[(s / n16) % n16].xv; o.y = (*A16)[s % n16].xv; return o; });
    add_cell("predicates", 6, 1, n * n, std::bind(&Runner::preds, A, _1, _2, _3),
             [A, n](long long s) { Cell::Operands o; o.hx = o.hy = true; o.x = (*A)[s / n].xv; o.y = (*A)[s % n].xv; return o; });
  }
};

// ------------------------------------------------ conversions: assign_r(To, From) and construct(To, From)
// rational -> floating point: additional sources in the denormal range of the destination and around its smallest
// normal number: {1,3,5,7,-1,-5} / ({7,3,5,1} * 2^k), k from 6 below -log2(min) to 6 beyond -log2(denorm_min),
// plus the same family around the largest finite number (n * 2^k / d)
template <class TT, class FT, TClass CT = TI<TT>::cls, TClass CF = TI<FT>::cls> struct ConvExtra {
  static void add(Alpha<FT>&) {}
};
template <class TT> struct ConvExtra<TT, mpq_class, TC_FLT, TC_MPQ> {
  static void add(Alpha<mpq_class>& a) {
    typedef std::numeric_limits<TT> L;
    const int dens[] = {7, 3, 5, 1}, nums[] = {1, 3, 5, 7, -1, -5};
    const int k0 = -L::min_exponent - 5, k1 = -L::min_exponent + L::digits + 6;
    for (int k = k0; k <= k1; ++k) for (int di = 0; di < 4; ++di) for (int ni = 0; ni < 6; ++ni) {
      mpz_class den(dens[di]); den <<= k; mpq_class q(mpz_class(nums[ni]), den); q.canonicalize();
      Ent<mpq_class> e; e.raw = q; e.xv = XVal(q); a.v.push_back(e);
    }
    for (int k = L::max_exponent - 4; k <= L::max_exponent + 2; ++k) for (int di = 0; di < 3; ++di) for (int ni = 0; ni < 6; ++ni) {
      mpz_class num(nums[ni]); num <<= k; mpq_class q(num, mpz_class(dens[di])); q.canonicalize();
      Ent<mpq_class> e; e.raw = q; e.xv = XVal(q); a.v.push_back(e);
    }
  }
};

template <class WTo, class WFrom, bool WithConstruct> struct Conv {
  typedef typename WTo::W TW; typedef typename WTo::Raw TT; typedef typename WFrom::W FW; typedef typename WFrom::Raw FT;
  typedef std::shared_ptr<Alpha<FT> > AP;
  static void construct_part(BoolTag<false>, const DestInfo&, CaseCtx&, const Exact&, FW&, bool) {}
  static void construct_part(BoolTag<true>, const DestInfo& D, CaseCtx& ctx, const Exact& E, FW& x, bool nan_by_fpu) {
    ctx.op = "construct";
    for (int di = 0; di < 8; ++di) {
      ctx.dir = DIRS[di].v;
      if (!legal(D, E, ctx.dir, nan_by_fpu)) { ++local().skipped; continue; }
      if (!filter_match(ctx)) continue;
      union U { char buf[sizeof(TW)]; long double align; } u;
      TW* to = reinterpret_cast<TW*>(u.buf);
      unsigned r = (unsigned)PPL::construct(*to, x, (Rounding_Dir)ctx.dir);
      verdict(ctx, D, E, r, decode(WTo::raw(*to), WTo::ToP::has_infinity, WTo::ToP::has_nan));
      to->~TW();
    }
  }
  static void run(AP A, long long lo, long long hi, long long sub_start) {
    const DestInfo D = dest_info<TT, typename WTo::ToP>();
    CaseCtx ctx; ctx.type = TI<TT>::name(); ctx.policy = WTo::pname(); ctx.dcls = TI<TT>::cls; ctx.scls = TI<FT>::cls; ctx.from_type = TI<FT>::name(); ctx.dbits = TI<TT>::bits;
    const bool nan_by_fpu = (TI<TT>::cls == TC_FLT && TI<FT>::cls == TC_FLT);
    for (long long sub = lo; sub < hi; ++sub) {
      if (!vf::pool().want(sub, sub_start)) continue;
      vf::pool().step(sub);
      const Ent<FT>& ex = (*A)[sub]; FW x; put(WFrom::raw(x), ex); ctx.x = &ex.xv;
      const Exact E = ex_assign(ex.xv);
      ctx.op = "assign";
      for (int di = 0; di < 8; ++di) {
        ctx.dir = DIRS[di].v;
        if (!legal(D, E, ctx.dir, nan_by_fpu)) { ++local().skipped; continue; }
        if (!filter_match(ctx)) continue;
        TW to = TW();
        unsigned r = (unsigned)PPL::assign_r(to, x, (Rounding_Dir)ctx.dir);
        verdict(ctx, D, E, r, decode(WTo::raw(to), WTo::ToP::has_infinity, WTo::ToP::has_nan));
      }
      construct_part(BoolTag<WithConstruct>(), D, ctx, E, x, nan_by_fpu);
    }
  }
  static void reg() {
    AP A(new Alpha<FT>(AlphaOf<FT, typename WFrom::FromP>::make(false)));
    ConvExtra<TT, FT>::add(*A);
    Cell c; c.type = std::string(TI<TT>::name()) + "<-" + TI<FT>::name(); c.policy = std::string(WTo::pname()) + "<-" + WFrom::pname();
    c.group = "conversion"; c.fam = FAM_CONV; c.nsub = (long long)A->size(); c.nops = WithConstruct ? 2 : 1; c.ndirs = 8;
    using namespace std::placeholders;
    c.run = std::bind(&Conv::run, A, _1, _2, _3);
    c.describe = [A](long long s) { return "x=" + (*A)[s].xv.str(); };
    c.operands = [A](long long s) { Cell::Operands o; o.hx = true; o.x = (*A)[s].xv; return o; };
    c.dcls = TI<TT>::cls; c.scls = TI<FT>::cls; c.is_conv = true; c.dbits = TI<TT>::bits; c.to_type = TI<TT>::name(); c.from_type = TI<FT>::name();
    cells().push_back(c);
  }
};

} // namespace c11
#endif

// C17: argument / guard menus.  Constants are written relative to H = 2^(w-1) as h*H + r, so that the
// same menu is placed around the boundaries of every width (for w = 8: 256 = {2,0}, 255 = {2,-1},
// -128 = {-1,0}, 127 = {1,-1}, 300 = {2,44}).
#ifndef VERIF_C17_MENU_HH
#define VERIF_C17_MENU_HH 1
#include "harness/c17_common.hh"

namespace c17 {

struct KC { long h, r; KC(long h_ = 0, long r_ = 0) : h(h_), r(r_) {} KC operator-() const { return KC(-h, -r); } };
inline Z pow2(int k) { Z r = 1; r <<= k; return r; }
inline Z kval(const KC& c, int w) { return Z(c.h) * pow2(w - 1) + Z(c.r); }

struct SCon { long a[3]; KC c; int k; };            // a.x + c  {=,>=,>}  0
struct SCong { long a[3]; KC c; KC m; };            // a.x + c == 0 (mod m)    (m = 0: equality)
typedef std::vector<SCon> SCell;

struct ArgSpec {
  std::string name; int n;
  std::vector<SCell> disj;          // >= 1 disjuncts; simple domains use disj[0]
  std::vector<SCong> congs;         // grids, products
  bool wide;                        // extent proportional to 2^w (skipped for the wide widths when too many points)
  bool heavy;                       // many integer points: thorough tier only
  ArgSpec() : n(2), wide(false), heavy(false) {}
};

inline SCon mk(long ax, long ay, long az, KC c, int k) { SCon s; s.a[0] = ax; s.a[1] = ay; s.a[2] = az; s.c = c; s.k = k; return s; }
// ax*x + ay*y >= c   etc.
inline SCon GE2(long ax, long ay, KC c) { return mk(ax, ay, 0, -c, ref::GE); }
inline SCon LE2(long ax, long ay, KC c) { return mk(-ax, -ay, 0, c, ref::GE); }
inline SCon GT2(long ax, long ay, KC c) { return mk(ax, ay, 0, -c, ref::GT); }
inline SCon LT2(long ax, long ay, KC c) { return mk(-ax, -ay, 0, c, ref::GT); }
inline SCon EQ2(long ax, long ay, KC c) { return mk(ax, ay, 0, -c, ref::EQ); }
inline SCon GE3(long ax, long ay, long az, KC c) { return mk(ax, ay, az, -c, ref::GE); }
inline SCon LE3(long ax, long ay, long az, KC c) { return mk(-ax, -ay, -az, c, ref::GE); }
inline SCon EQ3(long ax, long ay, long az, KC c) { return mk(ax, ay, az, -c, ref::EQ); }

inline SCell box2(KC xl, KC xh, KC yl, KC yh) {
  SCell c; c.push_back(GE2(1, 0, xl)); c.push_back(LE2(1, 0, xh)); c.push_back(GE2(0, 1, yl)); c.push_back(LE2(0, 1, yh)); return c;
}
inline SCell operator+(SCell a, const SCon& b) { a.push_back(b); return a; }

inline ArgSpec A(const std::string& nm, const SCell& c, bool wide = false, bool heavy = false, int n = 2) {
  ArgSpec a; a.name = nm; a.n = n; a.disj.push_back(c); a.wide = wide; a.heavy = heavy; return a;
}

// ---------------------------------------------------------------------------------------------------
// arguments of wrap_assign for the constraint-described domains (dimension 2, a few of dimension 3)
inline std::vector<ArgSpec> wrap_menu() {
  std::vector<ArgSpec> m;
  const KC O(0, 0);
  // boxes
  m.push_back(A("x[250,260] y[0,3]", box2(KC(2, -6), KC(2, 4), O, KC(0, 3))));
  m.push_back(A("x[-3,300] y[0,2]", box2(KC(0, -3), KC(2, 44), O, KC(0, 2)), true));
  m.push_back(A("x[0,255] y[0,1]", box2(O, KC(2, -1), O, KC(0, 1)), true));
  m.push_back(A("x[0,256] y[0,1]", box2(O, KC(2, 0), O, KC(0, 1)), true));
  m.push_back(A("x[-128,127] y[-1,1]", box2(KC(-1, 0), KC(1, -1), KC(0, -1), KC(0, 1)), true));
  m.push_back(A("x[-128,128] y=0", box2(KC(-1, 0), KC(1, 0), O, O), true));
  m.push_back(A("x[-129,127] y[0,1]", box2(KC(-1, -1), KC(1, -1), O, KC(0, 1)), true));
  m.push_back(A("x[3,259] y[3,259]-thin", box2(KC(0, 3), KC(2, 3), KC(2, 2), KC(2, 3)), true));
  m.push_back(A("x=256 y[0,2]", box2(KC(2, 0), KC(2, 0), O, KC(0, 2))));
  m.push_back(A("pt(255,256)", box2(KC(2, -1), KC(2, -1), KC(2, 0), KC(2, 0))));
  m.push_back(A("pt(-128,127)", box2(KC(-1, 0), KC(-1, 0), KC(1, -1), KC(1, -1))));
  m.push_back(A("pt(128,-129)", box2(KC(1, 0), KC(1, 0), KC(-1, -1), KC(-1, -1))));
  m.push_back(A("pt(0,-1)", box2(O, O, KC(0, -1), KC(0, -1))));
  m.push_back(A("pt(-256,512)", box2(KC(-2, 0), KC(-2, 0), KC(4, 0), KC(4, 0))));
  m.push_back(A("pt(200,-200)", box2(KC(2, -56), KC(2, -56), KC(-2, 56), KC(-2, 56))));
  m.push_back(A("x[100,700] y[0,1]", box2(KC(0, 100), KC(4, 188), O, KC(0, 1)), true));
  m.push_back(A("x[-300,-100] y[5,6]", box2(KC(-2, -44), KC(0, -100), KC(0, 5), KC(0, 6)), true));
  m.push_back(A("x[250,260] y[250,260]", box2(KC(2, -6), KC(2, 4), KC(2, -6), KC(2, 4))));
  m.push_back(A("x[-3,258] y[254,257]", box2(KC(0, -3), KC(2, 2), KC(2, -2), KC(2, 1)), true));
  m.push_back(A("x[-3,258] y[-2,257]", box2(KC(0, -3), KC(2, 2), KC(0, -2), KC(2, 1)), true, true));
  m.push_back(A("x[256,511] y[0,1]", box2(KC(2, 0), KC(4, -1), O, KC(0, 1)), true));
  m.push_back(A("x[256,512] y[0,1]", box2(KC(2, 0), KC(4, 0), O, KC(0, 1)), true));
  m.push_back(A("x[-256,-1] y[0,1]", box2(KC(-2, 0), KC(0, -1), O, KC(0, 1)), true));
  m.push_back(A("x[-260,-250] y[-130,-126]", box2(KC(-2, -4), KC(-2, 6), KC(-1, -2), KC(-1, 2))));
  m.push_back(A("x[120,135] y[-135,-120]", box2(KC(1, -8), KC(1, 7), KC(-1, -7), KC(-1, 8))));
  // relational
  { SCell c; c.push_back(GE2(1, 0, KC(2, -1))); c.push_back(LE2(1, 0, KC(2, 2))); c.push_back(EQ2(1, -1, KC(0, 1)));
    m.push_back(A("strip 255<=x<=258, x-y=1", c)); }
  { SCell c; c.push_back(GE2(1, 0, KC(2, -6))); c.push_back(LE2(1, 0, KC(2, 6))); c.push_back(GE2(-1, 1, KC(0, -1))); c.push_back(LE2(-1, 1, KC(0, 1)));
    m.push_back(A("band 250<=x<=262, |y-x|<=1", c)); }
  { SCell c; c.push_back(EQ2(1, 1, KC(2, 0))); c.push_back(GE2(1, 0, O)); c.push_back(LE2(1, 0, KC(2, 44)));
    m.push_back(A("antidiag x+y=256, 0<=x<=300", c, true)); }
  { SCell c; c.push_back(GE2(0, 1, O)); c.push_back(GE2(5, -3, KC(10, -30))); c.push_back(LE2(5, 3, KC(10, 30)));
    m.push_back(A("triangle (250,0)(262,0)(256,10)", c)); }
  { SCell c; c.push_back(GE2(1, 0, KC(2, -6))); c.push_back(GE2(0, 1, KC(2, -6))); c.push_back(LE2(1, 1, KC(4, -2)));
    m.push_back(A("triangle (250,250)(260,250)(250,260)", c)); }
  { SCell c; c.push_back(GE2(0, 1, O)); c.push_back(LE2(0, 1, KC(0, 3))); c.push_back(GE2(1, -1, KC(0, -5))); c.push_back(LE2(1, 2, KC(2, 44)));
    m.push_back(A("trapezoid y[0,3], y-5<=x<=300-2y", c, true)); }
  { SCell c; c.push_back(GE2(1, 1, KC(2, -6))); c.push_back(LE2(1, 1, KC(2, 6))); c.push_back(GE2(1, -1, KC(0, -3))); c.push_back(LE2(1, -1, KC(0, 3)));
    m.push_back(A("diamond 250<=x+y<=262, |x-y|<=3", c)); }
  { SCell c; c.push_back(EQ2(2, -1, KC(4, -12))); c.push_back(GE2(1, 0, KC(2, -6))); c.push_back(LE2(1, 0, KC(2, 4)));
    m.push_back(A("slope2 2x-y=500, 250<=x<=260", c)); }
  { SCell c; c.push_back(GE2(2, 0, KC(4, -1))); c.push_back(LE2(2, 0, KC(4, 3))); c.push_back(GE2(0, 3, KC(0, 1))); c.push_back(LE2(0, 3, KC(0, 7)));
    m.push_back(A("rational 255.5<=x<=257.5, 1/3<=y<=7/3", c)); }
  { SCell c; c.push_back(GE2(2, 0, KC(4, -1))); c.push_back(LE2(2, 0, KC(4, 0))); c.push_back(GE2(0, 1, O)); c.push_back(LE2(0, 1, KC(0, 1)));
    m.push_back(A("rational 255.5<=x<=256", c)); }
  { SCell c; c.push_back(GE2(2, 0, KC(0, 1))); c.push_back(LE2(2, 0, KC(4, 1))); c.push_back(EQ2(0, 1, O));
    m.push_back(A("rational 0.5<=x<=256.5, y=0", c, true)); }
  { SCell c; c.push_back(GT2(1, 0, KC(2, -1))); c.push_back(LT2(1, 0, KC(2, 0))); c.push_back(GE2(0, 1, O)); c.push_back(LE2(0, 1, KC(0, 1)));
    m.push_back(A("open 255<x<256", c)); }
  { SCell c; c.push_back(GT2(1, 0, KC(2, -1))); c.push_back(LE2(1, 0, KC(2, 0))); c.push_back(GE2(0, 1, O)); c.push_back(LT2(0, 1, KC(0, 2)));
    m.push_back(A("halfopen 255<x<=256, 0<=y<2", c)); }
  { SCell c; c.push_back(GE2(1, 0, KC(2, -6))); c.push_back(LT2(1, 0, KC(2, 4))); c.push_back(GT2(0, 1, KC(0, -1))); c.push_back(LE2(0, 1, KC(0, 1)));
    m.push_back(A("halfopen 250<=x<260, -1<y<=1", c)); }
  { SCell c; c.push_back(GT2(1, 0, O)); c.push_back(LT2(1, 0, KC(2, 0))); c.push_back(EQ2(0, 1, KC(0, 1)));
    m.push_back(A("open 0<x<256, y=1", c, true)); }
  { SCell c; c.push_back(GE2(1, 0, O)); c.push_back(LT2(1, 0, KC(2, 0))); c.push_back(EQ2(0, 1, KC(0, 1)));
    m.push_back(A("halfopen 0<=x<256, y=1", c, true)); }
  { SCell c; c.push_back(GE2(1, -1, O)); c.push_back(LE2(1, -1, KC(0, 2))); c.push_back(GE2(1, 0, KC(1, -2))); c.push_back(LE2(1, 0, KC(1, 2)));
    m.push_back(A("band 0<=x-y<=2, 126<=x<=130", c)); }
  { SCell c; c.push_back(GE2(1, 0, KC(8, -24))); c.push_back(LE2(1, 0, KC(8, -14))); c.push_back(EQ2(1, -1, KC(8, -24)));
    m.push_back(A("far 1000<=x<=1010, y=x-1000", c)); }
  // unbounded in a wrapped variable (window check only) and degenerate ones
  { SCell c; c.push_back(GE2(1, 0, KC(2, -6))); c.push_back(GE2(0, 1, O)); c.push_back(LE2(0, 1, KC(0, 1)));
    m.push_back(A("unb x>=250, y[0,1]", c)); }
  { SCell c; c.push_back(LE2(1, 0, KC(0, 5))); c.push_back(GE2(0, 1, O)); c.push_back(LE2(0, 1, KC(0, 1)));
    m.push_back(A("unb x<=5, y[0,1]", c)); }
  m.push_back(A("universe", SCell()));
  { SCell c; c.push_back(EQ2(1, -1, KC(0, 1))); m.push_back(A("unb line x-y=1", c)); }
  { SCell c; c.push_back(GE2(1, 0, KC(2, -6))); c.push_back(LE2(1, 0, KC(2, 4))); m.push_back(A("unb x[250,260], y free", c)); }
  { SCell c; c.push_back(GE2(1, 0, KC(2, -6))); c.push_back(GE2(-1, 1, O)); m.push_back(A("unb cone x>=250, y>=x", c)); }
  { SCell c; c.push_back(GE2(1, -1, O)); c.push_back(LE2(1, -1, KC(0, 1))); c.push_back(GE2(1, 0, KC(2, -6))); m.push_back(A("unb strip 0<=x-y<=1, x>=250", c)); }
  { SCell c; c.push_back(LE2(1, 1, KC(2, 44))); m.push_back(A("unb halfplane x+y<=300", c)); }
  { SCell c; c.push_back(GE2(1, 0, KC(0, 1))); c.push_back(LE2(1, 0, O)); m.push_back(A("empty x>=1, x<=0", c)); }
  // dimension 3 (z is related to the wrapped variables)
  { SCell c; c.push_back(GE3(1, 0, 0, KC(2, -6))); c.push_back(LE3(1, 0, 0, KC(2, 4))); c.push_back(EQ3(1, -1, 0, KC(2, -6)));
    c.push_back(LE3(-1, 0, 1, O)); c.push_back(GE3(-1, 0, 1, KC(0, -1)));
    m.push_back(A("3d 250<=x<=260, y=x-250, x-1<=z<=x", c, false, false, 3)); }
  { SCell c; c.push_back(GE3(1, 0, 0, KC(2, -2))); c.push_back(LE3(1, 0, 0, KC(2, 1))); c.push_back(GE3(0, 1, 0, KC(1, -2))); c.push_back(LE3(0, 1, 0, KC(1, 1)));
    c.push_back(EQ3(1, 1, -1, O));
    m.push_back(A("3d 254<=x<=257, 126<=y<=129, z=x+y", c, false, false, 3)); }
  // three wrapped variables: the first two make the collective complexity exceed the threshold (2 x 2 > 2, 5 x 5 > 16),
  // the third one lies in quadrant 1 / straddles a boundary and must still be translated or given the full range
  { SCell c; c.push_back(GE3(1, 0, 0, KC(2, -2))); c.push_back(LE3(1, 0, 0, KC(2, 1))); c.push_back(GE3(0, 1, 0, KC(2, -2))); c.push_back(LE3(0, 1, 0, KC(2, 1)));
    c.push_back(GE3(0, 0, 1, KC(2, 0))); c.push_back(LE3(0, 0, 1, KC(2, 2)));
    m.push_back(A("3d box 254<=x,y<=257, 256<=z<=258", c, false, false, 3)); }
  { SCell c; c.push_back(GE3(1, 0, 0, KC(2, -2))); c.push_back(LE3(1, 0, 0, KC(2, 1))); c.push_back(GE3(0, 1, 0, KC(0, -2))); c.push_back(LE3(0, 1, 0, KC(0, 1)));
    c.push_back(EQ3(1, 1, -1, O));
    m.push_back(A("3d 254<=x<=257, -2<=y<=1, z=x+y", c, false, false, 3)); }
  { SCell c; c.push_back(GE3(1, 0, 0, KC(0, -3))); c.push_back(LE3(1, 0, 0, KC(6, 2))); c.push_back(EQ3(1, -1, 0, O));
    c.push_back(GE3(0, 0, 1, KC(2, 0))); c.push_back(LE3(0, 0, 1, KC(2, 2)));
    m.push_back(A("3d diag -3<=x<=770, y=x, 256<=z<=258", c, true, true, 3)); }   // thorough tier only (threshold 16)
  return m;
}

// arguments for Pointset_Powerset<C_Polyhedron>: unions of menu cells
inline std::vector<ArgSpec> powerset_menu(const std::vector<ArgSpec>& base) {
  std::vector<ArgSpec> m;
  std::map<std::string, const ArgSpec*> by;
  for (size_t i = 0; i < base.size(); ++i) by[base[i].name] = &base[i];
  const char* groups[][3] = {
    {"x[250,260] y[0,3]", 0, 0}, {"x[0,256] y[0,1]", 0, 0}, {"universe", 0, 0}, {"empty x>=1, x<=0", 0, 0},
    {"x[250,260] y[0,3]", "x[-300,-100] y[5,6]", 0},
    {"pt(255,256)", "pt(-128,127)", "pt(128,-129)"},
    {"strip 255<=x<=258, x-y=1", "triangle (250,0)(262,0)(256,10)", 0},
    {"x[-3,300] y[0,2]", "x[250,260] y[250,260]", 0},
    {"x[0,255] y[0,1]", "x=256 y[0,2]", 0},
    {"triangle (250,250)(260,250)(250,260)", "diamond 250<=x+y<=262, |x-y|<=3", "x[120,135] y[-135,-120]"},
    {"band 0<=x-y<=2, 126<=x<=130", "x[-129,127] y[0,1]", 0},
    {"unb x>=250, y[0,1]", "x[-260,-250] y[-130,-126]", 0},
    {"rational 255.5<=x<=257.5, 1/3<=y<=7/3", "rational 0.5<=x<=256.5, y=0", 0},
    {"x[256,512] y[0,1]", "x[-256,-1] y[0,1]", "antidiag x+y=256, 0<=x<=300"},
    {"empty x>=1, x<=0", "far 1000<=x<=1010, y=x-1000", 0},
    {"unb line x-y=1", "slope2 2x-y=500, 250<=x<=260", 0},
  };
  for (size_t g = 0; g < sizeof groups / sizeof groups[0]; ++g) {
    ArgSpec a; a.n = 2;
    for (int j = 0; j < 3 && groups[g][j]; ++j) {
      const ArgSpec* s = by[groups[g][j]];
      if (!s) { fprintf(stderr, "powerset_menu: unknown cell %s\n", groups[g][j]); abort(); }
      a.disj.push_back(s->disj[0]); a.wide = a.wide || s->wide;
      a.name += (j ? " U " : "") + s->name;
    }
    m.push_back(a);
  }
  return m;
}

inline SCong CG(long ax, long ay, KC c, KC mod) { SCong s; s.a[0] = ax; s.a[1] = ay; s.a[2] = 0; s.c = -c; s.m = mod; return s; }   // ax x + ay y == c (mod m)
inline ArgSpec G(const std::string& nm, const std::vector<SCong>& cg, int n = 2) { ArgSpec a; a.name = nm; a.n = n; a.disj.push_back(SCell()); a.congs = cg; return a; }

// grids (dimension 2): constants, periods below / equal / above 2^w, rational periods, relational ones
inline std::vector<ArgSpec> grid_menu() {
  std::vector<ArgSpec> m;
  const KC O(0, 0), ONE(0, 1), TWO(0, 2), P(2, 0) /* 2^w */;
  struct CV { const char* nm; KC v; } consts[] = {
    {"x=200", KC(2, -56)}, {"x=300", KC(2, 44)}, {"x=-1", KC(0, -1)}, {"x=256", KC(2, 0)}, {"x=255", KC(2, -1)}, {"x=-128", KC(-1, 0)},
    {"x=128", KC(1, 0)}, {"x=127", KC(1, -1)}, {"x=-129", KC(-1, -1)}, {"x=-200", KC(-2, 56)}, {"x=5", KC(0, 5)}, {"x=640", KC(5, 0)}, {"x=-384", KC(-3, 0)} };
  for (size_t i = 0; i < sizeof consts / sizeof consts[0]; ++i) {
    std::vector<SCong> c; c.push_back(CG(1, 0, consts[i].v, O)); c.push_back(CG(0, 1, O, TWO));
    m.push_back(G(std::string(consts[i].nm) + ", y=0 mod 2", c));
  }
  struct PV { const char* nm; KC v, f; } per[] = {
    {"x=0 mod 128", O, KC(1, 0)}, {"x=10 mod 200", KC(0, 10), KC(2, -56)}, {"x=100 mod 200", KC(0, 100), KC(2, -56)}, {"x=0 mod 256", O, P},
    {"x=128 mod 256", KC(1, 0), P}, {"x=255 mod 256", KC(2, -1), P}, {"x=200 mod 256", KC(2, -56), P}, {"x=3 mod 512", KC(0, 3), KC(4, 0)},
    {"x=300 mod 1000", KC(2, 44), KC(8, -24)}, {"x=250 mod 400", KC(2, -6), KC(3, 16)}, {"x=0 mod 2", O, TWO}, {"x=1 mod 3", ONE, KC(0, 3)},
    {"x=0 mod 1", O, ONE}, {"x=127 mod 255", KC(1, -1), KC(2, -1)}, {"x=1 mod 257", ONE, KC(2, 1)} };
  for (size_t i = 0; i < sizeof per / sizeof per[0]; ++i) {
    std::vector<SCong> c; c.push_back(CG(1, 0, per[i].v, per[i].f)); c.push_back(CG(0, 1, ONE, KC(0, 3)));
    m.push_back(G(std::string(per[i].nm) + ", y=1 mod 3", c));
  }
  { std::vector<SCong> c; c.push_back(CG(3, 0, ONE, P)); c.push_back(CG(0, 1, O, O)); m.push_back(G("3x=1 mod 256, y=0", c)); }
  { std::vector<SCong> c; c.push_back(CG(3, 0, ONE, KC(1, 0))); c.push_back(CG(0, 1, O, ONE)); m.push_back(G("3x=1 mod 128, y=0 mod 1", c)); }
  { std::vector<SCong> c; c.push_back(CG(2, 0, ONE, TWO)); c.push_back(CG(0, 1, O, ONE)); m.push_back(G("2x=1 mod 2 (half-integers), y=0 mod 1", c)); }
  { std::vector<SCong> c; c.push_back(CG(2, 0, O, ONE)); c.push_back(CG(0, 2, O, ONE)); m.push_back(G("2x=0 mod 1, 2y=0 mod 1", c)); }
  { std::vector<SCong> c; c.push_back(CG(2, 0, ONE, O)); c.push_back(CG(0, 1, O, ONE)); m.push_back(G("2x=1 (x=1/2), y=0 mod 1", c)); }
  { std::vector<SCong> c; c.push_back(CG(5, 0, O, P)); c.push_back(CG(0, 1, O, ONE)); m.push_back(G("5x=0 mod 256, y=0 mod 1", c)); }
  { std::vector<SCong> c; c.push_back(CG(1, -1, ONE, O)); c.push_back(CG(1, 0, O, TWO)); m.push_back(G("x-y=1, x=0 mod 2", c)); }
  { std::vector<SCong> c; c.push_back(CG(1, -1, O, P)); c.push_back(CG(0, 1, O, ONE)); m.push_back(G("x=y mod 256, y=0 mod 1", c)); }
  { std::vector<SCong> c; c.push_back(CG(1, 1, O, P)); c.push_back(CG(1, -1, P, O)); m.push_back(G("x+y=0 mod 256, x-y=256", c)); }
  { std::vector<SCong> c; c.push_back(CG(1, -1, O, O)); c.push_back(CG(0, 1, KC(0, 5), P)); m.push_back(G("x=y, y=5 mod 256", c)); }
  { std::vector<SCong> c; c.push_back(CG(1, -2, O, KC(0, 4))); c.push_back(CG(0, 1, O, ONE)); m.push_back(G("x-2y=0 mod 4, y=0 mod 1", c)); }
  { std::vector<SCong> c; c.push_back(CG(1, 1, O, TWO)); c.push_back(CG(1, -1, ONE, TWO)); m.push_back(G("x+y=0 mod 2, x-y=1 mod 2 (no integer point)", c)); }
  { std::vector<SCong> c; c.push_back(CG(1, 0, KC(2, 44), O)); c.push_back(CG(0, 1, KC(-2, 56), O)); m.push_back(G("x=300, y=-200", c)); }
  { std::vector<SCong> c; c.push_back(CG(1, 0, KC(2, 44), O)); m.push_back(G("x=300, y free", c)); }
  { std::vector<SCong> c; c.push_back(CG(0, 1, KC(1, 0), P)); m.push_back(G("x free, y=128 mod 256", c)); }
  m.push_back(G("universe", std::vector<SCong>()));
  { std::vector<SCong> c; c.push_back(CG(1, 0, O, TWO)); c.push_back(CG(1, 0, ONE, TWO)); m.push_back(G("empty x=0 mod 2, x=1 mod 2", c)); }
  return m;
}

// ---------------------------------------------------------------------------------------------------
// small cells with rational vertices: drop_some_non_integer_points / contains_integer_point
inline KC R(long r) { return KC(0, r); }
inline std::vector<ArgSpec> small_menu() {
  std::vector<ArgSpec> m;
  { SCell c; c.push_back(GE2(3, 0, R(1))); c.push_back(LE2(3, 0, R(2))); c.push_back(GE2(0, 1, R(0))); c.push_back(LE2(0, 1, R(1))); m.push_back(A("1/3<=x<=2/3, 0<=y<=1", c)); }
  { SCell c; c.push_back(GE2(2, 0, R(1))); c.push_back(LE2(2, 0, R(5))); c.push_back(GE2(0, 2, R(1))); c.push_back(LE2(0, 2, R(3))); m.push_back(A("1/2<=x<=5/2, 1/2<=y<=3/2", c)); }
  { SCell c; c.push_back(GE2(1, 0, R(0))); c.push_back(GE2(0, 1, R(0))); c.push_back(LE2(2, 2, R(5))); m.push_back(A("triangle x,y>=0, 2x+2y<=5", c)); }
  { SCell c; c.push_back(EQ2(2, -2, R(1))); m.push_back(A("line 2x-2y=1", c)); }
  { SCell c; c.push_back(EQ2(2, -2, R(1))); c.push_back(GE2(1, 0, R(0))); c.push_back(LE2(1, 0, R(3))); m.push_back(A("segment 2x-2y=1, 0<=x<=3", c)); }
  { SCell c; c.push_back(EQ2(3, -5, R(1))); m.push_back(A("line 3x-5y=1", c)); }
  { SCell c; c.push_back(EQ2(3, -5, R(1))); c.push_back(GE2(1, 0, R(3))); c.push_back(LE2(1, 0, R(6))); m.push_back(A("segment 3x-5y=1, 3<=x<=6 (no integer point)", c)); }
  { SCell c; c.push_back(GE2(3, -5, R(1))); c.push_back(LE2(3, -5, R(2))); c.push_back(GE2(1, 0, R(10))); m.push_back(A("strip 1<=3x-5y<=2, x>=10", c)); }
  { SCell c; c.push_back(GT2(1, 0, R(0))); c.push_back(LT2(1, 0, R(1))); m.push_back(A("open 0<x<1, y free", c)); }
  { SCell c; c.push_back(GT2(1, 0, R(0))); c.push_back(LT2(1, 0, R(2))); c.push_back(GT2(0, 1, R(0))); c.push_back(LT2(0, 1, R(1))); m.push_back(A("open 0<x<2, 0<y<1", c)); }
  { SCell c; c.push_back(GT2(1, 0, R(0))); c.push_back(LT2(1, 0, R(2))); c.push_back(GT2(0, 1, R(-1))); c.push_back(LT2(0, 1, R(1))); m.push_back(A("open 0<x<2, -1<y<1", c)); }
  { SCell c; c.push_back(EQ2(3, -3, R(1))); c.push_back(GE2(1, 0, R(-2))); c.push_back(LE2(1, 0, R(2))); m.push_back(A("segment 3x-3y=1", c)); }
  { SCell c; c.push_back(GE2(3, 0, R(4))); c.push_back(LE2(3, 0, R(5))); c.push_back(GE2(0, 1, R(-1))); c.push_back(LE2(0, 1, R(1))); m.push_back(A("4/3<=x<=5/3, -1<=y<=1", c)); }
  { SCell c; c.push_back(GE2(2, 2, R(1))); c.push_back(LE2(2, 2, R(3))); c.push_back(GE2(2, -2, R(1))); c.push_back(LE2(2, -2, R(3))); m.push_back(A("diamond 1/2<=x+y<=3/2, 1/2<=x-y<=3/2", c)); }
  { SCell c; c.push_back(EQ2(1, 1, R(1))); c.push_back(EQ2(1, -1, R(0))); m.push_back(A("point x+y=1, x=y", c)); }
  { SCell c; c.push_back(EQ2(1, 1, R(1))); c.push_back(GE2(1, -1, R(0))); c.push_back(LE2(1, -1, R(1))); m.push_back(A("segment x+y=1, 0<=x-y<=1", c)); }
  { SCell c; c.push_back(EQ2(2, -2, R(1))); c.push_back(GE2(1, 1, R(0))); c.push_back(LE2(1, 1, R(4))); m.push_back(A("segment x-y=1/2, 0<=x+y<=4", c)); }
  { SCell c; c.push_back(GE2(1, 1, R(1))); c.push_back(LE2(1, 1, R(1))); c.push_back(GE2(1, -1, R(-2))); c.push_back(LE2(1, -1, R(2))); m.push_back(A("segment x+y=1, |x-y|<=2", c)); }
  { SCell c; c.push_back(GE2(2, 0, R(1))); c.push_back(GE2(-3, 3, R(1))); m.push_back(A("cone x>=1/2, y>=x+1/3", c)); }
  { SCell c; c.push_back(GE2(4, 6, R(7))); m.push_back(A("halfplane 4x+6y>=7", c)); }
  m.push_back(A("universe", SCell()));
  { SCell c; c.push_back(GE2(1, 0, R(1))); c.push_back(LE2(1, 0, R(0))); m.push_back(A("empty x>=1, x<=0", c)); }
  { SCell c; c.push_back(GE2(2, 0, R(1))); c.push_back(LE2(2, 0, R(1))); c.push_back(LE2(0, 3, R(2))); c.push_back(GE2(0, 3, R(1))); m.push_back(A("empty-ish x=1/2, 1/3<=y<=2/3", c)); }
  { SCell c; c.push_back(EQ2(2, 0, R(1))); c.push_back(EQ2(0, 1, R(1))); m.push_back(A("point (1/2,1)", c)); }
  { SCell c; c.push_back(EQ2(1, 0, R(3))); c.push_back(EQ2(0, 1, R(-2))); m.push_back(A("point (3,-2)", c)); }
  { SCell c; c.push_back(EQ2(0, 2, R(1))); c.push_back(GE2(1, 0, R(0))); c.push_back(LE2(1, 0, R(3))); m.push_back(A("segment y=1/2, 0<=x<=3", c)); }
  { SCell c; c.push_back(GE2(0, 3, R(1))); c.push_back(LE2(0, 3, R(2))); m.push_back(A("strip 1/3<=y<=2/3, x free", c)); }
  { SCell c; c.push_back(LE2(-1, 7, R(0))); c.push_back(GE2(0, 2, R(1))); m.push_back(A("wedge 7y<=x, y>=1/2", c)); }
  { SCell c; c.push_back(GE2(-10, 10, R(1))); c.push_back(LE2(-10, 10, R(9))); m.push_back(A("strip 1<=10(y-x)<=9 (no integer point)", c)); }
  { SCell c; c.push_back(GE2(-10, 10, R(1))); c.push_back(LE2(-10, 10, R(9))); c.push_back(GE2(1, 0, R(0))); c.push_back(GE2(0, 1, R(0))); m.push_back(A("strip 1<=10(y-x)<=9, x,y>=0", c)); }
  { SCell c; c.push_back(GT2(1, -1, R(0))); c.push_back(LT2(1, -1, R(1))); m.push_back(A("open strip 0<x-y<1", c)); }
  { SCell c; c.push_back(GT2(1, -1, R(0))); c.push_back(LE2(1, -1, R(1))); c.push_back(GE2(1, 0, R(0))); m.push_back(A("halfopen strip 0<x-y<=1, x>=0", c)); }
  { SCell c; c.push_back(GT2(2, 0, R(1))); c.push_back(GE2(-2, 1, R(0))); m.push_back(A("open cone x>1/2, y>=2x", c)); }
  { SCell c; c.push_back(GT2(1, 0, R(0))); c.push_back(GT2(0, 1, R(0))); c.push_back(LT2(1, 1, R(2))); m.push_back(A("open triangle x,y>0, x+y<2", c)); }
  { SCell c; c.push_back(GT2(1, 0, R(0))); c.push_back(GT2(0, 1, R(0))); c.push_back(LT2(1, 1, R(3))); m.push_back(A("open triangle x,y>0, x+y<3", c)); }
  { SCell c; c.push_back(GE2(2, 3, R(7))); c.push_back(LE2(2, 3, R(8))); c.push_back(GE2(3, -2, R(1))); c.push_back(LE2(3, -2, R(2))); m.push_back(A("rot-square 7<=2x+3y<=8, 1<=3x-2y<=2", c)); }
  { SCell c; c.push_back(GE2(1, 0, R(-7))); c.push_back(LE2(2, 0, R(-13))); c.push_back(GE2(0, 2, R(-5))); c.push_back(LE2(0, 2, R(-3))); m.push_back(A("negative -7<=x<=-13/2, -5/2<=y<=-3/2", c)); }
  // dimension 0 and 1, dimension 3
  m.push_back(A("0-dim universe", SCell(), false, false, 0));
  { SCell c; c.push_back(mk(0, 0, 0, R(-1), ref::GE)); m.push_back(A("0-dim empty", c, false, false, 0)); }
  { SCell c; c.push_back(GE2(3, 0, R(1))); c.push_back(LE2(3, 0, R(2))); m.push_back(A("1-dim 1/3<=x<=2/3", c, false, false, 1)); }
  { SCell c; c.push_back(GE2(3, 0, R(1))); c.push_back(LE2(3, 0, R(5))); m.push_back(A("1-dim 1/3<=x<=5/3", c, false, false, 1)); }
  { SCell c; c.push_back(GE3(2, 0, 0, R(1))); c.push_back(LE3(2, 0, 0, R(3))); c.push_back(EQ3(1, 1, -2, R(0))); c.push_back(GE3(0, 1, 0, R(0))); c.push_back(LE3(0, 2, 0, R(3)));
    m.push_back(A("3d 1/2<=x<=3/2, 0<=y<=3/2, x+y=2z", c, false, false, 3)); }
  return m;
}

// products: a small cell with a grid
inline std::vector<ArgSpec> product_menu(const std::vector<ArgSpec>& small, const std::vector<ArgSpec>& grids) {
  std::vector<ArgSpec> m;
  const char* gnames[] = { "x=0 mod 2, y=1 mod 3", "2x=0 mod 1, 2y=0 mod 1", "x-2y=0 mod 4, y=0 mod 1", "x+y=0 mod 2, x-y=1 mod 2 (no integer point)", "universe" };
  for (size_t i = 0; i < small.size(); ++i) {
    if (small[i].n != 2) continue;
    for (size_t g = 0; g < sizeof gnames / sizeof gnames[0]; ++g) {
      if ((i + g) % 2) continue;
      const ArgSpec* gs = 0;
      for (size_t j = 0; j < grids.size(); ++j) if (grids[j].name == gnames[g]) gs = &grids[j];
      if (!gs) { fprintf(stderr, "product_menu: unknown grid %s\n", gnames[g]); abort(); }
      ArgSpec a = small[i]; a.congs = gs->congs; a.name += " & " + gs->name;
      m.push_back(a);
    }
  }
  return m;
}

// ---- guards (constraint systems over the wrapped variables only) -----------------------------------
struct GuardSpec { std::string name; unsigned vars; SCell cs; };
inline std::vector<GuardSpec> guard_menu() {
  std::vector<GuardSpec> g;
  { GuardSpec s; s.name = "x>=10"; s.vars = 1; s.cs.push_back(GE2(1, 0, R(10))); g.push_back(s); }
  { GuardSpec s; s.name = "-5<=x<=100"; s.vars = 1; s.cs.push_back(GE2(1, 0, R(-5))); s.cs.push_back(LE2(1, 0, R(100))); g.push_back(s); }
  { GuardSpec s; s.name = "x=2"; s.vars = 1; s.cs.push_back(EQ2(1, 0, R(2))); g.push_back(s); }
  { GuardSpec s; s.name = "y>=10"; s.vars = 2; s.cs.push_back(GE2(0, 1, R(10))); g.push_back(s); }
  { GuardSpec s; s.name = "-5<=y<=100"; s.vars = 2; s.cs.push_back(GE2(0, 1, R(-5))); s.cs.push_back(LE2(0, 1, R(100))); g.push_back(s); }
  { GuardSpec s; s.name = "x<=y"; s.vars = 3; s.cs.push_back(LE2(1, -1, R(0))); g.push_back(s); }
  { GuardSpec s; s.name = "x+y<=300"; s.vars = 3; s.cs.push_back(LE2(1, 1, KC(2, 44))); g.push_back(s); }
  { GuardSpec s; s.name = "x<y"; s.vars = 3; s.cs.push_back(LT2(1, -1, R(0))); g.push_back(s); }
  { GuardSpec s; s.name = "x-y>=3, y>=0"; s.vars = 3; s.cs.push_back(GE2(1, -1, R(3))); s.cs.push_back(GE2(0, 1, R(0))); g.push_back(s); }
  return g;
}

} // namespace c17
#endif

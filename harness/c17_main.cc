// C17 -- "Integer-aware operators never discard an integer point of the concrete semantics".
//
// Bounded exhaustive enumeration of the real implementation: every (domain, argument, lazy state,
// parameter tuple) of the menus is executed and judged on EVERY integer point of the argument:
//   wrap_assign                  the wrapped image / every in-range re-assignment / the point itself must
//                                satisfy every printed row and congruence of the result (direct evaluation);
//   drop_some_non_integer_points result included in the argument and every point of the argument that is
//                                integral on the designated dimensions is kept;
//   contains_integer_point       equals the exact answer (enumeration; window argument when unbounded;
//                                lattice reasoning for grids).
// The value of the argument is what a twin built by the same recipe prints through constraints() /
// congruences(); the operator under test is called on a second, untouched copy (lazy state preserved).
#include "engine/common.hh"
#include "harness/c17_common.hh"
#include "harness/c17_menu.hh"
#include "harness/c17_oracle.hh"
#include <memory>

using namespace vf;
using namespace c17;

static Args ARGS;

enum { C_CASES = CNT_USER, C_CALLS, C_POINTS, C_EXPECTED, C_SPAN1, C_SPAN2, C_SPAN3, C_SPAN4, C_SPANU, C_WINDOW_CASES, C_BOUNDED_CASES,
       C_WRAP, C_DROP, C_CIP, C_SKIP_POINTS, C_EMPTY_ARG_CASES, C_CIP_WINDOW, C_CIP_ENUM, C_CIP_GRID, C_CIP_SKIP, C_SUBSET, C_WIDE_W, C_ITEMS, C_SUBJ, C_MEMO, C_MEMO_IMPLIED };

// ---------------------------------------------------------------------------------------------------
struct ArgRef { const ArgSpec* a; bool wrap_ok, small_ok; };
struct DomInfo { Domain* dom; std::vector<ArgRef> args; };
static std::vector<DomInfo> DOMS;
static std::vector<ArgSpec> WRAPM, SMALLM, GRIDM, PSM, PRODM, PSSMALL;
static std::vector<GuardSpec> GUARDS;

struct Item { int dom, arg, mode, w; };
static std::vector<Item> ITEMS;

enum Op { OP_WRAP = 0, OP_DROP_ALL, OP_DROP_VARS, OP_CIP };
struct CaseP { int op; unsigned wmask; int rep, ovf, guard; unsigned thr; bool ind; int cc; };

static const char* REPN[] = { "UNSIGNED", "SIGNED_2_COMPLEMENT" };
static const char* OVFN[] = { "OVERFLOW_WRAPS", "OVERFLOW_UNDEFINED", "OVERFLOW_IMPOSSIBLE" };
static const char* CCN[] = { "POLYNOMIAL_COMPLEXITY", "SIMPLEX_COMPLEXITY", "ANY_COMPLEXITY" };
static PPL::Bounded_Integer_Type_Overflow OVFV[] = { PPL::OVERFLOW_WRAPS, PPL::OVERFLOW_UNDEFINED, PPL::OVERFLOW_IMPOSSIBLE };
static PPL::Complexity_Class CCV[] = { PPL::POLYNOMIAL_COMPLEXITY, PPL::SIMPLEX_COMPLEXITY, PPL::ANY_COMPLEXITY };

static std::string vars_str(unsigned m) { std::string s = "{"; for (int v = 0; v < 3; ++v) if ((m >> v) & 1) { if (s.size() > 1) s += ","; s += char('x' + v); } return s + "}"; }

static std::vector<unsigned> wsets(int n) {
  std::vector<unsigned> v;
  if (n == 1) v.push_back(1);
  else if (n == 2) { v.push_back(1); v.push_back(2); v.push_back(3); }
  else if (n == 3) { v.push_back(3); v.push_back(5); v.push_back(7); }
  return v;
}

static std::vector<CaseP> cases_of(const Item& it) {
  std::vector<CaseP> out;
  const DomInfo& di = DOMS[it.dom]; const ArgRef& ar = di.args[it.arg];
  int n = ar.a->n;
  static const unsigned THR[] = { 0, 1, 2, 16 };
  // quick tier: the additional lazy states run thresholds {2,16}; domains whose wrap_assign ignores the threshold run {0,16}
  bool thr_ok[4] = { true, true, true, true };
  if (!ARGS.thorough()) {
    if (di.dom->ignores_thr) { thr_ok[1] = thr_ok[2] = false; }
    else if (it.mode >= di.dom->extra_from) { thr_ok[0] = thr_ok[1] = false; }
  }
  if (di.dom->has_wrap && ar.wrap_ok && n >= 1) {
    std::vector<unsigned> ws = wsets(n);
    for (size_t wi = 0; wi < ws.size(); ++wi)
      for (int rep = 0; rep < 2; ++rep) for (int ovf = 0; ovf < 3; ++ovf)
        for (int g = -1; g < (int)GUARDS.size(); ++g) {
          if (g >= 0 && (GUARDS[g].vars & ~ws[wi])) continue;
          for (int t = 0; t < 4; ++t) for (int ind = 0; ind < 2; ++ind) {
            if (!thr_ok[t]) continue;
            CaseP c; c.op = OP_WRAP; c.wmask = ws[wi]; c.rep = rep; c.ovf = ovf; c.guard = g; c.thr = THR[t]; c.ind = ind != 0; c.cc = 0;
            out.push_back(c);
          }
        }
  }
  if (ar.small_ok && it.w == 8) {
    for (int cc = 0; cc < 3; ++cc) {
      CaseP c; c.op = OP_DROP_ALL; c.wmask = (1u << n) - 1; c.rep = c.ovf = 0; c.guard = -1; c.thr = 0; c.ind = false; c.cc = cc; out.push_back(c);
      for (unsigned m = 1; m < (1u << n); ++m) { CaseP d = c; d.op = OP_DROP_VARS; d.wmask = m; out.push_back(d); }
    }
    if (di.dom->has_cip) { CaseP c; c.op = OP_CIP; c.wmask = (1u << n) - 1; c.rep = c.ovf = 0; c.guard = -1; c.thr = 0; c.ind = false; c.cc = 0; out.push_back(c); }
  }
  return out;
}

// ---------------------------------------------------------------------------------------------------
static PPL::Linear_Expression lin_of(const long* a, int n, const Z& c) {
  PPL::Linear_Expression e;
  for (int i = 0; i < n; ++i) if (a[i] != 0) e += PPL::Coefficient(a[i]) * PPL::Variable(i);
  e += PPL::Coefficient(c);
  return e;
}
static PPL::Constraint con_of(const SCon& s, int n, int w) {
  PPL::Linear_Expression e = lin_of(s.a, n, kval(s.c, w));
  return s.k == ref::EQ ? (e == 0) : s.k == ref::GE ? (e >= 0) : (e > 0);
}
static PPL::Constraint_System cs_of(const SCell& c, int n, int w) {
  PPL::Constraint_System cs;
  for (size_t i = 0; i < c.size(); ++i) cs.insert(con_of(c[i], n, w));
  return cs;
}
static ref::Cell refcell_of(const SCell& c, int n, int w) {
  ref::Cell r(n);
  for (size_t i = 0; i < c.size(); ++i) {
    ref::Row row; row.a.assign(n, Q(0)); for (int j = 0; j < n; ++j) row.a[j] = Q(c[i].a[j]);
    row.b = Q(kval(c[i].c, w)); row.k = c[i].k; r.rows.push_back(row);
  }
  return r;
}
static IRow irow_of(const SCon& s, int n, int w) {
  IRow r; r.a.assign(n, Z(0)); for (int j = 0; j < n; ++j) r.a[j] = Z(s.a[j]); r.b = kval(s.c, w); r.k = s.k; return r;
}
static PPL::Generator_System gs_of(const ref::Cell& cell, int n) {
  PPL::Generator_System gs;
  ref::Gens g;
  if (!ref::gens_of_closed_cell(cell, g)) return gs;
  for (size_t i = 0; i < g.size(); ++i) {
    Z l = lcm_den(g[i].v);
    PPL::Linear_Expression e;
    for (int j = 0; j < n; ++j) { Q t = g[i].v[j] * Q(l); if (t != 0) e += PPL::Coefficient(t.get_num()) * PPL::Variable(j); }
    if (n > 0) e += 0 * PPL::Variable(n - 1);
    if (g[i].t == 'p') gs.insert(PPL::Generator::point(e, PPL::Coefficient(l)));
    else if (g[i].t == 'r') gs.insert(PPL::Generator::ray(e));
    else gs.insert(PPL::Generator::line(e));
  }
  return gs;
}
static Built built_of(const ArgSpec& a, int w) {
  Built b; b.n = a.n;
  for (size_t i = 0; i < a.disj.size(); ++i) {
    b.cs.push_back(cs_of(a.disj[i], a.n, w));
    b.gs.push_back(gs_of(refcell_of(a.disj[i], a.n, w), a.n));
  }
  for (size_t i = 0; i < a.congs.size(); ++i) {
    const SCong& c = a.congs[i];
    PPL::Linear_Expression e = lin_of(c.a, a.n, kval(c.c, w));
    Z m = kval(c.m, w);
    if (m == 0) b.cgs.insert(e == 0); else b.cgs.insert((e %= 0) / PPL::Coefficient(m));
  }
  return b;
}
static PPL::Variables_Set varset(unsigned m) { PPL::Variables_Set vs; for (int v = 0; v < 3; ++v) if ((m >> v) & 1) vs.insert(PPL::Variable(v)); return vs; }
static PPL::Bounded_Integer_Type_Width width_of(int w) { return w == 8 ? PPL::BITS_8 : w == 16 ? PPL::BITS_16 : w == 32 ? PPL::BITS_32 : w == 64 ? PPL::BITS_64 : PPL::BITS_128; }

// ---------------------------------------------------------------------------------------------------
struct Range { Z minv, maxv, P; };
static Range range_of(int w, int rep) {
  Range r; r.P = pow2(w);
  if (rep == 0) { r.minv = 0; r.maxv = r.P - 1; } else { r.minv = -pow2(w - 1); r.maxv = pow2(w - 1) - 1; }
  return r;
}
struct GuardRows { std::vector<IRow> rows; std::vector<FRow> frows; bool fast; GuardRows() : fast(true) {}
  void add(const IRow& r) {
    rows.push_back(r); FRow f; f.k = r.k; f.b = 0; for (int i = 0; i < 4; ++i) f.a[i] = 0;
    if (!fits(r.b)) fast = false; else f.b = r.b.get_si();
    for (size_t i = 0; i < r.a.size() && i < 4; ++i) { if (!fits(r.a[i])) fast = false; else f.a[i] = r.a[i].get_si(); }
    frows.push_back(f);
  }
};

// Two interchangeable point representations: Pt (GMP, any magnitude) and FP (machine integers, used
// when every magnitude is below 2^40 and w <= 32).  The oracle below is written once over both.
struct FP { long n[4]; long d; int dim; };
template <class PT> struct Ops;
template <> struct Ops<Pt> {
  typedef Z I;
  static I coord(const Pt& p, int v) { return p.num[v] / p.den; }
  static void set(Pt& p, int v, const I& x) { p.num[v] = x * p.den; }
  static void fin(Pt& p) { p.finish(); }
  static bool mem(const Eval& e, const Pt& p) { return member(e, p); }
  static bool guard(const GuardRows& g, const Pt& p) { for (size_t i = 0; i < g.rows.size(); ++i) if (!sat_row(g.rows[i], p)) return false; return true; }
  static std::string cstr(const Pt& p, int v) { return p.coord(v).get_str(); }
  static std::string str(const Pt& p) { return p.str(); }
  static I fmod(const I& a, const I& m) { return fmod_z(a, m); }
  static I conv(const Z& z) { return z; }
};
template <> struct Ops<FP> {
  typedef long I;
  static I coord(const FP& p, int v) { return p.n[v] / p.d; }
  static void set(FP& p, int v, I x) { p.n[v] = x * p.d; }
  static void fin(FP&) {}
  static bool mem(const Eval& e, const FP& p) {
    if (e.d.empty_flag) return false;
    for (size_t i = 0; i < e.d.d.size(); ++i) {
      const std::vector<FRow>& rows = e.frows[i]; bool ok = true;
      for (size_t j = 0; j < rows.size() && ok; ++j) {
        const FRow& r = rows[j]; I128 s = (I128)r.b * p.d;
        for (int k = 0; k < p.dim; ++k) s += (I128)r.a[k] * p.n[k];
        if (r.k == ref::EQ ? s != 0 : r.k == ref::GE ? s < 0 : s <= 0) ok = false;
      }
      const std::vector<FCong>& cg = e.fcongs[i];
      for (size_t j = 0; j < cg.size() && ok; ++j) {
        const FCong& r = cg[j]; I128 s = (I128)r.b * p.d;
        for (int k = 0; k < p.dim; ++k) s += (I128)r.a[k] * p.n[k];
        if (r.m == 0) { if (s != 0) ok = false; }
        else { I128 md = (I128)r.m * p.d; if (md < 0) md = -md; if (s % md != 0) ok = false; }
      }
      if (ok) return true;
    }
    return false;
  }
  static bool guard(const GuardRows& g, const FP& p) {
    for (size_t j = 0; j < g.frows.size(); ++j) {
      const FRow& r = g.frows[j]; I128 s = (I128)r.b * p.d;
      for (int k = 0; k < p.dim; ++k) s += (I128)r.a[k] * p.n[k];
      if (r.k == ref::EQ ? s != 0 : r.k == ref::GE ? s < 0 : s <= 0) return false;
    }
    return true;
  }
  static std::string cstr(const FP& p, int v) { Q q(p.n[v], p.d); q.canonicalize(); return q.get_str(); }
  static std::string str(const FP& p) { std::string s = "("; for (int v = 0; v < p.dim; ++v) { if (v) s += ","; s += cstr(p, v); } return s + ")"; }
  static I fmod(I a, I m) { I r = a % m; return r < 0 ? r + m : r; }
  static I conv(const Z& z) { return z.get_si(); }
};

struct Lost { long lost, expected; std::string src, exp_pt; Lost() : lost(0), expected(0) {} };
template <class PT> static inline void note(Lost& L, bool in, const PT& src, const PT& e) {
  ++L.expected;
  if (!in) { if (!L.lost) { L.src = Ops<PT>::str(src); L.exp_pt = Ops<PT>::str(e); } ++L.lost; }
}

static std::vector<Z> sample_values(const Range& R) {
  std::set<Z> s;
  for (int d = 0; d < 3; ++d) { s.insert(R.minv + d); s.insert(R.maxv - d); }
  long sm[] = { -1, 0, 1, 2, 3, 9, 10, 11, 20, 99, 100, 101, -5, -6 };
  for (size_t i = 0; i < sizeof sm / sizeof sm[0]; ++i) if (Z(sm[i]) >= R.minv && Z(sm[i]) <= R.maxv) s.insert(Z(sm[i]));
  s.insert((R.minv + R.maxv) / 2);
  return std::vector<Z>(s.begin(), s.end());
}

// the oracle for one wrap_assign call
template <class PT>
static Lost check_wrap_t(const Eval& res, const std::vector<PT>& pts, unsigned wmask, int n, int w, int rep, int ovf, const GuardRows& guard) {
  typedef Ops<PT> O; typedef typename O::I I;
  Lost L; Range RZ = range_of(w, rep);
  const I minv = O::conv(RZ.minv), maxv = O::conv(RZ.maxv), PP = O::conv(RZ.P);
  std::vector<int> wv; for (int v = 0; v < n; ++v) if ((wmask >> v) & 1) wv.push_back(v);
  if (ovf == 0) {           // OVERFLOW_WRAPS
    for (size_t i = 0; i < pts.size(); ++i) {
      PT q = pts[i]; bool moved = false;
      for (size_t k = 0; k < wv.size(); ++k) {
        I x = O::coord(q, wv[k]);
        if (x < minv || x > maxv) { O::set(q, wv[k], O::fmod(x - minv, PP) + minv); moved = true; }
      }
      if (moved) O::fin(q);
      if (!O::guard(guard, q)) continue;
      note(L, O::mem(res, q), pts[i], q);
    }
    return L;
  }
  if (ovf == 2) {           // OVERFLOW_IMPOSSIBLE
    for (size_t i = 0; i < pts.size(); ++i) {
      const PT& q = pts[i]; bool inr = true;
      for (size_t k = 0; k < wv.size() && inr; ++k) { I x = O::coord(q, wv[k]); inr = !(x < minv) && !(x > maxv); }
      if (!inr || !O::guard(guard, q)) continue;
      note(L, O::mem(res, q), q, q);
    }
    return L;
  }
  // OVERFLOW_UNDEFINED: coordinates in range are kept, every overflowing coordinate may take any in-range value
  std::vector<I> all;
  if (w == 8) for (I v = minv; !(v > maxv); ++v) all.push_back(v);
  std::vector<Z> sampz = sample_values(RZ); std::vector<I> samp; for (size_t i = 0; i < sampz.size(); ++i) samp.push_back(O::conv(sampz[i]));
  std::set<std::string> seen;
  for (size_t i = 0; i < pts.size(); ++i) {
    const PT& p = pts[i];
    std::vector<int> of;
    for (size_t k = 0; k < wv.size(); ++k) { I x = O::coord(p, wv[k]); if (x < minv || x > maxv) of.push_back(wv[k]); }
    if (of.empty()) { if (O::guard(guard, p)) note(L, O::mem(res, p), p, p); continue; }
    std::string key;
    for (int v = 0; v < n; ++v) { bool o = false; for (size_t k = 0; k < of.size(); ++k) if (of[k] == v) o = true; key += o ? std::string("*") : O::cstr(p, v); key += ","; }
    if (!seen.insert(key).second) continue;
    double tot = 1; for (size_t k = 0; k < of.size(); ++k) tot *= 256.0;
    bool full = w == 8 && tot <= 70000;
    std::vector<I> vals = full ? all : samp;
    if (!full) for (size_t k = 0; k < of.size(); ++k) vals.push_back(O::fmod(O::coord(p, of[k]) - minv, PP) + minv);
    std::vector<size_t> idx(of.size(), 0);
    PT q = p;
    for (;;) {
      for (size_t k = 0; k < of.size(); ++k) O::set(q, of[k], vals[idx[k]]);
      O::fin(q);
      if (O::guard(guard, q)) note(L, O::mem(res, q), p, q);
      size_t k = 0;
      while (k < idx.size() && ++idx[k] == vals.size()) { idx[k] = 0; ++k; }
      if (k == idx.size()) break;
    }
  }
  return L;
}

struct FastPts { bool ok; std::vector<FP> pts; FastPts() : ok(false) {} };
static FastPts fast_points(const PointSet& P, int n) {
  FastPts f; f.ok = n <= 4;
  for (size_t i = 0; i < P.pts.size() && f.ok; ++i) {
    if (!P.pts[i].fast) { f.ok = false; break; }
    FP q; q.dim = n; q.d = P.pts[i].fd; for (int v = 0; v < n; ++v) q.n[v] = P.pts[i].fn[v];
    f.pts.push_back(q);
  }
  if (!f.ok) f.pts.clear();
  return f;
}
static Lost check_wrap(const Eval& res, const PointSet& P, const FastPts& F, unsigned wmask, int n, int w, int rep, int ovf, const GuardRows& guard) {
  if (F.ok && res.fast && guard.fast && w <= 32) return check_wrap_t<FP>(res, F.pts, wmask, n, w, rep, ovf, guard);
  return check_wrap_t<Pt>(res, P.pts, wmask, n, w, rep, ovf, guard);
}

// number of quadrants spanned by the wrapped variables (max over them): 0 = unbounded
static int span_of(const PointSet& P, unsigned wmask, int n, int w, int rep) {
  Range R = range_of(w, rep); int mx = 1;
  for (int v = 0; v < n; ++v) if ((wmask >> v) & 1) {
    if (P.vb.empty() || P.vb[v].empty) continue;
    const Bound& b = P.vb[v];
    if (!b.lo_fin || !b.hi_fin) return 0;
    Z fq = floor_q(Q(floor_q(b.lo) - R.minv) / Q(R.P)), lq = floor_q(Q(floor_q(b.hi) - R.minv) / Q(R.P));
    Z sp = lq - fq + 1; int s = sp > 4 ? 4 : (int)sp.get_si();
    if (s > mx) mx = s;
  }
  return mx;
}

// ---- narrow triggers of the findings (predicates over the input of a call) ---------------------------------
static std::string wrap_trigger(const DomInfo& di, const Eval& arg, const PointSet& P, const CaseP& c, int n, int w) {
  Range R = range_of(w, c.rep);
  if (di.dom->is_box && c.ovf == 0) {
    for (int v = 0; v < n; ++v) if ((c.wmask >> v) & 1) {
      if (P.vb.empty() || P.vb[v].empty) continue;
      const Bound& b = P.vb[v];
      if (b.lo_fin && b.hi_fin && b.hi - b.lo == Q(R.P)) return "box_wraps_interval_width_exactly_2^w";
    }
  }
  if (di.dom->is_box && di.dom->name == "Z_Box" && c.ovf == 1) {
    for (int v = 0; v < n; ++v) if ((c.wmask >> v) & 1) {
      if (P.vb.empty() || P.vb[v].empty) continue;
      const Bound& b = P.vb[v];
      if (b.lo_fin && b.hi_fin && b.hi == Q(R.maxv + 1) && b.lo >= Q(R.minv)) return "integer_box_undefined_upper_bound_equals_max_plus_1";
    }
  }
  if (!di.dom->is_box && di.dom->kind != K_GRID && c.ovf == 0 && !c.ind) {
    // the counting of wrap_assign.hh: the variable whose factor makes the collective complexity exceed the threshold
    for (size_t dj = 0; dj < P.dvb.size(); ++dj) {
      unsigned long cplx = 1; bool too = false;
      for (int v = 0; v < n; ++v) if ((c.wmask >> v) & 1) {
        const Bound& b = P.dvb[dj][v];
        if (!b.lo_fin || !b.hi_fin) continue;
        Z fq = floor_q(Q(floor_q(b.lo) - R.minv) / Q(R.P)), lq = floor_q(Q(floor_q(b.hi) - R.minv) / Q(R.P));
        if (fq == 0 && lq == 0) continue;
        if (too) continue;
        Z ext = lq - fq + 1;
        if (ext > c.thr) continue;
        cplx *= ext.get_ui();
        if (cplx > c.thr) return "collective_wrap_variable_that_first_exceeds_the_threshold";
      }
    }
  }
  if (di.dom->kind == K_GRID && arg.d.has_gg) {
    for (int v = 0; v < n; ++v) if ((c.wmask >> v) & 1) {
      GridVar g = grid_var(arg.d.gg, v);
      if (g.line) continue;
      if (g.constant) {
        if (g.value.get_den() != 1) continue;
        Z x = g.value.get_num();
        if (c.ovf == 0 && c.rep == 1 && (x < R.minv || x > R.maxv)) {
          Z t; mpz_tdiv_r(t.get_mpz_t(), x.get_mpz_t(), R.P.get_mpz_t());
          if (t < R.minv || t > R.maxv) return "grid_wraps_signed_constant_truncated_remainder_out_of_range";
        }
        continue;
      }
      if (g.freq.get_den() != 1 && c.ovf != 1) return "grid_variable_with_non_integral_period";
      if (g.freq.get_den() == 1) {
        Z f = g.freq.get_num();
        if (c.ovf != 1 && c.rep == 1 && f == R.P) return "grid_signed_variable_with_period_exactly_2^w";
        if (c.ovf == 2 && 2 * f >= R.P) return "grid_impossible_variable_with_period_at_least_2^(w-1)";
      }
    }
  }
  return "none";
}

// ---------------------------------------------------------------------------------------------------
struct ItemCtx {
  Item it; const DomInfo* di; const ArgSpec* spec; Built built; Eval arg; std::string arg_text;
  std::map<unsigned, PointSet> pts; std::map<unsigned, FastPts> fpts;
  std::map<std::string, Lost> memo;      // (vars, r, o, guard, printed result) -> verdict: the oracle depends on nothing else
  const PointSet& points(unsigned wmask) {
    std::map<unsigned, PointSet>::iterator f = pts.find(wmask);
    if (f != pts.end()) return f->second;
    RefGuard g;
    PointSet ps = enumerate_points(arg, wmask, it.w);
    fpts[wmask] = fast_points(ps, arg.d.n);
    return pts[wmask] = ps;
  }
};

static std::string input_json(ItemCtx& cx, const CaseP& c) {
  J j; j.str("domain", cx.di->dom->name).str("argument", cx.spec->name).str("argument_value", cx.arg_text)
    .str("lazy_state", cx.di->dom->mode_name(cx.it.mode)).num("dom", cx.it.dom).num("arg", cx.it.arg).num("mode", cx.it.mode).num("w", cx.it.w);
  if (c.op == OP_WRAP) {
    j.str("op", "wrap_assign").str("vars", vars_str(c.wmask)).num("wmask", c.wmask).str("r", REPN[c.rep]).num("rep", c.rep).str("o", OVFN[c.ovf]).num("ovf", c.ovf)
     .str("cs_p", c.guard < 0 ? "null" : GUARDS[c.guard].name).num("guard", c.guard).num("complexity_threshold", c.thr).boolean("wrap_individually", c.ind);
  } else if (c.op == OP_CIP) j.str("op", "contains_integer_point");
  else j.str("op", c.op == OP_DROP_ALL ? "drop_some_non_integer_points(cc)" : "drop_some_non_integer_points(vars,cc)").str("vars", vars_str(c.wmask)).num("wmask", c.wmask).str("complexity", CCN[c.cc]).num("cc", c.cc);
  return j.done();
}
static std::string desc_key(const Desc& d) {
  std::string s = d.empty_flag ? "E" : "N";
  for (size_t i = 0; i < d.d.size(); ++i) {
    s += "|";
    for (size_t j = 0; j < d.d[i].rows.size(); ++j) { const IRow& r = d.d[i].rows[j]; for (size_t k = 0; k < r.a.size(); ++k) { s += r.a[k].get_str(); s += ","; } s += r.b.get_str(); s += char('a' + r.k); }
    s += "#";
    for (size_t j = 0; j < d.d[i].congs.size(); ++j) { const ICong& r = d.d[i].congs[j]; for (size_t k = 0; k < r.a.size(); ++k) { s += r.a[k].get_str(); s += ","; } s += r.b.get_str(); s += "m"; s += r.m.get_str(); s += ";"; }
  }
  return s;
}

static void prepare_item(ItemCtx& cx, const Item& it) {
  cx.it = it; cx.di = &DOMS[it.dom]; cx.spec = cx.di->args[it.arg].a;
  cx.built = built_of(*cx.spec, it.w);
  std::unique_ptr<Subject> twin(cx.di->dom->build(cx.built, it.mode));
  twin->describe(cx.arg.d, true);
  cx.arg.prepare();
  cx.arg_text = twin->print();
}

static bool VERBOSE = false;

static void run_case(ItemCtx& cx, const CaseP& c) {
  const Domain& dom = *cx.di->dom; int n = cx.spec->n, w = cx.it.w;
  std::string site = dom.name + "::" + (c.op == OP_WRAP ? "wrap_assign" : c.op == OP_CIP ? "contains_integer_point" : "drop_some_non_integer_points");
  std::unique_ptr<Subject> s(dom.build(cx.built, cx.it.mode));
  count(C_CASES);
  if (c.op == OP_WRAP) {
    const PointSet& P = cx.points(c.wmask);
    if (P.skipped) { count(C_SKIP_POINTS); return; }
    PPL::Constraint_System gcs; GuardRows grow;
    if (c.guard >= 0) { gcs = cs_of(GUARDS[c.guard].cs, 2, w); for (size_t i = 0; i < GUARDS[c.guard].cs.size(); ++i) grow.add(irow_of(GUARDS[c.guard].cs[i], n, w)); }
    WrapCall wc; wc.vars = varset(c.wmask); wc.w = width_of(w); wc.r = c.rep ? PPL::SIGNED_2_COMPLEMENT : PPL::UNSIGNED; wc.o = OVFV[c.ovf];
    wc.cs_p = c.guard >= 0 ? &gcs : 0; wc.thr = c.thr; wc.ind = c.ind;
    try { s->wrap(wc); }
    catch (const std::exception& e) {
      if (violcap().admit(site + "/exception")) report_violation(site, "exception", "none", input_json(cx, c), std::string("exception: ") + e.what(), "normal return");
      return;
    }
    count(C_CALLS); count(C_WRAP);
    Eval res; s->describe(res.d, false); res.prepare();
    Lost L;
    { RefGuard g;
      std::string dk = desc_key(res.d), pre = std::to_string(c.wmask) + "/" + std::to_string(c.rep) + "/" + std::to_string(c.ovf) + "/";
      std::string key = pre + std::to_string(c.guard) + "/" + dk;
      std::map<std::string, Lost>::iterator f = cx.memo.find(key), f0;
      if (f != cx.memo.end()) { L = f->second; count(C_MEMO); }
      // the points required under a guard are a subset of those required without it: a printed result that was judged
      // lossless for the guard-free call (same vars, r, o) is lossless under every guard
      else if (c.guard >= 0 && (f0 = cx.memo.find(pre + "-1/" + dk)) != cx.memo.end() && f0->second.lost == 0) { L = Lost(); cx.memo[key] = L; count(C_MEMO_IMPLIED); }
      else { L = check_wrap(res, P, cx.fpts[c.wmask], c.wmask, n, w, c.rep, c.ovf, grow); cx.memo[key] = L; count(C_EXPECTED, L.expected); count(C_POINTS, (long long)P.pts.size()); }
    }
    int sp = span_of(P, c.wmask, n, w, c.rep);
    count(sp == 0 ? C_SPANU : sp == 1 ? C_SPAN1 : sp == 2 ? C_SPAN2 : sp == 3 ? C_SPAN3 : C_SPAN4);
    if (P.pts.empty()) count(C_EMPTY_ARG_CASES); else count(P.window ? C_WINDOW_CASES : C_BOUNDED_CASES);
    if (w != 8) count(C_WIDE_W);
    if (L.lost) {
      std::string trig = wrap_trigger(*cx.di, cx.arg, P, c, n, w);
      std::string clause = std::string("lost_integer_point:") + OVFN[c.ovf];
      if (violcap().admit(site + clause + trig))
        report_violation(site, clause, trig, input_json(cx, c), "result " + s->print() + " does not contain " + L.exp_pt,
                         "result contains " + L.exp_pt + " (image of the point " + L.src + " of the argument)",
                         std::to_string(L.lost) + " of " + std::to_string(L.expected) + " required points are missing");
    }
    if (VERBOSE) printf("%s\n  result: %s\n  points=%zu expected=%ld lost=%ld%s\n", input_json(cx, c).c_str(), s->print().c_str(), P.pts.size(), L.expected, L.lost, L.lost ? (" first: " + L.src + " -> " + L.exp_pt).c_str() : "");
    return;
  }
  if (c.op == OP_DROP_ALL || c.op == OP_DROP_VARS) {
    const PointSet& P = cx.points(c.wmask);
    if (P.skipped) { count(C_SKIP_POINTS); return; }
    try { if (c.op == OP_DROP_ALL) s->drop_all(CCV[c.cc]); else s->drop_vars(varset(c.wmask), CCV[c.cc]); }
    catch (const std::exception& e) {
      if (violcap().admit(site + "/exception")) report_violation(site, "exception", "none", input_json(cx, c), std::string("exception: ") + e.what(), "normal return");
      return;
    }
    count(C_CALLS); count(C_DROP);
    Eval res; s->describe(res.d, dom.kind == K_GRID || dom.kind == K_PRODUCT); res.prepare();
    std::string trig = n == 0 ? "zero_dimensional_universe" : "none";
    // (a) every point of the argument that is integral on the designated dimensions is kept
    long lost = 0; std::string first;
    { RefGuard g;
      for (size_t i = 0; i < P.pts.size(); ++i) if (!member(res, P.pts[i])) { if (!lost) first = P.pts[i].str(); ++lost; }
    }
    count(C_POINTS, (long long)P.pts.size()); count(C_EXPECTED, (long long)P.pts.size());
    if (P.pts.empty()) count(C_EMPTY_ARG_CASES); else count(P.window ? C_WINDOW_CASES : C_BOUNDED_CASES);
    if (lost && violcap().admit(site + "lost" + trig))
      report_violation(site, "lost_integer_point", trig, input_json(cx, c), "result " + s->print() + " does not contain " + first,
                       "result contains " + first + " (a point of the argument, integral on " + vars_str(c.wmask) + ")", std::to_string(lost) + " of " + std::to_string(P.pts.size()) + " points are missing");
    // (b) result included in the argument
    bool sub = true; std::string why;
    { RefGuard g;
      if (dom.kind == K_GRID || dom.kind == K_PRODUCT) {
        if (!res.d.empty_flag && res.d.has_gg && !cx.arg.d.empty_flag) sub = grid_gens_satisfy(res.d.gg, cx.arg.d.d[0], n, &why);
        else if (!res.d.empty_flag && cx.arg.d.empty_flag) { sub = false; why = "argument empty, result not"; }
      }
      if (sub && dom.kind != K_GRID) {
        ref::USet ru = uset_of(res.d), au = uset_of(cx.arg.d);
        if (!ref::subset(ru, au)) { sub = false; why = "a rational point of the result lies outside the argument"; ref::Vec x; for (size_t i = 0; i < ru.size(); ++i) if (ref::find_point_outside(ru[i], au, x)) { why += ": " + ref::vec_str(x); break; } }
      }
    }
    count(C_SUBSET);
    if (!sub && violcap().admit(site + "notsubset"))
      report_violation(site, "result_not_subset_of_argument", "none", input_json(cx, c), "result " + s->print(), "a subset of the argument " + cx.arg_text, why);
    if (VERBOSE) printf("%s\n  result: %s\n  points=%zu lost=%ld subset=%d %s\n", input_json(cx, c).c_str(), s->print().c_str(), P.pts.size(), lost, (int)sub, why.c_str());
    return;
  }
  // contains_integer_point
  bool got;
  try { got = s->cip(); }
  catch (const std::exception& e) {
    if (violcap().admit(site + "/exception")) report_violation(site, "exception", "none", input_json(cx, c), std::string("exception: ") + e.what(), "normal return");
    return;
  }
  count(C_CALLS); count(C_CIP);
  int exact = 0; std::string how;
  { RefGuard g;
    if (!cx.arg.d.empty_flag) {
      for (size_t i = 0; i < cx.arg.d.d.size() && exact == 0; ++i) {
        int r;
        if (dom.kind == K_GRID) { r = grid_has_integer_point(cx.arg.d.d[i], n); how = "lattice"; count(C_CIP_GRID); }
        else {
          long ex = 0;
          r = cell_has_integer_point(cx.arg.d.d[i], n, &ex); how = "window";
          count(C_POINTS, ex);
          int rb = cell_has_integer_point_bounded(cx.arg.d.d[i], n);
          if (rb >= 0) { count(C_CIP_ENUM); if (r >= 0 && rb != r) { sink().line(J().str("t", "error").str("msg", "C17 oracle self-check: window method and plain enumeration disagree on " + cx.arg_text).done()); } if (r < 0) r = rb; }
          else count(C_CIP_WINDOW);
        }
        if (r < 0) { exact = -1; if (getenv("VERIF_PROFILE")) fprintf(stderr, "[c17] cip oracle gave up (%s) on disjunct %zu of %s [%s]\n", how.c_str(), i, cx.arg_text.c_str(), desc_key(cx.arg.d).c_str()); break; }
        if (r == 1) exact = 1;
      }
    }
  }
  if (exact < 0) { count(C_CIP_SKIP); if (getenv("VERIF_PROFILE")) fprintf(stderr, "[c17] cip skipped: %s / %s\n", dom.name.c_str(), cx.arg_text.c_str()); return; }
  if (got != (exact == 1) && violcap().admit(site + "cip"))
    report_violation(site, got ? "claims_integer_point_but_none_exists" : "misses_existing_integer_point", n == 0 ? "zero_dimensional" : "none", input_json(cx, c),
                     got ? "true" : "false", exact ? "true" : "false", "exact answer by " + how);
  if (VERBOSE) printf("%s\n  contains_integer_point=%d exact=%d (%s)\n", input_json(cx, c).c_str(), (int)got, exact, how.c_str());
}

// ---------------------------------------------------------------------------------------------------
static long jnum(const std::string& s, const std::string& key, long def) {
  size_t p = s.find("\"" + key + "\":"); if (p == std::string::npos) return def;
  p += key.size() + 3; while (p < s.size() && s[p] == ' ') ++p;
  if (s.compare(p, 4, "true") == 0) return 1; if (s.compare(p, 5, "false") == 0) return 0;
  return atol(s.c_str() + p);
}

static void build_registry(bool thorough) {
  WRAPM = wrap_menu(); SMALLM = small_menu(); GRIDM = grid_menu(); PSM = powerset_menu(WRAPM); PRODM = product_menu(SMALLM, GRIDM);
  GUARDS = guard_menu();
  // powerset arguments for drop / contains: unions of small cells
  for (size_t i = 0; i + 1 < SMALLM.size(); i += 2) {
    if (SMALLM[i].n != 2 || SMALLM[i + 1].n != 2) continue;
    ArgSpec a = SMALLM[i]; a.disj.push_back(SMALLM[i + 1].disj[0]); a.name += " U " + SMALLM[i + 1].name; PSSMALL.push_back(a);
  }
  for (size_t i = 0; i < SMALLM.size(); i += 5) PSSMALL.push_back(SMALLM[i]);
  std::vector<Domain*> ds, t;
  t = domains_poly(); ds.insert(ds.end(), t.begin(), t.end());
  t = domains_box(); ds.insert(ds.end(), t.begin(), t.end());
  t = domains_bds(); ds.insert(ds.end(), t.begin(), t.end());
  t = domains_oct(); ds.insert(ds.end(), t.begin(), t.end());
  for (size_t i = 0; i < ds.size(); ++i) {
    DomInfo di; di.dom = ds[i];
    auto add = [&](const std::vector<ArgSpec>& m, bool wr, bool sm) {
      for (size_t j = 0; j < m.size(); ++j) { if (m[j].heavy && !thorough) continue; ArgRef r; r.a = &m[j]; r.wrap_ok = wr; r.small_ok = sm; di.args.push_back(r); }
    };
    switch (ds[i]->kind) {
      case K_ROWS: add(WRAPM, true, true); add(SMALLM, false, true); break;
      case K_POWERSET: add(PSM, true, true); add(PSSMALL, false, true); break;
      case K_GRID: add(GRIDM, true, true); break;
      case K_PRODUCT: add(PRODM, false, true); break;
    }
    DOMS.push_back(di);
  }
}

int main(int argc, char** argv) {
  ARGS = parse_args(argc, argv);
  sink().open(ARGS.out);
  bool thorough = ARGS.thorough();
  build_registry(thorough || !ARGS.replay.empty());
  std::string only_dom = ARGS.opt("--only-domain"), only_arg = ARGS.opt("--only-arg");
  std::vector<int> widths; widths.push_back(8);
  if (thorough) { widths.push_back(16); widths.push_back(32); widths.push_back(64); }
  if (!ARGS.opt("--widths").empty()) { widths.clear(); std::stringstream ss(ARGS.opt("--widths")); std::string t; while (std::getline(ss, t, ',')) widths.push_back(atoi(t.c_str())); }
  double t0 = now_s();

  if (!ARGS.replay.empty()) {
    std::ifstream f(ARGS.replay.c_str()); std::stringstream ss; ss << f.rdbuf(); std::string s = ss.str();
    Item it; it.dom = (int)jnum(s, "dom", 0); it.arg = (int)jnum(s, "arg", 0); it.mode = (int)jnum(s, "mode", 0); it.w = (int)jnum(s, "w", 8);
    if (it.dom < 0 || it.dom >= (int)DOMS.size() || it.arg < 0 || it.arg >= (int)DOMS[it.dom].args.size()) { fprintf(stderr, "replay: bad indices\n"); return 2; }
    CaseP c; std::string op; { size_t p = s.find("\"op\":"); if (p != std::string::npos) { size_t a = s.find('"', p + 5), b = s.find('"', a + 1); op = s.substr(a + 1, b - a - 1); } }
    c.op = op == "wrap_assign" ? OP_WRAP : op == "contains_integer_point" ? OP_CIP : op.find("(vars") != std::string::npos ? OP_DROP_VARS : OP_DROP_ALL;
    c.wmask = (unsigned)jnum(s, "wmask", (1u << DOMS[it.dom].args[it.arg].a->n) - 1); c.rep = (int)jnum(s, "rep", 0); c.ovf = (int)jnum(s, "ovf", 0); c.guard = (int)jnum(s, "guard", -1);
    c.thr = (unsigned)jnum(s, "complexity_threshold", 16); c.ind = jnum(s, "wrap_individually", 1) != 0; c.cc = (int)jnum(s, "cc", 2);
    ItemCtx cx; prepare_item(cx, it);
    VERBOSE = true;
    printf("argument: %s\n", cx.arg_text.c_str());
    run_case(cx, c);
    return 0;
  }

  // ---- the work list -----------------------------------------------------------------------------------
  static const char* W16_WIDE[] = { "x[0,256] y[0,1]", "x[-128,128] y=0", "x[-3,300] y[0,2]" };
  for (size_t wi = 0; wi < widths.size(); ++wi) for (size_t d = 0; d < DOMS.size(); ++d) {
    if (!only_dom.empty() && DOMS[d].dom->name.find(only_dom) == std::string::npos) continue;
    for (size_t a = 0; a < DOMS[d].args.size(); ++a) {
      const ArgRef& ar = DOMS[d].args[a];
      if (!only_arg.empty() && ar.a->name.find(only_arg) == std::string::npos) continue;
      int w = widths[wi];
      if (w != 8) {
        if (!ar.wrap_ok || !DOMS[d].dom->has_wrap) continue;
        if (ar.a->wide) {
          bool ok = false;
          if (w == 16 && ar.a->disj.size() == 1) for (size_t k = 0; k < 3; ++k) if (ar.a->name == W16_WIDE[k]) ok = true;
          if (!ok) continue;
        }
      }
      for (int m = 0; m < DOMS[d].dom->modes; ++m) {
        if (w != 8 && ar.a->wide && m != 0) continue;
        if (!thorough && ar.a->n == 3 && ar.wrap_ok && m != 0) continue;
        Item it; it.dom = (int)d; it.arg = (int)a; it.mode = m; it.w = w; ITEMS.push_back(it);
      }
    }
  }
  // heavy items first is not needed: items are interleaved over the workers by index
  Pool::Fn fn = [&](long long item, long long sub_start) {
    ItemCtx cx; double ti0 = now_s();
    { RefGuard g; prepare_item(cx, ITEMS[item]); }
    count(C_ITEMS);
    struct Tm { double t0; ItemCtx* c; ~Tm() { double d = now_s() - t0; if (d > 3 && getenv("VERIF_PROFILE")) fprintf(stderr, "[c17] slow item %.1fs: %s / %s / mode %d / w %d\n", d, c->di->dom->name.c_str(), c->spec->name.c_str(), c->it.mode, c->it.w); } } tm = { ti0, &cx };
    std::vector<CaseP> cs = cases_of(ITEMS[item]);
    for (size_t i = 0; i < cs.size(); ++i) {
      if (!pool().want((long long)i, sub_start)) continue;
      if (ARGS.expired()) { count(CNT_SKIPPED); continue; }
      pool().step((long long)i);
      run_case(cx, cs[i]);
    }
  };
  Pool::CrashFn cf = [&](long long item, long long sub, int sig, bool confirmed) {
    if (!confirmed) return;
    std::vector<CaseP> cs = cases_of(ITEMS[item]);
    if (sub < 0 || sub >= (long long)cs.size()) { sink().line(J().str("t", "error").str("msg", "crash at unknown sub-step").done()); return; }
    ItemCtx cx; prepare_item(cx, ITEMS[item]);
    const CaseP& c = cs[sub];
    std::string site = cx.di->dom->name + "::" + (c.op == OP_WRAP ? "wrap_assign" : c.op == OP_CIP ? "contains_integer_point" : "drop_some_non_integer_points");
    report_violation(site, std::string("crash:") + signame(sig), "none", input_json(cx, c), signame(sig), "normal return");
  };
  limit_memory(6ULL << 30);
  pool().run((long long)ITEMS.size(), ARGS.jobs, fn, cf, ARGS, 120);

  bool complete = counter(CNT_SKIPPED) == 0 && counter(CNT_REFCRASH) == 0;
  std::vector<std::string> samples;
  for (size_t i = 0; i < ITEMS.size(); i += std::max<size_t>(1, ITEMS.size() / 4)) {
    ItemCtx cx; prepare_item(cx, ITEMS[i]); std::vector<CaseP> cs = cases_of(ITEMS[i]);
    if (!cs.empty()) samples.push_back(input_json(cx, cs[(i * 7) % cs.size()]));
  }
  std::string wl; for (size_t i = 0; i < widths.size(); ++i) wl += (i ? "," : "") + std::to_string(widths[i]);
  std::vector<std::string> dn; for (size_t d = 0; d < DOMS.size(); ++d) dn.push_back(jstr(DOMS[d].dom->name + ": " + std::to_string(DOMS[d].args.size()) + " arguments x " + std::to_string(DOMS[d].dom->modes) + " lazy states"));
  J extra;
  extra.num("subjects_domain_argument_lazystate_width", counter(C_ITEMS)).num("wrap_assign_calls", counter(C_WRAP)).num("drop_some_non_integer_points_calls", counter(C_DROP))
    .num("contains_integer_point_calls", counter(C_CIP)).num("integer_points_of_arguments_enumerated", counter(C_POINTS)).num("required_points_evaluated_on_results", counter(C_EXPECTED))
    .num("wrap_cases_spanning_1_quadrant", counter(C_SPAN1)).num("wrap_cases_spanning_2_quadrants", counter(C_SPAN2)).num("wrap_cases_spanning_3_quadrants", counter(C_SPAN3))
    .num("wrap_cases_spanning_4_or_more_quadrants", counter(C_SPAN4)).num("wrap_cases_unbounded_in_a_wrapped_variable", counter(C_SPANU))
    .num("cases_bounded_all_integer_points", counter(C_BOUNDED_CASES)).num("cases_window_only_necessary_condition", counter(C_WINDOW_CASES)).num("cases_argument_without_integer_point", counter(C_EMPTY_ARG_CASES))
    .num("wrap_cases_whose_printed_result_equals_an_already_judged_one", counter(C_MEMO)).num("wrap_cases_with_guard_whose_printed_result_was_judged_lossless_without_guard", counter(C_MEMO_IMPLIED)).num("cases_wider_than_8_bits", counter(C_WIDE_W)).num("cases_skipped_too_many_points", counter(C_SKIP_POINTS)).num("subset_tests", counter(C_SUBSET))
    .num("cip_exact_by_enumeration", counter(C_CIP_ENUM)).num("cip_exact_by_window_argument", counter(C_CIP_WINDOW)).num("cip_exact_by_lattice_reasoning", counter(C_CIP_GRID)).num("cip_skipped", counter(C_CIP_SKIP))
    .num("cases_skipped_by_deadline", counter(CNT_SKIPPED)).num("cases_skipped_oracle_resource_limit", counter(CNT_REFCRASH)).arr("domains", dn)
    .str("note", "Partially_Reduced_Product has no wrap_assign / contains_integer_point in this PPL: the product is covered for drop_some_non_integer_points only");
  J st; st.str("t", "stats").num("states", counter(C_CASES)).num("transitions", counter(C_CALLS)).num("traces_validated_against_impl", counter(C_CALLS)).boolean("exhaustive", complete)
    .str("bound", "menus of harness/c17_menu.hh: widths {" + wl + "}; wrap_assign: vars in {x},{y},{x,y} (dim 3: pairs and all), 2 representations, 3 overflow modes, guards none + "
         + std::to_string(GUARDS.size()) + " systems (those over the wrapped variables), thresholds {0,1,2,16}, individually/collectively; drop_some_non_integer_points: all dims + every non-empty variable set, 3 complexity classes; contains_integer_point; every lazy state of every domain (polyhedra 6, boxes/BD shapes/octagons 4, grids 7, powerset 3, product 2)"
         + (ARGS.thorough() ? std::string("") : std::string("; quick tier: the added lazy states run thresholds {2,16}, Grid (which ignores the threshold) runs {0,16}, dimension-3 arguments run in the first lazy state only"))
         + "; OVERFLOW_UNDEFINED: all 2^w in-range re-assignments for w=8, 20 boundary/sample values per coordinate for wider types")
    .arr("samples", samples).raw("extra", extra.done()).dbl("wall_s", now_s() - t0);
  sink().line(st.done());
  return 0;
}

// C06 -- MIP_Problem: bounded exhaustive exploration of call histories over ONE problem object, every
// solve / is_satisfiable / feasible_point / optimizing_point / optimal_value judged by the exact MILP reference
// (ref/milp.hh) on the final data, and compared with a FRESH problem built from the same data under each pricing.
//
//   state key   = ascii_dump text (status, tableau, base, mapping, pending index, cached point ...), hash-compacted
//   clone       = copy constructor + the one field it resets (first_pending_constraint); asserted dump-equal
//   work items  = (initial configuration, first operation); breadth-first below, merged by state key per item
//   hang guard  = every solve-like call on data with integer variables and an unbounded relaxation runs first in a
//                 forked sandbox with a CPU budget (branch-and-bound may diverge there); all the rest under Pool's
//                 per-step alarm with crash attribution
#include "engine/ppl_ref.hh"
#include "engine/common.hh"
#include "ref/milp.hh"
#include <unordered_map>
#include <unordered_set>
#include <memory>
#include <fcntl.h>
#include <cerrno>
#include <sys/prctl.h>

using namespace vf;
using ref::Q; using ref::Vec; using ref::Cell; using ref::Row;
typedef PPL::MIP_Problem MIP;
static inline ref::Q fq(const mpz_class& z) { return ref::Q(z); }      // Coefficient is mpz_class in the prod variant

static Args ARGS;
static std::map<std::string, std::pair<double, long> > PROF;
struct ProfT { std::string k; double t0; ProfT(const std::string& k_) : k(k_), t0(now_s()) {} ~ProfT() { std::pair<double,long>& p = PROF[k]; p.first += now_s() - t0; p.second++; } };

// ------------------------------------------------------------------ menus
static std::vector<CN> CM;          // constraint rows over (A, B, C)
static std::vector<LE> OM;          // objectives
static std::vector<std::pair<int, int> > PAIRS;   // add_constraints({r1, r2})

static void build_menus() {
  auto ge = [](std::initializer_list<long> a, long b) { return CN(LE(a, b), ref::GE); };
  auto eq = [](std::initializer_list<long> a, long b) { return CN(LE(a, b), ref::EQ); };
  // rows  a.x + b >= 0 / = 0
  CM.push_back(ge({1, 0, 0}, 0));      //  0  A >= 0
  CM.push_back(ge({0, 1, 0}, 0));      //  1  B >= 0
  CM.push_back(ge({-1, 0, 0}, 2));     //  2  A <= 2
  CM.push_back(ge({0, -1, 0}, 2));     //  3  B <= 2
  CM.push_back(ge({-1, -1, 0}, 3));    //  4  A + B <= 3
  CM.push_back(ge({1, -1, 0}, 0));     //  5  A - B >= 0            (cone with 0/1)
  CM.push_back(eq({2, -2, 0}, -1));    //  6  2A - 2B = 1           (no integer solution)
  CM.push_back(ge({2, 1, 0}, -1));     //  7  2A + B >= 1
  CM.push_back(ge({-2, 0, 0}, -1));    //  8  -2A >= 1              (A <= -1/2)
  CM.push_back(ge({1, 0, 0}, 2));      //  9  A >= -2
  CM.push_back(ge({1, 1, 0}, -1));     // 10  A + B >= 1
  CM.push_back(ge({-1, -1, 0}, 1));    // 11  A + B <= 1            (parallel to 10: degenerate)
  CM.push_back(ge({-2, -2, 0}, 3));    // 12  2A + 2B <= 3          (fractional vertices)
  CM.push_back(eq({1, 0, 0}, -1));     // 13  A = 1
  CM.push_back(ge({-1, 2, 0}, -1));    // 14  A - 2B <= -1
  CM.push_back(ge({1, 1, 0}, 0));      // 15  A + B >= 0            (redundant with 0/1)
  // rows mentioning C (dimension 3)
  CM.push_back(ge({0, 0, 1}, 0));      // 16  C >= 0
  CM.push_back(ge({0, 0, -1}, 2));     // 17  C <= 2
  CM.push_back(ge({-1, 0, -1}, 2));    // 18  A + C <= 2
  CM.push_back(ge({0, 1, -2}, 1));     // 19  B - 2C >= -1
  CM.push_back(eq({1, 1, 2}, -3));     // 20  A + B + 2C = 3
  CM.push_back(eq({1, 1, 0}, -2));     // 21  A + B = 2             (given several times: redundant rows in phase 1)
  OM.push_back(LE({1, 0, 0}, 0));      // A
  OM.push_back(LE({0, 1, 0}, 0));      // B
  OM.push_back(LE({1, 1, 0}, 0));      // A + B
  OM.push_back(LE({1, -1, 0}, 0));     // A - B
  OM.push_back(LE({-1, 0, 0}, 0));     // -A
  OM.push_back(LE({2, 1, 0}, 1));      // 2A + B + 1
  OM.push_back(LE({0, 0, 0}, 0));      // 0
  OM.push_back(LE({-1, -1, 0}, 0));    // -A - B
  OM.push_back(LE({0, -2, 0}, 0));     // -2B
  OM.push_back(LE({0, 0, 1}, 0));      // C
  OM.push_back(LE({1, 0, -1}, 0));     // A - C
  PAIRS.push_back(std::make_pair(0, 2));     // 0 <= A <= 2
  PAIRS.push_back(std::make_pair(1, 4));     // B >= 0, A + B <= 3
  PAIRS.push_back(std::make_pair(10, 11));   // A + B = 1 as two rows
  PAIRS.push_back(std::make_pair(8, 9));     // -2 <= A <= -1/2
}

// ------------------------------------------------------------------ abstract data of a problem
struct Data {
  int dim; std::vector<int> rows; unsigned ints; int obj; bool maxi; int pricing;
  Data() : dim(0), ints(0), obj(-1), maxi(true), pricing(0) {}
};
static const char* PRICING_NAME[] = {"STEEPEST_EDGE_FLOAT", "STEEPEST_EDGE_EXACT", "TEXTBOOK"};
static MIP::Control_Parameter_Value PRICING_VAL[] = {MIP::PRICING_STEEPEST_EDGE_FLOAT, MIP::PRICING_STEEPEST_EDGE_EXACT, MIP::PRICING_TEXTBOOK};

static std::string data_json(const Data& d) {
  std::vector<std::string> rows, ints;
  for (size_t i = 0; i < d.rows.size(); ++i) rows.push_back(jstr(CM[d.rows[i]].str()));
  for (int i = 0; i < 3; ++i) if (d.ints & (1u << i)) ints.push_back(jstr(std::string(1, char('A' + i))));
  return J().num("dim", d.dim).arr("constraints", rows).arr("integer_vars", ints).str("objective", d.obj < 0 ? "0" : OM[d.obj].str())
    .str("mode", d.maxi ? "MAXIMIZATION" : "MINIMIZATION").str("pricing", PRICING_NAME[d.pricing]).done();
}

// ------------------------------------------------------------------ reference answer per data (memoised)
struct RefAns {
  int status;               // 0 infeasible, 1 optimum, 2 unbounded
  Q value;
  bool relax_empty, region_unbounded, lp_unbounded;
  RefAns() : status(0), relax_empty(true), region_unbounded(false), lp_unbounded(false) {}
};
static std::unordered_map<std::string, RefAns> REFMEMO;

static Cell cell_of_data(const Data& d) {
  Cell c(d.dim);
  for (size_t i = 0; i < d.rows.size(); ++i) c.rows.push_back(CM[d.rows[i]].row(d.dim));
  return c;
}
static Vec obj_vec(const Data& d, Q& b) {
  if (d.obj < 0) { b = 0; return ref::zeros(d.dim); }
  b = OM[d.obj].b; return OM[d.obj].vec(d.dim);
}
struct Region { Cell c; ref::Window w; };
static std::unordered_map<std::string, Region> REGIONMEMO;
static const RefAns& reference(const Data& d) {
  std::vector<int> r = d.rows; std::sort(r.begin(), r.end()); r.erase(std::unique(r.begin(), r.end()), r.end());
  std::string rkey = std::to_string(d.dim) + "|";
  for (size_t i = 0; i < r.size(); ++i) rkey += std::to_string(r[i]) + ",";
  std::string key = std::to_string(d.ints) + "|" + std::to_string(d.obj) + "|" + (d.maxi ? "M" : "m") + "|" + rkey;
  std::unordered_map<std::string, RefAns>::iterator it = REFMEMO.find(key);
  if (it != REFMEMO.end()) return it->second;
  RefGuard guard;
  ProfT pt_("reference");
  RefAns a;
  std::unordered_map<std::string, Region>::iterator rit = REGIONMEMO.find(rkey);
  if (rit == REGIONMEMO.end()) {
    ProfT pt2_("region");
    Region rg; rg.c = cell_of_data(d); rg.w = ref::window_of(rg.c);
    rit = REGIONMEMO.insert(std::make_pair(rkey, rg)).first;
  }
  const Cell& c = rit->second.c; const ref::Window& w = rit->second.w;
  Q b; Vec o = obj_vec(d, b);
  if (!d.maxi) { for (size_t i = 0; i < o.size(); ++i) o[i] = -o[i]; b = -b; }
  std::vector<bool> is_int(d.dim, false);
  for (int i = 0; i < d.dim; ++i) if (d.ints & (1u << i)) is_int[i] = true;
  a.relax_empty = w.empty;
  if (!w.empty) {
    a.region_unbounded = !w.dirs.empty();
    for (size_t i = 0; i < w.dirs.size(); ++i) if (ref::dot(o, w.dirs[i]) > 0) a.lp_unbounded = true;
    ref::Milp m = ref::milp_max_w(c, w, is_int, o, b);
    a.status = m.status;
    if (m.status == 1) a.value = d.maxi ? m.value : Q(-m.value);
  }
  count(CNT_USER + 4);
  return REFMEMO[key] = a;
}
static bool risky(const Data& d) {
  if (d.ints == 0) return false;
  const RefAns& a = reference(d);
  return !a.relax_empty && a.region_unbounded;
}
static std::string status_name(int s) { return s == 0 ? "UNFEASIBLE" : s == 1 ? "OPTIMIZED" : "UNBOUNDED"; }
static std::string qstr(const Q& q) { std::ostringstream s; s << q; return s.str(); }

// ------------------------------------------------------------------ operations
enum Kind { AC, ACS, DIM, INT, OBJ, MODE, PRICE, SOLVE, ISSAT, FEAS, OPTP, OPTV, CLEAR, COPY, ASSIGN };
struct Op { Kind k; int arg; };
static std::vector<Op> OPS;
static bool solve_like(Kind k) { return k == SOLVE || k == ISSAT || k == FEAS || k == OPTP || k == OPTV; }

static void build_ops() {
  for (size_t i = 0; i < CM.size(); ++i) OPS.push_back(Op{AC, (int)i});
  for (size_t i = 0; i < PAIRS.size(); ++i) OPS.push_back(Op{ACS, (int)i});
  OPS.push_back(Op{DIM, 1});
  for (int i = 0; i < 3; ++i) OPS.push_back(Op{INT, i});
  for (size_t i = 0; i < OM.size(); ++i) OPS.push_back(Op{OBJ, (int)i});
  OPS.push_back(Op{MODE, 0}); OPS.push_back(Op{MODE, 1});
  for (int i = 0; i < 3; ++i) OPS.push_back(Op{PRICE, i});
  OPS.push_back(Op{SOLVE, 0}); OPS.push_back(Op{ISSAT, 0}); OPS.push_back(Op{FEAS, 0}); OPS.push_back(Op{OPTP, 0}); OPS.push_back(Op{OPTV, 0});
  OPS.push_back(Op{CLEAR, 0}); OPS.push_back(Op{COPY, 0}); OPS.push_back(Op{ASSIGN, 0});
}
static std::string op_name(const Op& o) {
  switch (o.k) {
    case AC: return "add_constraint(" + CM[o.arg].str() + ")";
    case ACS: return "add_constraints({" + CM[PAIRS[o.arg].first].str() + ", " + CM[PAIRS[o.arg].second].str() + "})";
    case DIM: return "add_space_dimensions_and_embed(1)";
    case INT: return std::string("add_to_integer_space_dimensions({") + char('A' + o.arg) + "})";
    case OBJ: return "set_objective_function(" + OM[o.arg].str() + ")";
    case MODE: return o.arg ? "set_optimization_mode(MAXIMIZATION)" : "set_optimization_mode(MINIMIZATION)";
    case PRICE: return std::string("set_control_parameter(PRICING_") + PRICING_NAME[o.arg] + ")";
    case SOLVE: return "solve()";
    case ISSAT: return "is_satisfiable()";
    case FEAS: return "feasible_point()";
    case OPTP: return "optimizing_point()";
    case OPTV: return "optimal_value()";
    case CLEAR: return "clear()";
    case COPY: return "copy-construct";
    case ASSIGN: return "operator=";
  }
  return "?";
}
static std::string op_site(Kind k) {
  switch (k) {
    case SOLVE: return "MIP_Problem::solve"; case ISSAT: return "MIP_Problem::is_satisfiable"; case FEAS: return "MIP_Problem::feasible_point";
    case OPTP: return "MIP_Problem::optimizing_point"; case OPTV: return "MIP_Problem::optimal_value"; case AC: return "MIP_Problem::add_constraint";
    case ACS: return "MIP_Problem::add_constraints"; case DIM: return "MIP_Problem::add_space_dimensions_and_embed"; case INT: return "MIP_Problem::add_to_integer_space_dimensions";
    case OBJ: return "MIP_Problem::set_objective_function"; case MODE: return "MIP_Problem::set_optimization_mode"; case PRICE: return "MIP_Problem::set_control_parameter";
    case CLEAR: return "MIP_Problem::clear"; case COPY: return "MIP_Problem::MIP_Problem(copy)"; case ASSIGN: return "MIP_Problem::operator=";
  }
  return "MIP_Problem";
}
static bool enabled(const Op& o, const Data& d) {
  switch (o.k) {
    case AC: return CM[o.arg].e.dim() <= d.dim;
    case ACS: return CM[PAIRS[o.arg].first].e.dim() <= d.dim && CM[PAIRS[o.arg].second].e.dim() <= d.dim;
    case DIM: return d.dim < 3;
    case INT: return o.arg < d.dim;
    case OBJ: return OM[o.arg].dim() <= d.dim;
    default: return true;
  }
}

// what a solve-like call returned
struct Outcome {
  bool threw; std::string exc;       // exception type name ("domain_error", "other:...")
  int status;                        // SOLVE
  bool sat;                          // ISSAT
  bool have_point; Vec point; int point_dim;
  bool have_value; Q value;
  Outcome() : threw(false), status(-1), sat(false), have_point(false), point_dim(0), have_value(false) {}
};

static int status_code(PPL::MIP_Problem_Status s) {
  return s == PPL::UNFEASIBLE_MIP_PROBLEM ? 0 : s == PPL::OPTIMIZED_MIP_PROBLEM ? 1 : 2;
}
static void take_point(Outcome& o, const PPL::Generator& g, int dim) {
  o.have_point = true; o.point_dim = (int)g.space_dimension();
  o.point.assign(dim, Q(0));
  if (g.is_point()) { Q dv = fq(g.divisor()); for (int i = 0; i < dim && i < (int)g.space_dimension(); ++i) o.point[i] = fq(g.coefficient(PPL::Variable(i))) / dv; }
  if (!g.is_point()) o.point_dim = -1;
}

// Applies op to *p (p may be replaced by COPY / ASSIGN) and updates the abstract data.
static Outcome apply(std::unique_ptr<MIP>& p, Data& d, const Op& o) {
  Outcome out;
  switch (o.k) {
    case AC: p->add_constraint(CM[o.arg].ppl()); d.rows.push_back(o.arg); break;
    case ACS: {
      PPL::Constraint_System cs; cs.insert(CM[PAIRS[o.arg].first].ppl()); cs.insert(CM[PAIRS[o.arg].second].ppl());
      p->add_constraints(cs); d.rows.push_back(PAIRS[o.arg].first); d.rows.push_back(PAIRS[o.arg].second); break; }
    case DIM: p->add_space_dimensions_and_embed(1); d.dim += 1; break;
    case INT: { PPL::Variables_Set s; s.insert(PPL::Variable(o.arg)); p->add_to_integer_space_dimensions(s); d.ints |= 1u << o.arg; break; }
    case OBJ: p->set_objective_function(OM[o.arg].ppl()); d.obj = o.arg; break;
    case MODE: p->set_optimization_mode(o.arg ? PPL::MAXIMIZATION : PPL::MINIMIZATION); d.maxi = o.arg != 0; break;
    case PRICE: p->set_control_parameter(PRICING_VAL[o.arg]); d.pricing = o.arg; break;
    case CLEAR: p->clear(); d = Data(); break;
    case COPY: { std::unique_ptr<MIP> q(new MIP(*p)); p.swap(q); break; }
    case ASSIGN: { std::unique_ptr<MIP> q(new MIP(1)); *q = *p; p.swap(q); break; }
    case SOLVE: out.status = status_code(p->solve()); break;
    case ISSAT: out.sat = p->is_satisfiable(); break;
    case FEAS:
      try { const PPL::Generator& g = p->feasible_point(); take_point(out, g, d.dim); }
      catch (const std::domain_error&) { out.threw = true; out.exc = "domain_error"; }
      break;
    case OPTP:
      try { const PPL::Generator& g = p->optimizing_point(); take_point(out, g, d.dim); }
      catch (const std::domain_error&) { out.threw = true; out.exc = "domain_error"; }
      break;
    case OPTV:
      try { PPL::Coefficient n, dd; p->optimal_value(n, dd); out.have_value = true; out.value = fq(n) / fq(dd); }
      catch (const std::domain_error&) { out.threw = true; out.exc = "domain_error"; }
      break;
  }
  return out;
}

static std::unique_ptr<MIP> clone(const MIP& s) {
  std::unique_ptr<MIP> c(new MIP(s));
  // the copy constructor deliberately resets the pending index; a clone must not
  c->first_pending_constraint = s.first_pending_constraint;
  return c;
}

static std::unique_ptr<MIP> build_fresh(const Data& d, int pricing, bool via_ctor) {
  std::unique_ptr<MIP> p;
  if (via_ctor) {
    PPL::Constraint_System cs;
    for (size_t i = 0; i < d.rows.size(); ++i) cs.insert(CM[d.rows[i]].ppl());
    p.reset(new MIP(d.dim, cs, d.obj < 0 ? PPL::Linear_Expression() : OM[d.obj].ppl(), d.maxi ? PPL::MAXIMIZATION : PPL::MINIMIZATION));
  } else {
    p.reset(new MIP(d.dim));
    for (size_t i = 0; i < d.rows.size(); ++i) p->add_constraint(CM[d.rows[i]].ppl());
    if (d.obj >= 0) p->set_objective_function(OM[d.obj].ppl());
    p->set_optimization_mode(d.maxi ? PPL::MAXIMIZATION : PPL::MINIMIZATION);
  }
  PPL::Variables_Set s;
  for (int i = 0; i < d.dim; ++i) if (d.ints & (1u << i)) s.insert(PPL::Variable(i));
  if (!s.empty()) p->add_to_integer_space_dimensions(s);
  p->set_control_parameter(PRICING_VAL[pricing]);
  return p;
}

// ------------------------------------------------------------------ guard for calls that may diverge
// PPL's own cooperative cancellation: a CPU-time signal makes `abandon_expensive_computations` point to a throwable;
// every simplex iteration calls maybe_abandon(), which throws it.  The object is discarded afterwards.
static double SANDBOX_S = 0.02, CONFIRM_S = 0.5;
struct Abandoned : public PPL::Throwable { void throw_me() const { throw *this; } };
static Abandoned ABANDONED;
// The timer keeps ticking after the request: a computation that does not reach maybe_abandon() within HARD_S more
// seconds of CPU (a loop without cancellation points) ends the worker with exit status 97; Pool then re-runs that very
// transition alone, sees the same exit, and the parent reports it as a non-cooperative hang of that transition.
static const double TICK_S = 0.25, HARD_S = 3.0;
static volatile int TICKS_AFTER_REQUEST = 0;
static void on_prof(int) {
  if (PPL::abandon_expensive_computations == 0) { PPL::abandon_expensive_computations = &ABANDONED; TICKS_AFTER_REQUEST = 0; return; }
  if (++TICKS_AFTER_REQUEST * TICK_S >= HARD_S) _exit(97);
}
// returns 0 if f() returned, SIGPROF if it was abandoned after cpu_s seconds, 1077 on memory exhaustion
static int sandbox(const std::function<void()>& f, double cpu_s) {
  static bool installed = false;
  if (!installed) { struct sigaction sa; memset(&sa, 0, sizeof sa); sa.sa_handler = on_prof; sigaction(SIGPROF, &sa, 0); installed = true; }
  struct itimerval tv, off; memset(&tv, 0, sizeof tv); memset(&off, 0, sizeof off);
  tv.it_value.tv_sec = (long)cpu_s; tv.it_value.tv_usec = (long)((cpu_s - (long)cpu_s) * 1e6);
  tv.it_interval.tv_sec = 0; tv.it_interval.tv_usec = (long)(TICK_S * 1e6);
  PPL::abandon_expensive_computations = 0;
  setitimer(ITIMER_PROF, &tv, 0);
  int rc = 0;
  try { f(); }
  catch (const Abandoned&) { rc = SIGPROF; }
  catch (const std::bad_alloc&) { rc = 1077; }
  setitimer(ITIMER_PROF, &off, 0);
  PPL::abandon_expensive_computations = 0;
  return rc;
}
// Transition-wide watchdog on a second, independent timer (user CPU time): everything a transition executes outside
// sandbox() -- clone, OK(), ascii_dump, the follow-up queries and the fresh problems of the oracle -- is library code too.
static void on_vtalrm(int) { _exit(97); }
static void watchdog(double cpu_s) {
  static bool installed = false;
  if (!installed) { struct sigaction sa; memset(&sa, 0, sizeof sa); sa.sa_handler = on_vtalrm; sigaction(SIGVTALRM, &sa, 0); installed = true; }
  struct itimerval tv; memset(&tv, 0, sizeof tv);
  tv.it_value.tv_sec = (long)cpu_s; tv.it_value.tv_usec = (long)((cpu_s - (long)cpu_s) * 1e6);
  setitimer(ITIMER_VIRTUAL, &tv, 0);
}
static std::string sandbox_clause(int sig) {
  if (sig == SIGPROF) return "hang";
  if (sig == 1077) return "crash:memory-exhausted";
  return std::string("crash:") + signame(sig);
}

// ------------------------------------------------------------------ exploration state
struct Init { Data d; bool via_ctor; };
static std::vector<Init> INITS;
struct Item { int init; int first_op; };
static std::vector<Item> ITEMS;

struct Rec { int parent; int op; };             // history tree of one item
static std::vector<Rec> RECS;
static int CUR_INIT = -1;

static std::string init_name(const Init& in) {
  std::string s = in.via_ctor ? "MIP_Problem(dim, cs, obj, mode) " : "MIP_Problem(dim) ";
  return s + data_json(in.d);
}
static std::vector<int> history_ops(int rec) {
  std::vector<int> h;
  while (rec >= 0 && RECS[rec].parent >= 0) { h.push_back(RECS[rec].op); rec = RECS[rec].parent; }
  std::reverse(h.begin(), h.end());
  return h;
}
static std::string input_json(int init, int rec, int op, const Data& final_data, const std::string& extra = "") {
  std::vector<int> h = history_ops(rec);
  if (op >= 0) h.push_back(op);
  std::vector<std::string> names, idx;
  for (size_t i = 0; i < h.size(); ++i) { names.push_back(jstr(op_name(OPS[h[i]]))); idx.push_back(std::to_string(h[i])); }
  J j; j.num("init", init).str("init_desc", init_name(INITS[init])).arr("history", names).arr("ops", idx).raw("final_data", data_json(final_data));
  if (!extra.empty()) j.str("note", extra);
  return j.done();
}

// two independent 64-bit hashes of the dump text (hash compaction of the state key)
struct Key { unsigned long long a, b; bool operator==(const Key& o) const { return a == o.a && b == o.b; } };
struct KeyHash { size_t operator()(const Key& k) const { return (size_t)(k.a ^ (k.b * 0x9e3779b97f4a7c15ULL)); } };
static Key key_of(const std::string& s) {
  Key k; k.a = 1469598103934665603ULL; k.b = 0xcbf29ce484222325ULL ^ 0x5bd1e995;
  for (size_t i = 0; i < s.size(); ++i) { k.a = (k.a ^ (unsigned char)s[i]) * 1099511628211ULL; k.b = (k.b + (unsigned char)s[i]) * 0x100000001b3ULL; k.b ^= k.b >> 29; }
  return k;
}

enum { CNT_SOLVES = CNT_USER, CNT_SANDBOXED, CNT_DIVERGED, CNT_FRESH, CNT_REFS, CNT_TERMINAL, CNT_MERGED, CNT_RISKY_STATES, CNT_INTSTATES, CNT_MAXLAYER };

// crash bookkeeping shared with the parent: transitions confirmed to crash are skipped on re-execution
struct BadList { volatile long long n; long long item[8192], sub[8192]; };
static BadList* BAD = 0;
struct CrashInfo { volatile int init, n, ops[12]; };
static CrashInfo* CRASH = 0;      // one slot per worker: the transition being executed
static bool is_bad(long long item, long long sub) {
  for (long long i = 0; i < BAD->n; ++i) if (BAD->item[i] == item && BAD->sub[i] == sub) return true;
  return false;
}

// ------------------------------------------------------------------ oracle
static std::string wrong_status_trigger(const Data& d) {
  const RefAns& a = reference(d);
  if (d.ints != 0 && !a.relax_empty && a.lp_unbounded) return "integer_vars_and_unbounded_lp_relaxation";
  return "none";
}
static std::string divergence_trigger(const Data& d) {
  const RefAns& a = reference(d);
  if (d.ints != 0 && !a.relax_empty && a.region_unbounded) return a.status == 0 ? "integer_vars_unbounded_region_no_integer_point" : "integer_vars_unbounded_region";
  return "none";
}

// direct evaluation: does the point satisfy every row and integrality requirement?
static std::string point_defect(const Data& d, const Outcome& o) {
  if (o.point_dim < 0) return "not a point";
  if (o.point_dim > d.dim) return "space dimension of the point exceeds the problem's";
  for (size_t i = 0; i < d.rows.size(); ++i) if (!ref::sat(CM[d.rows[i]].row(d.dim), o.point)) return "violates " + CM[d.rows[i]].str();
  for (int i = 0; i < d.dim; ++i) if ((d.ints & (1u << i)) && !ref::is_integer(o.point[i])) return std::string("coordinate ") + char('A' + i) + " not integral";
  return "";
}
static Q obj_at(const Data& d, const Vec& x) { Q b; Vec o = obj_vec(d, b); return ref::dot(o, x) + b; }

// Trigger predicate on the state a solve-like call starts from: some pending inequality (>= 2 variables) is satisfied by
// the cached point but not by the basic solution of the tableau.  process_pending_constraints() then enters its slack
// into the base without an artificial variable ("already satisfied"), although the row is violated at the vertex the
// tableau stands on.  This happens after a MIP solve: the cached point is the branch-and-bound optimum, the tableau is
// still the relaxation's.  (compute_generator() is run on a scratch clone; it only serves this predicate.)
static std::unique_ptr<MIP> clone(const MIP& s);
static bool stale_cached_point(const MIP& m) {
  if (!m.initialized || m.status == MIP::UNSATISFIABLE) return false;
  // The open defect needs a MIP solve: only then is the cached point (the branch-and-bound optimum) legitimately
  // different from the tableau's vertex.  For a pure LP the two must coincide, so a mismatch there is a different fault.
  if (m.i_variables.empty()) return false;
  if (m.first_pending_constraint >= m.input_cs.size()) return false;
  if (m.tableau.num_rows() != m.base.size() || m.mapping.size() != m.internal_space_dim + 1) return false;
  std::unique_ptr<MIP> c = clone(m);
  c->external_space_dim = c->internal_space_dim;      // scratch clone: compute_generator() walks external_space_dim entries of `mapping'
  try { c->compute_generator(); } catch (...) { return false; }
  for (size_t i = m.first_pending_constraint; i < m.input_cs.size(); ++i) {
    const PPL::Constraint& ci = *m.input_cs[i];
    if (!ci.is_inequality()) continue;
    if (MIP::is_satisfied(ci, m.last_generator) && !MIP::is_satisfied(ci, c->last_generator)) return true;
  }
  return false;
}
struct Reporter {
  int init, rec, op; const Data* d; bool live;
  const MIP* src; mutable int stale;     // -1 unknown
  Reporter() : init(0), rec(0), op(0), d(0), live(true), src(0), stale(-1) {}
  std::string trig(const std::string& dflt) const {
    if (stale < 0) stale = (src && stale_cached_point(*src)) ? 1 : 0;
    return stale ? "pending_row_satisfied_by_cached_point_not_by_tableau_vertex" : dflt;
  }
  void viol(const std::string& site, const std::string& clause, const std::string& trig, const std::string& obs, const std::string& exp, const std::string& detail = "") const {
    if (!live) return;
    count(CNT_VIOL);
    // one finding group per (call, defect family): for the incremental-tableau family the sub-check that failed goes to the detail
    std::string cl = clause, det = detail;
    if (trig == "pending_row_satisfied_by_cached_point_not_by_tableau_vertex") { cl = "incremental:wrong-answer"; det = "failed check: " + clause + ". " + detail; }
    if (!violcap().admit(site + "|" + cl + "|" + trig)) return;
    report_violation(site, cl, trig, input_json(init, rec, op, *d), obs, exp, det);
  }
};

// Fresh problems built from the same final data, one per pricing: (status, value) and is_satisfiable.
struct FreshAns { int status[3]; Q value[3]; bool sat[3]; int fail[3]; };
static std::unordered_map<std::string, FreshAns> FRESHMEMO;
static const FreshAns& fresh_answers(const Data& d_in, const Reporter& rp) {
  // "the same final data" = the set of rows (sorted, without repetitions), integer set, objective and mode
  Data d = d_in;
  std::sort(d.rows.begin(), d.rows.end()); d.rows.erase(std::unique(d.rows.begin(), d.rows.end()), d.rows.end());
  std::string key = std::to_string(d.dim) + "|" + std::to_string(d.ints) + "|" + std::to_string(d.obj) + "|" + (d.maxi ? "M" : "m") + "|";
  for (size_t i = 0; i < d.rows.size(); ++i) key += std::to_string(d.rows[i]) + ",";
  std::unordered_map<std::string, FreshAns>::iterator it = FRESHMEMO.find(key);
  if (it != FRESHMEMO.end()) return it->second;
  ProfT pt_("fresh");
  FreshAns fa;
  const RefAns& ra = reference(d);
  bool rk = risky(d);
  for (int pr = 0; pr < 3; ++pr) {
    fa.status[pr] = -1; fa.sat[pr] = false; fa.fail[pr] = 0;
    Data dd = d; dd.pricing = pr;
    Reporter r2 = rp; r2.d = &dd; r2.rec = -1; r2.op = -1; r2.src = 0; r2.stale = 0;
    count(CNT_FRESH);
    auto body = [&]() {
      std::unique_ptr<MIP> p = build_fresh(dd, pr, false);
      fa.status[pr] = status_code(p->solve());
      if (fa.status[pr] == 1) { PPL::Coefficient n, den; p->optimal_value(n, den); fa.value[pr] = fq(n) / fq(den); }
      std::unique_ptr<MIP> q = build_fresh(dd, pr, false);
      fa.sat[pr] = q->is_satisfiable();
    };
    {
      count(CNT_SANDBOXED);
      int sig = sandbox(body, SANDBOX_S);
      if (sig) {
        count(CNT_DIVERGED);
        fa.fail[pr] = sig; fa.status[pr] = -1;
        if (rp.live) {
          std::string trig = divergence_trigger(dd), clause = sandbox_clause(sig);
          if (violcap().admit("fresh|" + clause + "|" + trig)) {
            int sig2 = sandbox(body, CONFIRM_S);
            if (sig2) report_violation("MIP_Problem::solve(fresh)", sandbox_clause(sig2), trig, J().str("fresh_problem", data_json(dd)).done(),
                                       sandbox_clause(sig2) + " (no answer within " + std::to_string(CONFIRM_S) + " s CPU)", "status " + status_name(ra.status));
            fa.status[pr] = -1;
          }
        }
        continue;
      }
    }
    count(CNT_CHECKS, 2);
    if (fa.status[pr] != ra.status)
      r2.viol("MIP_Problem::solve(fresh)", "fresh:status!=reference", wrong_status_trigger(dd), status_name(fa.status[pr]), status_name(ra.status), "fresh problem " + data_json(dd));
    else if (fa.status[pr] == 1 && fa.value[pr] != ra.value)
      r2.viol("MIP_Problem::solve(fresh)", "fresh:optimal-value!=reference", "none", qstr(fa.value[pr]), qstr(ra.value), "fresh problem " + data_json(dd));
    if (fa.sat[pr] != (ra.status != 0))
      r2.viol("MIP_Problem::is_satisfiable(fresh)", "fresh:satisfiable!=reference", "none", fa.sat[pr] ? "true" : "false", ra.status != 0 ? "true" : "false", "fresh problem " + data_json(dd));
  }
  return FRESHMEMO[key] = fa;
}

// Judge the outcome of a solve-like call (post-state *p, final data d).  Returns false if the answer is wrong
// (the successor state is then not explored: everything below a wrong answer is a consequence of it).
static bool judge(const Op& o, const Outcome& out, MIP& p, const Data& d, const Reporter& rp) {
  const RefAns& ra = reference(d);
  const std::string site = op_site(o.k);
  bool ok = true;
  count(CNT_CHECKS);
  const FreshAns& fa = fresh_answers(d, rp);
  auto fresh_note = [&](int st) -> std::string {
    std::string s = "fresh problem built from the same final data answers:";
    for (int pr = 0; pr < 3; ++pr) s += std::string(" ") + PRICING_NAME[pr] + "=" + (fa.fail[pr] ? "no-answer" : status_name(fa.status[pr]) + (fa.status[pr] == 1 ? "(" + qstr(fa.value[pr]) + ")" : ""));
    if (st) s = "INCREMENTAL != FRESH (the fresh problem is right). " + s;
    return s;
  };
  auto check_point = [&](const Outcome& oo, bool must_be_optimal, const std::string& what) {
    std::string def = point_defect(d, oo);
    if (!def.empty()) { rp.viol(site, what + ":point-not-feasible", rp.trig("none"), ref::vec_str(oo.point) + " " + def, "a point satisfying every constraint and integrality requirement"); ok = false; return; }
    if (must_be_optimal && obj_at(d, oo.point) != ra.value) {
      rp.viol(site, what + ":point-not-optimal", rp.trig("none"), "objective " + qstr(obj_at(d, oo.point)) + " at " + ref::vec_str(oo.point), "optimal value " + qstr(ra.value)); ok = false; }
  };
  if (o.k == SOLVE) {
    if (out.status != ra.status) {
      bool fresh_right = !fa.fail[d.pricing] && fa.status[d.pricing] == ra.status;
      rp.viol(site, "status!=reference", rp.trig(wrong_status_trigger(d)), status_name(out.status), status_name(ra.status), fresh_note(fresh_right));
      return false;
    }
    // follow-up queries on the solved object (no state change: status is cached)
    if (ra.status == 1) {
      Outcome v; try { PPL::Coefficient n, dd; p.optimal_value(n, dd); v.have_value = true; v.value = fq(n) / fq(dd); } catch (const std::exception& e) { v.threw = true; v.exc = e.what(); }
      if (v.threw) { rp.viol(site, "optimal_value-throws-after-OPTIMIZED", "none", v.exc, qstr(ra.value)); ok = false; }
      else if (v.value != ra.value) {
        bool fresh_right = !fa.fail[d.pricing] && fa.status[d.pricing] == 1 && fa.value[d.pricing] == ra.value;
        rp.viol(site, "optimal-value!=reference", rp.trig("none"), qstr(v.value), qstr(ra.value), fresh_note(fresh_right)); ok = false; }
      Outcome pt; try { take_point(pt, p.optimizing_point(), d.dim); } catch (const std::exception& e) { pt.threw = true; pt.exc = e.what(); }
      if (pt.threw) { rp.viol(site, "optimizing_point-throws-after-OPTIMIZED", "none", pt.exc, "a point"); ok = false; }
      else check_point(pt, true, "optimizing_point");
    }
    if (ra.status != 0) {
      Outcome pt; try { take_point(pt, p.feasible_point(), d.dim); } catch (const std::exception& e) { pt.threw = true; pt.exc = e.what(); }
      if (pt.threw) { rp.viol(site, "feasible_point-throws-after-solve", "none", pt.exc, "a point"); ok = false; }
      else check_point(pt, false, "feasible_point");
    }
    return ok;
  }
  if (o.k == ISSAT) {
    bool want = ra.status != 0;
    if (out.sat != want) {
      bool fresh_right = !fa.fail[d.pricing] && fa.sat[d.pricing] == want;
      rp.viol(site, "satisfiable!=reference", rp.trig(d.ints && !ra.relax_empty && ra.region_unbounded ? "integer_vars_unbounded_region" : "none"),
              out.sat ? "true" : "false", want ? "true" : "false", fresh_note(fresh_right));
      return false;
    }
    if (want) {
      Outcome pt; try { take_point(pt, p.feasible_point(), d.dim); } catch (const std::exception& e) { pt.threw = true; pt.exc = e.what(); }
      if (pt.threw) { rp.viol(site, "feasible_point-throws-after-is_satisfiable", "none", pt.exc, "a point"); ok = false; }
      else check_point(pt, false, "feasible_point");
    }
    return ok;
  }
  if (o.k == FEAS) {
    bool want = ra.status != 0;
    if (out.threw == want) { rp.viol(site, want ? "throws-on-feasible-problem" : "no-exception-on-unfeasible-problem", rp.trig(want ? wrong_status_trigger(d) : "none"), out.threw ? "std::domain_error" : ref::vec_str(out.point), want ? "a feasible point" : "std::domain_error", fresh_note(0)); return false; }
    if (want) check_point(out, false, "feasible_point");
    return ok;
  }
  if (o.k == OPTP || o.k == OPTV) {
    bool want = ra.status == 1;
    // the call has solved the problem: the cached verdict is observable at no cost through solve()
    int st = status_code(p.solve());
    if (st != ra.status) {
      bool fresh_right = !fa.fail[d.pricing] && fa.status[d.pricing] == ra.status;
      rp.viol(site, "status!=reference", rp.trig(wrong_status_trigger(d)), status_name(st), status_name(ra.status), fresh_note(fresh_right));
      return false;
    }
    if (out.threw == want) {
      rp.viol(site, want ? "throws-on-optimizable-problem" : "no-exception-without-optimum", rp.trig(wrong_status_trigger(d)),
              out.threw ? "std::domain_error" : (o.k == OPTP ? ref::vec_str(out.point) : qstr(out.value)), want ? "optimum " + qstr(ra.value) : "std::domain_error (" + status_name(ra.status) + ")", fresh_note(0));
      return false; }
    if (want && o.k == OPTP) check_point(out, true, "optimizing_point");
    if (want && o.k == OPTV && out.value != ra.value) { rp.viol(site, "optimal-value!=reference", rp.trig("none"), qstr(out.value), qstr(ra.value), fresh_note(0)); ok = false; }
    return ok;
  }
  return true;
}

// ------------------------------------------------------------------ one work item: BFS below (init, first op)
struct Node { std::unique_ptr<MIP> p; Data d; int rec; bool ok; };
static int DEPTH = 4;
static bool CHECK_CLONES = true;

// Executes one transition.  Returns the successor (null if pruned / failed).
// OK() demands that the cached point be integral on every integer variable even while the problem is only
// PARTIALLY_SATISFIABLE: a production-build object in that state is otherwise sound, so exploration continues.
static bool cached_point_fractional(const MIP& m) {
  if (!m.initialized) return false;
  const PPL::Generator& g = m.last_generator;
  for (PPL::Variables_Set::const_iterator i = m.i_variables.begin(); i != m.i_variables.end(); ++i) {
    if (*i >= g.space_dimension()) continue;
    if (!ref::is_integer(fq(g.coefficient(PPL::Variable(*i))) / fq(g.divisor()))) return true;
  }
  return false;
}
static bool integer_var_beyond_cached_point(const MIP& m) {
  if (!m.initialized || m.i_variables.empty()) return false;
  return *m.i_variables.rbegin() >= m.last_generator.space_dimension();
}
static std::unique_ptr<MIP> transition(const MIP& src, bool src_ok, bool& dst_ok, const Data& d0, Data& d1, int opi, const Reporter& rp, bool& wrong) {
  const Op& o = OPS[opi];
  wrong = false;
  d1 = d0;
  std::unique_ptr<MIP> c;
  { ProfT p_("t:clone"); c = clone(src); }
  Outcome out;
  ProfT p2_("t:rest");
  bool guard = true;      // EVERY library call of the transition runs under the CPU guard (cooperative, then hard)
  if (solve_like(o.k) && rp.live) count(CNT_SOLVES);
  try {
    if (!guard) out = apply(c, d1, o);
    else {
      if (rp.live && solve_like(o.k) && risky(d0)) count(CNT_SANDBOXED);
      int sig = sandbox([&]() { out = apply(c, d1, o); }, SANDBOX_S);
      if (sig) {
        wrong = true;
        if (rp.live) {
          count(CNT_DIVERGED);
          std::string trig = divergence_trigger(d0), clause = sandbox_clause(sig), site = op_site(o.k);
          if (violcap().admit(site + "|" + clause + "|" + trig)) {
            // re-run alone with ten times the budget before calling it a hang
            int sig2 = sandbox([&]() { std::unique_ptr<MIP> t = clone(src); Data dt = d0; apply(t, dt, o); }, CONFIRM_S);
            if (sig2) report_violation(site, sandbox_clause(sig2), trig, input_json(rp.init, rp.rec, rp.op, d0),
                                       sandbox_clause(sig2) + " (no answer within " + std::to_string(CONFIRM_S) + " s CPU)", "answer " + status_name(reference(d0).status));
          }
        }
        return std::unique_ptr<MIP>();
      }
    }
  }
  catch (const std::exception& e) {
    rp.viol(op_site(o.k), "unexpected-exception", "none", e.what(), "no exception");
    wrong = true; return std::unique_ptr<MIP>();
  }
  bool ok_threw = false; std::string ok_what;
  try { dst_ok = c->OK(); } catch (const std::exception& e) { dst_ok = false; ok_threw = true; ok_what = e.what(); }
  if (!dst_ok) {
    // both situations leave a production-build object usable: report once (at the transition that breaks OK()) and go on
    bool frac = cached_point_fractional(*c), beyond = integer_var_beyond_cached_point(*c);
    if (src_ok) {
      if (ok_threw) rp.viol(op_site(o.k), "invariant:OK()-throws", beyond ? "integer_var_beyond_cached_point_dimension" : "none", ok_what, "OK() true");
      else rp.viol(op_site(o.k), "invariant:OK()", frac ? "cached_point_fractional_on_integer_var" : rp.trig("none"), "OK() false", "OK() true");
    }
    if (!frac && !beyond) {
      wrong = true;
      if (solve_like(o.k)) { Reporter r2 = rp; r2.d = &d1; judge(o, out, *c, d1, r2); }     // the answer itself may be wrong too
      return std::unique_ptr<MIP>();
    }
  }
  if (solve_like(o.k)) {
    ProfT p_("t:judge");
    Reporter r2 = rp; r2.d = &d1;
    if (!judge(o, out, *c, d1, r2)) { wrong = true; return std::unique_ptr<MIP>(); }
  }
  return c;
}

static std::unique_ptr<MIP> build_init(const Init& in) { return build_fresh(in.d, 0, in.via_ctor); }

static const int TERMINAL_OPS[] = {SOLVE, ISSAT, OPTP};

static void run_item(long long item, long long sub_start) {
  ProfT pt_("item");
  prctl(PR_SET_PDEATHSIG, SIGKILL);      // a worker never outlives the harness process
  if (getppid() == 1) _exit(0);
  const Item& it = ITEMS[item];
  const Init& in = INITS[it.init];
  CUR_INIT = it.init;
  RECS.clear();
  long long only = pool().only_sub;
  long long sub = 0;
  std::unordered_set<Key, KeyHash> seen;
  std::vector<Node> frontier, next;
  int op_index_of_kind[16]; for (size_t i = 0; i < OPS.size(); ++i) op_index_of_kind[OPS[i].k] = (int)i;
  {
    Node n; n.p = build_init(in); n.d = in.d; n.d.pricing = 0; RECS.push_back(Rec{-1, -1}); n.rec = 0; n.ok = n.p->OK();
    seen.insert(key_of(dump_of(*n.p)));
    frontier.push_back(std::move(n));
  }
  for (int depth = 1; depth <= DEPTH + 1; ++depth) {
    bool terminal = depth == DEPTH + 1;
    for (size_t s = 0; s < frontier.size(); ++s) {
      Node& src = frontier[s];
      if (CHECK_CLONES && !terminal) {
        std::unique_ptr<MIP> c = clone(*src.p);
        if (dump_of(*c) != dump_of(*src.p)) { sink().line(J().str("t", "error").str("msg", "clone is not faithful (dump differs)").done()); _exit(4); }
      }
      size_t nops = terminal ? sizeof(TERMINAL_OPS) / sizeof(int) : OPS.size();
      for (size_t k = 0; k < nops; ++k) {
        int opi = terminal ? op_index_of_kind[TERMINAL_OPS[k]] : (int)k;
        if (depth == 1 && it.first_op >= 0 && opi != it.first_op) continue;
        if (!enabled(OPS[opi], src.d)) continue;
        long long my = sub++;
        if (only >= 0 && my > only) return;
        if (is_bad(item, my)) continue;
        bool live = pool().want(my, sub_start);
        if (live) {
          if (ARGS.expired()) { count(CNT_SKIPPED); return; }
          if (pool().worker_id >= 0) {
            CrashInfo& ci = CRASH[pool().worker_id]; std::vector<int> h = history_ops(src.rec); h.push_back(opi);
            ci.init = it.init; ci.n = (int)std::min<size_t>(h.size(), 12); for (int q = 0; q < ci.n; ++q) ci.ops[q] = h[q];
          }
          pool().step(my);
        }
        Reporter rp; rp.init = it.init; rp.rec = src.rec; rp.op = opi; rp.d = &src.d; rp.live = live; rp.src = src.p.get();
        Data d1; bool wrong = false, dst_ok = true;
        watchdog(8.0);
        std::unique_ptr<MIP> c = transition(*src.p, src.ok, dst_ok, src.d, d1, opi, rp, wrong);
        if (live) { count(CNT_TRANS); if (terminal) count(CNT_TERMINAL); }
        if (!c || terminal) { watchdog(0); continue; }
        Key key; { ProfT p_("t:dump"); key = key_of(dump_of(*c)); }
        watchdog(0);
        if (!seen.insert(key).second) { if (live) count(CNT_MERGED); continue; }
        if (live) { count(CNT_STATES); if (d1.ints) count(CNT_INTSTATES); }
        RECS.push_back(Rec{src.rec, opi});
        Node n; n.p = std::move(c); n.d = d1; n.rec = (int)RECS.size() - 1; n.ok = dst_ok;
        next.push_back(std::move(n));
      }
      if (!terminal || true) src.p.reset();
    }
    frontier.swap(next); next.clear();
    if (frontier.empty()) break;
  }
}

// ------------------------------------------------------------------ replay of one recorded violation
static int replay(const std::string& path) {
  std::ifstream f(path.c_str()); std::stringstream ss; ss << f.rdbuf(); std::string t = ss.str();
  auto num_after = [&](const std::string& k) -> long { size_t p = t.find("\"" + k + "\""); if (p == std::string::npos) return -1; p = t.find(':', p); return atol(t.c_str() + p + 1); };
  size_t po = t.find("\"ops\"");
  if (po == std::string::npos) { fprintf(stderr, "replay: no ops array (fresh-problem finding: see final_data)\n"); return 2; }
  long init = num_after("init");
  std::vector<int> ops; size_t p = t.find('[', po), e = t.find(']', p);
  std::string arr = t.substr(p + 1, e - p - 1); std::stringstream as(arr); std::string tok;
  while (std::getline(as, tok, ',')) { size_t q = tok.find_first_of("0123456789"); if (q != std::string::npos) ops.push_back(atoi(tok.c_str() + q)); }
  const Init& in = INITS[init];
  std::unique_ptr<MIP> pr = build_init(in); Data d = in.d;
  printf("init: %s\n", init_name(in).c_str());
  for (size_t i = 0; i < ops.size(); ++i) {
    const Op& o = OPS[ops[i]];
    printf("  %s", op_name(o).c_str()); fflush(stdout);
    Outcome out = apply(pr, d, o);
    if (o.k == SOLVE) printf(" -> %s", status_name(out.status).c_str());
    if (o.k == ISSAT) printf(" -> %s", out.sat ? "true" : "false");
    if (out.threw) printf(" -> throws %s", out.exc.c_str());
    if (out.have_point) printf(" -> %s", ref::vec_str(out.point).c_str());
    if (out.have_value) printf(" -> %s", qstr(out.value).c_str());
    printf("\n");
  }
  const RefAns& ra = reference(d);
  printf("final data: %s\nreference: %s", data_json(d).c_str(), status_name(ra.status).c_str());
  if (ra.status == 1) printf(" value %s", qstr(ra.value).c_str());
  printf("\n");
  return 0;
}

int main(int argc, char** argv) {
  ARGS = parse_args(argc, argv);
  sink().open(ARGS.out);
  build_menus(); build_ops();
  DEPTH = atoi(ARGS.opt("--depth", ARGS.thorough() ? "5" : "4").c_str());
  int seed_depth = atoi(ARGS.opt("--seed-depth", ARGS.thorough() ? "4" : "3").c_str());
  SANDBOX_S = atof(ARGS.opt("--sandbox-s", "0.02").c_str()); CONFIRM_S = atof(ARGS.opt("--confirm-s", "0.5").c_str());
  CHECK_CLONES = !ARGS.has("--no-clone-check");
  double t0 = now_s();
  // self-test of the reference
  { std::string msg; int f = ref::milp_selftest(&msg);
    if (f) { sink().line(J().str("t", "error").str("msg", "R.MILP self-test failed: " + msg).done()); return 2; } }
  // initial configurations: empty problems of dimension 1..3 and constructor-built seeds
  for (int dim = 1; dim <= 3; ++dim) { Init in; in.d.dim = dim; in.via_ctor = false; INITS.push_back(in); }
  size_t n_empty = INITS.size();
  {
    struct S { int dim; std::vector<int> rows; unsigned ints; int obj; bool maxi; };
    std::vector<S> seeds = {
      {2, {0, 1, 4}, 0, 2, true},        // triangle, max A+B
      {2, {0, 1, 12}, 1, 2, true},       // fractional triangle, A integer
      {2, {8, 9}, 1, 8, true},           // the probe: {-2A>=1, A>=-2}, A integer, max -2B
      {2, {5, 1}, 2, 3, false},          // cone, min A-B, B integer
      {2, {10, 11, 0}, 3, 0, true},      // degenerate segment A+B=1, A>=0
      {2, {6, 0}, 0, 1, true},           // 2A-2B=1 with A>=0 (no integer point once A, B integer)
      {3, {0, 1, 16, 20}, 4, 9, true},   // plane section in the orthant, C integer, max C
      {1, {0, 2}, 1, 0, false},          // 0<=A<=2, A integer, min A
      {2, {13, 14}, 0, 7, true},         // A=1, A-2B<=-1
      {3, {18, 19, 0}, 1, 10, true},     // unbounded in dimension 3
      {2, {21, 21, 21}, 1, 0, true},     // the same equality three times (two redundant rows, the last tableau row among them), then batches of rows
      {2, {13, 13, 13, 1}, 2, 1, false}, // A = 1 three times, B >= 0
    };
    for (size_t i = 0; i < seeds.size(); ++i) { Init in; in.d.dim = seeds[i].dim; in.d.rows = seeds[i].rows; in.d.ints = 0; in.d.obj = seeds[i].obj; in.d.maxi = seeds[i].maxi; in.via_ctor = true; INITS.push_back(in);
      Init in2 = in; in2.d.ints = seeds[i].ints; in2.via_ctor = false; if (seeds[i].ints) INITS.push_back(in2); }
  }
  if (!ARGS.replay.empty()) return replay(ARGS.replay);
  // items: (init, first op)
  // seeded problems first: if the deadline cuts the run, the incremental histories over solved problems are done
  for (size_t k = 0; k < INITS.size(); ++k) { size_t i = (k + n_empty) % INITS.size();
    for (size_t o = 0; o < OPS.size(); ++o) if (enabled(OPS[o], INITS[i].d)) ITEMS.push_back(Item{(int)i, (int)o}); }
  // interleave so that the heavy items (3 dimensions) are spread over workers
  BAD = (BadList*)mmap(0, sizeof(BadList), PROT_READ | PROT_WRITE, MAP_SHARED | MAP_ANONYMOUS, -1, 0);
  BAD->n = 0;
  CRASH = (CrashInfo*)mmap(0, sizeof(CrashInfo) * 64, PROT_READ | PROT_WRITE, MAP_SHARED | MAP_ANONYMOUS, -1, 0);
  int depth_empty = DEPTH;
  int depth_dim1 = atoi(ARGS.opt("--depth-dim1", std::to_string(depth_empty)).c_str());
  Pool::Fn fn = [&](long long item, long long sub_start) {
    DEPTH = ITEMS[item].init == 0 ? depth_dim1 : (size_t)ITEMS[item].init < n_empty ? depth_empty : seed_depth;
    run_item(item, sub_start);
  };
  Pool::CrashFn cf = [&](long long item, long long sub, int sig, bool confirmed) {
    if (!confirmed) return;
    if (BAD->n < 8192) { BAD->item[BAD->n] = item; BAD->sub[BAD->n] = sub; BAD->n = BAD->n + 1; }
    // the worker published the history of the transition it was executing
    const CrashInfo& ci = CRASH[item % ARGS.jobs];
    std::vector<std::string> names, idx; Data d = INITS[ci.init].d; std::string site = "MIP_Problem";
    for (int q = 0; q < ci.n; ++q) { names.push_back(jstr(op_name(OPS[ci.ops[q]]))); idx.push_back(std::to_string(ci.ops[q])); site = op_site(OPS[ci.ops[q]].k); }
    bool is_hang = sig == SIGALRM || sig == 1097;      // 1097: the worker ended itself (exit 97) in a loop without cancellation points
    report_violation(site, is_hang ? std::string("hang") : std::string("crash:") + signame(sig), "none",
                     J().num("init", ci.init).str("init_desc", init_name(INITS[ci.init])).arr("history", names).arr("ops", idx).num("item", item).num("sub", sub).done(),
                     signame(sig), "normal return");
  };
  limit_memory(8ULL << 30);
  if (!ARGS.opt("--single-item").empty()) {   // debugging / profiling aid: one item in this very process
    long long it = atoll(ARGS.opt("--single-item").c_str());
    DEPTH = (size_t)ITEMS[it].init < n_empty ? depth_empty : seed_depth;
    run_item(it, 0);
    fprintf(stderr, "item %lld (%s; %s): states=%lld transitions=%lld guarded=%lld diverged=%lld fresh=%lld refs=%lld\n", it, init_name(INITS[ITEMS[it].init]).c_str(), op_name(OPS[ITEMS[it].first_op]).c_str(),
            counter(CNT_STATES), counter(CNT_TRANS), counter(CNT_SANDBOXED), counter(CNT_DIVERGED), counter(CNT_FRESH), counter(CNT_USER + 4));
    for (auto& kv : PROF) fprintf(stderr, "PROF %-30s %8.3f %8ld\n", kv.first.c_str(), kv.second.first, kv.second.second);
    return 0;
  }
  if (getenv("VERIF_PROFILE")) pool().at_worker_exit = []() { for (auto& kv : PROF) fprintf(stderr, "PROF %-30s %8.3f %8ld\n", kv.first.c_str(), kv.second.first, kv.second.second); };
  pool().run((long long)ITEMS.size(), ARGS.jobs, fn, cf, ARGS, 60);   // wall clock, last resort only: divergence is caught by the CPU-time guard
  bool complete = counter(CNT_SKIPPED) == 0 && counter(CNT_REFCRASH) == 0;
  std::vector<std::string> samples;
  { Data d = INITS[n_empty + 1].d; RECS.clear(); RECS.push_back(Rec{-1, -1});
    samples.push_back(J().str("init", init_name(INITS[0])).arr("history", {jstr(op_name(OPS[2])), jstr("add_to_integer_space_dimensions({A})"), jstr("solve()")}).done());
    samples.push_back(J().str("init", init_name(INITS[n_empty + 1])).arr("history", {jstr("solve()"), jstr(op_name(OPS[3])), jstr("is_satisfiable()")}).done());
    (void)d; }
  J extra; extra.num("items", ITEMS.size()).num("initial_configurations", INITS.size()).num("alphabet", OPS.size())
    .num("solve_like_calls_judged", counter(CNT_SOLVES)).num("oracle_comparisons", counter(CNT_CHECKS)).num("fresh_problems_solved", counter(CNT_FRESH))
    .num("calls_run_in_sandbox_first", counter(CNT_SANDBOXED)).num("calls_diverged_or_crashed_in_sandbox", counter(CNT_DIVERGED))
    .num("terminal_layer_calls", counter(CNT_TERMINAL)).num("transitions_merged_by_state_key", counter(CNT_MERGED)).num("states_with_integer_vars", counter(CNT_INTSTATES))
    .num("violation_records_before_cap", counter(CNT_VIOL)).num("items_skipped_by_deadline", counter(CNT_SKIPPED)).num("cases_skipped_oracle_resource_limit", counter(CNT_REFCRASH));
  J st; st.str("t", "stats").num("states", std::max<long long>(1, counter(CNT_STATES))).num("transitions", std::max<long long>(1, counter(CNT_TRANS)))
    .num("traces_validated_against_impl", counter(CNT_TRANS)).boolean("exhaustive", complete)
    .str("bound", "histories of depth <= " + std::to_string(depth_empty) + " (dim 1: " + std::to_string(depth_dim1) + ") over MIP_Problem(dim), dim 1..3, and depth <= " + std::to_string(seed_depth) + " below " + std::to_string(INITS.size() - n_empty) +
         " seeded problems; alphabet of " + std::to_string(OPS.size()) + " operations (" + std::to_string(CM.size()) + " rows, " + std::to_string(OM.size()) + " objectives, 3 pricings); terminal layer solve/is_satisfiable/optimizing_point; states merged by ascii_dump per (init, first op)")
    .arr("samples", samples).raw("extra", extra.done()).dbl("wall_s", now_s() - t0);
  sink().line(st.done());
  return 0;
}

// C14 part 2 driver: exhaustive fault enumeration over the scenario list (harness/c14_scn_*.cc).
//
//   for every scenario S:        dry run x3 (two warm the library's caches of temporaries, the third counts
//                                allocation requests N(S) and abandonment checkpoints C(S) of the faulted region)
//   mode alloc:    for every k in 1..N(S) (and on while the fault still fires): allocation request k fails
//   mode abandon:  for every k in 1..C(S): abandon_expensive_computations is set at the k-th maybe_abandon()
//   mode overflow: for every magnitude m of a fixed ladder: the scenario's data are scaled by m (meant for the
//                  checked-int8 build of the library, where std::overflow_error is thrown by the coefficients)
// Oracle after each run: only the injected exception type escaped; all objects usable (checked by the scenario
// through usable()/untouched()); live-block balance back to its value before the scenario.  A positive balance is
// re-run (same process, same k) with allocation stacks recorded: only a balance that is positive again is a leak.
#include "harness/c14_oom.hh"
#include "engine/faults.hh"
#include <algorithm>
#include <fcntl.h>
#include <sys/personality.h>

using namespace vf;
namespace fi = vf::fi;

namespace c14 {

std::vector<Scenario>& registry() { static std::vector<Scenario> v; return v; }
Coefficient& MAG() { static Coefficient m(1); return m; }

static volatile int* phase_ptr;
void set_phase(int p) { if (phase_ptr) *phase_ptr = p; }
void set_phase_ptr(volatile int* p) { phase_ptr = p; }
static Abandon the_abandon;
static unsigned long cp_count, cp_target;
static bool cp_fired;
static void** cp_bt;
void set_cp_bt(void** p) { cp_bt = p; }
static void cp_hook() {
  ++cp_count;
  if (cp_count == cp_target) {
    cp_fired = true; abandon_expensive_computations = &the_abandon;
    if (fi::st().bt_enabled && cp_bt) {
      void* fr[fi::BT_DEPTH + 1]; int n = backtrace(fr, fi::BT_DEPTH + 1); int k = 0;
      for (int f = 1; f < n && k < fi::BT_DEPTH; ++f) cp_bt[k++] = fr[f];
      for (; k < fi::BT_DEPTH; ++k) cp_bt[k] = 0;
    }
  }
}

void region_begin(Run& r) {
  cp_count = 0; cp_fired = false;
  cp_target = (r.mode == ABANDON) ? r.k : 0;
  Weightwatch_Traits::check_function = &cp_hook;
  fi::arm(r.mode == ALLOC ? r.k : 0);
}
void region_end(Run& r) {
  r.allocs = fi::disarm();
  Weightwatch_Traits::check_function = 0;
  abandon_expensive_computations = 0;
  r.checkpoints = cp_count;
  r.fired = (r.mode == ALLOC) ? fi::fired() : (r.mode == ABANDON) ? cp_fired : false;
}

} // namespace c14
using namespace c14;
namespace c14 { void set_cp_bt(void** p); void set_phase_ptr(volatile int* p); }

static Args ARGS;
static std::vector<Scenario> SC;     // selected scenarios
struct Dry { unsigned long allocs, checkpoints; bool ok; bool overflowed; double ms; };
static std::vector<Dry> DRYS;

// per scenario shared statistics
struct ScStat { volatile long long runs, fired, leaks, cache_growth, other; };
static ScStat* SST;
enum { CNT_EVAL = CNT_USER, CNT_FIRED, CNT_LEAK, CNT_CACHE, CNT_PROBLEMS, CNT_OVF_FIRED, CNT_ABN_FIRED, CNT_ALLOC_FIRED, CNT_NOTFIRED, CNT_TP_LEAK, CNT_POST_TIMEOUT };

static const char* mode_name(Mode m) { return m == DRY ? "dry" : m == ALLOC ? "alloc" : m == ABANDON ? "abandon" : "overflow"; }
static const char* mode_clause(Mode m) { return m == ALLOC ? "oom" : m == ABANDON ? "abandon" : m == OVERFLOW ? "overflow" : "nofault"; }

static const long LADDER[] = { 1, 2, 3, 4, 5, 6, 7, 9, 11, 13, 16, 19, 23, 29, 37, 47, 63, 89, 127 };
static const int N_LADDER = sizeof LADDER / sizeof LADDER[0];

struct Outcome {
  Run r;
  long balance;             // live blocks after - before
  size_t new_live;          // blocks created during the scenario that are still live
  unsigned long invalid_frees;
  unsigned long mark;
  bool escaped;             // an exception escaped the scenario function itself (setup / post)
  Caught escaped_kind;
  char escaped_what[200];
};

static void run_once(const Scenario& s, Mode m, unsigned long k, Outcome& o) {
  o.r.reset(m, k);
  o.escaped = false; o.escaped_kind = C_NONE; o.escaped_what[0] = 0;
  fi::State& st = fi::st();
  unsigned long inv0 = st.invalid_frees;
  size_t live0 = fi::live_count();
  o.mark = fi::mark();
  try { s.fn(o.r); }
  catch (const std::bad_alloc&) { fi::disarm(); o.escaped = true; o.escaped_kind = C_BAD_ALLOC; }
  catch (const std::overflow_error& e) { fi::disarm(); o.escaped = true; o.escaped_kind = C_OVERFLOW; snprintf(o.escaped_what, sizeof o.escaped_what, "%s", e.what()); }
  catch (const std::exception& e) { fi::disarm(); o.escaped = true; o.escaped_kind = C_OTHER_STD; snprintf(o.escaped_what, sizeof o.escaped_what, "%s: %s", typeid(e).name(), e.what()); }
  catch (...) { fi::disarm(); o.escaped = true; o.escaped_kind = C_UNKNOWN; }
  Weightwatch_Traits::check_function = 0;
  abandon_expensive_computations = 0;
  o.balance = (long)fi::live_count() - (long)live0;
  o.invalid_frees = st.invalid_frees - inv0;
  static fi::LiveBlock dummy[1];
  o.new_live = fi::live_since(o.mark, dummy, 0);
}

static std::string input_json(const Scenario& s, int si, Mode m, unsigned long k, const std::string& extra_raw = "") {
  J j; j.str("scenario", s.name).str("mode", mode_name(m));
  if (m == OVERFLOW) j.num("magnitude", LADDER[k]); else j.num("k", (long long)k);
  j.num("allocations_in_dry_run", (long long)DRYS[si].allocs).num("checkpoints_in_dry_run", (long long)DRYS[si].checkpoints);
  std::string r = j.done();
  if (!extra_raw.empty()) { r.erase(r.size() - 1); r += "," + extra_raw + "}"; }
  return r;
}

static std::string inner(const J& j) { std::string d = j.done(); return d.substr(1, d.size() - 2); }

static const char* caught_name(Caught c) {
  switch (c) { case C_NONE: return "no exception"; case C_BAD_ALLOC: return "std::bad_alloc"; case C_ABANDON: return "the client's Throwable";
    case C_OVERFLOW: return "std::overflow_error"; case C_OTHER_STD: return "another std::exception"; default: return "a non-standard exception"; }
}

static bool verbose = false;

// name of the innermost library function on a recorded call stack
static std::string site_of_stack(const std::vector<void*>& stack, std::string* chain = 0) {
  std::vector<std::string> names = fi::symbolize(stack);
  std::string site = fi::alloc_site(names, 0, names.size(), chain);
  return site.empty() ? "unknown" : site;
}

// innermost frame of the stack that is a member of one of the domain / solver classes
static std::string engine_of_stack(const std::vector<void*>& stack) {
  static const char* cls[] = { "Polyhedron::", "Grid::", "Box::", "BD_Shape::", "Octagonal_Shape::", "Pointset_Powerset::", "Powerset::", "Determinate::",
                               "MIP_Problem::", "PIP_Problem::", "PIP_Tree_Node::", "PIP_Solution_Node::", "PIP_Decision_Node::", "Interval::", 0 };
  std::vector<std::string> names = fi::symbolize(stack);
  for (size_t i = 0; i < names.size(); ++i) {
    if (names[i].empty() || !fi::is_ppl_frame(names[i])) continue;
    std::string sn = fi::short_name(names[i]);
    for (int c = 0; cls[c]; ++c) if (sn.compare(0, strlen(cls[c]), cls[c]) == 0) return sn;
  }
  return "";
}

static void** CP_BT;   // call stack of the maybe_abandon() that threw (recorded when stacks are on)
static void** SHARED_BT;   // shared mapping used to get the fault site out of a child that crashes

static std::string fault_trigger(Mode m, unsigned long k, std::string* chain = 0) {
  if (m == ALLOC) return "failed_allocation_in_" + fi::ident(site_of_stack(fi::fired_stack(), chain));
  if (m == ABANDON) return "abandoned_in_" + fi::ident(site_of_stack(std::vector<void*>(CP_BT, CP_BT + fi::BT_DEPTH), chain));
  if (m == OVERFLOW) return "coefficient_overflow_raised";
  return "none";
}

static fi::LiveBlock* LB; enum { LB_MAX = 4096 };
static Coefficient& BASE_MAG() { static Coefficient b(1); return b; }   // the magnitude of the non-overflow runs (--mag)

// executes (scenario, mode, k) and judges it; returns whether the fault fired
static bool judge(int si, Mode m, unsigned long k) {
  const Scenario& s = SC[si];
  Outcome o;
  MAG() = (m == OVERFLOW) ? Coefficient(LADDER[k]) : BASE_MAG();
  run_once(s, m, k, o);
  bool fired = o.r.fired;
  if (m == OVERFLOW) fired = (o.r.caught == C_OVERFLOW) || (o.escaped && o.escaped_kind == C_OVERFLOW);
  if (m != DRY) {
    count(CNT_EVAL); __sync_fetch_and_add(&SST[si].runs, 1);
    if (fired) {
      count(CNT_FIRED); __sync_fetch_and_add(&SST[si].fired, 1);
      count(m == ALLOC ? CNT_ALLOC_FIRED : m == ABANDON ? CNT_ABN_FIRED : CNT_OVF_FIRED);
    } else count(CNT_NOTFIRED);
  }
  if (verbose)
    fprintf(stderr, "[c14] %s %s k=%lu: entered=%d completed=%d caught=%s fired=%d allocs=%lu cps=%lu balance=%ld new_live=%zu problems=%d escaped=%d %s\n",
            s.name.c_str(), mode_name(m), k, o.r.entered, o.r.completed, caught_name(o.r.caught), fired, o.r.allocs, o.r.checkpoints,
            o.balance, o.new_live, o.r.n_problems, o.escaped, o.escaped_what);
  std::string cl = mode_clause(m);
  Caught allowed = m == ALLOC ? C_BAD_ALLOC : m == ABANDON ? C_ABANDON : m == OVERFLOW ? C_OVERFLOW : C_NONE;
  // which exception escaped: the injected one only (std::overflow_error is also legitimate on a bounded-coefficient build)
  auto wrong_exception = [&](const Outcome& x, std::string& what) -> bool {
    bool native = bounded_coefficients();
    if (x.escaped) {
      if (!(x.escaped_kind == C_OVERFLOW && (m == OVERFLOW || native))) {
        what = std::string("outside the faulted region: ") + caught_name(x.escaped_kind) + " " + x.escaped_what; return true; }
      return false;
    }
    Caught got = x.r.caught;
    if (got != C_NONE && got != allowed && !(got == C_OVERFLOW && native)) { what = std::string(caught_name(got)) + " " + x.r.what; return true; }
    if (got == allowed && got != C_NONE && m != OVERFLOW && !x.r.fired) { what = std::string(caught_name(got)) + " although no fault was injected"; return true; }
    return false;
  };
  std::string ww;
  bool any = wrong_exception(o, ww) || o.r.n_problems > 0 || o.invalid_frees > 0 || o.balance > 0;
  if (!any) return fired;

  // ---- something is off: run the identical faulted scenario once more, recording call stacks
  Outcome o2;
  fi::bt_on(true);
  run_once(s, m, k, o2);
  fi::bt_on(false);
  // snapshot of the blocks created by that run that are still live (before this function allocates anything itself)
  size_t n_surv = fi::live_since(o2.mark, LB, LB_MAX);
  std::string fault_chain;
  std::string ftrig = fault_trigger(m, k, &fault_chain);
  std::string finfo = inner(J().str("fault_site_stack", fault_chain));
  const Outcome& rep = (o2.r.n_problems > 0 || o2.invalid_frees > 0 || wrong_exception(o2, ww)) ? o2 : o;
  std::string exitinfo = std::string("exit: ") + caught_name(rep.r.caught);

  if (wrong_exception(rep, ww)) {
    __sync_fetch_and_add(&SST[si].other, 1);
    if (violcap().admit(s.name + cl + "wrong" + ftrig))
      report_violation(s.site, cl + ":wrong_exception", ftrig, input_json(s, si, m, k, finfo), ww, std::string("only ") + caught_name(allowed) + " escapes", "");
  }
  std::string engine;
  for (int i = 0; i < rep.r.n_problems; ++i) {
    count(CNT_PROBLEMS); __sync_fetch_and_add(&SST[si].other, 1);
    if (std::string(rep.r.clause[i]) == "invalid_after_fault") {
      // The defect (if any) lies in the library function that was interrupted, whatever public operation led to it:
      // the finding is keyed by that function.
      if (engine.empty()) engine = engine_of_stack(m == ABANDON ? std::vector<void*>(CP_BT, CP_BT + fi::BT_DEPTH) : fi::fired_stack());
      std::string efun = engine.empty() ? s.site : engine;
      std::string ecls = efun.substr(0, efun.find("::"));
      if (violcap().admit(efun + cl + "invalid"))
        report_violation(ecls, cl + ":invalid_after_fault", "fault_delivered_inside_member_of_" + fi::ident(ecls),
                         input_json(s, si, m, k, inner(J().str("interrupted_member_function", efun).str("fault_site_stack", fault_chain))), rep.r.detail[i],
                         "the object left behind by the exceptional exit is a valid object of its class (OK() holds, can be used)", exitinfo + "; operation: " + s.site);
      continue;
    }
    if (violcap().admit(s.name + cl + rep.r.clause[i] + ftrig))
      report_violation(s.site, cl + ":" + rep.r.clause[i], ftrig, input_json(s, si, m, k, finfo), rep.r.detail[i],
                       "every object involved passes OK(), can be used, assigned to and destroyed", exitinfo);
  }
  if (rep.invalid_frees) {
    __sync_fetch_and_add(&SST[si].other, 1);
    if (violcap().admit(s.name + cl + "invfree" + ftrig))
      report_violation(s.site, cl + ":invalid_free", ftrig, input_json(s, si, m, k, finfo),
                       std::to_string(rep.invalid_frees) + " frees of blocks that are not live", "every freed block is live", exitinfo);
  }
  // ---- balance of live blocks: a leak only if positive on both runs
  if (o.balance > 0 && o2.balance <= 0) { count(CNT_CACHE); __sync_fetch_and_add(&SST[si].cache_growth, 1); }
  if (o.balance > 0 && o2.balance > 0) {
    count(CNT_LEAK);
    long long nth = __sync_fetch_and_add(&SST[si].leaks, 1);
    size_t n = n_surv;
    size_t mblocks = std::min<size_t>(n, LB_MAX);
    // Which of the blocks that survived the second run are lost, and which merely took the place of an older block
    // in one of the library's caches of temporaries (swap with a cached temporary)?  A third identical run swaps
    // the latter out again and frees them; a lost block stays.
    {
      Outcome o3;
      run_once(s, m, k, o3);
      size_t w = 0;
      for (size_t b = 0; b < mblocks; ++b) if (fi::still_live(LB[b].p, LB[b].seq)) LB[w++] = LB[b];
      if (w > 0) { mblocks = w; n = w; }   // (if none stayed, keep them all: the report then lists every candidate site)
    }
    std::vector<void*> addrs;
    for (size_t b = 0; b < mblocks; ++b) for (int f = 0; f < fi::BT_DEPTH; ++f) addrs.push_back(LB[b].bt[f]);
    std::vector<std::string> names = fi::symbolize(addrs);
    // Group the surviving blocks by allocation site (blocks that merely replaced an older cached block, e.g. by
    // a swap with a cached temporary, cannot be told apart from leaked ones here; all sites are listed in the input).
    std::map<std::string, std::pair<long, size_t> > by_site;   // site -> (blocks, first block)
    size_t bytes = 0;
    for (size_t b = 0; b < mblocks; ++b) {
      std::string site = fi::alloc_site(names, b * fi::BT_DEPTH, fi::BT_DEPTH);
      if (site.empty()) site = "unknown";
      std::pair<long, size_t>& e = by_site[site];
      if (e.first == 0) e.second = b;
      ++e.first; bytes += LB[b].size;
    }
    // The trigger names the allocation site of the oldest surviving block (normally the owning structure); the
    // finding's site is the function that was active both when that block was allocated and when the fault was
    // delivered (deepest common library function of the two call stacks): the one that lost track of the block.
    std::string best = mblocks ? fi::alloc_site(names, 0, fi::BT_DEPTH) : std::string();
    if (best.empty()) best = "unknown";
    std::string chain;
    if (mblocks) fi::alloc_site(names, 0, fi::BT_DEPTH, &chain);
    std::string lsite = s.site, third_party;
    if (mblocks && m != OVERFLOW) {
      std::vector<void*> fstack = (m == ABANDON) ? std::vector<void*>(CP_BT, CP_BT + fi::BT_DEPTH) : fi::fired_stack();
      std::vector<std::string> fn = fi::symbolize(fstack), an(names.begin(), names.begin() + fi::BT_DEPTH);
      // compare from the outermost frame inwards
      std::vector<std::string> fs, as;
      for (size_t i = fn.size(); i-- > 0; ) if (!fn[i].empty()) fs.push_back(fn[i]);
      for (size_t i = an.size(); i-- > 0; ) if (!an[i].empty()) as.push_back(an[i]);
      std::string common, deepest;
      for (size_t i = 0; i < fs.size() && i < as.size() && fs[i] == as[i]; ++i) { deepest = fs[i]; if (fi::is_ppl_frame(fs[i])) common = fi::short_name(fs[i]); }
      // Both the surviving block and the failing request were made inside one and the same call of a GMP (C) or
      // C++ run-time function: that function cannot release what it holds when an allocation function throws.
      // This is the documented limitation of GMP, not something the library under test can repair.
      if (fi::is_third_party_frame(deepest)) third_party = fi::short_name(deepest);
      // gmpxx's constructors (mpq_class copy: two consecutive mpz_init_set; construction from an expression:
      // mpq_init, then the evaluation) cannot release what the first GMP call allocated when the next one throws:
      // the same limitation, in the C++ wrapper of GMP.  Recognised by: every lost block was allocated directly by
      // a GMP function (at most two blocks: numerator, denominator), and the lost blocks are exactly the requests immediately preceding the failing one.
      if (m == ALLOC && mblocks >= 1 && mblocks <= 2) {
        bool pattern = true;
        std::set<unsigned long> reqs;
        for (size_t b = 0; b < mblocks && pattern; ++b) {
          std::string a0;
          for (int f = 0; f < fi::BT_DEPTH; ++f) if (!names[b * fi::BT_DEPTH + f].empty()) { a0 = names[b * fi::BT_DEPTH + f]; break; }
          if (a0.compare(0, 5, "__gmp") != 0) pattern = false;   // mpz_init_set, mpq_init, or the first mpz_set into a lazily allocated mpz
          if (LB[b].req == 0 || LB[b].req >= k || LB[b].req + mblocks < k) pattern = false;
          reqs.insert(LB[b].req);
        }
        if (pattern && reqs.size() == mblocks) third_party = "gmpxx object under construction";
      }
      if (!common.empty()) lsite = common;
    }
    std::string sites;
    for (std::map<std::string, std::pair<long, size_t> >::iterator it = by_site.begin(); it != by_site.end(); ++it)
      sites += (sites.empty() ? "" : ", ") + it->first + " x" + std::to_string(it->second.first);
    std::string trig = "leaked_block_allocated_in_" + fi::ident(best);
    if (!third_party.empty()) { count(CNT_TP_LEAK); if (verbose) fprintf(stderr, "[c14] leak inside third-party %s\n", third_party.c_str()); return fired; }
    if (violcap().admit(lsite + cl + "leak" + trig) || verbose)
      report_violation(lsite, cl + ":leak", trig,
                       input_json(s, si, m, k, inner(J().str("operation", s.site).num("balance_first_run", o.balance).num("balance_second_run", o2.balance)
                                               .num("surviving_new_blocks", (long long)n).num("surviving_bytes", (long long)bytes)
                                               .str("allocation_sites_of_surviving_blocks", sites).str("allocation_stack_of_surviving_block", chain)
                                               .str("fault", ftrig).str("fault_site_stack", fault_chain))),
                       std::to_string(o2.balance) + " more live blocks after unwinding and destruction of all objects (again on a second identical run)",
                       "live-block balance 0", exitinfo);
    (void) nth;
  }
  return fired;
}

struct Item { int si; Mode m; unsigned long lo, hi; bool last; };
static std::vector<Item> ITEMS;

static std::string json_field(const std::string& txt, const std::string& key) {
  size_t p = txt.find("\"" + key + "\"");
  if (p == std::string::npos) return "";
  p = txt.find(':', p); if (p == std::string::npos) return "";
  ++p; while (p < txt.size() && (txt[p] == ' ')) ++p;
  if (txt[p] == '"') { size_t e = txt.find('"', p + 1); return txt.substr(p + 1, e - p - 1); }
  size_t e = p; while (e < txt.size() && txt[e] != ',' && txt[e] != '}' && txt[e] != '\n') ++e;
  return txt.substr(p, e - p);
}

int main(int argc, char** argv) {
  // Whether memory corrupted by a non-exception-safe function ends in a crash depends on the heap layout: run with
  // address-space randomisation off so that the same (scenario, k) behaves the same from run to run.
  if (!getenv("C14_NOASLR")) {
    setenv("C14_NOASLR", "1", 1);
    if (personality(ADDR_NO_RANDOMIZE) != -1) { execv("/proc/self/exe", argv); }
  }
  ARGS = parse_args(argc, argv);
  sink().open(ARGS.out);
  double t0 = now_s();
  { void* fr[4]; backtrace(fr, 4); }    // let the unwinder do its one-time allocations now
  std::string modes = ARGS.opt("--modes", "alloc,abandon");
  std::string only = ARGS.opt("--only", "");
  std::string skip = ARGS.opt("--skip", "");
  int chunk = atoi(ARGS.opt("--chunk", "48").c_str());
  verbose = ARGS.has("--verbose");
  bool want_alloc = modes.find("alloc") != std::string::npos, want_abn = modes.find("abandon") != std::string::npos,
       want_ovf = modes.find("overflow") != std::string::npos;
  std::string big = ARGS.opt("--mag", "");
  if (!big.empty()) { mpz_class z(big); MAG() = vf::to_coeff(z); BASE_MAG() = MAG(); }

  std::vector<Scenario>& all = registry();
  std::string replay_scn; Mode replay_mode = ALLOC; unsigned long replay_k = 0;
  if (!ARGS.replay.empty()) {
    std::ifstream f(ARGS.replay.c_str()); std::stringstream ss; ss << f.rdbuf(); std::string txt = ss.str();
    replay_scn = json_field(txt, "scenario");
    std::string mn = json_field(txt, "mode");
    replay_mode = mn == "abandon" ? ABANDON : mn == "overflow" ? OVERFLOW : mn == "dry" ? DRY : ALLOC;
    if (replay_mode == OVERFLOW) { long mg = atol(json_field(txt, "magnitude").c_str()); for (int i = 0; i < N_LADDER; ++i) if (LADDER[i] == mg) replay_k = i; }
    else replay_k = strtoul(json_field(txt, "k").c_str(), 0, 10);
    verbose = true;
  }
  for (size_t i = 0; i < all.size(); ++i) {
    if (!replay_scn.empty()) { if (all[i].name == replay_scn) SC.push_back(all[i]); continue; }
    if (!ARGS.thorough() && all[i].tier > 0) continue;
    if (!only.empty() && all[i].name.find(only) == std::string::npos) continue;
    if (!skip.empty() && all[i].name.find(skip) != std::string::npos) continue;
    SC.push_back(all[i]);
  }
  { std::set<std::string> names; for (size_t i = 0; i < all.size(); ++i) if (!names.insert(all[i].name).second) {
      sink().line(J().str("t", "error").str("msg", "duplicate scenario name " + all[i].name).done()); return 2; } }
  if (SC.empty()) { sink().line(J().str("t", "error").str("msg", "no scenario selected").done()); return 2; }
  if (ARGS.has("--list")) { for (size_t i = 0; i < SC.size(); ++i) printf("%s\t%s\t%d\n", SC[i].name.c_str(), SC[i].site.c_str(), SC[i].tier); return 0; }

  SST = (ScStat*)mmap(0, sizeof(ScStat) * SC.size(), PROT_READ | PROT_WRITE, MAP_SHARED | MAP_ANONYMOUS, -1, 0);
  memset((void*)SST, 0, sizeof(ScStat) * SC.size());
  DRYS.resize(SC.size());
  LB = (fi::LiveBlock*)malloc(sizeof(fi::LiveBlock) * LB_MAX);
  SHARED_BT = (void**)mmap(0, sizeof(void*) * (2 * fi::BT_DEPTH + 1), PROT_READ | PROT_WRITE, MAP_SHARED | MAP_ANONYMOUS, -1, 0);
  CP_BT = (void**)calloc(fi::BT_DEPTH, sizeof(void*));
  c14::set_cp_bt(CP_BT);

  // ---- phase A: dry runs (k = infinity), three per scenario; the third one counts and must balance
  long long dry_problems = 0;
  for (size_t i = 0; i < SC.size(); ++i) {
    Outcome o;
    alarm(120);   // a scenario that hangs without any fault is a harness problem: die loudly
    double td = 0;
    for (int rep = 0; rep < 3; ++rep) { td = now_s(); run_once(SC[i], DRY, 0, o); td = now_s() - td; }
    alarm(0);
    DRYS[i].ms = td * 1000;
    DRYS[i].allocs = o.r.allocs; DRYS[i].checkpoints = o.r.checkpoints;
    DRYS[i].ok = o.r.entered && o.r.completed && !o.escaped && o.r.n_problems == 0 && o.balance <= 0;
    bool native_overflow = (o.r.caught == C_OVERFLOW || (o.escaped && o.escaped_kind == C_OVERFLOW)) && bounded_coefficients();
    DRYS[i].overflowed = native_overflow;
    if (verbose || !DRYS[i].ok)
      fprintf(stderr, "[c14] dry %-60s allocs=%lu checkpoints=%lu completed=%d balance=%ld problems=%d%s%s\n", SC[i].name.c_str(), o.r.allocs, o.r.checkpoints,
              o.r.completed, o.balance, o.r.n_problems, o.r.n_problems ? " " : "", o.r.n_problems ? o.r.detail[0] : "");
    if (!DRYS[i].ok && !native_overflow) {
      // the unfaulted scenario must be clean, otherwise nothing can be concluded from the faulted ones
      ++dry_problems;
      std::string d = !o.r.entered ? "faulted region not reached" : o.escaped ? std::string("exception outside the region: ") + o.escaped_what
                    : !o.r.completed ? std::string("exception without fault: ") + caught_name(o.r.caught) + " " + o.r.what
                    : o.r.n_problems ? std::string(o.r.clause[0]) + ": " + o.r.detail[0] : "live-block balance " + std::to_string(o.balance) + " on the third dry run";
      report_violation(SC[i].site, std::string("nofault:") + (o.r.n_problems ? o.r.clause[0] : o.balance > 0 ? "leak" : "exception"), "unfaulted_run",
                       input_json(SC[i], i, DRY, 0), d, "clean unfaulted run", "");
    }
  }
  double ta = now_s() - t0;

  if (!ARGS.replay.empty()) {
    judge(0, replay_mode, replay_k);
    return 0;
  }

  // ---- items
  unsigned long max_allocs = strtoul(ARGS.opt("--max-allocs", "0").c_str(), 0, 10);
  size_t n_enumerated = 0, n_too_slow = 0;
  double max_dry_ms = atof(ARGS.opt("--max-dry-ms", "0").c_str());
  for (size_t i = 0; i < SC.size(); ++i) {
    if (!DRYS[i].ok && !(want_ovf && DRYS[i].overflowed)) continue;   // an unclean unfaulted run has been reported already
    if (max_allocs && DRYS[i].allocs > max_allocs) continue;   // left to the thorough tier
    if (max_dry_ms > 0 && DRYS[i].ms > max_dry_ms) { ++n_too_slow; continue; }   // one unfaulted run is already too slow to repeat N times
    ++n_enumerated;
    if (want_alloc && DRYS[i].ok) {
      unsigned long N = DRYS[i].allocs;
      for (unsigned long lo = 1; lo <= N || lo == 1; lo += chunk) {
        Item it; it.si = i; it.m = ALLOC; it.lo = lo; it.hi = std::min<unsigned long>(lo + chunk - 1, std::max<unsigned long>(N, 1)); it.last = (lo + chunk > N);
        ITEMS.push_back(it);
      }
    }
    if (want_abn && DRYS[i].ok && DRYS[i].checkpoints > 0) {
      Item it; it.si = i; it.m = ABANDON; it.lo = 1; it.hi = DRYS[i].checkpoints; it.last = true; ITEMS.push_back(it);
    }
    if (want_ovf) { Item it; it.si = i; it.m = OVERFLOW; it.lo = 0; it.hi = N_LADDER - 1; it.last = false; ITEMS.push_back(it); }
  }
  // big scenarios first, so that the tail of the schedule is made of small items
  std::stable_sort(ITEMS.begin(), ITEMS.end(), [](const Item& a, const Item& b) { return DRYS[a.si].allocs > DRYS[b.si].allocs; });

  Pool::Fn fn = [&](long long item, long long sub_start) {
    const Item& it = ITEMS[item];
    unsigned long k = it.lo; long long sub = 0;
    for (;; ++k, ++sub) {
      bool beyond = k > it.hi;
      if (beyond && !(it.last && it.m != OVERFLOW)) break;
      if (beyond && k > it.hi + 2000) break;
      if (!pool().want(sub, sub_start)) { if (beyond && pool().only_sub >= 0 && sub > pool().only_sub) break; continue; }
      if (ARGS.expired()) { count(CNT_SKIPPED); break; }
      pool().step(sub);
      bool fired = judge(it.si, it.m, k);
      // the last chunk of a scenario goes on until a run completes without the fault being reached
      if (beyond && !fired) break;
      if (pool().only_sub >= 0) break;
    }
  };
  Pool::CrashFn cf = [&](long long item, long long sub, int sig, bool confirmed) {
    if (!confirmed) return;
    const Item& it = ITEMS[item];
    unsigned long k = it.lo + sub;
    const Scenario& s = SC[it.si];
    __sync_fetch_and_add(&SST[it.si].other, 1);
    // where was the fault delivered?  run the case once more in a child that records the stack of the
    // failing request into a shared mapping before it goes on (and crashes)
    memset(SHARED_BT, 0, sizeof(void*) * (2 * fi::BT_DEPTH + 1));
    volatile int* phase = (volatile int*)(SHARED_BT + 2 * fi::BT_DEPTH);
    fflush(stdout); fflush(stderr);
    pid_t pid = fork();
    if (pid == 0) {
      alarm(120);
      fi::st().fired_bt = SHARED_BT; c14::set_cp_bt(SHARED_BT + fi::BT_DEPTH); c14::set_phase_ptr(phase);
      fi::bt_on(true);
      Outcome o; if (it.m == OVERFLOW) MAG() = Coefficient(LADDER[k]);
      int fd = open("/dev/null", O_WRONLY); if (fd >= 0) { dup2(fd, 2); }
      run_once(s, it.m, k, o);
      _exit(0);
    }
    int stt; if (pid > 0) waitpid(pid, &stt, 0);
    std::string chain, trig = "none";
    if (it.m == ALLOC) trig = "failed_allocation_in_" + fi::ident(site_of_stack(std::vector<void*>(SHARED_BT, SHARED_BT + fi::BT_DEPTH), &chain));
    else if (it.m == ABANDON) trig = "abandoned_in_" + fi::ident(site_of_stack(std::vector<void*>(SHARED_BT + fi::BT_DEPTH, SHARED_BT + 2 * fi::BT_DEPTH), &chain));
    else if (it.m == OVERFLOW) trig = "coefficient_overflow_raised";
    if (sig == SIGALRM && *phase != 0) {
      // The step limit expired while the post-checks were computing on the object left behind by the exceptional exit
      // (its value is unspecified and, with multi-limb data, operations on it can be arbitrarily expensive): no verdict.
      count(CNT_POST_TIMEOUT);
      fprintf(stderr, "[c14] step limit reached in the post-checks of %s k=%lu: no verdict\n", s.name.c_str(), k);
      return;
    }
    std::string cls = s.site.substr(0, s.site.find("::"));
    std::string engine = engine_of_stack(it.m == ABANDON ? std::vector<void*>(SHARED_BT + fi::BT_DEPTH, SHARED_BT + 2 * fi::BT_DEPTH) : std::vector<void*>(SHARED_BT, SHARED_BT + fi::BT_DEPTH));
    std::string ecls = engine.empty() ? cls : engine.substr(0, engine.find("::"));
    if (*phase == 1) {
      // the crash happened while the object left behind by the exceptional exit was being inspected (OK()) or used:
      // the strongest symptom of "invalid after fault"
      report_violation(ecls, std::string(mode_clause(it.m)) + ":invalid_after_fault", "fault_delivered_inside_member_of_" + fi::ident(ecls),
                       input_json(s, it.si, it.m, k, inner(J().str("interrupted_member_function", engine).str("fault_site_stack", chain))),
                       std::string(signame(sig)) + " when OK() / a well-formed operation is applied to the object left behind by the exceptional exit",
                       "the object left behind by the exceptional exit is a valid object of its class (OK() holds, can be used)", "operation: " + s.site);
      return;
    }
    // Outside that inspection (during the operation itself, unwinding, re-assignment, later use or destruction).
    // Which allocation must fail for memory corruption to end in a crash varies with the heap layout, so the group is
    // keyed by the class whose member function was interrupted; the function whose allocation failed is in the input.
    report_violation(ecls, std::string(mode_clause(it.m)) + ":crash:" + signame(sig), "fault_delivered_inside_member_of_" + fi::ident(ecls),
                     input_json(s, it.si, it.m, k, inner(J().str("operation", s.site).str("failed_request", trig).str("interrupted_member_function", engine)
                                .str("phase", *phase == 0 ? "inside the faulted operation / unwinding" : "re-assignment, later use or destruction").str("fault_site_stack", chain))),
                     signame(sig), "the injected exception propagates to the caller and all objects can be re-assigned, used and destroyed", "");
  };
  limit_memory(8ULL << 30);
  pool().run((long long)ITEMS.size(), ARGS.jobs, fn, cf, ARGS, 120);

  // ---- stats
  bool complete = counter(CNT_SKIPPED) == 0 && dry_problems == 0;
  std::vector<std::string> samples, per;
  long long total_allocs = 0;
  for (size_t i = 0; i < SC.size(); ++i) {
    total_allocs += DRYS[i].allocs;
    per.push_back(J().str("scenario", SC[i].name).num("allocations", DRYS[i].allocs).num("checkpoints", DRYS[i].checkpoints)
                  .num("faulted_runs", SST[i].runs).num("fired", SST[i].fired).num("leaking_runs", SST[i].leaks)
                  .num("cache_growth_only", SST[i].cache_growth).num("other_findings", SST[i].other).done());
  }
  for (size_t i = 0; i < SC.size(); i += std::max<size_t>(1, SC.size() / 3)) {
    Mode m = want_alloc ? ALLOC : want_ovf ? OVERFLOW : ABANDON;
    samples.push_back(input_json(SC[i], i, m, m == OVERFLOW ? 3 : std::max<unsigned long>(1, DRYS[i].allocs / 2)));
  }
  J extra; extra.num("scenarios", SC.size()).num("scenarios_enumerated", n_enumerated).num("scenarios_left_out_because_one_unfaulted_run_is_too_slow", n_too_slow).num("scenarios_registered", all.size()).str("modes", modes).num("work_items", ITEMS.size())
    .num("allocation_requests_in_dry_runs", total_allocs)
    .num("faulted_runs", counter(CNT_EVAL)).num("fault_fired", counter(CNT_FIRED)).num("alloc_faults_fired", counter(CNT_ALLOC_FIRED))
    .num("abandonments_fired", counter(CNT_ABN_FIRED)).num("overflows_fired", counter(CNT_OVF_FIRED)).num("fault_not_reached", counter(CNT_NOTFIRED))
    .num("leaking_runs_confirmed_by_second_run", counter(CNT_LEAK)).num("of_which_inside_one_GMP_or_runtime_library_call(not reported)", counter(CNT_TP_LEAK)).num("positive_balance_not_repeated(cache growth)", counter(CNT_CACHE))
    .num("post_check_step_limit_reached(no verdict)", counter(CNT_POST_TIMEOUT)).num("usability_problems", counter(CNT_PROBLEMS)).num("dry_run_problems", dry_problems).num("items_skipped_by_deadline", counter(CNT_SKIPPED))
    .dbl("phaseA_s", ta).arr("per_scenario", per);
  J st; st.str("t", "stats").num("states", SC.size()).num("transitions", std::max<long long>(1, counter(CNT_EVAL)))
    .num("traces_validated_against_impl", counter(CNT_EVAL)).num("evaluations", counter(CNT_EVAL)).num("distinct_nontrivial", counter(CNT_FIRED))
    .boolean("exhaustive", complete)
    .str("bound", std::string("tier ") + ARGS.tier + ": " + std::to_string(n_enumerated) + " of " + std::to_string(SC.size()) + " scenarios" + (max_allocs ? " (those with at most " + std::to_string(max_allocs) + " allocation requests)" : "") + " x every fault position (modes " + modes + ")")
    .arr("samples", samples).raw("extra", extra.done()).dbl("wall_s", now_s() - t0);
  sink().line(st.done());
  return 0;
}

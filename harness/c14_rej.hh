// C14 part 1: rejected calls.  Framework shared by harness/c14_rej.cc (driver + simple domains) and
// harness/c14_rej_*.cc (menus).  For every representative state of a class and every ill-formed call
// of a fixed menu:  the documented exception class is thrown;  the receiver's value (judged by an
// independent observer) and its representation (ascii_dump) are unchanged;  all operands are unchanged;
// OK() holds;  a following well-formed operation gives the same result as on a pristine twin.
#ifndef VERIF_C14_REJ_HH
#define VERIF_C14_REJ_HH 1

#include "engine/ppl_ref.hh"
#include "engine/common.hh"
#include <stdexcept>
#include <new>
#include <typeinfo>
#include <functional>
#include <algorithm>

namespace c14r {

using namespace Parma_Polyhedra_Library;

struct Rej {
  bool threw; std::string cls, what;
  std::vector<std::string> operand_problems;
  Rej() : threw(false) {}
  template <typename F> void attempt(F f) {
    try { f(); }
    catch (const std::invalid_argument& e) { threw = true; cls = "invalid_argument"; what = e.what(); }
    catch (const std::length_error& e) { threw = true; cls = "length_error"; what = e.what(); }
    catch (const std::domain_error& e) { threw = true; cls = "domain_error"; what = e.what(); }
    catch (const std::out_of_range& e) { threw = true; cls = "out_of_range"; what = e.what(); }
    catch (const std::logic_error& e) { threw = true; cls = "logic_error"; what = e.what(); }
    catch (const std::overflow_error& e) { threw = true; cls = "overflow_error"; what = e.what(); }
    catch (const std::runtime_error& e) { threw = true; cls = "runtime_error"; what = e.what(); }
    catch (const std::bad_alloc& e) { threw = true; cls = "bad_alloc"; what = e.what(); }
    catch (const std::exception& e) { threw = true; cls = std::string("other:") + typeid(e).name(); what = e.what(); }
    catch (...) { threw = true; cls = "non-standard"; }
  }
  void operand(const char* nm, const std::string& before, const std::string& after) {
    if (before != after) operand_problems.push_back(std::string("operand ") + nm + " changed");
  }
};

// an operand with its dump taken before the call
#define OPND(T, y, ...) T y __VA_ARGS__; const std::string y##_d0 = vf::dump_of(y)
#define OPCHK(y) rj.operand(#y, y##_d0, vf::dump_of(y))

template <typename T> struct Call {
  std::string method;    // Class::method  (the finding's site)
  std::string kind;      // what makes the call ill-formed (the finding's trigger)
  std::string arg_state; // for system arguments: how the argument was obtained (hand-built / which accessor state)
  std::string expect;    // documented exception class
  bool lazy;             // the call may legitimately compute (and cache) before it rejects: representation may change
  std::function<bool(const T&)> applicable;
  std::function<void(T&, Rej&)> fn;
};
template <typename T> struct State { std::string name; std::function<T()> build; };

template <typename T> struct Menu {
  std::string cls;
  std::vector<State<T> > states;
  std::vector<Call<T> > calls;
  void state(const std::string& n, std::function<T()> b) { State<T> s; s.name = n; s.build = b; states.push_back(s); }
  void call(const std::string& method, const std::string& kind, const std::string& expect, std::function<void(T&, Rej&)> fn,
            bool lazy = false, std::function<bool(const T&)> app = std::function<bool(const T&)>()) {
    Call<T> c; c.method = cls + "::" + method; c.kind = kind; c.expect = expect; c.fn = fn; c.lazy = lazy; c.applicable = app; calls.push_back(c);
  }
};

// per class: independent value observer and a well-formed follow-up operation
template <typename T> struct Obs;   // static bool same(const T&, const T&, std::string& why); static void follow(T&);

struct Verdict { bool applicable, threw; std::vector<std::pair<std::string, std::string> > problems; std::string cls, what; };

template <typename T>
Verdict run_case(const Menu<T>& m, size_t si, size_t ci) {
  Verdict v; v.applicable = true; v.threw = false;
  const Call<T>& c = m.calls[ci];
  T x = m.states[si].build();
  T twin = m.states[si].build();
  if (c.applicable && !c.applicable(x)) { v.applicable = false; return v; }
  const std::string d0 = vf::dump_of(x);
  if (d0 != vf::dump_of(twin)) v.problems.push_back(std::make_pair("harness", "state builder is not deterministic"));
  Rej rj;
  c.fn(x, rj);
  v.threw = rj.threw; v.cls = rj.cls; v.what = rj.what;
  if (!rj.threw) v.problems.push_back(std::make_pair("accepted", "no exception: the ill-formed call was silently accepted"));
  else if (rj.cls != c.expect) v.problems.push_back(std::make_pair("wrong_exception_class", "std::" + rj.cls + " thrown (" + rj.what.substr(0, 120) + ")"));
  // (a const operand may be minimized lazily by a call that computes before it rejects)
  for (size_t i = 0; i < rj.operand_problems.size(); ++i) {
    if (rj.operand_problems[i].compare(0, 8, "harness:") == 0) v.problems.push_back(std::make_pair("harness", rj.operand_problems[i]));
    else if (!c.lazy) v.problems.push_back(std::make_pair("operand_changed", rj.operand_problems[i]));
  }
  const std::string d1 = vf::dump_of(x);
  bool ok = x.OK();
  if (!ok) v.problems.push_back(std::make_pair("not_ok", "receiver.OK() is false after the rejected call"));
  std::string why;
  bool same_val = false;
  // (only the pure reference computations inside the observers are marked as oracle work: a crash of a library
  // observer such as constraints() on the receiver is the library's)
  try { same_val = Obs<T>::same(x, twin, why); } catch (const std::exception& e) { why = std::string("observer threw: ") + e.what(); }
  if (!same_val) v.problems.push_back(std::make_pair("value_changed", "receiver value differs from the pristine twin: " + why));
  else if (d0 != d1 && !c.lazy) v.problems.push_back(std::make_pair("representation_changed", "receiver value unchanged but its ascii_dump differs after the rejected call"));
  if (ok && same_val) {
    // a following well-formed operation gives the same result as on the twin
    try {
      Obs<T>::follow(x); Obs<T>::follow(twin);
      if (!x.OK()) v.problems.push_back(std::make_pair("not_ok", "receiver.OK() is false after a well-formed operation following the rejected call"));
      if (!Obs<T>::same(x, twin, why)) v.problems.push_back(std::make_pair("followup_differs", "well-formed operation after the rejected call differs from the twin: " + why));
    }
    catch (const std::exception& e) { v.problems.push_back(std::make_pair("followup_differs", std::string("well-formed operation after the rejected call throws: ") + e.what())); }
  }
  return v;
}

// type-erased runner
struct Runner {
  std::string cls; size_t nstates, ncalls;
  std::function<Verdict(size_t, size_t)> run;
  std::function<std::string(size_t)> state_name;
  std::function<std::string(size_t)> call_method, call_kind, call_expect, call_arg_state;
};
template <typename T> Runner make_runner(const Menu<T>* m) {   // m must stay alive
  Runner r; r.cls = m->cls; r.nstates = m->states.size(); r.ncalls = m->calls.size();
  r.run = [m](size_t s, size_t c) { return run_case(*m, s, c); };
  r.state_name = [m](size_t s) { return m->states[s].name; };
  r.call_method = [m](size_t c) { return m->calls[c].method; };
  r.call_kind = [m](size_t c) { return m->calls[c].kind; };
  r.call_expect = [m](size_t c) { return m->calls[c].expect; };
  r.call_arg_state = [m](size_t c) { return m->calls[c].arg_state; };
  return r;
}
std::vector<Runner>& runners();

// ---- helpers ---------------------------------------------------------------------------------
inline Linear_Expression le_dim(dimension_type n) {   // an expression of space dimension exactly n (n >= 1)
  Linear_Expression e; e += Variable(n - 1); return e;
}
inline Variables_Set vset(dimension_type a) { Variables_Set s; s.insert(Variable(a)); return s; }
inline Variables_Set vset(dimension_type a, dimension_type b) { Variables_Set s; s.insert(Variable(a)); s.insert(Variable(b)); return s; }

inline bool same_cells(const ref::Cell& a, const ref::Cell& b, std::string& why) {
  vf::RefGuard g;
  if (ref::equal(a, b)) return true;
  why = "{" + ref::cell_str(a) + "} vs {" + ref::cell_str(b) + "}"; return false;
}


// ---- ill-formed *system* arguments in every lazy representation state ---------------------------
// A Constraint_System / Generator_System / Congruence_System argument is presented not only hand-built but also
// as the object a public accessor hands out by const reference: with pending rows (polyhedron minimized first,
// culprit added afterwards), not minimized, minimized, and obtained by conversion from the dual description.
enum SysState { SY_HAND = 0, SY_PENDING, SY_UNMIN, SY_MIN, SY_DUAL, SY_N };
inline const char* sys_state_name(int s) {
  static const char* n[] = { "hand_built", "accessor_with_pending_rows", "accessor_not_minimized", "accessor_minimized", "accessor_after_conversion" };
  return n[s];
}
enum CsKind { CK_STRICT, CK_DIM, CK_NONBD, CK_INEQ };
struct CsSource {
  NNC_Polyhedron nnc; C_Polyhedron c; Constraint_System hand; const Constraint_System* cs; bool pending_ok;
  CsSource() : nnc(0), c(0), cs(0), pending_ok(true) {}
};
template <typename PH>
inline const Constraint_System* cs_from(PH& holder, dimension_type d, const Constraint_System& base, const Constraint& culprit, int st, bool& pending_ok) {
  PH p(d);
  if (st == SY_PENDING) {
    p.add_constraints(base);
    (void) p.minimized_generators(); (void) p.minimized_constraints();
    p.add_constraint(culprit);                       // now a pending row
    holder.m_swap(p);
    const Constraint_System& r = holder.constraints();
    pending_ok = r.sys.first_pending_row() < r.sys.num_rows();
    return &r;
  }
  p.add_constraints(base); p.add_constraint(culprit);
  if (st == SY_DUAL) { Generator_System gs(p.generators()); PH q(gs); holder.m_swap(q); return &holder.constraints(); }
  holder.m_swap(p);
  return st == SY_MIN ? &holder.minimized_constraints() : &holder.constraints();
}
// n: space dimension of the receiver
inline void make_cs(CsSource& s, CsKind kind, int st, dimension_type n) {
  const Variable A(0), B(1);
  dimension_type d = kind == CK_DIM ? n + 1 : kind == CK_NONBD ? std::max<dimension_type>(n, 2) : std::max<dimension_type>(n, 1);
  Constraint_System base; if (kind != CK_INEQ) base.insert(A >= 0);
  Constraint culprit = kind == CK_STRICT ? (A < 7) : kind == CK_DIM ? (le_dim(n + 1) <= 7) : kind == CK_NONBD ? (2 * A - 3 * B <= 1) : (A <= 7);
  if (st == SY_HAND) { s.hand = base; s.hand.insert(culprit); s.cs = &s.hand; return; }
  if (kind == CK_STRICT) s.cs = cs_from(s.nnc, d, base, culprit, st, s.pending_ok);
  else s.cs = cs_from(s.c, d, base, culprit, st, s.pending_ok);
}
template <typename T>
inline void cs_variants(Menu<T>& m, const std::string& method, const std::string& reason, const std::string& expect, CsKind kind,
                        std::function<void(T&, const Constraint_System&)> call, std::function<bool(const T&)> app = std::function<bool(const T&)>(), bool lazy = false) {
  for (int st = 0; st < SY_N; ++st)
    m.call(method, reason, expect, [kind, st, call](T& x, Rej& rj) {
      CsSource s; make_cs(s, kind, st, x.space_dimension());
      const Constraint_System& cs = *s.cs;
      if (!s.pending_ok) rj.operand_problems.push_back("harness: the accessor did not return pending rows");
      const std::string d0 = vf::dump_of(cs);
      rj.attempt([&] { call(x, cs); });
      rj.operand("cs", d0, vf::dump_of(cs));
    }, lazy, app), m.calls.back().arg_state = sys_state_name(st);
}

enum GsKind { GK_CLOSURE, GK_DIM };
struct GsSource { NNC_Polyhedron nnc; C_Polyhedron c; Generator_System hand; const Generator_System* gs; bool pending_ok; GsSource() : nnc(0), c(0), gs(0), pending_ok(true) {} };
template <typename PH>
inline const Generator_System* gs_from(PH& holder, dimension_type d, const Generator_System& base, const Generator& culprit, int st, bool& pending_ok) {
  PH p(d, EMPTY);
  if (st == SY_PENDING) {
    p.add_generators(base);
    (void) p.minimized_constraints(); (void) p.minimized_generators();
    p.add_generator(culprit);
    holder.m_swap(p);
    const Generator_System& r = holder.generators();
    pending_ok = r.sys.first_pending_row() < r.sys.num_rows();
    return &r;
  }
  p.add_generators(base); p.add_generator(culprit);
  if (st == SY_DUAL) { Constraint_System cs(p.constraints()); PH q(cs); holder.m_swap(q); return &holder.generators(); }
  holder.m_swap(p);
  return st == SY_MIN ? &holder.minimized_generators() : &holder.generators();
}
inline void make_gs(GsSource& s, GsKind kind, int st, dimension_type n) {
  const Variable A(0);
  dimension_type d = kind == GK_DIM ? n + 1 : std::max<dimension_type>(n, 1);
  Generator_System base; base.insert(point(0 * Variable(d - 1))); base.insert(point(A));
  Generator culprit = kind == GK_CLOSURE ? closure_point(3 * A) : point(le_dim(n + 1));
  if (st == SY_HAND) { s.hand = base; s.hand.insert(culprit); s.gs = &s.hand; return; }
  if (kind == GK_CLOSURE) s.gs = gs_from(s.nnc, d, base, culprit, st, s.pending_ok);
  else s.gs = gs_from(s.c, d, base, culprit, st, s.pending_ok);
}
template <typename T>
inline void gs_variants(Menu<T>& m, const std::string& method, const std::string& reason, const std::string& expect, GsKind kind,
                        std::function<void(T&, const Generator_System&)> call, std::function<bool(const T&)> app = std::function<bool(const T&)>()) {
  for (int st = 0; st < SY_N; ++st)
    m.call(method, reason, expect, [kind, st, call](T& x, Rej& rj) {
      GsSource s; make_gs(s, kind, st, x.space_dimension());
      const Generator_System& gs = *s.gs;
      if (!s.pending_ok) rj.operand_problems.push_back("harness: the accessor did not return pending rows");
      const std::string d0 = vf::dump_of(gs);
      rj.attempt([&] { call(x, gs); });
      rj.operand("gs", d0, vf::dump_of(gs));
    }, false, app), m.calls.back().arg_state = sys_state_name(st);
}

enum CgKind { GGK_PROPER, GGK_DIM };
struct CgSource { Grid g; Congruence_System hand; const Congruence_System* cgs; CgSource() : g(0), cgs(0) {} };
inline void make_cgs(CgSource& s, CgKind kind, int st, dimension_type n) {
  const Variable A(0);
  dimension_type d = kind == GGK_DIM ? n + 1 : std::max<dimension_type>(n, 1);
  Congruence culprit = kind == GGK_PROPER ? ((A %= 1) / 2) : ((le_dim(n + 1) %= 1) / 2);
  if (st == SY_HAND) { s.hand.insert(culprit); s.cgs = &s.hand; return; }
  Grid p(d); p.add_congruence(culprit);
  if (st == SY_DUAL || st == SY_PENDING) { Grid_Generator_System gg(p.grid_generators()); Grid q(gg); s.g.m_swap(q); s.cgs = &s.g.congruences(); return; }
  s.g.m_swap(p);
  s.cgs = st == SY_MIN ? &s.g.minimized_congruences() : &s.g.congruences();
}
template <typename T>
inline void cgs_variants(Menu<T>& m, const std::string& method, const std::string& reason, const std::string& expect, CgKind kind,
                         std::function<void(T&, const Congruence_System&)> call, std::function<bool(const T&)> app = std::function<bool(const T&)>()) {
  for (int st = 0; st < SY_N; ++st) {
    if (st == SY_PENDING) continue;   // grids have no pending rows
    m.call(method, reason, expect, [kind, st, call](T& x, Rej& rj) {
      CgSource s; make_cgs(s, kind, st, x.space_dimension());
      const Congruence_System& cgs = *s.cgs;
      const std::string d0 = vf::dump_of(cgs);
      rj.attempt([&] { call(x, cgs); });
      rj.operand("cgs", d0, vf::dump_of(cgs));
    }, false, app);
    m.calls.back().arg_state = sys_state_name(st);
  }
}

} // namespace c14r
#endif

// shapes.cc part 1: numeric traits, domain adapters (gamma, clone, signature), expressions,
// value classes, best abstraction alpha.  Included only by harness/shapes.cc.
#include "engine/common.hh"
#include "engine/ppl_ref.hh"
#include "interfaces/interfaced_boxes.hh"
#include "ref/ops.hh"
#include "harness/shapes_reg.hh"
#include <unordered_map>
#include <memory>
#include <limits>
#include <cmath>
#include <cfloat>

#ifndef SHAPE_T
#error "define SHAPE_T and SHAPE_NAME, then include harness/shapes.cc"
#endif

namespace {

using namespace vf;
using ref::Cell; using ref::Row; using ref::Vec; using ref::Q; using ref::USet;
using PPL::Variable; using PPL::Linear_Expression; using PPL::Coefficient;

typedef SHAPE_T D;
enum Kind { K_BOX = 0, K_BDS = 1, K_OCT = 2 };

// ------------------------------------------------------------------ bound types
inline Q q_of(const mpq_class& v) { return v; }
inline Q q_of(const mpz_class& v) { return Q(v); }
inline Q q_of(signed char v) { return Q((long)v); }
inline Q q_of(short v) { return Q((long)v); }
inline Q q_of(int v) { return Q((long)v); }
inline Q q_of(long v) { return Q(v); }
inline Q q_of(long long v) { return Q(mpz_class(std::to_string(v))); }
inline Q q_of(float v) { return Q((double)v); }
inline Q q_of(double v) { return Q(v); }
inline Q q_of(long double v) {
  if (v == 0) return Q(0);
  int e; long double m = frexpl(v, &e);            // v = m * 2^e, 0.5 <= |m| < 1
  bool neg = m < 0; if (neg) m = -m;
  long double s = ldexpl(m, 64);                    // integer < 2^64 (64-bit mantissa)
  unsigned long long u = (unsigned long long)s;
  mpz_class z = mpz_class((unsigned long)(u >> 32)); z <<= 32; z += mpz_class((unsigned long)(u & 0xffffffffULL));
  Q r(z); int sh = e - 64;
  if (sh >= 0) r *= Q(mpz_class(1) << sh); else r /= Q(mpz_class(1) << (-sh));
  return neg ? Q(-r) : r;
}

template <typename T> inline bool finite_ok(const T&) { return true; }
inline bool finite_ok(float v) { return std::isfinite(v); }
inline bool finite_ok(double v) { return std::isfinite(v); }
inline bool finite_ok(long double v) { return std::isfinite(v); }

template <typename T> struct BT { static const bool exact = false; static const bool is_float = false; static const int bits = 0; static const char* name() { return "?"; } };
template <> struct BT<mpq_class> { static const bool exact = true; static const bool is_float = false; static const int bits = 0; static const char* name() { return "mpq"; } };
template <> struct BT<mpz_class> { static const bool exact = false; static const bool is_float = false; static const int bits = 0; static const char* name() { return "mpz"; } };
template <> struct BT<int8_t> { static const bool exact = false; static const bool is_float = false; static const int bits = 8; static const char* name() { return "int8"; } };
template <> struct BT<int16_t> { static const bool exact = false; static const bool is_float = false; static const int bits = 16; static const char* name() { return "int16"; } };
template <> struct BT<int32_t> { static const bool exact = false; static const bool is_float = false; static const int bits = 32; static const char* name() { return "int32"; } };
template <> struct BT<int64_t> { static const bool exact = false; static const bool is_float = false; static const int bits = 64; static const char* name() { return "int64"; } };
template <> struct BT<float> { static const bool exact = false; static const bool is_float = true; static const int bits = 24; static const char* name() { return "float"; } };
template <> struct BT<double> { static const bool exact = false; static const bool is_float = true; static const int bits = 53; static const char* name() { return "double"; } };
template <> struct BT<long double> { static const bool exact = false; static const bool is_float = true; static const int bits = 64; static const char* name() { return "long double"; } };

// ------------------------------------------------------------------ adapters
static bool BAD_ENTRY = false;     // set when gamma meets NaN / -inf in a matrix

template <typename X> struct Ad;

template <typename T> struct Ad<PPL::BD_Shape<T> > {
  typedef PPL::BD_Shape<T> X; typedef T B;
  static const Kind kind = K_BDS; static const bool open_ok = false;
  static const char* kname() { return "BD_Shape"; }
  static Cell gamma(const X& s) {
    int n = (int)s.dbm.num_rows() - 1;
    if (s.status.test_empty()) return Cell::empty(n);
    Cell c(n);
    for (int i = 0; i <= n; ++i) for (int j = 0; j <= n; ++j) {
      const typename X::N& e = s.dbm[i][j];
      if (PPL::is_plus_infinity(e)) continue;
      if (PPL::is_minus_infinity(e) || PPL::is_not_a_number(e)) { BAD_ENTRY = true; return Cell::empty(n); }
      Vec a(n, Q(0)); if (j > 0) a[j - 1] -= 1; if (i > 0) a[i - 1] += 1;      // v_j - v_i <= e
      c.rows.push_back(Row(a, q_of(PPL::raw_value(e)), ref::GE));
    }
    return c;
  }
  static X* clone(const X& s) { X* c = new X(0); c->dbm = s.dbm; c->status = s.status; c->redundancy_dbm = s.redundancy_dbm; return c; }
  // same matrix and same empty flag => same gamma (cheap shortcut that avoids re-reading the value)
  static bool same_repr(const X& a, const X& b) { return a.status.test_empty() == b.status.test_empty() && a.dbm.num_rows() == b.dbm.num_rows() && a.dbm == b.dbm; }
  static std::string sig(const X& s) {
    std::string r; r += s.status.test_empty() ? 'E' : '-'; r += s.status.test_zero_dim_univ() ? 'Z' : '-';
    r += s.status.test_shortest_path_closed() ? 'C' : '-'; r += s.status.test_shortest_path_reduced() ? 'R' : '-'; return r;
  }
};

template <typename T> struct Ad<PPL::Octagonal_Shape<T> > {
  typedef PPL::Octagonal_Shape<T> X; typedef T B;
  static const Kind kind = K_OCT; static const bool open_ok = false;
  static const char* kname() { return "Octagonal_Shape"; }
  static Cell gamma(const X& s) {
    int n = (int)s.space_dim;
    if (s.status.test_empty()) return Cell::empty(n);
    Cell c(n);
    X& ms = const_cast<X&>(s);
    for (int i = 0; i < 2 * n; ++i) {
      typename PPL::OR_Matrix<typename X::N>::row_reference_type row = ms.matrix[i];
      int rs = (i | 1) + 1;
      for (int j = 0; j < rs; ++j) {
        const typename X::N& e = row[j];
        if (PPL::is_plus_infinity(e)) continue;
        if (PPL::is_minus_infinity(e) || PPL::is_not_a_number(e)) { BAD_ENTRY = true; return Cell::empty(n); }
        Vec a(n, Q(0));                                 // V_j - V_i <= e, V_2k = +x_k, V_2k+1 = -x_k
        a[j / 2] -= (j % 2 == 0) ? 1 : -1;
        a[i / 2] += (i % 2 == 0) ? 1 : -1;
        c.rows.push_back(Row(a, q_of(PPL::raw_value(e)), ref::GE));
      }
    }
    return c;
  }
  static X* clone(const X& s) { X* c = new X(0); c->matrix = s.matrix; c->space_dim = s.space_dim; c->status = s.status; return c; }
  static bool same_repr(const X& a, const X& b) { return a.status.test_empty() == b.status.test_empty() && a.space_dim == b.space_dim && a.matrix == b.matrix; }
  static std::string sig(const X& s) {
    std::string r; r += s.status.test_empty() ? 'E' : '-'; r += s.status.test_zero_dim_univ() ? 'Z' : '-';
    r += s.status.test_strongly_closed() ? 'C' : '-'; return r;
  }
};

template <typename ITV> struct Ad<PPL::Box<ITV> > {
  typedef PPL::Box<ITV> X; typedef typename ITV::boundary_type B;
  static const Kind kind = K_BOX; static const bool open_ok = ITV::info_type::store_open;
  static const char* kname() { return "Box"; }
  static Cell gamma(const X& s) {
    int n = (int)s.seq.size();
    if (s.status.test_empty_up_to_date() && s.status.test_empty()) return Cell::empty(n);
    Cell c(n);
    for (int k = 0; k < n; ++k) {
      const ITV& itv = s.seq[k];
      if (!itv.lower_is_boundary_infinity()) {
        if (!finite_ok(itv.lower())) { BAD_ENTRY = true; return Cell::empty(n); }
        Q l = q_of(itv.lower());
        c.rows.push_back(Row(ref::unit(n, k), -l, itv.lower_is_open() ? ref::GT : ref::GE));
      }
      if (!itv.upper_is_boundary_infinity()) {
        if (!finite_ok(itv.upper())) { BAD_ENTRY = true; return Cell::empty(n); }
        Q u = q_of(itv.upper());
        c.rows.push_back(Row(ref::unit(n, k, Q(-1)), u, itv.upper_is_open() ? ref::GT : ref::GE));
      }
    }
    return c;
  }
  static X* clone(const X& s) { X* c = new X(0); c->seq = s.seq; c->status = s.status; return c; }
  static bool same_repr(const X& a, const X& b) {
    if ((a.status.test_empty_up_to_date() && a.status.test_empty()) != (b.status.test_empty_up_to_date() && b.status.test_empty())) return false;
    if (a.seq.size() != b.seq.size()) return false;
    for (size_t k = 0; k < a.seq.size(); ++k) {
      const ITV& x = a.seq[k]; const ITV& y = b.seq[k];
      bool xl = x.lower_is_boundary_infinity(), yl = y.lower_is_boundary_infinity(), xu = x.upper_is_boundary_infinity(), yu = y.upper_is_boundary_infinity();
      if (xl != yl || xu != yu) return false;
      if (!xl && (!(x.lower() == y.lower()) || x.lower_is_open() != y.lower_is_open())) return false;
      if (!xu && (!(x.upper() == y.upper()) || x.upper_is_open() != y.upper_is_open())) return false;
    }
    return true;
  }
  static std::string sig(const X& s) {
    std::string r; r += s.status.test_empty_up_to_date() ? 'U' : '-'; r += s.status.test_empty() ? 'E' : '-';
    r += s.status.test_universe() ? 'V' : '-'; return r;
  }
};

typedef Ad<D> A;
typedef A::B BTy;
static const Kind KIND = A::kind;
static const bool OPEN_OK = A::open_ok;
static const bool EXACT_T = BT<BTy>::exact;
static std::string DOM() { return std::string(A::kname()); }

// ------------------------------------------------------------------ expressions with mpz coefficients
static std::string zstr(const mpz_class& z) {
  std::string s = z.get_str();
  if (s.size() > 24) {     // abbreviate huge constants: exact value is sign * m * 2^k
    mpz_class m = abs(z); unsigned long k = 0; while (m != 0 && mpz_even_p(m.get_mpz_t())) { m >>= 1; ++k; }
    return std::string(z < 0 ? "-" : "") + m.get_str() + "*2^" + std::to_string(k);
  }
  return s;
}
struct ZE {
  std::vector<mpz_class> a; mpz_class b;
  ZE() : b(0) {}
  ZE(std::initializer_list<long> a_, long b_) : b(b_) { for (long v : a_) a.push_back(mpz_class(v)); }
  Linear_Expression ppl() const {
    Linear_Expression e;
    for (size_t i = 0; i < a.size(); ++i) if (a[i] != 0) e += to_coeff(a[i]) * Variable(i);
    e += to_coeff(b);
    return e;
  }
  Vec vec(int n) const { Vec v(n, Q(0)); for (int i = 0; i < n && i < (int)a.size(); ++i) v[i] = Q(a[i]); return v; }
  Q q0() const { return Q(b); }
  int dim() const { int d = 0; for (size_t i = 0; i < a.size(); ++i) if (a[i] != 0) d = i + 1; return d; }
  int nvars() const { int d = 0; for (size_t i = 0; i < a.size(); ++i) if (a[i] != 0) ++d; return d; }
  bool mentions(int v) const { return v < (int)a.size() && a[v] != 0; }
  std::string str() const {
    std::string s; bool first = true;
    for (size_t i = 0; i < a.size(); ++i) if (a[i] != 0) { s += (a[i] > 0 && !first ? "+" : "") + zstr(a[i]) + "*" + char('A' + i); first = false; }
    if (b != 0 || first) s += (b >= 0 && !first ? "+" : "") + zstr(b);
    return s;
  }
};
struct ZC {     // e k 0
  ZE e; int k;
  ZC() : k(ref::GE) {}
  ZC(const ZE& e_, int k_) : e(e_), k(k_) {}
  PPL::Constraint ppl() const { Linear_Expression le = e.ppl(); return k == ref::EQ ? (le == 0) : k == ref::GE ? (le >= 0) : (le > 0); }
  Row row(int n) const { return Row(e.vec(n), e.q0(), k); }
  std::string str() const { return e.str() + (k == ref::EQ ? "=0" : k == ref::GE ? ">=0" : ">0"); }
};
// d.x rel c   with rel in {'L' <=, 'l' <, 'E' =, 'G' >=, 'g' >}
static ZC mkc(const std::vector<long>& d, char rel, const Q& c0) {
  Q c = c0; c.canonicalize();
  mpz_class p = c.get_num(), q = c.get_den();
  ZE e; e.a.resize(d.size());
  int sgn = (rel == 'G' || rel == 'g') ? 1 : -1;       // <= : -q d.x + p >= 0 ; >= : q d.x - p >= 0
  for (size_t i = 0; i < d.size(); ++i) e.a[i] = sgn * q * d[i];
  e.b = -sgn * p;
  return ZC(e, rel == 'E' ? ref::EQ : (rel == 'l' || rel == 'g') ? ref::GT : ref::GE);
}
static bool fits(const ZE& e, int dim) { return e.dim() <= dim; }

// can the domain express the constraint exactly?
static bool expressible(const ZC& c) {
  int nz = c.e.nvars();
  if (c.k == ref::GT && !OPEN_OK) return nz == 0;
  if (nz == 0) return true;
  if (nz == 1) return true;
  if (KIND == K_BOX || nz > 2) return false;
  mpz_class u, v; bool first = true;
  for (size_t i = 0; i < c.e.a.size(); ++i) if (c.e.a[i] != 0) { if (first) { u = c.e.a[i]; first = false; } else v = c.e.a[i]; }
  if (u == -v) return true;
  return KIND == K_OCT && u == v;
}
// is the transfer relation  x_v' = e/d  expressible in the domain (syntactic test)?
static bool affine_expressible(int v, const ZE& e, const mpz_class& d) {
  int nz = 0, w = -1;
  for (size_t i = 0; i < e.a.size(); ++i) if (e.a[i] != 0) { ++nz; w = (int)i; }
  if (nz == 0) return true;
  if (nz > 1) return false;
  if (KIND == K_BOX) return w == v;
  if (e.a[w] == d) return true;
  return KIND == K_OCT && e.a[w] == -d;
}

// ------------------------------------------------------------------ value classes
struct Classes {
  std::vector<Cell> cells;
  std::unordered_map<std::string, std::vector<int> > bucket;
  std::unordered_map<std::string, int> memo;
  int classify(const Cell& c0) {
    std::string key = std::to_string(c0.n) + (c0.bot ? "B" : ":") + (c0.bot ? std::string() : ref::cell_str(c0));
    std::unordered_map<std::string, int>::iterator it = memo.find(key);
    if (it != memo.end()) return it->second;
    Cell c = ref::normalized(c0);
    std::string ck = c.bot ? ("bot/" + std::to_string(c.n)) : (std::to_string(c.n) + "/" + ref::canon_closed(ref::closure(c)));
    std::vector<int>& b = bucket[ck];
    int id = -1;
    for (size_t i = 0; i < b.size() && id < 0; ++i) if (cells[b[i]].n == c.n && ref::equal(cells[b[i]], c)) id = b[i];
    if (id < 0) { id = (int)cells.size(); cells.push_back(c); b.push_back(id); }
    memo[key] = id;
    return id;
  }
  const Cell& operator[](int id) const { return cells[id]; }
};
static Classes CL;
static std::unordered_map<long long, bool> SUBMEMO;
static bool cls_subset(int a, int b) {      // CL[a] subseteq CL[b]
  if (a == b) return true;
  long long k = (long long)a * 4000000LL + b;
  std::unordered_map<long long, bool>::iterator it = SUBMEMO.find(k);
  if (it != SUBMEMO.end()) return it->second;
  bool r = ref::subset(CL[a], CL[b]);
  SUBMEMO[k] = r;
  return r;
}
static bool cls_empty(int c) { return CL[c].bot; }
static std::string cellstr(int cls) { return ref::cell_str(CL[cls]); }

// ------------------------------------------------------------------ best abstraction alpha
// template directions of a domain kind in dimension n
static std::vector<Vec> directions(int n, Kind kind) {
  std::vector<Vec> d;
  for (int i = 0; i < n; ++i) { d.push_back(ref::unit(n, i)); d.push_back(ref::unit(n, i, Q(-1))); }
  if (kind == K_BOX) return d;
  for (int i = 0; i < n; ++i) for (int j = 0; j < n; ++j) if (i != j) { Vec v(n, Q(0)); v[i] = 1; v[j] = -1; d.push_back(v); }
  if (kind == K_BDS) return d;
  for (int i = 0; i < n; ++i) for (int j = i + 1; j < n; ++j) { Vec v(n, Q(0)); v[i] = 1; v[j] = 1; d.push_back(v); Vec w(n, Q(0)); w[i] = -1; w[j] = -1; d.push_back(w); }
  return d;
}
// smallest element of the domain (kind; open bounds allowed?) containing the union u
static Cell alpha(const USet& u, int n, Kind kind, bool open_ok) {
  std::vector<const Cell*> ne;
  for (size_t i = 0; i < u.size(); ++i) if (!ref::is_empty(u[i])) ne.push_back(&u[i]);
  if (ne.empty()) return Cell::empty(n);
  Cell o(n);
  std::vector<Vec> dirs = directions(n, kind);
  for (size_t di = 0; di < dirs.size(); ++di) {
    bool unb = false, have = false; Q best; bool att = false;
    for (size_t i = 0; i < ne.size() && !unb; ++i) {
      ref::Sup s = ref::sup(*ne[i], dirs[di], Q(0));
      if (s.status == 2) { unb = true; break; }
      if (!have || s.value > best) { have = true; best = s.value; att = s.attained; }
      else if (s.value == best && s.attained) att = true;
    }
    if (unb) continue;
    Vec a(n); for (int k = 0; k < n; ++k) a[k] = -dirs[di][k];
    o.rows.push_back(Row(a, best, (open_ok && !att) ? ref::GT : ref::GE));
  }
  return o;
}
static Cell alpha1(const Cell& c, Kind kind, bool open_ok) { USet u; u.push_back(c); return alpha(u, c.n, kind, open_ok); }
static Cell alphaD(const USet& u, int n) { return alpha(u, n, KIND, OPEN_OK); }

static std::string qstr(const Q& q) { std::ostringstream s; s << q; return s.str(); }

} // namespace

// Explicit-state explorer over real C/NNC polyhedra (properties C01 and C02).
//
// Phase A: breadth-first closure of a builder alphabet (constraints, generators, lazy-state
//          changing observers) to depth D, states deduplicated by exact ascii_dump text.
//          Every state carries a reference value (ref::Cell) computed from its history by
//          Fourier-Motzkin formulas that share no code with PPL.
// Phase B: C01: every query and every description observer in every state (representative per
//               (value class, lazy-state signature) in the quick tier, all states in thorough);
//          C02: every transformer with every argument of its menu / operand of the pool.
// Built with -fno-access-control: private members are read for cloning and for signatures only.
#include "engine/common.hh"
#include "engine/ppl_ref.hh"
#include "ref/ops.hh"
#include "ref/dd.hh"
#include <unordered_map>
#include <memory>

using namespace vf;
using ref::Cell; using ref::Row; using ref::Vec; using ref::Q; using ref::USet;
using PPL::Variable; using PPL::Polyhedron; using PPL::C_Polyhedron; using PPL::NNC_Polyhedron;
using PPL::Linear_Expression; using PPL::Coefficient;

static Args ARGS;
static std::map<std::string, std::pair<double, long> > PROF;
struct ProfT { std::string k; double t0; ProfT(const std::string& k_) : k(k_), t0(now_s()) {} ~ProfT() { std::pair<double,long>& p = PROF[k]; p.first += now_s() - t0; p.second++; } };
static std::string MODE = "C01";

// ------------------------------------------------------------------ value classes
struct Classes {
  std::vector<Cell> cells;
  std::unordered_map<std::string, std::vector<int> > bucket;   // canon(closure) -> ids
  std::unordered_map<std::string, int> memo;                   // textual rows -> id
  int classify(const Cell& c0) {
    ProfT p0("classify:all");
    std::string key = ref::cell_str(c0);
    std::unordered_map<std::string, int>::iterator it = memo.find(key);
    if (it != memo.end()) return it->second;
    ProfT p1("classify:miss");
    Cell c = ref::normalized(c0);
    std::string ck = c.bot ? ("bot/" + std::to_string(c.n)) : ref::canon_closed(ref::closure(c));
    std::vector<int>& b = bucket[ck];
    int id = -1;
    for (size_t i = 0; i < b.size() && id < 0; ++i) if (ref::equal(cells[b[i]], c)) id = b[i];
    if (id < 0) { id = (int)cells.size(); cells.push_back(c); b.push_back(id); }
    memo[key] = id;
    return id;
  }
  const Cell& operator[](int id) const { return cells[id]; }
};
static Classes CL;

// ---- fast "does this description denote class `want`?" tests -------------------------------
// Sound shortcuts (see DESIGN 3.2 "cost control"): a description D denotes W if
//   (a) D was already classified (memo on a canonical text of D), or
//   (b) D is included in W by direct evaluation AND D syntactically contains a description V that
//       was previously verified (by the full Fourier-Motzkin path) to denote W.
// Everything else goes through the full path.  Failures are always re-derived by the full path.
static std::string norm_gen_key(const ref::Gen& g0) {
  ref::Gen g = g0;
  if (g.t == 'r' || g.t == 'l') {
    Q lead = 0;
    for (size_t i = 0; i < g.v.size(); ++i) if (g.v[i] != 0) { lead = g.v[i]; break; }
    if (lead != 0) { Q s = (g.t == 'l') ? lead : abs(lead); for (size_t i = 0; i < g.v.size(); ++i) g.v[i] /= s; }
  }
  return std::string(1, g.t) + ref::vec_str(g.v);
}
static std::unordered_map<std::string, int> GENMEMO;
static std::map<int, std::vector<std::set<std::string> > > GENVER, CONVER;   // class -> verified descriptions
static std::unordered_map<std::string, bool> IMPLMEMO;

static bool gen_inside(const ref::Gen& g, const Cell& W) {
  if (W.bot) return false;
  for (size_t i = 0; i < W.rows.size(); ++i) {
    const Row& r = W.rows[i];
    if (g.t == 'p') { if (!ref::sat(r, g.v)) return false; }
    else if (g.t == 'c') { Q v = ref::eval(r, g.v); if (r.k == ref::EQ ? v != 0 : v < 0) return false; }
    else { Q v = 0; for (size_t j = 0; j < g.v.size(); ++j) v += r.a[j] * g.v[j];
      if (g.t == 'l' || r.k == ref::EQ) { if (v != 0) return false; } else if (v < 0) return false; }
  }
  return true;
}

static int classify_gens_full(const ref::Gens& g, int n, bool nnc) { return CL.classify(ref::from_gens_dd(g, n, nnc)); }

// returns the class of the generator system; uses `want` only to take shortcuts
static int classify_gens(const PPL::Generator_System& gs, int n, bool nnc, int want = -1) {
  ProfT p0("classify_gens:all");
  ref::Gens g = gens_of(gs, n);
  std::set<std::string> keys;
  for (size_t i = 0; i < g.size(); ++i) keys.insert(norm_gen_key(g[i]));
  std::string key = nnc ? "N" : "C"; key += std::to_string(n) + ":";
  for (std::set<std::string>::iterator i = keys.begin(); i != keys.end(); ++i) key += *i;
  std::unordered_map<std::string, int>::iterator it = GENMEMO.find(key);
  if (it != GENMEMO.end()) return it->second;
  if (want >= 0) {
    const Cell& W = CL[want];
    bool inside = !g.empty() || W.bot;
    for (size_t i = 0; i < g.size() && inside; ++i) inside = gen_inside(g[i], W);
    if (inside && W.bot && g.empty()) { GENMEMO[key] = want; return want; }
    if (inside) {
      std::vector<std::set<std::string> >& ver = GENVER[want];
      for (size_t v = 0; v < ver.size(); ++v)
        if (std::includes(keys.begin(), keys.end(), ver[v].begin(), ver[v].end())) { GENMEMO[key] = want; return want; }
    }
  }
  ProfT p1("classify_gens:miss");
  int id = classify_gens_full(g, n, nnc);
  GENMEMO[key] = id;
  std::vector<std::set<std::string> >& ver = GENVER[id];
  if (ver.size() < 6) ver.push_back(keys);
  else { // keep the smallest descriptions
    size_t big = 0; for (size_t v = 1; v < ver.size(); ++v) if (ver[v].size() > ver[big].size()) big = v;
    if (keys.size() < ver[big].size()) ver[big] = keys;
  }
  return id;
}

static std::unordered_map<std::string, int> CONMEMO;
static int classify_cons(const Cell& c, int want = -1) {
  ProfT p0("classify_cons:all");
  std::set<std::string> keys;
  bool trivially_false = false;
  for (size_t i = 0; i < c.rows.size(); ++i) {
    int t = ref::trivial(c.rows[i]);
    if (t == 1) continue;
    if (t == 0) { trivially_false = true; break; }
    keys.insert(ref::row_str(ref::norm(c.rows[i])));
  }
  if (trivially_false) return CL.classify(Cell::empty(c.n));
  std::string key = std::to_string(c.n) + ":";
  for (std::set<std::string>::iterator i = keys.begin(); i != keys.end(); ++i) key += *i;
  std::unordered_map<std::string, int>::iterator it = CONMEMO.find(key);
  if (it != CONMEMO.end()) return it->second;
  if (want >= 0 && !CL[want].bot) {
    const Cell& W = CL[want];
    // W subseteq cell(C): every row of C is implied by W  (memoised per (W, row))
    bool sup = true;
    for (size_t i = 0; i < c.rows.size() && sup; ++i) {
      if (ref::trivial(c.rows[i]) == 1) continue;
      std::string rk = std::to_string(want) + "|" + ref::row_str(ref::norm(c.rows[i]));
      std::unordered_map<std::string, bool>::iterator mi = IMPLMEMO.find(rk);
      bool b;
      if (mi != IMPLMEMO.end()) b = mi->second; else { b = ref::implies(W, c.rows[i]); IMPLMEMO[rk] = b; }
      sup = b;
    }
    if (sup) {
      std::vector<std::set<std::string> >& ver = CONVER[want];
      for (size_t v = 0; v < ver.size(); ++v)
        if (std::includes(keys.begin(), keys.end(), ver[v].begin(), ver[v].end())) { CONMEMO[key] = want; return want; }
    }
  }
  ProfT p1("classify_cons:miss");
  int id = CL.classify(c);
  CONMEMO[key] = id;
  std::vector<std::set<std::string> >& ver = CONVER[id];
  if (ver.size() < 6) ver.push_back(keys);
  else { size_t big = 0; for (size_t v = 1; v < ver.size(); ++v) if (ver[v].size() > ver[big].size()) big = v;
    if (keys.size() < ver[big].size()) ver[big] = keys; }
  return id;
}

// ------------------------------------------------------------------ states
struct State {
  Polyhedron* ph; bool nnc; int dim; int cls; int parent; int op; int depth; std::string sig;
};
static std::vector<State> ST;

static Polyhedron* fresh(bool nnc, int dim, bool empty) {
  if (nnc) return new NNC_Polyhedron(dim, empty ? PPL::EMPTY : PPL::UNIVERSE);
  return new C_Polyhedron(dim, empty ? PPL::EMPTY : PPL::UNIVERSE);
}
static Polyhedron* clone(const Polyhedron& s) {
  bool nnc = !s.is_necessarily_closed();
  Polyhedron* c = fresh(nnc, 0, false);
  c->con_sys.assign_with_pending(s.con_sys);
  c->gen_sys.assign_with_pending(s.gen_sys);
  c->sat_c = s.sat_c;
  c->sat_g = s.sat_g;
  c->status = s.status;
  c->space_dim = s.space_dim;
  return c;
}
typedef std::unique_ptr<Polyhedron> PH;
static PH cl(const Polyhedron& s) { return PH(clone(s)); }

static std::string signature(const Polyhedron& p) {
  std::string s;
  const Polyhedron::Status& st = p.status;
  s += st.test_empty() ? 'E' : '-';
  s += st.test_zero_dim_univ() ? 'Z' : '-';
  s += st.test_c_up_to_date() ? 'C' : '-';
  s += st.test_g_up_to_date() ? 'G' : '-';
  s += st.test_c_minimized() ? 'c' : '-';
  s += st.test_g_minimized() ? 'g' : '-';
  s += st.test_sat_c_up_to_date() ? 's' : '-';
  s += st.test_sat_g_up_to_date() ? 't' : '-';
  s += st.test_c_pending() ? 'P' : '-';
  s += st.test_g_pending() ? 'Q' : '-';
  s += p.con_sys.is_sorted() ? 'o' : '-';
  s += p.gen_sys.is_sorted() ? 'O' : '-';
  // stale (not up-to-date) components that still hold rows of an earlier state: code that forgets to
  // clear or rebuild them behaves differently from the same flags over empty components
  if (!st.test_empty() && !st.test_zero_dim_univ()) {
    std::string x;
    if (!st.test_c_up_to_date() && p.con_sys.num_rows() > 0) x += 'k';
    if (!st.test_g_up_to_date() && p.gen_sys.num_rows() > 0) x += 'h';
    if (!st.test_sat_c_up_to_date() && p.sat_c.num_rows() > 0) x += 'x';
    if (!st.test_sat_g_up_to_date() && p.sat_g.num_rows() > 0) x += 'y';
    if (!x.empty()) s += "+" + x;
  }
  return s;
}

// ------------------------------------------------------------------ menus
static std::vector<CN> CM;      // constraints
static std::vector<GN> GM;      // generators (dimension-2 vectors; truncated for lower dims)
static std::vector<LE> EM;      // expressions

static int MAXDIM = 2;
static bool NARROW = false;   // narrow builder alphabet (deep phase A)
static bool FOLLOW = false;   // apply follow-up builders to every transformer result (C02)
static std::vector<int> FOLLOWUPS;   // indices into OPS
static size_t CM3 = 0, GM3 = 0, CM4 = 0, GM4 = 0;   // first index of the dimension-3 entries (when MAXDIM >= 3)
static void build_menus() {
  using ref::EQ; using ref::GE; using ref::GT;
  CM = {
    CN(LE({1, 0}, 0), GE), CN(LE({0, 1}, 0), GE), CN(LE({-1, 0}, 2), GE), CN(LE({0, -1}, 2), GE),
    CN(LE({-1, -1}, 2), GE), CN(LE({1, -1}, 0), GE), CN(LE({-1, 1}, 1), GE), CN(LE({2, -1}, 1), GE),
    CN(LE({1, 0}, -1), EQ), CN(LE({1, 1}, -1), EQ), CN(LE({0, 1}, -1), GE), CN(LE({1, 1}, -3), GE),
    CN(LE({3, 0}, -1), GE),
    CN(LE({1, 0}, 0), GT), CN(LE({0, -1}, 2), GT), CN(LE({1, 1}, 0), GT), CN(LE({-1, 1}, 1), GT),
    CN(LE({0, 0}, 1), GE), CN(LE({0, 0}, 1), GT), CN(LE({0, 0}, 0), EQ),
    CN(LE({0, 0}, -1), GE), CN(LE({0, 0}, -1), EQ), CN(LE({0, 0}, 0), GT),
  };
  GM = {
    GN('p', {0, 0}), GN('p', {2, 0}), GN('p', {0, 2}), GN('p', {1, 1}, 2), GN('p', {1, 4}, 3), GN('p', {2, 2}), GN('p', {-1, 1}),
    GN('r', {1, 0}), GN('r', {0, 1}), GN('r', {1, 1}), GN('r', {-1, 0}),
    GN('l', {1, 0}), GN('l', {1, -1}),
    GN('c', {0, 0}), GN('c', {2, 2}), GN('c', {3, 0}, 2),
    GN('r', {0, -1}),
  };
  EM = {
    LE({1, 0}, 0), LE({0, 1}, 0), LE({-1, 0}, 0), LE({2, 0}, 0), LE({1, 0}, 1), LE({0, 1}, 2), LE({1, 1}, 0),
    LE({1, -1}, 0), LE({2, -1}, 1), LE({0, -2}, 0), LE({0, 0}, 0), LE({0, 0}, 3),
  };
  CM3 = CM.size(); GM3 = GM.size();
  if (MAXDIM >= 3) {
    // dimension-3 entries (appended: the indices of the entries above are used by the systems below)
    std::vector<CN> c3 = {
      CN(LE({0, 0, 1}, 0), GE), CN(LE({0, 0, -1}, 2), GE), CN(LE({-1, -1, -1}, 2), GE), CN(LE({0, 0, 1}, -1), EQ),
      CN(LE({1, 0, -1}, 0), GE), CN(LE({1, 1, -1}, 0), EQ), CN(LE({0, -1, 1}, 1), GE), CN(LE({0, 0, 1}, 0), GT), CN(LE({-1, -1, -1}, 3), GT),
    };
    CM.insert(CM.end(), c3.begin(), c3.end());
    std::vector<GN> g3 = {
      GN('p', {0, 0, 2}), GN('p', {1, 1, 1}), GN('p', {2, 2, 2}), GN('p', {0, 1, 1}, 2),
      GN('r', {0, 0, 1}), GN('r', {0, 1, -1}), GN('l', {0, 0, 1}), GN('l', {1, 0, 1}), GN('c', {0, 0, 2}),
    };
    GM.insert(GM.end(), g3.begin(), g3.end());
    std::vector<LE> e3 = { LE({0, 0, 1}, 0), LE({1, 0, 1}, 0), LE({1, -1, 2}, 1), LE({0, 0, -1}, 0) };
    EM.insert(EM.end(), e3.begin(), e3.end());
  }
  CM4 = CM.size(); GM4 = GM.size();
  if (MAXDIM >= 4) {
    // dimension-4 entries: facets of [0,1]^4 and [-1,1]^4, a few diagonals (redundancy rules of simplify() that
    // need >= 4 saturators, non-adjacent pairs on 2-faces)
    std::vector<CN> c4 = {
      CN(LE({0, 0, 0, 1}, 0), GE), CN(LE({0, 0, 0, -1}, 1), GE), CN(LE({-1, 0, 0, 0}, 1), GE), CN(LE({0, -1, 0, 0}, 1), GE),
      CN(LE({0, 0, -1, 0}, 1), GE), CN(LE({0, 0, 1, 0}, 1), GE), CN(LE({0, 0, 0, 1}, 1), GE), CN(LE({1, 1, 0, 0}, 0), GE),
      CN(LE({-1, -1, -1, -1}, 2), GE), CN(LE({1, 0, 0, -1}, 0), GE), CN(LE({0, 0, 1, -1}, 0), EQ), CN(LE({0, 0, 0, 1}, 0), GT),
    };
    CM.insert(CM.end(), c4.begin(), c4.end());
    std::vector<GN> g4 = { GN('p', {1, 1, 1, 1}), GN('p', {0, 0, 0, 1}), GN('r', {0, 0, 0, 1}), GN('l', {0, 0, 1, 1}), GN('p', {1, 0, 1, 0}, 2) };
    GM.insert(GM.end(), g4.begin(), g4.end());
    std::vector<LE> e4 = { LE({0, 0, 0, 1}, 0), LE({1, 1, 1, 1}, 0), LE({1, 0, -1, 2}, 1) };
    EM.insert(EM.end(), e4.begin(), e4.end());
  }
}

static CN trunc(const CN& c, int dim) { CN o = c; o.e.a.resize(dim); return o; }
static bool fits(const LE& e, int dim) { return e.dim() <= dim; }
static GN truncg(const GN& g, int dim) { GN o = g; o.v.resize(dim); return o; }
static bool fitsg(const GN& g, int dim) { for (size_t i = dim; i < g.v.size(); ++i) if (g.v[i]) return false; return true; }

// ------------------------------------------------------------------ operations
struct Ctx {             // what an operation sees
  bool nnc; int dim; int cls;       // receiver
  int ocls; int odim;               // operand (or -1)
};
struct Op {
  std::string name;
  bool binary;
  // applicable to a receiver of this topology / dim / (emptiness of the model value)?
  std::function<bool(const Ctx&)> ok;
  // apply on the real object; returns a textual return value ("" if void)
  std::function<std::string(Polyhedron&, const Polyhedron*)> apply;
  // reference: result cell from receiver cell (and operand cell)
  std::function<Cell(const Cell&, const Cell*, bool nnc)> refv;
  // optional: expected textual return value
  std::function<std::string(const Cell&, const Cell*, bool nnc)> refret;
  // relational check instead of equality (refine_with_*, simplify): returns "" if fine, else clause text
  std::function<std::string(const Cell& before, const Cell* operand, const Cell& after, const std::string& ret, bool nnc)> relcheck;
  bool builder;    // member of the phase-A alphabet
  bool builder_kind; // built as a builder (stays set when --narrow removes it from the alphabet)
  bool observer;   // value-preserving
  bool convert;    // builds an object of the other topology from the receiver; that object is checked
  Op() : binary(false), builder(false), builder_kind(false), observer(false), convert(false) {}
};
static std::vector<Op> OPS;

static bool cell_empty(int cls) { return CL[cls].bot; }

static std::string relsym_name(int r) { static const char* n[] = {"<", "<=", "=", ">=", ">"}; return n[r]; }
static PPL::Relation_Symbol relsym_ppl(int r) {
  switch (r) { case 0: return PPL::LESS_THAN; case 1: return PPL::LESS_OR_EQUAL; case 2: return PPL::EQUAL;
    case 3: return PPL::GREATER_OR_EQUAL; default: return PPL::GREATER_THAN; }
}

static void add_op(const Op& o) { OPS.push_back(o); OPS.back().builder_kind = o.builder; }

static void build_ops() {
  // ---- builders: add_constraint
  for (size_t i = 0; i < CM.size(); ++i) {
    CN c = CM[i];
    Op o; o.name = "add_constraint(" + c.str() + ")"; o.builder = true;
    o.ok = [c](const Ctx& x) { return fits(c.e, x.dim) && (x.nnc || c.k != ref::GT); };
    o.apply = [c](Polyhedron& p, const Polyhedron*) { p.add_constraint(trunc(c, p.space_dimension()).ppl()); return std::string(); };
    o.refv = [c](const Cell& v, const Cell*, bool) { if (v.bot) return v; Cell r = v; r.rows.push_back(c.row(v.n)); return r; };
    add_op(o);
  }
  // ---- builders: add_generator
  for (size_t i = 0; i < GM.size(); ++i) {
    GN g = GM[i];
    Op o; o.name = "add_generator(" + g.str() + ")"; o.builder = true;
    o.ok = [g](const Ctx& x) {
      if (!fitsg(g, x.dim)) return false;
      if (g.t == 'c' && !x.nnc) return false;
      if (g.t != 'p' && cell_empty(x.cls)) return false;       // precondition (throws): C14
      if ((g.t == 'r' || g.t == 'l') && truncg(g, x.dim).zero()) return false;
      return true; };
    o.apply = [g](Polyhedron& p, const Polyhedron*) { p.add_generator(truncg(g, p.space_dimension()).ppl()); return std::string(); };
    o.refv = [g](const Cell& v, const Cell*, bool nnc) { return ref::add_generator(v, truncg(g, v.n).gen(v.n), nnc); };
    add_op(o);
  }
  // ---- builders: add_constraints / add_generators (pairs; the "recycled, pending" path)
  {
    std::vector<std::vector<int> > pairs = {{0, 4}, {8, 1}, {5, 21}, {13, 3}};
    if (MAXDIM >= 3) {
      int c = (int)CM3;
      // orthant, upper box faces, slab + simplex face, strict corner, plane + half-space
      pairs.push_back({0, 1, c + 0}); pairs.push_back({2, 3, c + 1}); pairs.push_back({c + 0, c + 1, c + 2});
      pairs.push_back({13, c + 7, c + 8}); pairs.push_back({c + 5, c + 4});
    }
    if (MAXDIM >= 4) {
      int c3 = (int)CM3, c = (int)CM4;
      pairs.push_back({0, 1, c3 + 0, c + 0});                 // orthant
      pairs.push_back({c + 2, c + 3, c + 4, c + 1});          // A,B,C,D <= 1
      pairs.push_back({c + 7, c + 2, c + 3});                 // A+B >= 0, A <= 1, B <= 1
      pairs.push_back({c + 5, c + 4, c + 6, c + 1});          // -1 <= C <= 1, -1 <= D <= 1
      pairs.push_back({c3 + 0, c + 0});                       // C >= 0, D >= 0
      pairs.push_back({0, 1});                                // A >= 0, B >= 0
    }
    for (auto& pr : pairs) {
      std::vector<CN> cl; for (int i : pr) cl.push_back(CM[i]);
      std::string nm = "add_constraints({";
      for (size_t i = 0; i < cl.size(); ++i) { if (i) nm += ","; nm += cl[i].str(); }
      Op o; o.name = nm + "})"; o.builder = true;
      o.ok = [cl](const Ctx& x) { for (const CN& c : cl) if (!fits(c.e, x.dim) || (!x.nnc && c.k == ref::GT)) return false; return true; };
      o.apply = [cl](Polyhedron& p, const Polyhedron*) { PPL::Constraint_System cs; for (const CN& c : cl) cs.insert(c.ppl()); p.add_constraints(cs); return std::string(); };
      o.refv = [cl](const Cell& v, const Cell*, bool) { if (v.bot) return v; Cell r = v; for (const CN& c : cl) r.rows.push_back(c.row(v.n)); return r; };
      add_op(o);
    }
    // systems of 2 and 3 generators; the triples complete a universe / half-plane out of lines and rays
    // that are all pending at once (fast paths that count pending lines and rays: is_universe, is_bounded)
    std::vector<std::vector<int> > gp = {{1, 7}, {3, 11}, {13, 5}, {11, 8, 16}, {12, 9, 10}, {7, 10, 8}, {0, 11, 8}};
    if (NARROW) gp.push_back({0, 1, 2});      // triangle
    if (MAXDIM >= 3) {
      int g = (int)GM3;
      // triangle in the plane C = 0, the edge above it, a prism direction, a wedge with lineality
      gp.push_back({0, 1, 2}); gp.push_back({g + 0, g + 2}); gp.push_back({5, g + 4, g + 5}); gp.push_back({0, g + 4, g + 7});
      gp.push_back({g + 8, g + 1, 7});
    }
    for (auto& pr : gp) {
      std::vector<GN> gl; for (int i : pr) gl.push_back(GM[i]);
      std::string nm = "add_generators({";
      for (size_t i = 0; i < gl.size(); ++i) { if (i) nm += ","; nm += gl[i].str(); }
      Op o; o.name = nm + "})"; o.builder = true;
      o.ok = [gl](const Ctx& x) {
        bool pt = false;
        for (const GN& g : gl) {
          if (!fitsg(g, x.dim)) return false;
          if (g.t == 'c' && !x.nnc) return false;
          if ((g.t == 'r' || g.t == 'l') && truncg(g, x.dim).zero()) return false;
          if (g.t == 'p') pt = true;
        }
        // the system must contain a point when the receiver is empty
        if (cell_empty(x.cls) && !pt) return false;
        return true; };
      o.apply = [gl](Polyhedron& p, const Polyhedron*) { PPL::Generator_System gs; int d = p.space_dimension(); for (const GN& g : gl) gs.insert(truncg(g, d).ppl()); p.add_generators(gs); return std::string(); };
      o.refv = [gl](const Cell& v, const Cell*, bool nnc) {
        // hull with the polyhedron generated by the system; order a point first
        std::vector<GN> ord = gl;
        for (size_t i = 0; i < ord.size(); ++i) if (ord[i].t == 'p') { std::swap(ord[0], ord[i]); break; }
        Cell r = v; size_t from = 0;
        if (v.bot) {
          ref::Gens g; g.push_back(truncg(ord[0], v.n).gen(v.n)); g.push_back(truncg(ord[1], v.n).gen(v.n));
          r = ref::from_gens(g, v.n, nnc); from = 2;
        }
        for (size_t i = from; i < ord.size(); ++i) r = ref::add_generator(r, truncg(ord[i], v.n).gen(v.n), nnc);
        return r; };
      add_op(o);
    }
  }
  // ---- builders: state-changing observers
  struct Obs { const char* n; std::function<void(Polyhedron&)> f; };
  std::vector<Obs> obs = {
    {"constraints()", [](Polyhedron& p) { (void)p.constraints(); }},
    {"generators()", [](Polyhedron& p) { (void)p.generators(); }},
    {"minimized_constraints()", [](Polyhedron& p) { (void)p.minimized_constraints(); }},
    {"minimized_generators()", [](Polyhedron& p) { (void)p.minimized_generators(); }},
    {"is_empty()", [](Polyhedron& p) { (void)p.is_empty(); }},
    {"is_universe()", [](Polyhedron& p) { (void)p.is_universe(); }},
    {"is_bounded()", [](Polyhedron& p) { (void)p.is_bounded(); }},
    {"is_topologically_closed()", [](Polyhedron& p) { (void)p.is_topologically_closed(); }},
  };
  for (size_t i = 0; i < obs.size(); ++i) {
    Obs ob = obs[i];
    Op o; o.name = ob.n; o.builder = true; o.observer = true;
    o.ok = [](const Ctx&) { return true; };
    o.apply = [ob](Polyhedron& p, const Polyhedron*) { ob.f(p); return std::string(); };
    o.refv = [](const Cell& v, const Cell*, bool) { return v; };
    add_op(o);
  }

  // C01 --narrow: dimension-changing mutators are part of the histories too (they rebuild or resize the
  // saturation matrices); in C02 they are transformers followed by the follow-up builders
  if (NARROW && MODE == "C01") {
    for (int proj = 0; proj < 2; ++proj) {
      Op o; o.name = std::string(proj ? "add_space_dimensions_and_project(1)" : "add_space_dimensions_and_embed(1)"); o.builder = true;
      o.ok = [](const Ctx& x) { return x.dim < 3; };
      o.apply = [proj](Polyhedron& p, const Polyhedron*) { if (proj) p.add_space_dimensions_and_project(1); else p.add_space_dimensions_and_embed(1); return std::string(); };
      o.refv = [proj](const Cell& c, const Cell*, bool) { return proj ? ref::add_dims_project(c, 1) : ref::add_dims_embed(c, 1); };
      add_op(o);
    }
    { Op o; o.name = "remove_higher_space_dimensions(dim-1)"; o.builder = true;
      o.ok = [](const Ctx& x) { return x.dim >= 2; };
      o.apply = [](Polyhedron& p, const Polyhedron*) { p.remove_higher_space_dimensions(p.space_dimension() - 1); return std::string(); };
      o.refv = [](const Cell& c, const Cell*, bool) { std::vector<int> vs; vs.push_back(c.n - 1); return ref::remove_dims(c, vs); };
      add_op(o); }
  }
  // follow-up builders applied to transformer results (C02 --followups)
  {
    std::set<std::string> fn = { "add_constraint(" + CM[4].str() + ")", "add_constraint(" + CM[10].str() + ")",
                                 "add_constraint(" + CM[8].str() + ")", "add_generator(" + GM[6].str() + ")" };
    for (size_t i = 0; i < OPS.size(); ++i) if (OPS[i].builder && fn.count(OPS[i].name)) FOLLOWUPS.push_back((int)i);
  }
  if (NARROW && MAXDIM >= 4) {
    // dimension 4: systems that build (and cut) cubes in a few steps, a few single rows and generators, observers
    std::set<std::string> keep;
    int c3 = (int)CM3, c = (int)CM4, g = (int)GM4;
    auto sys = [&](std::vector<int> v) { std::string nm = "add_constraints({"; for (size_t i = 0; i < v.size(); ++i) { if (i) nm += ","; nm += CM[v[i]].str(); } return nm + "})"; };
    keep.insert(sys({0, 1, c3 + 0, c + 0})); keep.insert(sys({c + 2, c + 3, c + 4, c + 1})); keep.insert(sys({c + 7, c + 2, c + 3}));
    keep.insert(sys({c + 5, c + 4, c + 6, c + 1})); keep.insert(sys({c3 + 0, c + 0})); keep.insert(sys({0, 1}));
    for (int i : {c + 8, c + 9, c + 10, c + 7, 0}) keep.insert("add_constraint(" + CM[i].str() + ")");
    for (int i : {0, g + 0, g + 2, g + 3}) keep.insert("add_generator(" + GM[i].str() + ")");
    for (size_t i = 0; i < OPS.size(); ++i) if (OPS[i].builder && !OPS[i].observer && !keep.count(OPS[i].name)) OPS[i].builder = false;
  }
  else if (NARROW) {
    // deep phase A over a narrow alphabet: a few constraints and generators of each kind, two systems, all observers
    std::set<std::string> keep;
    for (int i : {0, 3, 4, 8, 13}) keep.insert("add_constraint(" + CM[i].str() + ")");
    for (int i : {0, 5, 7, 12, 13}) keep.insert("add_generator(" + GM[i].str() + ")");
    keep.insert("add_constraints({" + CM[0].str() + "," + CM[4].str() + "})");
    keep.insert("add_generators({" + GM[0].str() + "," + GM[1].str() + "," + GM[2].str() + "})");
    keep.insert("add_generators({" + GM[11].str() + "," + GM[8].str() + "," + GM[16].str() + "})");
    keep.insert("add_space_dimensions_and_embed(1)"); keep.insert("add_space_dimensions_and_project(1)"); keep.insert("remove_higher_space_dimensions(dim-1)");
    for (size_t i = 0; i < OPS.size(); ++i) if (OPS[i].builder && !OPS[i].observer && !keep.count(OPS[i].name)) OPS[i].builder = false;
  }

  if (MODE == "C01") return;

  // =================================================================== transformers (C02)
  // refine_with_constraint: P /\ c  subseteq result subseteq P ; equality for non-strict / NNC
  for (size_t i = 0; i < CM.size(); ++i) {
    CN c = CM[i];
    Op o; o.name = "refine_with_constraint(" + c.str() + ")";
    o.ok = [c](const Ctx& x) { return fits(c.e, x.dim); };
    o.apply = [c](Polyhedron& p, const Polyhedron*) { p.refine_with_constraint(trunc(c, p.space_dimension()).ppl()); return std::string(); };
    o.relcheck = [c](const Cell& before, const Cell*, const Cell& after, const std::string&, bool nnc) -> std::string {
      Cell lo = before; if (!lo.bot) lo.rows.push_back(c.row(before.n));
      if (!ref::subset(after, before)) return "refine:result-not-subset-of-receiver";
      if (!ref::subset(lo, after)) return "refine:lost-points-of-meet";
      if (nnc || c.k != ref::GT) { if (!ref::subset(after, lo)) return "refine:representable-constraint-not-applied"; }
      else { Cell hi = before; if (!hi.bot) { Row r = c.row(before.n); r.k = ref::GE; hi.rows.push_back(r); } if (!ref::subset(after, hi)) return "refine:closure-of-strict-not-applied"; }
      return ""; };
    add_op(o);
  }
  // add_congruence / refine_with_congruence  (equalities and trivial congruences)
  {
    struct CG { LE e; long m; };
    std::vector<CG> cgs = { {LE({1, 0}, -1), 0}, {LE({1, 1}, 0), 0}, {LE({0, 0}, 0), 2}, {LE({0, 0}, 1), 2}, {LE({0, 0}, 2), 2}, {LE({1, 0}, 0), 2}, {LE({1, -1}, 1), 3} };
    for (size_t i = 0; i < cgs.size(); ++i) {
      CG g = cgs[i];
      bool trivially_false = (g.e.dim() == 0 && g.m != 0 && (g.e.b % g.m) != 0) || (g.e.dim() == 0 && g.m == 0 && g.e.b != 0);
      bool trivially_true = (g.e.dim() == 0 && !trivially_false);
      bool proper = g.m != 0 && g.e.dim() > 0;
      for (int refine = 0; refine < 2; ++refine) {
        if (!refine && proper) continue;     // add_congruence throws on non-trivial proper congruences (C14)
        Op o; o.name = std::string(refine ? "refine_with_congruence(" : "add_congruence(") + g.e.str() + "=0 mod " + std::to_string(g.m) + ")";
        o.ok = [g](const Ctx& x) { return fits(g.e, x.dim); };
        o.apply = [g, refine](Polyhedron& p, const Polyhedron*) {
          PPL::Congruence cg = (g.e.ppl() %= 0) / Coefficient(g.m);
          if (refine) p.refine_with_congruence(cg); else p.add_congruence(cg);
          return std::string(); };
        if (!refine)
          o.refv = [g, trivially_false, trivially_true, proper](const Cell& v, const Cell*, bool) {
            if (v.bot) return v;
            if (trivially_false) return Cell::empty(v.n);
            if (trivially_true || proper) return v;
            Cell r = v; r.rows.push_back(Row(g.e.vec(v.n), Q(g.e.b), ref::EQ)); return r; };
        else
          // refinement: P /\ cg subseteq result subseteq P; equalities must be applied exactly,
          // a proper congruence may be ignored (a polyhedron cannot express it)
          o.relcheck = [g, trivially_false, trivially_true, proper](const Cell& before, const Cell*, const Cell& after, const std::string&, bool) -> std::string {
            if (!ref::subset(after, before)) return "refine:result-not-subset-of-receiver";
            if (trivially_false) return "";
            if (trivially_true || proper) return ref::subset(before, after) ? "" : "refine:lost-points-of-meet";
            Cell lo = before; if (!lo.bot) lo.rows.push_back(Row(g.e.vec(before.n), Q(g.e.b), ref::EQ));
            if (!ref::equal(lo, after)) return "refine:equality-congruence-not-applied-exactly";
            return ""; };
        add_op(o);
      }
    }
  }
  // affine_image / affine_preimage
  long dens[] = {1, 2, -1, -3};
  for (int v = 0; v < 2; ++v) for (size_t ei = 0; ei < EM.size(); ++ei) for (long d : dens) for (int pre = 0; pre < 2; ++pre) {
    LE e = EM[ei];
    Op o; o.name = std::string(pre ? "affine_preimage(" : "affine_image(") + char('A' + v) + "," + e.str() + "," + std::to_string(d) + ")";
    o.ok = [e, v](const Ctx& x) { return v < x.dim && fits(e, x.dim); };
    o.apply = [e, v, d, pre](Polyhedron& p, const Polyhedron*) {
      if (pre) p.affine_preimage(Variable(v), e.ppl(), Coefficient(d)); else p.affine_image(Variable(v), e.ppl(), Coefficient(d));
      return std::string(); };
    o.refv = [e, v, d, pre](const Cell& c, const Cell*, bool) {
      Cell rel = ref::rel_affine(c.n, v, e.vec(c.n), Q(e.b), Q(d));
      return pre ? ref::preimage(c, rel) : ref::image(c, rel); };
    add_op(o);
  }
  // generalized_affine_image / preimage (var form)
  {
    size_t eidx[] = {0, 1, 6, 8, 10, 11, 2};
    long dd[] = {1, 2, -1};
    for (int v = 0; v < 2; ++v) for (size_t ei : eidx) for (long d : dd) for (int rel = 0; rel < 5; ++rel) for (int pre = 0; pre < 2; ++pre) {
      LE e = EM[ei];
      Op o; o.name = std::string(pre ? "generalized_affine_preimage(" : "generalized_affine_image(") + char('A' + v) + "," + relsym_name(rel) + "," + e.str() + "," + std::to_string(d) + ")";
      o.ok = [e, v, rel](const Ctx& x) { return v < x.dim && fits(e, x.dim) && (x.nnc || (rel != 0 && rel != 4)); };
      o.apply = [e, v, d, rel, pre](Polyhedron& p, const Polyhedron*) {
        if (pre) p.generalized_affine_preimage(Variable(v), relsym_ppl(rel), e.ppl(), Coefficient(d));
        else p.generalized_affine_image(Variable(v), relsym_ppl(rel), e.ppl(), Coefficient(d));
        return std::string(); };
      o.refv = [e, v, d, rel, pre](const Cell& c, const Cell*, bool) {
        Cell r = ref::rel_generalized_var(c.n, v, rel, e.vec(c.n), Q(e.b), Q(d));
        return pre ? ref::preimage(c, r) : ref::image(c, r); };
      add_op(o);
    }
  }
  // generalized_affine_image / preimage (lhs form)
  {
    LE lhs[] = {LE({1, 0}, 0), LE({1, 1}, 0), LE({2, -1}, 1), LE({0, 0}, 1), LE({0, -1}, 0), LE({-1, 0}, 2)};
    size_t ridx[] = {0, 1, 6, 10, 11, 8};
    for (const LE& l : lhs) for (size_t ri : ridx) for (int rel = 0; rel < 5; ++rel) for (int pre = 0; pre < 2; ++pre) {
      LE r = EM[ri];
      Op o; o.name = std::string(pre ? "generalized_affine_preimage(" : "generalized_affine_image(") + l.str() + "," + relsym_name(rel) + "," + r.str() + ")";
      o.ok = [l, r, rel](const Ctx& x) { return fits(l, x.dim) && fits(r, x.dim) && (x.nnc || (rel != 0 && rel != 4)); };
      o.apply = [l, r, rel, pre](Polyhedron& p, const Polyhedron*) {
        if (pre) p.generalized_affine_preimage(l.ppl(), relsym_ppl(rel), r.ppl());
        else p.generalized_affine_image(l.ppl(), relsym_ppl(rel), r.ppl());
        return std::string(); };
      o.refv = [l, r, rel, pre](const Cell& c, const Cell*, bool) {
        Cell rr = ref::rel_generalized_lhs(c.n, l.vec(c.n), Q(l.b), rel, r.vec(c.n), Q(r.b));
        return pre ? ref::preimage(c, rr) : ref::image(c, rr); };
      add_op(o);
    }
  }
  // bounded_affine_image / preimage
  {
    size_t lbub[][2] = {{10, 11}, {0, 4}, {1, 6}, {2, 0}, {7, 8}, {11, 10}, {0, 0}};
    long dd[] = {1, 2, -1};
    for (int v = 0; v < 2; ++v) for (auto& lu : lbub) for (long d : dd) for (int pre = 0; pre < 2; ++pre) {
      LE lb = EM[lu[0]], ub = EM[lu[1]];
      Op o; o.name = std::string(pre ? "bounded_affine_preimage(" : "bounded_affine_image(") + char('A' + v) + "," + lb.str() + "," + ub.str() + "," + std::to_string(d) + ")";
      o.ok = [lb, ub, v](const Ctx& x) { return v < x.dim && fits(lb, x.dim) && fits(ub, x.dim); };
      o.apply = [lb, ub, v, d, pre](Polyhedron& p, const Polyhedron*) {
        if (pre) p.bounded_affine_preimage(Variable(v), lb.ppl(), ub.ppl(), Coefficient(d));
        else p.bounded_affine_image(Variable(v), lb.ppl(), ub.ppl(), Coefficient(d));
        return std::string(); };
      o.refv = [lb, ub, v, d, pre](const Cell& c, const Cell*, bool) {
        Cell r = ref::rel_bounded(c.n, v, lb.vec(c.n), Q(lb.b), ub.vec(c.n), Q(ub.b), Q(d));
        return pre ? ref::preimage(c, r) : ref::image(c, r); };
      add_op(o);
    }
  }
  // unconstrain
  for (int mask = 1; mask < 4; ++mask) {
    Op o; o.name = std::string("unconstrain(") + (mask & 1 ? "A" : "") + (mask & 2 ? "B" : "") + ")";
    o.ok = [mask](const Ctx& x) { return (mask < 2 ? x.dim >= 1 : x.dim >= 2); };
    o.apply = [mask](Polyhedron& p, const Polyhedron*) {
      if (mask == 1) p.unconstrain(Variable(0)); else if (mask == 2) p.unconstrain(Variable(1));
      else { PPL::Variables_Set vs; vs.insert(Variable(0)); vs.insert(Variable(1)); p.unconstrain(vs); }
      return std::string(); };
    o.refv = [mask](const Cell& c, const Cell*, bool) { std::vector<int> vs; if (mask & 1) vs.push_back(0); if (mask & 2) vs.push_back(1); return ref::unconstrain(c, vs); };
    add_op(o);
  }
  { Op o; o.name = "topological_closure_assign()"; o.ok = [](const Ctx&) { return true; };
    o.apply = [](Polyhedron& p, const Polyhedron*) { p.topological_closure_assign(); return std::string(); };
    o.refv = [](const Cell& c, const Cell*, bool) { return ref::closure(c); }; add_op(o); }
  // dimension changes
  for (int m = 1; m <= 2; ++m) for (int proj = 0; proj < 2; ++proj) {
    Op o; o.name = std::string(proj ? "add_space_dimensions_and_project(" : "add_space_dimensions_and_embed(") + std::to_string(m) + ")";
    o.ok = [](const Ctx&) { return true; };
    o.apply = [m, proj](Polyhedron& p, const Polyhedron*) { if (proj) p.add_space_dimensions_and_project(m); else p.add_space_dimensions_and_embed(m); return std::string(); };
    o.refv = [m, proj](const Cell& c, const Cell*, bool) { return proj ? ref::add_dims_project(c, m) : ref::add_dims_embed(c, m); };
    add_op(o);
  }
  for (int mask = 0; mask < 4; ++mask) {
    Op o; o.name = "remove_space_dimensions(" + std::to_string(mask) + ")";
    o.ok = [mask](const Ctx& x) { return mask == 0 || (mask < 2 ? x.dim >= 1 : x.dim >= 2); };
    o.apply = [mask](Polyhedron& p, const Polyhedron*) { PPL::Variables_Set vs; if (mask & 1) vs.insert(Variable(0)); if (mask & 2) vs.insert(Variable(1)); p.remove_space_dimensions(vs); return std::string(); };
    o.refv = [mask](const Cell& c, const Cell*, bool) { std::vector<int> vs; if (mask & 1) vs.push_back(0); if (mask & 2) vs.push_back(1); return ref::remove_dims(c, vs); };
    add_op(o);
  }
  for (int nd = 0; nd <= 2; ++nd) {
    Op o; o.name = "remove_higher_space_dimensions(" + std::to_string(nd) + ")";
    o.ok = [nd](const Ctx& x) { return nd <= x.dim; };
    o.apply = [nd](Polyhedron& p, const Polyhedron*) { p.remove_higher_space_dimensions(nd); return std::string(); };
    o.refv = [nd](const Cell& c, const Cell*, bool) { std::vector<int> vs; for (int i = nd; i < c.n; ++i) vs.push_back(i); return ref::remove_dims(c, vs); };
    add_op(o);
  }
  // map_space_dimensions: every partial injective map on <= 2 dims into {0,1,2}
  for (int a = -1; a <= 2; ++a) for (int b = -2; b <= 2; ++b) {
    // b == -2 encodes "receiver has dimension 1"
    if (b >= 0 && a == b) continue;
    std::vector<int> pf; pf.push_back(a); if (b != -2) pf.push_back(b);
    // image must be {0..k-1}
    std::vector<int> img; for (int x : pf) if (x >= 0) img.push_back(x);
    std::sort(img.begin(), img.end());
    bool okimg = true; for (size_t i = 0; i < img.size(); ++i) if (img[i] != (int)i) okimg = false;
    if (!okimg) continue;
    Op o; o.name = "map_space_dimensions(" + std::to_string(a) + (b != -2 ? "," + std::to_string(b) : "") + ")";
    int nd = (int)pf.size();
    o.ok = [nd](const Ctx& x) { return x.dim == nd; };
    o.apply = [pf](Polyhedron& p, const Polyhedron*) {
      PPL::Partial_Function f; for (size_t i = 0; i < pf.size(); ++i) if (pf[i] >= 0) f.insert(i, pf[i]);
      p.map_space_dimensions(f); return std::string(); };
    o.refv = [pf](const Cell& c, const Cell*, bool) { return ref::map_dims(c, pf); };
    add_op(o);
  }
  for (int v = 0; v < 2; ++v) for (int m = 1; m <= 2; ++m) {
    Op o; o.name = std::string("expand_space_dimension(") + char('A' + v) + "," + std::to_string(m) + ")";
    o.ok = [v](const Ctx& x) { return v < x.dim; };
    o.apply = [v, m](Polyhedron& p, const Polyhedron*) { p.expand_space_dimension(Variable(v), m); return std::string(); };
    o.refv = [v, m](const Cell& c, const Cell*, bool) { return ref::expand_dim(c, v, m); };
    add_op(o);
  }
  { // fold: dim 2: {B}->A, {A}->B, {} -> A
    int folds[][2] = {{1, 0}, {0, 1}, {-1, 0}};
    for (auto& f : folds) {
      int src = f[0], dst = f[1];
      Op o; o.name = "fold_space_dimensions({" + (src >= 0 ? std::string(1, char('A' + src)) : std::string()) + "}," + char('A' + dst) + ")";
      o.ok = [src, dst](const Ctx& x) { return dst < x.dim && src < x.dim; };
      o.apply = [src, dst](Polyhedron& p, const Polyhedron*) { PPL::Variables_Set vs; if (src >= 0) vs.insert(Variable(src)); p.fold_space_dimensions(vs, Variable(dst)); return std::string(); };
      o.refv = [src, dst](const Cell& c, const Cell*, bool nnc) { std::vector<int> vs; if (src >= 0) vs.push_back(src); return ref::fold_dims(c, vs, dst, nnc); };
      add_op(o);
    }
  }
  // ---- conversion between the two topologies (NNC -> C only for topologically closed values)
  { Op o; o.name = "construct_other_topology(copy)"; o.convert = true;
    o.ok = [](const Ctx& x) { return !x.nnc || ref::is_empty(CL[x.cls]) || ref::subset(ref::closure(CL[x.cls]), CL[x.cls]); };
    o.refv = [](const Cell& c, const Cell*, bool) { return c; };
    add_op(o); }
  // ---- binary
  struct Bin { const char* n; std::function<std::string(Polyhedron&, const Polyhedron&)> f; std::function<Cell(const Cell&, const Cell&, bool)> r; };
  std::vector<Bin> bins = {
    {"intersection_assign", [](Polyhedron& p, const Polyhedron& q) { p.intersection_assign(q); return std::string(); },
      [](const Cell& a, const Cell& b, bool) { return ref::meet(a, b); }},
    {"poly_hull_assign", [](Polyhedron& p, const Polyhedron& q) { p.poly_hull_assign(q); return std::string(); },
      [](const Cell& a, const Cell& b, bool nnc) { return ref::hull(a, b, nnc); }},
    {"poly_difference_assign", [](Polyhedron& p, const Polyhedron& q) { p.poly_difference_assign(q); return std::string(); },
      [](const Cell& a, const Cell& b, bool nnc) { return ref::poly_difference(a, b, nnc); }},
    {"time_elapse_assign", [](Polyhedron& p, const Polyhedron& q) { p.time_elapse_assign(q); return std::string(); },
      [](const Cell& a, const Cell& b, bool nnc) { return ref::time_elapse(a, b, nnc); }},
    {"positive_time_elapse_assign", [](Polyhedron& p, const Polyhedron& q) {
        if (p.is_necessarily_closed()) static_cast<C_Polyhedron&>(p).positive_time_elapse_assign(q);
        else static_cast<NNC_Polyhedron&>(p).positive_time_elapse_assign(q);
        return std::string(); },
      [](const Cell& a, const Cell& b, bool nnc) { return ref::positive_time_elapse(a, b, nnc); }},
  };
  for (size_t i = 0; i < bins.size(); ++i) {
    Bin b = bins[i];
    Op o; o.name = b.n; o.binary = true;
    o.ok = [](const Ctx& x) { return x.odim == x.dim; };
    o.apply = [b](Polyhedron& p, const Polyhedron* q) { return b.f(p, *q); };
    o.refv = [b](const Cell& a, const Cell* q, bool nnc) { return b.r(a, *q, nnc); };
    add_op(o);
  }
  { Op o; o.name = "concatenate_assign"; o.binary = true;
    o.ok = [](const Ctx& x) { return x.dim + x.odim <= 3; };
    o.apply = [](Polyhedron& p, const Polyhedron* q) { p.concatenate_assign(*q); return std::string(); };
    o.refv = [](const Cell& a, const Cell* q, bool) { return ref::concatenate(a, *q); };
    add_op(o); }
  for (int which = 0; which < 3; ++which) {
    Op o; o.name = which == 0 ? "upper_bound_assign_if_exact" : which == 1 ? "poly_hull_assign_if_exact" : "upper_bound_assign";
    o.binary = true;
    o.ok = [](const Ctx& x) { return x.odim == x.dim; };
    o.apply = [which](Polyhedron& p, const Polyhedron* q) {
      if (which == 2) { p.upper_bound_assign(*q); return std::string(); }
      bool b;
      if (p.is_necessarily_closed()) { C_Polyhedron& pc = static_cast<C_Polyhedron&>(p); const C_Polyhedron& qc = static_cast<const C_Polyhedron&>(*q);
        b = which == 0 ? pc.upper_bound_assign_if_exact(qc) : pc.poly_hull_assign_if_exact(qc); }
      else { NNC_Polyhedron& pc = static_cast<NNC_Polyhedron&>(p); const NNC_Polyhedron& qc = static_cast<const NNC_Polyhedron&>(*q);
        b = which == 0 ? pc.upper_bound_assign_if_exact(qc) : pc.poly_hull_assign_if_exact(qc); }
      return std::string(b ? "true" : "false"); };
    o.refv = [which](const Cell& a, const Cell* q, bool nnc) {
      if (which == 2) return ref::hull(a, *q, nnc);
      return ref::union_is_convex(a, *q, nnc) ? ref::hull(a, *q, nnc) : a; };
    if (which != 2) o.refret = [](const Cell& a, const Cell* q, bool nnc) { return std::string(ref::union_is_convex(a, *q, nnc) ? "true" : "false"); };
    add_op(o);
  }
  { Op o; o.name = "simplify_using_context_assign"; o.binary = true;
    o.ok = [](const Ctx& x) { return x.odim == x.dim; };
    o.apply = [](Polyhedron& p, const Polyhedron* q) { return std::string(p.simplify_using_context_assign(*q) ? "true" : "false"); };
    o.relcheck = [](const Cell& before, const Cell* q, const Cell& after, const std::string& ret, bool) -> std::string {
      Cell m0 = ref::meet(before, *q);
      bool inter_empty = ref::is_empty(m0);
      if ((ret == "false") != inter_empty) return "simplify:return-value";
      // documented (definitions.dox, "Meet-Preserving Enlargement and Simplification"): the result R is
      // meet-preserving (R /\ Q = P /\ Q, also when that meet is empty) and an enlargement (R contains P)
      Cell m1 = ref::meet(after, *q);
      if (!ref::equal(m0, m1)) return inter_empty ? "simplify:empty-meet-not-preserved" : "simplify:meet-not-preserved";
      if (!ref::subset(before, after)) return "simplify:not-an-enlargement";
      return ""; };
    add_op(o); }
}

// ------------------------------------------------------------------ history text
static std::vector<std::string> history_of(int s) {
  std::vector<std::string> h;
  while (s >= 0 && ST[s].parent >= 0) { h.push_back(OPS[ST[s].op].name); s = ST[s].parent; }
  if (s >= 0) h.push_back(std::string(ST[s].nnc ? "NNC" : "C") + "(" + std::to_string(ST[s].dim) + "," + (cell_empty(ST[s].cls) ? "EMPTY" : "UNIVERSE") + ")");
  std::reverse(h.begin(), h.end());
  return h;
}
static std::string hist_json(int s) {
  std::vector<std::string> h = history_of(s), q;
  for (size_t i = 0; i < h.size(); ++i) q.push_back(jstr(h[i]));
  std::string a = "[";
  for (size_t i = 0; i < q.size(); ++i) { if (i) a += ","; a += q[i]; }
  return a + "]";
}

// ------------------------------------------------------------------ phase A
static std::unordered_map<std::string, int> SEEN;
static long long TRANS_A = 0;
static std::set<std::string> SIGS;

static int add_state(Polyhedron* ph, bool nnc, int dim, int cls, int parent, int op, int depth) {
  std::string key = std::string(nnc ? "N" : "C") + dump_of(*ph);
  std::unordered_map<std::string, int>::iterator it = SEEN.find(key);
  if (it != SEEN.end()) {
    // same dump reached by another history: the model values must coincide
    if (ST[it->second].cls != cls) {
      if (violcap().admit("merge"))
        report_violation("Polyhedron", "value:same-dump-different-model", "none",
          J().raw("history", hist_json(parent)).str("op", OPS[op].name).raw("other_history", hist_json(it->second)).done(),
          ref::cell_str(CL[cls]), ref::cell_str(CL[ST[it->second].cls]));
    }
    delete ph; return -1;
  }
  State s; s.ph = ph; s.nnc = nnc; s.dim = dim; s.cls = cls; s.parent = parent; s.op = op; s.depth = depth; s.sig = signature(*ph);
  SIGS.insert(s.sig);
  ST.push_back(s);
  SEEN[key] = (int)ST.size() - 1;
  return (int)ST.size() - 1;
}

static void check_clone(const Polyhedron& a, const Polyhedron& b) {
  if (dump_of(a) != dump_of(b)) { sink().line(J().str("t", "error").str("msg", "clone is not faithful (dump differs)").done()); _exit(4); }
}

static std::string cellstr(int cls) { return ref::cell_str(CL[cls]); }

// compare both descriptions of `r` (a scratch object, will be mutated by observation) with class `want`
static void check_value(Polyhedron& r, int want, const std::string& site, const std::string& input_json) {
  int n = r.space_dimension(); bool nnc = !r.is_necessarily_closed();
  if (!r.OK()) { if (violcap().admit(site + "|OK")) report_violation(site, "invariant:OK()", "none", input_json, "OK() false", "OK() true"); return; }
  PH second(clone(r));
  struct D { const char* what; int cls; };
  std::vector<D> got;
  // first run the implementation's observers, then (guarded) the reference computations
  Cell d0 = cell_of(r.constraints(), n);
  PPL::Generator_System g1 = r.generators();
  PPL::Generator_System g2 = second->generators();
  Cell d3 = cell_of(second->constraints(), n);
  Cell d4 = cell_of(r.minimized_constraints(), n);
  PPL::Generator_System g5 = second->minimized_generators();
  bool okk = r.OK() && second->OK();
  RefGuard guard;
  ProfT pt("check_value:classify");
  got.push_back({"minimized_constraints", classify_cons(d4, want)});
  got.push_back({"minimized_generators", classify_gens(g5, n, nnc, want)});
  got.push_back({"constraints", classify_cons(d0, want)});
  got.push_back({"generators-after-constraints", classify_gens(g1, n, nnc, want)});
  got.push_back({"generators", classify_gens(g2, n, nnc, want)});
  got.push_back({"constraints-after-generators", classify_cons(d3, want)});
  count(CNT_CHECKS, got.size());
  for (size_t i = 0; i < got.size(); ++i) if (got[i].cls != want) {
    std::string clause = std::string("value:") + got[i].what + "!=model";
    if (!violcap().admit(site + "|" + clause)) continue;
    // witness point
    Vec x; std::string w;
    if (ref::find_point_outside(CL[got[i].cls], CL[want], x)) w = "point " + ref::vec_str(x) + " in PPL description, not in model";
    else if (ref::find_point_outside(CL[want], CL[got[i].cls], x)) w = "point " + ref::vec_str(x) + " in model, not in PPL description";
    report_violation(site, clause, "none", input_json, cellstr(got[i].cls), cellstr(want), w);
  }
  if (!okk) { if (violcap().admit(site + "|OK2")) report_violation(site, "invariant:OK()-after-observation", "none", input_json, "OK() false", "OK() true"); }
}

static void phase_a(int depth_max, int min_dim, int max_dim) {
  // initial states
  for (int nnc = 0; nnc < 2; ++nnc) for (int dim = min_dim; dim <= max_dim; ++dim) for (int e = 0; e < 2; ++e) {
    Polyhedron* p = fresh(nnc, dim, e);
    int cls = CL.classify(e ? Cell::empty(dim) : Cell::universe(dim));
    add_state(p, nnc, dim, cls, -1, -1, 0);
  }
  std::unordered_map<long long, int> refmemo;   // (cls, op) -> cls
  size_t begin = 0;
  for (int d = 1; d <= depth_max; ++d) {
    size_t end = ST.size();
    for (size_t s = begin; s < end; ++s) {
      for (size_t oi = 0; oi < OPS.size(); ++oi) {
        const Op& op = OPS[oi];
        if (!op.builder) continue;
        Ctx cx; cx.nnc = ST[s].nnc; cx.dim = ST[s].dim; cx.cls = ST[s].cls; cx.ocls = -1; cx.odim = -1;
        if (!op.ok(cx)) continue;
        Polyhedron* c = clone(*ST[s].ph);
        if (s < 64) check_clone(*ST[s].ph, *c);
        try { op.apply(*c, 0); }
        catch (const std::exception& ex) {
          if (violcap().admit("exc|" + op.name))
            report_violation("Polyhedron::" + op.name, "unexpected-exception", "none", J().raw("history", hist_json(s)).str("op", op.name).done(), ex.what(), "no exception");
          delete c; continue;
        }
        ++TRANS_A;
        long long mk = (long long)ST[s].cls * 100000 + oi;
        int ncls;
        std::unordered_map<long long, int>::iterator it = refmemo.find(mk);
        if (it != refmemo.end()) ncls = it->second;
        else { ncls = CL.classify(op.refv(CL[ST[s].cls], 0, ST[s].nnc)); refmemo[mk] = ncls; }
        add_state(c, ST[s].nnc, (int)c->space_dimension(), ncls, (int)s, (int)oi, d);
      }
    }
    begin = end;
    if (ARGS.left() < ARGS.deadline * 0.5) break;
  }
}

// ------------------------------------------------------------------ queries (C01)
static std::string rel_con_str(const PPL::Poly_Con_Relation& r) {
  std::string s;
  if (r.implies(PPL::Poly_Con_Relation::is_disjoint())) s += "D";
  if (r.implies(PPL::Poly_Con_Relation::strictly_intersects())) s += "X";
  if (r.implies(PPL::Poly_Con_Relation::is_included())) s += "I";
  if (r.implies(PPL::Poly_Con_Relation::saturates())) s += "S";
  return s.empty() ? "-" : s;
}
static std::string ref_rel_con(const Cell& v, const Row& c) {
  if (ref::is_empty(v)) return "DIS";
  Cell m = v; m.rows.push_back(c);
  bool disj = ref::is_empty(m);
  bool incl = ref::implies(v, c);
  Row h = c; h.k = ref::EQ;
  bool sat = ref::implies(v, h);
  std::string s;
  if (disj) s += "D";
  if (!disj && !incl) s += "X";
  if (incl) s += "I";
  if (sat) s += "S";
  return s.empty() ? "-" : s;
}
static std::string qstr(const Q& q) { std::ostringstream s; s << q; return s.str(); }

// relation with a proper congruence  e = 0 (mod m): decided from inf/sup of e over the value
static std::string ref_rel_cong(const Cell& v, const LE& e, long m) {
  if (ref::is_empty(v)) return "DIS";
  ref::Sup hi = ref::sup(v, e.vec(v.n), Q(e.b)), lo = ref::inf(v, e.vec(v.n), Q(e.b));
  if (hi.status == 1 && lo.status == 1 && hi.value == lo.value) {
    Q t = hi.value / m;
    return t.get_den() == 1 ? "IS_or_I" : "D";
  }
  // a non-degenerate interval of values: never included; disjoint iff no multiple of m inside
  // smallest multiple of m that is >= lo (or > lo when lo not attained)
  if (lo.status == 2 || hi.status == 2) return "X";
  Q t = lo.value / m;
  mpz_class k = t.get_num() / t.get_den();          // truncation
  if (Q(k) < t) k += 1;                              // ceil
  if (Q(k) == t && !lo.attained) k += 1;
  Q cand = Q(k) * m;
  bool inside = cand < hi.value || (cand == hi.value && hi.attained);
  return inside ? "X" : "D";
}

struct Query {
  std::string name; bool binary;
  std::function<bool(const Ctx&)> ok;
  std::function<std::string(Polyhedron&, const Polyhedron*)> run;
  std::function<std::string(const Cell&, const Cell*, bool)> expect;
  // when set, an accepted alternative spelling (e.g. "IS_or_I")
};
static std::vector<Query> QS;

static std::string maxmin_run(Polyhedron& p, const LE& e, bool maxi, bool with_point) {
  Coefficient n, d; bool incl;
  PPL::Generator g = PPL::point();
  bool b;
  Linear_Expression le = e.ppl();
  if (with_point) b = maxi ? p.maximize(le, n, d, incl, g) : p.minimize(le, n, d, incl, g);
  else b = maxi ? p.maximize(le, n, d, incl) : p.minimize(le, n, d, incl);
  if (!b) return "false";
  Q v(to_q(n).get_num(), to_q(d).get_num()); v.canonicalize();
  std::string s = "true," + qstr(v) + "," + (incl ? "incl" : "notincl");
  if (with_point) {
    // witness must be a (closure) point attaining the value
    int dim = p.space_dimension();
    ref::Gen w = gen_of(g, dim);
    Q val = e.b; for (int i = 0; i < dim; ++i) val += Q(i < (int)e.a.size() ? e.a[i] : 0) * w.v[i];
    s += std::string(",wit:") + (val == v ? "attains" : "WRONGVALUE") + "," + ((w.t == 'p') ? "point" : (w.t == 'c') ? "closure_point" : "NOTAPOINT");
    s += "@" + ref::vec_str(w.v);
  }
  return s;
}

static void build_queries() {
  auto simple = [](const char* n, std::function<bool(Polyhedron&)> f, std::function<bool(const Cell&, bool)> r) {
    Query q; q.name = n; q.binary = false; q.ok = [](const Ctx&) { return true; };
    q.run = [f](Polyhedron& p, const Polyhedron*) { return std::string(f(p) ? "true" : "false"); };
    q.expect = [r](const Cell& v, const Cell*, bool nnc) { return std::string(r(v, nnc) ? "true" : "false"); };
    QS.push_back(q);
  };
  simple("is_empty", [](Polyhedron& p) { return p.is_empty(); }, [](const Cell& v, bool) { return ref::is_empty(v); });
  simple("is_universe", [](Polyhedron& p) { return p.is_universe(); }, [](const Cell& v, bool) { return !v.bot && ref::normalized(v).rows.empty() && !ref::is_empty(v); });
  simple("is_bounded", [](Polyhedron& p) { return p.is_bounded(); }, [](const Cell& v, bool) {
    if (ref::is_empty(v)) return true;
    for (int i = 0; i < v.n; ++i) { if (ref::sup(v, ref::unit(v.n, i), Q(0)).status != 1) return false; if (ref::inf(v, ref::unit(v.n, i), Q(0)).status != 1) return false; }
    return true; });
  simple("is_topologically_closed", [](Polyhedron& p) { return p.is_topologically_closed(); }, [](const Cell& v, bool) { return ref::is_empty(v) || ref::subset(ref::closure(v), v); });
  simple("is_discrete", [](Polyhedron& p) { return p.is_discrete(); }, [](const Cell& v, bool) { return ref::is_empty(v) || ref::affine_dimension(v) == 0; });
  { Query q; q.name = "affine_dimension"; q.binary = false; q.ok = [](const Ctx&) { return true; };
    q.run = [](Polyhedron& p, const Polyhedron*) { return std::to_string(p.affine_dimension()); };
    q.expect = [](const Cell& v, const Cell*, bool) { int d = ref::affine_dimension(v); return std::to_string(d < 0 ? 0 : d); };
    QS.push_back(q); }
  for (int v = 0; v < 2; ++v) {
    Query q; q.name = std::string("constrains(") + char('A' + v) + ")"; q.binary = false; q.ok = [v](const Ctx& x) { return v < x.dim; };
    q.run = [v](Polyhedron& p, const Polyhedron*) { return std::string(p.constrains(Variable(v)) ? "true" : "false"); };
    q.expect = [v](const Cell& c, const Cell*, bool) { if (ref::is_empty(c)) return std::string("true"); std::vector<int> vs(1, v); return std::string(ref::subset(ref::unconstrain(c, vs), c) ? "false" : "true"); };
    QS.push_back(q);
  }
  // relation_with(constraint)
  {
    std::vector<CN> rc = CM;
    rc.push_back(CN(LE({1, 0}, -2), ref::GE)); rc.push_back(CN(LE({-1, 0}, 0), ref::GT)); rc.push_back(CN(LE({1, 1}, -2), ref::EQ));
    rc.push_back(CN(LE({0, 1}, -2), ref::GT)); rc.push_back(CN(LE({2, 2}, -1), ref::EQ));
    for (size_t i = 0; i < rc.size(); ++i) {
      CN c = rc[i];
      Query q; q.name = "relation_with(" + c.str() + ")"; q.binary = false;
      q.ok = [c](const Ctx& x) { return fits(c.e, x.dim); };   // strict constraints are legal arguments for C polyhedra too
      q.run = [c](Polyhedron& p, const Polyhedron*) { return rel_con_str(p.relation_with(c.ppl())); };
      q.expect = [c](const Cell& v, const Cell*, bool) { return ref_rel_con(v, c.row(v.n)); };
      QS.push_back(q);
    }
  }
  // relation_with(generator)
  {
    std::vector<GN> rg = GM;
    rg.push_back(GN('p', {1, 0})); rg.push_back(GN('p', {1, 1})); rg.push_back(GN('l', {0, 1})); rg.push_back(GN('p', {1, 2}, 3));
    for (size_t i = 0; i < rg.size(); ++i) {
      GN g = rg[i];
      Query q; q.name = "relation_with(" + g.str() + ")"; q.binary = false;
      q.ok = [g](const Ctx& x) { return fitsg(g, x.dim) && (g.t == 'p' || g.t == 'c' || !truncg(g, x.dim).zero()); };
      q.run = [g](Polyhedron& p, const Polyhedron*) {
        PPL::Poly_Gen_Relation r = p.relation_with(truncg(g, p.space_dimension()).ppl());
        return std::string(r.implies(PPL::Poly_Gen_Relation::subsumes()) ? "subsumes" : "nothing"); };
      q.expect = [g](const Cell& v, const Cell*, bool nnc) {
        if (ref::is_empty(v)) return std::string("nothing");
        ref::Gen gg = truncg(g, v.n).gen(v.n);
        // in a closed polyhedron a closure point is treated like a point
        if (!nnc && gg.t == 'c') gg.t = 'p';
        Cell w = ref::add_generator(v, gg, nnc);
        return std::string(ref::subset(w, v) ? "subsumes" : "nothing"); };
      QS.push_back(q);
    }
  }
  // relation_with(congruence)
  {
    struct CG { LE e; long m; };
    std::vector<CG> cgs = { {LE({1, 0}, 0), 1}, {LE({1, 0}, 0), 2}, {LE({1, 1}, 0), 2}, {LE({1, -1}, 1), 3}, {LE({0, 1}, -1), 2}, {LE({2, 0}, 1), 2}, {LE({0, 0}, 1), 2}, {LE({0, 0}, 2), 2}, {LE({1, 0}, -1), 0} };
    for (size_t i = 0; i < cgs.size(); ++i) {
      CG g = cgs[i];
      Query q; q.name = "relation_with(" + g.e.str() + "=0 mod " + std::to_string(g.m) + ")"; q.binary = false;
      q.ok = [g](const Ctx& x) { return fits(g.e, x.dim); };
      q.run = [g](Polyhedron& p, const Polyhedron*) { return rel_con_str(p.relation_with((g.e.ppl() %= 0) / Coefficient(g.m))); };
      q.expect = [g](const Cell& v, const Cell*, bool) {
        if (g.m == 0) return ref_rel_con(v, Row(g.e.vec(v.n), Q(g.e.b), ref::EQ));
        return ref_rel_cong(v, g.e, g.m); };
      QS.push_back(q);
    }
  }
  // bounds / maximize / minimize
  {
    size_t eidx[] = {0, 1, 2, 6, 7, 8, 10, 11};
    for (size_t ei : eidx) {
      LE e = EM[ei];
      for (int up = 0; up < 2; ++up) {
        Query q; q.name = std::string(up ? "bounds_from_above(" : "bounds_from_below(") + e.str() + ")"; q.binary = false;
        q.ok = [e](const Ctx& x) { return fits(e, x.dim); };
        q.run = [e, up](Polyhedron& p, const Polyhedron*) { return std::string((up ? p.bounds_from_above(e.ppl()) : p.bounds_from_below(e.ppl())) ? "true" : "false"); };
        q.expect = [e, up](const Cell& v, const Cell*, bool) {
          if (ref::is_empty(v)) return std::string("true");
          ref::Sup s = up ? ref::sup(v, e.vec(v.n), Q(e.b)) : ref::inf(v, e.vec(v.n), Q(e.b));
          return std::string(s.status == 1 ? "true" : "false"); };
        QS.push_back(q);
      }
      for (int maxi = 0; maxi < 2; ++maxi) for (int wp = 0; wp < 2; ++wp) {
        Query q; q.name = std::string(maxi ? "maximize(" : "minimize(") + e.str() + (wp ? ",point)" : ")"); q.binary = false;
        q.ok = [e](const Ctx& x) { return fits(e, x.dim); };
        q.run = [e, maxi, wp](Polyhedron& p, const Polyhedron*) {
          std::string s = maxmin_run(p, e, maxi, wp);
          return s; };
        q.expect = [e, maxi, wp](const Cell& v, const Cell*, bool) {
          if (ref::is_empty(v)) return std::string("false");
          ref::Sup s = maxi ? ref::sup(v, e.vec(v.n), Q(e.b)) : ref::inf(v, e.vec(v.n), Q(e.b));
          if (s.status != 1) return std::string("false");
          std::string r = "true," + qstr(s.value) + "," + (s.attained ? "incl" : "notincl");
          if (wp) r += std::string(",wit:attains,") + (s.attained ? "point" : "closure_point");
          return r; };
        QS.push_back(q);
      }
      { // frequency: true iff e is constant on the (non-empty) value
        Query q; q.name = "frequency(" + e.str() + ")"; q.binary = false;
        q.ok = [e](const Ctx& x) { return fits(e, x.dim); };
        q.run = [e](Polyhedron& p, const Polyhedron*) {
          Coefficient fn, fd, vn, vd;
          if (!p.frequency(e.ppl(), fn, fd, vn, vd)) return std::string("false");
          Q v(to_q(vn).get_num(), to_q(vd).get_num()); v.canonicalize();
          return "true,freq=" + qstr(to_q(fn)) + ",val=" + qstr(v); };
        q.expect = [e](const Cell& v, const Cell*, bool) {
          if (ref::is_empty(v)) return std::string("false");
          ref::Sup hi = ref::sup(v, e.vec(v.n), Q(e.b)), lo = ref::inf(v, e.vec(v.n), Q(e.b));
          if (hi.status == 1 && lo.status == 1 && hi.value == lo.value) return "true,freq=0,val=" + qstr(hi.value);
          return std::string("false"); };
        QS.push_back(q);
      }
    }
  }
  // congruences() / minimized_congruences(): the equalities defining the affine hull
  for (int mini = 0; mini < 2; ++mini) {
    Query q; q.name = mini ? "minimized_congruences()" : "congruences()"; q.binary = false; q.ok = [](const Ctx&) { return true; };
    q.run = [mini](Polyhedron& p, const Polyhedron*) {
      PPL::Congruence_System cgs = mini ? p.minimized_congruences() : p.congruences();
      int n = p.space_dimension();
      Cell e(n);
      for (PPL::Congruence_System::const_iterator i = cgs.begin(); i != cgs.end(); ++i) {
        Row r; r.a.assign(n, Q(0));
        for (int j = 0; j < n && j < (int)i->space_dimension(); ++j) r.a[j] = to_q(i->coefficient(Variable(j)));
        r.b = to_q(i->inhomogeneous_term());
        if (i->is_proper_congruence()) {
          // a proper congruence can only be trivial (0 = b mod m)
          bool zero = ref::is_zero_vec(r.a);
          if (!zero) return std::string("PROPER-NONTRIVIAL-CONGRUENCE");
          Q t = r.b / to_q(i->modulus());
          if (t.get_den() != 1) return std::string("bot/") + std::to_string(n);
          continue;
        }
        r.k = ref::EQ; e.rows.push_back(r);
      }
      return ref::canon_closed(e); };
    q.expect = [](const Cell& v, const Cell*, bool) {
      if (ref::is_empty(v)) return std::string("bot/") + std::to_string(v.n);
      Cell c = ref::normalized(v), h(v.n);
      for (size_t i = 0; i < c.rows.size(); ++i) { Row r = c.rows[i]; r.k = ref::EQ; if (ref::implies(c, r)) h.rows.push_back(r); }
      return ref::canon_closed(h); };
    QS.push_back(q);
  }
  // binary predicates
  struct BP { const char* n; std::function<bool(Polyhedron&, const Polyhedron&)> f; std::function<bool(const Cell&, const Cell&)> r; };
  std::vector<BP> bps = {
    {"contains", [](Polyhedron& p, const Polyhedron& q) { return p.contains(q); }, [](const Cell& a, const Cell& b) { return ref::subset(b, a); }},
    {"strictly_contains", [](Polyhedron& p, const Polyhedron& q) { return p.strictly_contains(q); }, [](const Cell& a, const Cell& b) { return ref::subset(b, a) && !ref::subset(a, b); }},
    {"is_disjoint_from", [](Polyhedron& p, const Polyhedron& q) { return p.is_disjoint_from(q); }, [](const Cell& a, const Cell& b) { return ref::is_empty(ref::meet(a, b)); }},
    {"operator==", [](Polyhedron& p, const Polyhedron& q) { return p == q; }, [](const Cell& a, const Cell& b) { return ref::equal(a, b); }},
  };
  for (size_t i = 0; i < bps.size(); ++i) {
    BP b = bps[i];
    Query q; q.name = b.n; q.binary = true; q.ok = [](const Ctx& x) { return x.odim == x.dim; };
    q.run = [b](Polyhedron& p, const Polyhedron* o) { return std::string(b.f(p, *o) ? "true" : "false"); };
    q.expect = [b](const Cell& v, const Cell* o, bool) { return std::string(b.r(v, *o) ? "true" : "false"); };
    QS.push_back(q);
  }
}

// witness comparison: the point component after '@' is informative only
static std::string strip_at(const std::string& s) { size_t p = s.find('@'); return p == std::string::npos ? s : s.substr(0, p); }

// ------------------------------------------------------------------ known-finding triggers
// C01: relation_with(Congruence) uses the scalar product with an un-normalised point generator
static std::string trigger_for_query(const std::string& qname, const Polyhedron& before) {
  if (qname.compare(0, 14, "relation_with(") == 0 && qname.find(" mod ") != std::string::npos) {
    // first point of the generator system (as the code will see it after updating generators)
    PH c(clone(before));
    try {
      const PPL::Generator_System& gs = c->generators();
      for (PPL::Generator_System::const_iterator i = gs.begin(); i != gs.end(); ++i)
        if (i->is_point()) return i->divisor() != 1 ? "first_point_divisor_ne_1" : "none";
    } catch (...) {}
  }
  return "none";
}

// ------------------------------------------------------------------ representatives and operand pool
static std::vector<int> REPS;      // receivers
static std::vector<std::vector<int> > GROUPS;   // receivers grouped by value class (one work item each)
static std::vector<int> POOL;      // operands

static void choose_reps(bool all_states, int pool_classes, int pool_sigs, int reps_per_sig) {
  std::map<std::pair<int, std::string>, int> first;
  for (size_t s = 0; s < ST.size(); ++s) {
    std::pair<int, std::string> k(ST[s].cls * 2 + ST[s].nnc, ST[s].sig);
    if (!first.count(k)) { first[k] = (int)s; if (!all_states) REPS.push_back((int)s); }
    if (all_states) REPS.push_back((int)s);
  }
  if (reps_per_sig > 0 && !all_states) {
    // deep narrow runs: the point is the lazy-state signature, not the value: keep, per (topology, dimension,
    // signature), an evenly spaced sample of the value classes that reach it
    std::map<std::string, std::vector<int> > by_sig;
    for (int r : REPS) by_sig[std::string(ST[r].nnc ? "N" : "C") + std::to_string(ST[r].dim) + ST[r].sig].push_back(r);
    REPS.clear();
    for (auto& kv : by_sig) {
      std::vector<int>& m = kv.second; std::sort(m.begin(), m.end());
      int n = (int)m.size();
      if (n <= reps_per_sig) { REPS.insert(REPS.end(), m.begin(), m.end()); continue; }
      for (int j = 0; j < reps_per_sig; ++j) REPS.push_back(m[(long long)j * (n - 1) / (reps_per_sig - 1)]);
    }
    std::sort(REPS.begin(), REPS.end()); REPS.erase(std::unique(REPS.begin(), REPS.end()), REPS.end());
  }
  // operand pool: the first `pool_classes` value classes per (topology, dim), `pool_sigs` lazy variants each
  std::map<std::pair<int, int>, std::vector<int> > cls_order;      // (nnc,dim) -> classes in discovery order
  std::map<int, std::vector<int> > members;                        // class*2+nnc -> reps (distinct signatures)
  for (auto& kv : first) members[kv.first.first].push_back(kv.second);
  std::set<int> seen;
  for (size_t s = 0; s < ST.size(); ++s) {
    int k = ST[s].cls * 2 + ST[s].nnc;
    if (seen.insert(k).second) cls_order[std::make_pair((int)ST[s].nnc, ST[s].dim)].push_back(k);
  }
  for (auto& kv : cls_order) {
    // the first 12 classes (the basic shapes found at depth <= 1) plus an evenly spaced sample of the
    // remaining ones, so that operands of every depth of the exploration are present
    std::vector<int> chosen;
    const std::vector<int>& all = kv.second;
    int base = std::min<int>(12, (int)all.size());
    for (int i = 0; i < base && (int)chosen.size() < pool_classes; ++i) chosen.push_back(all[i]);
    int rest = (int)all.size() - base, want = pool_classes - (int)chosen.size();
    if (rest > 0 && want > 0) {
      if (want >= rest) for (int i = base; i < (int)all.size(); ++i) chosen.push_back(all[i]);
      else for (int j = 0; j < want; ++j) chosen.push_back(all[base + (long long)j * rest / want]);
    }
    for (int k : chosen) {
      std::vector<int>& m = members[k];
      std::sort(m.begin(), m.end());
      for (int i = 0; i < (int)m.size() && i < pool_sigs; ++i) POOL.push_back(i == 0 ? m[0] : m[m.size() - i]);
    }
  }
  std::sort(POOL.begin(), POOL.end()); POOL.erase(std::unique(POOL.begin(), POOL.end()), POOL.end());
  // work items: all receivers of one value class go to the same worker (shares the oracle memo)
  std::map<int, int> gidx;
  for (size_t i = 0; i < REPS.size(); ++i) {
    int k = ST[REPS[i]].cls * 2 + ST[REPS[i]].nnc;
    if (!gidx.count(k)) { gidx[k] = (int)GROUPS.size(); GROUPS.push_back(std::vector<int>()); }
    GROUPS[gidx[k]].push_back(REPS[i]);
  }
}

// ------------------------------------------------------------------ phase B work
static std::unordered_map<std::string, std::string> QMEMO;    // (cls, ocls, query) -> expected
static std::unordered_map<std::string, int> OPMEMO;           // (cls, ocls, op) -> class of result
static std::unordered_map<std::string, std::string> RETMEMO;

static std::string input_json(int s, const std::string& op, int operand) {
  J j; j.raw("history", hist_json(s)).str("op", op);
  if (operand >= 0) j.raw("operand_history", hist_json(operand));
  j.str("receiver_value", cellstr(ST[s].cls)).str("signature", ST[s].sig);
  if (operand >= 0) j.str("operand_value", cellstr(ST[operand].cls));
  return j.done();
}

static void run_queries_on(int s, long long& sub, long long sub_start) {
  const State& st = ST[s];
  for (size_t qi = 0; qi < QS.size(); ++qi) {
    const Query& q = QS[qi];
    std::vector<int> operands;
    if (q.binary) operands = POOL; else operands.push_back(-1);
    for (int o : operands) {
      Ctx cx; cx.nnc = st.nnc; cx.dim = st.dim; cx.cls = st.cls; cx.ocls = o >= 0 ? ST[o].cls : -1; cx.odim = o >= 0 ? ST[o].dim : -1;
      if (o >= 0 && ST[o].nnc != st.nnc) continue;
      if (!q.ok(cx)) continue;
      long long my = sub++;
      if (!pool().want(my, sub_start)) continue;
      pool().step(my);
      PH p(clone(*st.ph));
      PH oc; if (o >= 0) oc.reset(clone(*ST[o].ph));
      std::string got;
      try { got = q.run(*p, oc.get()); }
      catch (const std::exception& ex) { got = std::string("exception:") + ex.what(); }
      count(CNT_TRANS);
      std::string mk = std::to_string(st.cls) + "|" + std::to_string(cx.ocls) + "|" + std::to_string(qi) + (st.nnc ? "N" : "C");
      std::unordered_map<std::string, std::string>::iterator it = QMEMO.find(mk);
      std::string want;
      if (it != QMEMO.end()) want = it->second;
      else { RefGuard guard; double tq = now_s(); want = q.expect(CL[st.cls], o >= 0 ? &CL[ST[o].cls] : 0, st.nnc); QMEMO[mk] = want;
        if (now_s() - tq > 1.0) fprintf(stderr, "SLOW-REF %.1fs query %s on %s\n", now_s() - tq, q.name.c_str(), cellstr(st.cls).c_str()); }
      bool okk = strip_at(got) == want;
      if (!okk && want == "IS_or_I") okk = (got == "IS" || got == "I");
      if (!okk) {
        std::string site = "Polyhedron::" + q.name.substr(0, q.name.find('('));
        if (q.name.find(" mod ") != std::string::npos) site = "Polyhedron::relation_with(Congruence)";
        std::string trig = trigger_for_query(q.name, *st.ph);
        if (violcap().admit(site + "|" + trig + "|" + (st.nnc ? "N" : "C")))
          report_violation(site, "query:answer!=model", trig, input_json(s, q.name, o), got, want);
      }
      // observing must not change the value (checked through the other description of the observed object)
      if ((my & 7) == 0 || ARGS.thorough()) {
        int n = st.dim;
        PPL::Generator_System og = p->generators();
        Cell oc2 = cell_of(p->constraints(), n);
        int c1, c2;
        { RefGuard guard; c1 = classify_gens(og, n, st.nnc, st.cls); c2 = classify_cons(oc2, st.cls); }
        count(CNT_CHECKS, 2);
        if (c1 != st.cls || c2 != st.cls) {
          if (violcap().admit("obs|" + q.name))
            report_violation("Polyhedron::" + q.name.substr(0, q.name.find('(')), "value:changed-by-observer", "none", input_json(s, q.name, o),
                             cellstr(c1 != st.cls ? c1 : c2), cellstr(st.cls));
        }
      }
    }
  }
}

static bool receiver_marked_or_semantically_empty(int s) { return cell_empty(ST[s].cls); }

static void run_ops_on(int s, long long& sub, long long sub_start) {
  const State& st = ST[s];
  for (size_t oi = 0; oi < OPS.size(); ++oi) {
    const Op& op = OPS[oi];
    if (op.builder_kind && MODE == "C02") continue;      // builders are covered by phase A + C01
    std::vector<int> operands;
    if (op.binary) operands = POOL; else operands.push_back(-1);
    for (int o : operands) {
      if (o >= 0 && ST[o].nnc != st.nnc) continue;
      Ctx cx; cx.nnc = st.nnc; cx.dim = st.dim; cx.cls = st.cls; cx.ocls = o >= 0 ? ST[o].cls : -1; cx.odim = o >= 0 ? ST[o].dim : -1;
      if (!op.ok(cx)) continue;
      long long my = sub++;
      if (!pool().want(my, sub_start)) continue;
      pool().step(my);
      PH p(clone(*st.ph));
      PH oc; if (o >= 0) oc.reset(clone(*ST[o].ph));
      std::string ret; bool threw = false;
      if (op.convert) {
        std::string site = "Polyhedron::" + std::string(st.nnc ? "C_Polyhedron(const NNC_Polyhedron&)" : "NNC_Polyhedron(const C_Polyhedron&)");
        std::string inj = input_json(s, op.name, -1);
        try {
          PH q;
          if (st.nnc) q.reset(new C_Polyhedron(static_cast<const NNC_Polyhedron&>(*p)));
          else q.reset(new NNC_Polyhedron(static_cast<const C_Polyhedron&>(*p)));
          count(CNT_TRANS);
          check_value(*q, st.cls, site, inj);
          // the source keeps its value
          Cell pc = cell_of(p->constraints(), st.dim); int c; { RefGuard guard; c = classify_cons(pc, st.cls); }
          if (c != st.cls && violcap().admit(site + "|src")) report_violation(site, "const-arg-changed", "none", inj, cellstr(c), cellstr(st.cls));
        } catch (const std::exception& ex) {
          if (violcap().admit(site + "|exc")) report_violation(site, "unexpected-exception", "none", inj, ex.what(), "no exception");
        }
        continue;
      }
      try { ProfT pt("ppl:apply"); ret = op.apply(*p, oc.get()); }
      catch (const std::exception& ex) { threw = true; ret = std::string("exception:") + ex.what(); }
      count(CNT_TRANS);
      std::string site = "Polyhedron::" + op.name.substr(0, op.name.find('('));
      std::string inj = input_json(s, op.name, o);
      if (threw) {
        if (violcap().admit(site + "|exc")) report_violation(site, "unexpected-exception", "none", inj, ret, "no exception");
        continue;
      }
      const Cell* ocell = o >= 0 ? &CL[ST[o].cls] : 0;
      if (op.relcheck) {
        int n = p->space_dimension();
        if (!p->OK()) { if (violcap().admit(site + "|OK")) report_violation(site, "invariant:OK()", "none", inj, "OK() false", "OK() true"); continue; }
        PH second(clone(*p));
        Cell dc = cell_of(p->constraints(), n);
        PPL::Generator_System dg = second->generators();
        int c1, c2;
        { RefGuard guard; c1 = classify_cons(dc); c2 = classify_gens(dg, n, st.nnc, c1); }
        count(CNT_CHECKS, 2);
        if (c1 != c2) { if (violcap().admit(site + "|desc")) report_violation(site, "value:constraints!=generators", "none", inj, cellstr(c1), cellstr(c2)); continue; }
        std::string mk = "R" + std::to_string(st.cls) + "|" + std::to_string(cx.ocls) + "|" + std::to_string(oi) + "|" + std::to_string(c1) + "|" + ret;
        std::unordered_map<std::string, std::string>::iterator it = RETMEMO.find(mk);
        std::string clause;
        if (it != RETMEMO.end()) clause = it->second;
        else { RefGuard guard; clause = op.relcheck(CL[st.cls], ocell, CL[c1], ret, st.nnc); RETMEMO[mk] = clause; }
        if (!clause.empty()) {
          std::string trig = "none";
          if (clause == "simplify:meet-not-preserved") {
            Cell m = ref::meet(CL[st.cls], *ocell);
            int ad = ref::affine_dimension(m);
            int adp = ref::affine_dimension(CL[st.cls]);
            if (ad >= 0 && ad < st.dim && ad < adp) trig = "meet_lower_dimensional_than_receiver";
          }
          if (violcap().admit(site + "|" + clause + "|" + trig)) report_violation(site, clause, trig, inj, cellstr(c1) + " ret=" + ret, "see clause");
        }
      } else {
        std::string mk = std::to_string(st.cls) + "|" + std::to_string(cx.ocls) + "|" + std::to_string(oi) + (st.nnc ? "N" : "C");
        int want;
        std::unordered_map<std::string, int>::iterator it = OPMEMO.find(mk);
        if (it != OPMEMO.end()) want = it->second;
        else {
          RefGuard guard;
          ProfT pt("ref:" + op.name.substr(0, op.name.find('(')));
          want = CL.classify(op.refv(CL[st.cls], ocell, st.nnc));
          OPMEMO[mk] = want;
          if (op.refret) RETMEMO[mk] = op.refret(CL[st.cls], ocell, st.nnc);
        }
        if (op.refret) {
          const std::string& wr = RETMEMO[mk];
          if (wr != ret && violcap().admit(site + "|ret")) report_violation(site, "return:boolean!=model", "none", inj, ret, wr);
        }
        PH pre; if (FOLLOW) pre.reset(clone(*p));
        check_value(*p, want, site, inj);
        // one more incremental step on the result (before anything observed it): lazy state left behind by the
        // operation (stale saturation rows, flags) only shows in what the NEXT mutator builds on it
        if (FOLLOW && pre->space_dimension() <= 3) for (int fi : FOLLOWUPS) {     // the reference is too slow on 4-dimensional NNC hulls
          const Op& f = OPS[fi];
          Ctx fx; fx.nnc = st.nnc; fx.dim = (int)pre->space_dimension(); fx.cls = want; fx.ocls = -1; fx.odim = -1;
          if (!f.ok(fx)) continue;
          PH q(clone(*pre));
          std::string inj2 = input_json(s, op.name + " then " + f.name, o);
          try { f.apply(*q, 0); }
          catch (const std::exception& ex) { if (violcap().admit(site + "|fexc")) report_violation(site, "followup:unexpected-exception", "none", inj2, ex.what(), "no exception"); continue; }
          count(CNT_TRANS);
          std::string fk = "F" + std::to_string(want) + "|" + std::to_string(fi) + (st.nnc ? "N" : "C");
          int want2;
          std::unordered_map<std::string, int>::iterator fit = OPMEMO.find(fk);
          if (fit != OPMEMO.end()) want2 = fit->second;
          else { RefGuard guard; want2 = CL.classify(f.refv(CL[want], 0, st.nnc)); OPMEMO[fk] = want2; }
          check_value(*q, want2, site, inj2);
        }
      }
      // the const operand must keep its value
      if (oc) {
        int n = ST[o].dim;
        Cell occ = cell_of(oc->constraints(), n);
        int c; { RefGuard guard; c = classify_cons(occ, ST[o].cls); }
        count(CNT_CHECKS);
        if (c != ST[o].cls && violcap().admit(site + "|operand")) report_violation(site, "const-arg-changed", "none", inj, cellstr(c), cellstr(ST[o].cls));
      }
    }
  }
}

// state value check for C01: both descriptions of every state denote the model value
static void run_value_on(int s, long long& sub, long long sub_start) {
  long long my = sub++;
  if (!pool().want(my, sub_start)) return;
  pool().step(my);
  PH p(clone(*ST[s].ph));
  count(CNT_TRANS, 6);
  check_value(*p, ST[s].cls, "Polyhedron::(state)", input_json(s, "(observe)", -1));
}

// names of sub-steps for crash reports: a dry enumeration identical to the real one
static std::string substep_name(int s, long long target) {
  const State& st = ST[s];
  long long sub = 0;
  if (MODE == "C01") {
    if (sub++ == target) return "(observe)";
    for (size_t qi = 0; qi < QS.size(); ++qi) {
      const Query& q = QS[qi];
      std::vector<int> operands; if (q.binary) operands = POOL; else operands.push_back(-1);
      for (int o : operands) {
        Ctx cx; cx.nnc = st.nnc; cx.dim = st.dim; cx.cls = st.cls; cx.ocls = o >= 0 ? ST[o].cls : -1; cx.odim = o >= 0 ? ST[o].dim : -1;
        if (o >= 0 && ST[o].nnc != st.nnc) continue;
        if (!q.ok(cx)) continue;
        if (sub++ == target) return q.name + (o >= 0 ? " operand=" + hist_json(o) : "");
      }
    }
  } else {
    for (size_t oi = 0; oi < OPS.size(); ++oi) {
      const Op& op = OPS[oi];
      if (op.builder_kind) continue;
      std::vector<int> operands; if (op.binary) operands = POOL; else operands.push_back(-1);
      for (int o : operands) {
        if (o >= 0 && ST[o].nnc != st.nnc) continue;
        Ctx cx; cx.nnc = st.nnc; cx.dim = st.dim; cx.cls = st.cls; cx.ocls = o >= 0 ? ST[o].cls : -1; cx.odim = o >= 0 ? ST[o].dim : -1;
        if (!op.ok(cx)) continue;
        if (sub++ == target) return op.name + (o >= 0 ? " operand=" + hist_json(o) : "");
      }
    }
  }
  return "?";
}

static long long substep_count(int s) {
  long long lo = 0, n = 0;
  // count by probing names until "?" (enumeration is cheap)
  (void)lo;
  while (substep_name(s, n) != "?") ++n;
  return n;
}

// ---- replay of one recorded violation (bin/vcheck replay <file>): re-executes exactly that history
// on fresh objects, without the explorer, and prints both sides.
static int replay_main() {
  const char* f = getenv("VERIF_REPLAY_TXT");
  if (!f) { fprintf(stderr, "replay: VERIF_REPLAY_TXT not set\n"); return 2; }
  std::ifstream in(f); std::string line;
  std::vector<std::string> H, O; std::string P;
  while (std::getline(in, line)) {
    if (line.size() < 3) continue;
    if (line[0] == 'H') H.push_back(line.substr(2)); else if (line[0] == 'O') O.push_back(line.substr(2)); else if (line[0] == 'P') P = line.substr(2);
  }
  build_menus(); build_ops(); build_queries();
  auto run_hist = [&](const std::vector<std::string>& h, Cell& model, bool& nnc) -> Polyhedron* {
    if (h.empty()) return 0;
    // "C(2,UNIVERSE)" / "NNC(1,EMPTY)"
    nnc = h[0].compare(0, 3, "NNC") == 0;
    int dim = atoi(h[0].substr(h[0].find('(') + 1).c_str());
    bool empty = h[0].find("EMPTY") != std::string::npos;
    Polyhedron* p = fresh(nnc, dim, empty);
    model = empty ? Cell::empty(dim) : Cell::universe(dim);
    for (size_t i = 1; i < h.size(); ++i) {
      bool found = false;
      for (size_t oi = 0; oi < OPS.size() && !found; ++oi) if (OPS[oi].name == h[i] && !OPS[oi].binary) {
        OPS[oi].apply(*p, 0);
        if (OPS[oi].refv) model = ref::normalized(OPS[oi].refv(model, 0, nnc));
        found = true;
      }
      if (!found) { fprintf(stderr, "replay: unknown history step '%s'\n", h[i].c_str()); return 0; }
    }
    return p;
  };
  Cell m, om; bool nnc = false, onnc = false;
  std::unique_ptr<Polyhedron> p(run_hist(H, m, nnc)), o(run_hist(O, om, onnc));
  if (!p) return 2;
  printf("receiver history: "); for (size_t i = 0; i < H.size(); ++i) printf("%s%s", i ? " ; " : "", H[i].c_str()); printf("\n");
  printf("receiver model value: %s\nreceiver dump:\n%s\n", ref::cell_str(m).c_str(), dump_of(*p).c_str());
  if (o) printf("operand model value: %s\n", ref::cell_str(om).c_str());
  std::string name = P.substr(0, P.find(" operand="));
  std::string follow;
  if (name.find(" then ") != std::string::npos) { follow = name.substr(name.find(" then ") + 6); name = name.substr(0, name.find(" then ")); }
  for (size_t qi = 0; qi < QS.size(); ++qi) if (QS[qi].name == name) {
    std::string got; try { got = QS[qi].run(*p, o.get()); } catch (const std::exception& e) { got = std::string("exception:") + e.what(); }
    std::string want = QS[qi].expect(m, o ? &om : 0, nnc);
    printf("query %s\n  implementation: %s\n  reference:      %s\n  %s\n", name.c_str(), got.c_str(), want.c_str(), strip_at(got) == want ? "AGREE" : "DISAGREE");
    return strip_at(got) == want ? 0 : 1;
  }
  for (size_t oi = 0; oi < OPS.size(); ++oi) if (OPS[oi].name == name && !OPS[oi].convert) {
    std::string ret; try { ret = OPS[oi].apply(*p, o.get()); } catch (const std::exception& e) { ret = std::string("exception:") + e.what(); }
    const Op* fop = 0;
    if (!follow.empty()) {
      for (size_t fi = 0; fi < OPS.size(); ++fi) if (OPS[fi].name == follow && OPS[fi].builder_kind) fop = &OPS[fi];
      if (!fop) { fprintf(stderr, "replay: unknown follow-up '%s'\n", follow.c_str()); return 2; }
      fop->apply(*p, 0);
    }
    int n = p->space_dimension();
    std::unique_ptr<Polyhedron> second(clone(*p));
    Cell gc = ref::normalized(cell_of(p->minimized_constraints(), n));
    Cell gg = ref::normalized(ref::from_gens_dd(gens_of(second->minimized_generators(), n), n, nnc));
    printf("operation %s returned '%s'\n  result (constraints): %s\n  result (generators):  %s\n", name.c_str(), ret.c_str(), ref::cell_str(gc).c_str(), ref::cell_str(gg).c_str());
    if (OPS[oi].refv) {
      Cell want = ref::normalized(OPS[oi].refv(m, o ? &om : 0, nnc));
      if (fop) want = ref::normalized(fop->refv(want, 0, nnc));
      bool a = ref::equal(gc, want), b = ref::equal(gg, want);
      printf("  reference:            %s\n  %s\n", ref::cell_str(want).c_str(), (a && b) ? "AGREE" : "DISAGREE");
      return (a && b) ? 0 : 1;
    }
    if (OPS[oi].relcheck) { std::string c = OPS[oi].relcheck(m, o ? &om : 0, gc, ret, nnc); printf("  relational oracle: %s\n", c.empty() ? "AGREE" : c.c_str()); return c.empty() ? 0 : 1; }
    return 0;
  }
  if (name == "(observe)") {
    int n = p->space_dimension();
    std::unique_ptr<Polyhedron> second(clone(*p));
    Cell gc = ref::normalized(cell_of(p->constraints(), n));
    Cell gg = ref::normalized(ref::from_gens_dd(gens_of(second->generators(), n), n, nnc));
    bool a = ref::equal(gc, m), b = ref::equal(gg, m);
    printf("constraints(): %s\ngenerators():  %s\nmodel:         %s\n%s\n", ref::cell_str(gc).c_str(), ref::cell_str(gg).c_str(), ref::cell_str(m).c_str(), (a && b) ? "AGREE" : "DISAGREE");
    return (a && b) ? 0 : 1;
  }
  fprintf(stderr, "replay: unknown operation '%s'\n", name.c_str());
  return 2;
}

int main(int argc, char** argv) {
  ARGS = parse_args(argc, argv);
  sink().open(ARGS.out);
  MODE = ARGS.opt("--mode", "C01");
  if (!ARGS.replay.empty()) { MODE = "C02"; return replay_main(); }
  int depth = atoi(ARGS.opt("--depth", ARGS.thorough() ? "4" : "3").c_str());
  int max_dim = atoi(ARGS.opt("--maxdim", "2").c_str());
  int min_dim = atoi(ARGS.opt("--mindim", "0").c_str());
  MAXDIM = max_dim;
  NARROW = ARGS.has("--narrow");
  FOLLOW = ARGS.has("--followups");
  int pool_classes = atoi(ARGS.opt("--pool", ARGS.thorough() ? "60" : "36").c_str());
  int pool_sigs = atoi(ARGS.opt("--poolsigs", ARGS.thorough() ? "3" : "2").c_str());
  bool all_states = ARGS.has("--all-states");
  build_menus();
  build_ops();
  if (MODE == "C01") build_queries();
  if (ARGS.has("--light")) {
    // dimension 4: keep the descriptions, the unary predicates and the binary comparisons; the parametrised
    // queries (relations, bounds, optima, frequencies) are covered in dimensions <= 3 and their oracle is slow here
    std::vector<Query> keep;
    for (size_t i = 0; i < QS.size(); ++i) if (QS[i].name.find('(') == std::string::npos || QS[i].name.find("congruences()") != std::string::npos) keep.push_back(QS[i]);
    QS.swap(keep);
  }
  double t0 = now_s();
  phase_a(depth, min_dim, max_dim);
  double ta = now_s() - t0;
  choose_reps(all_states, pool_classes, pool_sigs, atoi(ARGS.opt("--reps-per-sig", "0").c_str()));
  fprintf(stderr, "[poly %s] phase A: depth=%d states=%zu transitions=%lld classes=%zu signatures=%zu reps=%zu pool=%zu in %.1fs\n",
          MODE.c_str(), depth, ST.size(), TRANS_A, CL.cells.size(), SIGS.size(), REPS.size(), POOL.size(), ta);
  // interleave work so that shards are balanced: item i -> REPS[i]
  Pool::Fn fn = [&](long long item, long long sub_start) {
    long long sub = 0;
    for (size_t gi = 0; gi < GROUPS[item].size(); ++gi) {
      int s = GROUPS[item][gi];
      if (MODE == "C01") { run_value_on(s, sub, sub_start); run_queries_on(s, sub, sub_start); }
      else run_ops_on(s, sub, sub_start);
      count(CNT_STATES);
    }
  };
  Pool::CrashFn cf = [&](long long item, long long sub, int sig, bool confirmed) {
    if (!confirmed) return;
    // locate the receiver and the sub-step inside the group by a dry enumeration
    long long base = 0; int s = -1; std::string nm = "?";
    for (size_t gi = 0; gi < GROUPS[item].size(); ++gi) {
      long long cnt = substep_count(GROUPS[item][gi]);
      if (sub < base + cnt) { s = GROUPS[item][gi]; nm = substep_name(s, sub - base); break; }
      base += cnt;
    }
    if (s < 0) { sink().line(J().str("t", "error").str("msg", "crash at unknown sub-step").done()); return; }
    std::string site = "Polyhedron::" + nm.substr(0, nm.find('('));
    if (nm.find(' ') != std::string::npos && nm.find('(') == std::string::npos) site = "Polyhedron::" + nm.substr(0, nm.find(' '));
    std::string trig = receiver_marked_or_semantically_empty(s) ? "receiver_empty" : "none";
    report_violation(site, std::string("crash:") + signame(sig), trig,
                     J().raw("history", hist_json(s)).str("op", nm).str("receiver_value", cellstr(ST[s].cls)).str("signature", ST[s].sig).done(),
                     signame(sig), "normal return");
  };
  if (const char* sn = getenv("VERIF_SUBNAME")) {
    long long it = atoll(sn), sb = atoll(strchr(sn, ':') + 1), base = 0;
    for (size_t gi = 0; gi < GROUPS[it].size(); ++gi) { long long cnt = substep_count(GROUPS[it][gi]); if (sb < base + cnt) { printf("%s on %s\n", substep_name(GROUPS[it][gi], sb - base).c_str(), hist_json(GROUPS[it][gi]).c_str()); break; } base += cnt; }
    return 0;
  }
  limit_memory(6ULL << 30);
  if (getenv("VERIF_PROFILE")) pool().at_worker_exit = []() { for (auto& kv : PROF) fprintf(stderr, "PROF %-40s %8.3f %8ld\n", kv.first.c_str(), kv.second.first, kv.second.second); };
  pool().run((long long)GROUPS.size(), ARGS.jobs, fn, cf, ARGS, 60);
  bool complete = counter(CNT_SKIPPED) == 0 && counter(CNT_REFCRASH) == 0;
  std::vector<std::string> samples;
  for (size_t i = 0; i < REPS.size(); i += std::max<size_t>(1, REPS.size() / 3)) samples.push_back(hist_json(REPS[i]));
  std::vector<std::string> sigs; for (auto& s : SIGS) sigs.push_back(jstr(s));
  J extra; extra.num("phaseA_states", ST.size()).num("phaseA_transitions", TRANS_A).num("value_classes_phaseA", CL.cells.size())
    .num("representatives", REPS.size()).num("operand_pool", POOL.size()).num("ops", OPS.size()).num("queries", QS.size())
    .num("oracle_comparisons", counter(CNT_CHECKS)).num("items_skipped_by_deadline", counter(CNT_SKIPPED)).num("cases_skipped_oracle_resource_limit", counter(CNT_REFCRASH)).arr("signatures_reached", sigs);
  J st; st.str("t", "stats").num("states", ST.size()).num("transitions", TRANS_A + counter(CNT_TRANS))
    .num("traces_validated_against_impl", TRANS_A + counter(CNT_TRANS)).boolean("exhaustive", complete)
    .str("bound", "phase A depth " + std::to_string(depth) + ", " + std::to_string(min_dim) + "<=dim<=" + std::to_string(max_dim) + (all_states ? ", all states" : ", one representative per (value class, signature)") + (NARROW ? ", narrow builder alphabet" : "") + (FOLLOW ? ", 4 follow-up builders on every transformer result" : ""))
    .arr("samples", samples).raw("extra", extra.done()).dbl("wall_s", now_s() - t0);
  sink().line(st.done());
  return 0;
}

// C14 part 1 driver + menus of the powerset and of the two solvers.
//   item = (class, state), sub-step = ill-formed call.  See harness/c14_rej.hh for the oracle.
#include "harness/c14_rej.hh"

using namespace vf;

namespace c14r {

std::vector<Runner>& runners() { static std::vector<Runner> v; return v; }
void register_simple_domains();

static const Variable A(0), B(1), C(2), D(3);
typedef Pointset_Powerset<C_Polyhedron> PS;
#define IA "invalid_argument"
#define LE "length_error"
#define N (x.space_dimension())

// ---- powerset ---------------------------------------------------------------------------------
template <> struct Obs<PS> {
  static bool same(const PS& x, const PS& y, std::string& why) {
    if (x.space_dimension() != y.space_dimension()) { why = "space dimension"; return false; }
    int n = x.space_dimension();
    ref::USet ux, uy;
    for (PS::const_iterator i = x.begin(); i != x.end(); ++i) { C_Polyhedron a(i->pointset()); ux.push_back(vf::cell_of(a.constraints(), n)); }
    for (PS::const_iterator j = y.begin(); j != y.end(); ++j) { C_Polyhedron b(j->pointset()); uy.push_back(vf::cell_of(b.constraints(), n)); }
    bool eq; { vf::RefGuard guard; eq = ref::equal(ux, uy); }
    if (!eq) { why = "unions of disjuncts differ (" + std::to_string(ux.size()) + " vs " + std::to_string(uy.size()) + " disjuncts)"; return false; }
    return true;
  }
  static void follow(PS& x) { if (x.space_dimension() > 0) { x.add_constraint(A <= 1); x.affine_image(A, A + 1); } x.omega_reduce(); }
};
static C_Polyhedron bx(long a0, long a1, long b0, long b1) { C_Polyhedron p(2); p.add_constraint(A >= a0); p.add_constraint(A <= a1); p.add_constraint(B >= b0); p.add_constraint(B <= b1); return p; }
static void powerset_menu(Menu<PS>& m) {
  m.cls = "Pointset_Powerset";
  m.state("empty0", [] { return PS(0, EMPTY); });
  m.state("universe0", [] { return PS(0); });
  m.state("empty2", [] { return PS(2, EMPTY); });
  m.state("universe2", [] { return PS(2); });
  m.state("one_box2", [] { PS x(2, EMPTY); x.add_disjunct(bx(0, 2, 0, 2)); return x; });
  m.state("three_boxes2_unreduced", [] { PS x(2, EMPTY); x.add_disjunct(bx(0, 2, 0, 2)); x.add_disjunct(bx(1, 3, 1, 3)); x.add_disjunct(bx(0, 1, 0, 1)); return x; });
  m.state("three_boxes2_omega_reduced", [] { PS x(2, EMPTY); x.add_disjunct(bx(0, 2, 0, 2)); x.add_disjunct(bx(1, 3, 1, 3)); x.add_disjunct(bx(0, 1, 0, 1)); x.omega_reduce(); return x; });
  m.state("two_disjuncts_minimized2", [] { PS x(2, EMPTY); C_Polyhedron p = bx(0, 2, 0, 2), q(2); q.add_constraint(A >= 5); (void) p.minimized_generators(); (void) q.minimized_generators(); x.add_disjunct(p); x.add_disjunct(q); return x; });
  m.state("from_generators3", [] { C_Polyhedron p(3, EMPTY); p.add_generator(point(A)); p.add_generator(point(B + C, 2)); PS x(3, EMPTY); x.add_disjunct(p); return x; });
  m.state("pairwise_reduced2", [] { PS x(2, EMPTY); x.add_disjunct(bx(0, 2, 0, 2)); x.add_disjunct(bx(2, 4, 0, 2)); x.add_disjunct(bx(7, 8, 7, 8)); x.pairwise_reduce(); return x; });
  std::function<bool(const PS&)> d1 = [](const PS& x) { return x.space_dimension() >= 1; };
  std::function<bool(const PS&)> d2 = [](const PS& x) { return x.space_dimension() >= 2; };
  m.call("add_disjunct", "disjunct_dimension_differs", IA, [](PS& x, Rej& rj) { OPND(C_Polyhedron, p, (N + 1)); rj.attempt([&] { x.add_disjunct(p); }); OPCHK(p); });
  m.call("add_constraint", "constraint_dimension_exceeds", IA, [](PS& x, Rej& rj) { OPND(Constraint, c, (le_dim(N + 1) >= 0)); rj.attempt([&] { x.add_constraint(c); }); OPCHK(c); }, false, [](const PS& x) { return x.size() > 0; });
  m.call("add_constraint", "strict_inequality_on_C_polyhedron", IA, [](PS& x, Rej& rj) { OPND(Constraint, c, (A > 0)); rj.attempt([&] { x.add_constraint(c); }); OPCHK(c); }, false, [](const PS& x) { return x.size() > 0 && x.space_dimension() >= 1; });
  m.call("add_constraints", "constraint_system_dimension_exceeds", IA, [](PS& x, Rej& rj) { OPND(Constraint_System, cs, (le_dim(N + 1) >= 0)); rj.attempt([&] { x.add_constraints(cs); }); OPCHK(cs); }, false, [](const PS& x) { return x.size() > 0; });
  m.call("refine_with_constraint", "constraint_dimension_exceeds", IA, [](PS& x, Rej& rj) { OPND(Constraint, c, (le_dim(N + 1) >= 0)); rj.attempt([&] { x.refine_with_constraint(c); }); OPCHK(c); }, false, [](const PS& x) { return x.size() > 0; });
  m.call("add_congruence", "proper_congruence", IA, [](PS& x, Rej& rj) { OPND(Congruence, c, ((A %= 1) / 2)); rj.attempt([&] { x.add_congruence(c); }); OPCHK(c); }, false, [](const PS& x) { return x.size() > 0 && x.space_dimension() >= 1; });
  std::function<bool(const PS&)> nonempty = [](const PS& x) { return x.size() > 0; };
  std::function<bool(const PS&)> nonempty1 = [](const PS& x) { return x.size() > 0 && x.space_dimension() >= 1; };
  cs_variants<PS>(m, "add_constraints", "constraint_system_dimension_exceeds", IA, CK_DIM, [](PS& x, const Constraint_System& cs) { x.add_constraints(cs); }, nonempty);
  cs_variants<PS>(m, "refine_with_constraints", "constraint_system_dimension_exceeds", IA, CK_DIM, [](PS& x, const Constraint_System& cs) { x.refine_with_constraints(cs); }, nonempty);
  cs_variants<PS>(m, "add_constraints", "strict_inequality_on_C_polyhedron", IA, CK_STRICT, [](PS& x, const Constraint_System& cs) { x.add_constraints(cs); }, nonempty1);
  cgs_variants<PS>(m, "add_congruences", "proper_congruence", IA, GGK_PROPER, [](PS& x, const Congruence_System& cgs) { x.add_congruences(cgs); }, nonempty1);
#define PSY(method, stmt) m.call(method, "operand_dimension_differs", IA, [](PS& x, Rej& rj) { OPND(PS, y, (N + 1)); rj.attempt([&] { stmt; }); OPCHK(y); })
  PSY("difference_assign", x.difference_assign(y));
  PSY("geometrically_covers", (void) x.geometrically_covers(y)); PSY("geometrically_equals", (void) x.geometrically_equals(y));
  PSY("contains", (void) x.contains(y)); PSY("strictly_contains", (void) x.strictly_contains(y)); PSY("is_disjoint_from", (void) x.is_disjoint_from(y));
  PSY("simplify_using_context_assign", (void) x.simplify_using_context_assign(y));
  PSY("BHZ03_widening_assign", x.BHZ03_widening_assign<BHRZ03_Certificate>(y, widen_fun_ref(&Polyhedron::H79_widening_assign)));
  PSY("BGP99_extrapolation_assign", x.BGP99_extrapolation_assign(y, widen_fun_ref(&Polyhedron::H79_widening_assign), 3));
  m.call("affine_image", "variable_not_a_dimension", IA, [](PS& x, Rej& rj) { OPND(Linear_Expression, e, (Linear_Expression(1))); rj.attempt([&] { x.affine_image(Variable(N), e); }); OPCHK(e); }, false, [](const PS& x) { return x.size() > 0; });
  m.call("affine_image", "zero_denominator", IA, [](PS& x, Rej& rj) { OPND(Linear_Expression, e, (A + 1)); rj.attempt([&] { x.affine_image(A, e, Coefficient(0)); }); OPCHK(e); }, false, [](const PS& x) { return x.size() > 0 && x.space_dimension() >= 1; });
  m.call("affine_preimage", "expression_dimension_exceeds", IA, [](PS& x, Rej& rj) { OPND(Linear_Expression, e, (le_dim(N + 1))); rj.attempt([&] { x.affine_preimage(A, e); }); OPCHK(e); }, false, [](const PS& x) { return x.size() > 0 && x.space_dimension() >= 1; });
  m.call("generalized_affine_image(var)", "strict_relsym_on_closed_domain", IA, [](PS& x, Rej& rj) { OPND(Linear_Expression, e, (A + 1)); rj.attempt([&] { x.generalized_affine_image(A, LESS_THAN, e); }); OPCHK(e); }, false, [](const PS& x) { return x.size() > 0 && x.space_dimension() >= 1; });
  m.call("generalized_affine_image(var)", "relsym_NOT_EQUAL", IA, [](PS& x, Rej& rj) { OPND(Linear_Expression, e, (A + 1)); rj.attempt([&] { x.generalized_affine_image(A, NOT_EQUAL, e); }); OPCHK(e); }, false, [](const PS& x) { return x.size() > 0 && x.space_dimension() >= 1; });
  m.call("bounded_affine_image", "zero_denominator", IA, [](PS& x, Rej& rj) { OPND(Linear_Expression, e, (A + 1)); rj.attempt([&] { x.bounded_affine_image(A, e, e, Coefficient(0)); }); OPCHK(e); }, false, [](const PS& x) { return x.size() > 0 && x.space_dimension() >= 1; });
  m.call("unconstrain(Variable)", "variable_not_a_dimension", IA, [](PS& x, Rej& rj) { rj.attempt([&] { x.unconstrain(Variable(N)); }); }, false, [](const PS& x) { return x.size() > 0; });
  m.call("remove_space_dimensions", "variable_not_a_dimension", IA, [](PS& x, Rej& rj) { Variables_Set vs = vset(N); rj.attempt([&] { x.remove_space_dimensions(vs); }); });
  m.call("remove_higher_space_dimensions", "new_dimension_greater", IA, [](PS& x, Rej& rj) { rj.attempt([&] { x.remove_higher_space_dimensions(N + 1); }); });
  m.call("expand_space_dimension", "variable_not_a_dimension", IA, [](PS& x, Rej& rj) { rj.attempt([&] { x.expand_space_dimension(Variable(N), 1); }); }, false, [](const PS& x) { return x.size() > 0; });
  m.call("fold_space_dimensions", "destination_among_folded", IA, [](PS& x, Rej& rj) { Variables_Set vs = vset(0, 1); rj.attempt([&] { x.fold_space_dimensions(vs, B); }); }, false, [](const PS& x) { return x.size() > 0 && x.space_dimension() >= 2; });
  m.call("maximize", "expression_dimension_exceeds", IA, [](PS& x, Rej& rj) { OPND(Linear_Expression, e, (le_dim(N + 1))); Coefficient n, d; bool mx; rj.attempt([&] { (void) x.maximize(e, n, d, mx); }); OPCHK(e); }, false, [](const PS& x) { return x.size() > 0; });
  m.call("relation_with(Constraint)", "constraint_dimension_exceeds", IA, [](PS& x, Rej& rj) { OPND(Constraint, c, (le_dim(N + 1) >= 0)); rj.attempt([&] { (void) x.relation_with(c); }); OPCHK(c); }, false, [](const PS& x) { return x.size() > 0; });
  (void) d2;
}

// ---- MIP ------------------------------------------------------------------------------------
static std::string mip_text(const MIP_Problem& m) {
  using namespace IO_Operators;
  std::ostringstream s;
  s << "dim " << m.space_dimension() << " int {";
  for (Variables_Set::const_iterator i = m.integer_space_dimensions().begin(); i != m.integer_space_dimensions().end(); ++i) s << *i << " ";
  s << "} obj " << m.objective_function() << " mode " << (m.optimization_mode() == MAXIMIZATION ? "max" : "min") << " cs";
  for (MIP_Problem::const_iterator i = m.constraints_begin(); i != m.constraints_end(); ++i) s << " [" << *i << "]";
  return s.str();
}
template <> struct Obs<MIP_Problem> {
  static bool same(const MIP_Problem& x, const MIP_Problem& y, std::string& why) {
    std::string a = mip_text(x), b = mip_text(y);
    if (a != b) { why = a + " vs " + b; return false; }
    // and they solve alike
    MIP_Problem xc(x), yc(y);
    MIP_Problem_Status sx = xc.solve(), sy = yc.solve();
    if (sx != sy) { why = "solve() status differs"; return false; }
    if (sx == OPTIMIZED_MIP_PROBLEM) {
      Coefficient n1, d1, n2, d2; xc.optimal_value(n1, d1); yc.optimal_value(n2, d2);
      if (n1 * d2 != n2 * d1) { why = "optimal value differs"; return false; }
    }
    return true;
  }
  static void follow(MIP_Problem& x) { if (x.space_dimension() > 0) x.add_constraint(A <= 100); (void) x.solve(); }
};
static void mip_menu(Menu<MIP_Problem>& m) {
  typedef MIP_Problem T;
  m.cls = "MIP_Problem";
  auto base = [] { MIP_Problem p(2); p.add_constraint(A >= 0); p.add_constraint(B >= 0); p.add_constraint(A + 2 * B <= 6); p.add_constraint(3 * A + B <= 9); p.set_objective_function(A + B); return p; };
  m.state("dim0", [] { return MIP_Problem(0); });
  m.state("dim3_no_constraints", [] { return MIP_Problem(3); });
  m.state("lp2_unsolved", base);
  m.state("lp2_solved", [base] { MIP_Problem p = base(); (void) p.solve(); return p; });
  m.state("lp2_satisfiable_only", [base] { MIP_Problem p = base(); (void) p.is_satisfiable(); return p; });
  m.state("mip2_unsolved", [base] { MIP_Problem p = base(); p.add_to_integer_space_dimensions(vset(0)); return p; });
  m.state("mip2_solved", [base] { MIP_Problem p = base(); p.add_to_integer_space_dimensions(vset(0, 1)); (void) p.solve(); return p; });
  m.state("lp2_solved_then_pending_constraint", [base] { MIP_Problem p = base(); (void) p.solve(); p.add_constraint(A <= 2); return p; });
  m.state("unfeasible2_unsolved", [] { MIP_Problem p(2); p.add_constraint(A >= 1); p.add_constraint(A <= 0); p.set_objective_function(A); return p; });
  m.state("unfeasible2_solved", [] { MIP_Problem p(2); p.add_constraint(A >= 1); p.add_constraint(A <= 0); p.set_objective_function(A); (void) p.solve(); return p; });
  m.state("unbounded2_unsolved", [] { MIP_Problem p(2); p.add_constraint(A >= 1); p.add_constraint(B >= A); p.set_objective_function(A + B); return p; });
  m.state("unbounded2_solved", [] { MIP_Problem p(2); p.add_constraint(A >= 1); p.add_constraint(B >= A); p.set_objective_function(A + B); (void) p.solve(); return p; });
  m.state("minimization2", [base] { MIP_Problem p = base(); p.set_optimization_mode(MINIMIZATION); p.set_objective_function(A - B); return p; });
  auto unfeasible = [](const T& x) { T c(x); return !c.is_satisfiable(); };
  auto not_optimizable = [](const T& x) { T c(x); return c.solve() != OPTIMIZED_MIP_PROBLEM; };
  std::function<bool(const T&)> d1 = [](const T& x) { return x.space_dimension() >= 1; };
  m.call("MIP_Problem(dimension)", "space_dimension_exceeds_maximum", LE, [](T& x, Rej& rj) { (void) x; rj.attempt([&] { MIP_Problem y(MIP_Problem::max_space_dimension() + 1); (void) y; }); });
  m.call("MIP_Problem(dim,cs,obj,mode)", "constraint_system_dimension_exceeds", IA, [](T& x, Rej& rj) { (void) x; OPND(Constraint_System, cs, (A + C >= 0)); rj.attempt([&] { MIP_Problem y(2, cs); (void) y; }); OPCHK(cs); });
  m.call("MIP_Problem(dim,cs,obj,mode)", "strict_inequality", IA, [](T& x, Rej& rj) { (void) x; OPND(Constraint_System, cs, (A > 0)); rj.attempt([&] { MIP_Problem y(2, cs); (void) y; }); OPCHK(cs); });
  m.call("MIP_Problem(dim,cs,obj,mode)", "objective_dimension_exceeds", IA, [](T& x, Rej& rj) { (void) x; OPND(Constraint_System, cs, (A >= 0)); OPND(Linear_Expression, e, (A + D)); rj.attempt([&] { MIP_Problem y(2, cs, e); (void) y; }); OPCHK(cs); OPCHK(e); });
  m.call("MIP_Problem(dim,first,last,int_vars,obj,mode)", "integer_variable_not_a_dimension", IA, [](T& x, Rej& rj) { (void) x; Constraint_System cs(A >= 0); Variables_Set iv = vset(5); rj.attempt([&] { MIP_Problem y(2, cs.begin(), cs.end(), iv); (void) y; }); });
  m.call("add_space_dimensions_and_embed", "space_dimension_overflow", LE, [](T& x, Rej& rj) { rj.attempt([&] { x.add_space_dimensions_and_embed(MIP_Problem::max_space_dimension()); }); }, false, d1);
  m.call("add_to_integer_space_dimensions", "variable_not_a_dimension", IA, [](T& x, Rej& rj) { Variables_Set iv = vset(N); rj.attempt([&] { x.add_to_integer_space_dimensions(iv); }); });
  m.call("add_to_integer_space_dimensions", "one_of_two_variables_not_a_dimension", IA, [](T& x, Rej& rj) { Variables_Set iv = vset(0, N + 2); rj.attempt([&] { x.add_to_integer_space_dimensions(iv); }); }, false, d1);
  m.call("add_constraint", "constraint_dimension_exceeds", IA, [](T& x, Rej& rj) { OPND(Constraint, c, (le_dim(N + 1) >= 0)); rj.attempt([&] { x.add_constraint(c); }); OPCHK(c); });
  m.call("add_constraint", "strict_inequality", IA, [](T& x, Rej& rj) { OPND(Constraint, c, (A > 0)); rj.attempt([&] { x.add_constraint(c); }); OPCHK(c); }, false, d1);
  m.call("add_constraints", "constraint_system_dimension_exceeds", IA, [](T& x, Rej& rj) { Constraint_System cs; cs.insert(A >= 0); cs.insert(le_dim(N + 1) >= 0); rj.attempt([&] { x.add_constraints(cs); }); }, false, d1);
  m.call("add_constraints", "strict_inequality_after_valid_constraint", IA, [](T& x, Rej& rj) { Constraint_System cs; cs.insert(A <= 50); cs.insert(A > 0); rj.attempt([&] { x.add_constraints(cs); }); }, false, d1);
  cs_variants<T>(m, "add_constraints", "strict_inequality", IA, CK_STRICT, [](T& x, const Constraint_System& cs) { x.add_constraints(cs); }, d1);
  cs_variants<T>(m, "add_constraints", "constraint_system_dimension_exceeds", IA, CK_DIM, [](T& x, const Constraint_System& cs) { x.add_constraints(cs); });
  cs_variants<T>(m, "MIP_Problem(dim,cs,obj,mode)", "strict_inequality", IA, CK_STRICT, [](T& x, const Constraint_System& cs) { MIP_Problem y(std::max<dimension_type>(x.space_dimension(), 1), cs); (void) y; });
  cs_variants<T>(m, "MIP_Problem(dim,cs,obj,mode)", "constraint_system_dimension_exceeds", IA, CK_DIM, [](T& x, const Constraint_System& cs) { MIP_Problem y(x.space_dimension(), cs); (void) y; });
  cs_variants<T>(m, "MIP_Problem(dim,first,last,obj,mode)", "strict_inequality", IA, CK_STRICT, [](T& x, const Constraint_System& cs) { MIP_Problem y(std::max<dimension_type>(x.space_dimension(), 1), cs.begin(), cs.end()); (void) y; });
  m.call("set_objective_function", "objective_dimension_exceeds", IA, [](T& x, Rej& rj) { OPND(Linear_Expression, e, (le_dim(N + 1))); rj.attempt([&] { x.set_objective_function(e); }); OPCHK(e); });
  m.call("evaluate_objective_function", "generator_dimension_exceeds", IA, [](T& x, Rej& rj) { OPND(Generator, g, (point(le_dim(N + 1)))); Coefficient n, d; rj.attempt([&] { x.evaluate_objective_function(g, n, d); }); OPCHK(g); });
  m.call("evaluate_objective_function", "generator_is_a_ray", IA, [](T& x, Rej& rj) { OPND(Generator, g, (ray(A))); Coefficient n, d; rj.attempt([&] { x.evaluate_objective_function(g, n, d); }); OPCHK(g); }, false, d1);
  // queries on problems without the requested point: they solve first (lazy), then reject
  m.call("feasible_point", "problem_unfeasible", "domain_error", [](T& x, Rej& rj) { rj.attempt([&] { (void) x.feasible_point(); }); }, true, unfeasible);
  m.call("optimizing_point", "problem_unfeasible_or_unbounded", "domain_error", [](T& x, Rej& rj) { rj.attempt([&] { (void) x.optimizing_point(); }); }, true, not_optimizable);
  m.call("optimal_value", "problem_unfeasible_or_unbounded", "domain_error", [](T& x, Rej& rj) { Coefficient n, d; rj.attempt([&] { x.optimal_value(n, d); }); }, true, not_optimizable);
}

// ---- PIP ------------------------------------------------------------------------------------
static std::string pip_text(const PIP_Problem& p) {
  using namespace IO_Operators;
  std::ostringstream s;
  s << "dim " << p.space_dimension() << " params {";
  for (Variables_Set::const_iterator i = p.parameter_space_dimensions().begin(); i != p.parameter_space_dimensions().end(); ++i) s << *i << " ";
  s << "} big " << (long)p.get_big_parameter_dimension() << " cut " << (int)p.get_control_parameter(PIP_Problem::CUTTING_STRATEGY) << " piv " << (int)p.get_control_parameter(PIP_Problem::PIVOT_ROW_STRATEGY) << " cs";
  for (PIP_Problem::const_iterator i = p.constraints_begin(); i != p.constraints_end(); ++i) s << " [" << *i << "]";
  return s.str();
}
template <> struct Obs<PIP_Problem> {
  static bool same(const PIP_Problem& x, const PIP_Problem& y, std::string& why) {
    std::string a = pip_text(x), b = pip_text(y);
    if (a != b) { why = a + " vs " + b; return false; }
    PIP_Problem xc(x), yc(y);
    if (xc.solve() != yc.solve()) { why = "solve() status differs"; return false; }
    std::ostringstream s1, s2; xc.print_solution(s1); yc.print_solution(s2);
    if (s1.str() != s2.str()) { why = "solution trees differ"; return false; }
    return true;
  }
  static void follow(PIP_Problem& x) { if (x.space_dimension() > 0) x.add_constraint(A <= 100); (void) x.solve(); }
};
static void pip_menu(Menu<PIP_Problem>& m) {
  typedef PIP_Problem T;
  m.cls = "PIP_Problem";
  auto base = [] { PIP_Problem p(3); p.add_to_parameter_space_dimensions(vset(2)); p.add_constraint(A >= 0); p.add_constraint(B >= 0); p.add_constraint(A + B <= C); p.add_constraint(2 * A >= C - 3); return p; };
  m.state("dim0", [] { return PIP_Problem(0); });
  m.state("dim2_no_constraints", [] { return PIP_Problem(2); });
  m.state("pip3_unsolved", base);
  m.state("pip3_solved", [base] { PIP_Problem p = base(); (void) p.solve(); return p; });
  m.state("pip3_solved_then_pending_constraint", [base] { PIP_Problem p = base(); (void) p.solve(); p.add_constraint(B <= 4); return p; });
  m.state("pip3_big_parameter", [base] { PIP_Problem p = base(); p.set_big_parameter_dimension(2); return p; });
  m.state("pip2_no_parameters_solved", [] { PIP_Problem p(2); p.add_constraint(2 * A + B >= 3); p.add_constraint(B >= A); (void) p.solve(); return p; });
  m.state("unfeasible2_unsolved", [] { PIP_Problem p(2); p.add_to_parameter_space_dimensions(vset(1)); p.add_constraint(A >= B + 1); p.add_constraint(A <= B); return p; });
  m.state("unfeasible2_solved", [] { PIP_Problem p(2); p.add_to_parameter_space_dimensions(vset(1)); p.add_constraint(A >= B + 1); p.add_constraint(A <= B); (void) p.solve(); return p; });
  m.state("control_parameters_changed", [base] { PIP_Problem p = base(); p.set_control_parameter(PIP_Problem::CUTTING_STRATEGY_ALL); p.set_control_parameter(PIP_Problem::PIVOT_ROW_STRATEGY_MAX_COLUMN); return p; });
  std::function<bool(const T&)> d1 = [](const T& x) { return x.space_dimension() >= 1; };
  m.call("PIP_Problem(dimension)", "space_dimension_exceeds_maximum", LE, [](T& x, Rej& rj) { (void) x; rj.attempt([&] { PIP_Problem y(PIP_Problem::max_space_dimension() + 1); (void) y; }); });
  m.call("PIP_Problem(dim,first,last,p_vars)", "constraint_dimension_exceeds", IA, [](T& x, Rej& rj) { (void) x; Constraint_System cs(A + C >= 0); Variables_Set pv; rj.attempt([&] { PIP_Problem y(2, cs.begin(), cs.end(), pv); (void) y; }); });
  m.call("PIP_Problem(dim,first,last,p_vars)", "parameter_not_a_dimension", IA, [](T& x, Rej& rj) { (void) x; Constraint_System cs(A >= 0); Variables_Set pv = vset(4); rj.attempt([&] { PIP_Problem y(2, cs.begin(), cs.end(), pv); (void) y; }); });
  m.call("add_space_dimensions_and_embed", "space_dimension_overflow", LE, [](T& x, Rej& rj) { rj.attempt([&] { x.add_space_dimensions_and_embed(PIP_Problem::max_space_dimension(), 0); }); }, false, d1);
  m.call("add_space_dimensions_and_embed", "space_dimension_overflow_by_parameters", LE, [](T& x, Rej& rj) { rj.attempt([&] { x.add_space_dimensions_and_embed(1, PIP_Problem::max_space_dimension()); }); });
  m.call("add_to_parameter_space_dimensions", "variable_not_a_dimension", IA, [](T& x, Rej& rj) { Variables_Set pv = vset(N); rj.attempt([&] { x.add_to_parameter_space_dimensions(pv); }); });
  m.call("add_constraint", "constraint_dimension_exceeds", IA, [](T& x, Rej& rj) { OPND(Constraint, c, (le_dim(N + 1) >= 0)); rj.attempt([&] { x.add_constraint(c); }); OPCHK(c); });
  m.call("add_constraints", "constraint_system_dimension_exceeds", IA, [](T& x, Rej& rj) { Constraint_System cs; cs.insert(A >= 0); cs.insert(le_dim(N + 1) >= 0); rj.attempt([&] { x.add_constraints(cs); }); }, false, d1);
  cs_variants<T>(m, "add_constraints", "constraint_system_dimension_exceeds", IA, CK_DIM, [](T& x, const Constraint_System& cs) { x.add_constraints(cs); });
  cs_variants<T>(m, "PIP_Problem(dim,first,last,p_vars)", "constraint_dimension_exceeds", IA, CK_DIM, [](T& x, const Constraint_System& cs) { Variables_Set pv; PIP_Problem y(x.space_dimension(), cs.begin(), cs.end(), pv); (void) y; });
  m.call("set_big_parameter_dimension", "dimension_is_not_a_parameter", IA, [](T& x, Rej& rj) { rj.attempt([&] { x.set_big_parameter_dimension(0); }); }, false, [](const T& x) { return x.space_dimension() >= 1 && x.parameter_space_dimensions().count(0) == 0; });
  m.call("set_big_parameter_dimension", "dimension_exceeds", IA, [](T& x, Rej& rj) { rj.attempt([&] { x.set_big_parameter_dimension(N + 3); }); });
}

// note: every powerset call is treated as lazy (omega-reduction happens lazily inside const members)
static Menu<PS> M_PS; static Menu<MIP_Problem> M_MIP; static Menu<PIP_Problem> M_PIP;

} // namespace c14r
using namespace c14r;

enum { CNT_CASES = CNT_USER, CNT_THREW, CNT_NA };

static std::string json_field(const std::string& txt, const std::string& key) {
  size_t p = txt.find("\"" + key + "\"");
  if (p == std::string::npos) return "";
  p = txt.find(':', p); if (p == std::string::npos) return "";
  ++p; while (p < txt.size() && txt[p] == ' ') ++p;
  if (txt[p] == '"') { size_t e = txt.find('"', p + 1); return txt.substr(p + 1, e - p - 1); }
  size_t e = p; while (e < txt.size() && txt[e] != ',' && txt[e] != '}' && txt[e] != '\n') ++e;
  return txt.substr(p, e - p);
}

int main(int argc, char** argv) {
  Args ARGS = parse_args(argc, argv);
  sink().open(ARGS.out);
  double t0 = now_s();
  register_simple_domains();
  powerset_menu(M_PS); for (size_t i = 0; i < M_PS.calls.size(); ++i) M_PS.calls[i].lazy = true; runners().push_back(make_runner(&M_PS));
  mip_menu(M_MIP); runners().push_back(make_runner(&M_MIP));
  pip_menu(M_PIP); runners().push_back(make_runner(&M_PIP));
  std::vector<Runner>& R = runners();
  std::string only = ARGS.opt("--only", "");

  struct It { size_t r, s; };
  std::vector<It> items;
  size_t total_calls = 0, total_states = 0;
  for (size_t r = 0; r < R.size(); ++r) {
    if (!only.empty() && R[r].cls.find(only) == std::string::npos) continue;
    total_calls += R[r].ncalls; total_states += R[r].nstates;
    for (size_t s = 0; s < R[r].nstates; ++s) { It it; it.r = r; it.s = s; items.push_back(it); }
  }
  auto input = [&](size_t r, size_t s, size_t c) {
    J j; j.str("class", R[r].cls).str("state", R[r].state_name(s)).str("call", R[r].call_method(c)).str("ill_formed_because", R[r].call_kind(c));
    if (!R[r].call_arg_state(c).empty()) j.str("system_argument", R[r].call_arg_state(c));
    return j.str("documented_exception", "std::" + R[r].call_expect(c)).done();
  };
  auto judge = [&](size_t r, size_t s, size_t c, bool verbose) {
    Verdict v = R[r].run(s, c);
    if (!v.applicable) { count(CNT_NA); return; }
    count(CNT_CASES); if (v.threw) count(CNT_THREW);
    if (verbose) fprintf(stderr, "[c14_rej] %s / %s / %s (%s): threw=%d std::%s %s; problems=%zu\n", R[r].cls.c_str(), R[r].state_name(s).c_str(), R[r].call_method(c).c_str(),
                         R[r].call_kind(c).c_str(), v.threw, v.cls.c_str(), v.what.c_str(), v.problems.size());
    for (size_t i = 0; i < v.problems.size(); ++i) {
      if (verbose) fprintf(stderr, "   %s: %s\n", v.problems[i].first.c_str(), v.problems[i].second.c_str());
      if (v.problems[i].first == "harness") { sink().line(J().str("t", "error").str("msg", R[r].cls + "/" + R[r].state_name(s) + ": " + v.problems[i].second).done()); continue; }
      std::string key = R[r].call_method(c) + v.problems[i].first + R[r].call_kind(c);
      if (violcap().admit(key))
        report_violation(R[r].call_method(c), "rejected:" + v.problems[i].first, R[r].call_kind(c), input(r, s, c), v.problems[i].second,
                         "std::" + R[r].call_expect(c) + " thrown; receiver and operands unchanged; OK(); same follow-up result as a pristine twin",
                         v.threw ? "thrown: std::" + v.cls + ": " + v.what.substr(0, 160) : "nothing thrown");
    }
  };

  if (!ARGS.replay.empty()) {
    std::ifstream f(ARGS.replay.c_str()); std::stringstream ss; ss << f.rdbuf(); std::string txt = ss.str();
    std::string cls = json_field(txt, "class"), st = json_field(txt, "state"), call = json_field(txt, "call"), kind = json_field(txt, "ill_formed_because"), ast = json_field(txt, "system_argument");
    for (size_t r = 0; r < R.size(); ++r) if (R[r].cls == cls)
      for (size_t s = 0; s < R[r].nstates; ++s) if (R[r].state_name(s) == st)
        for (size_t c = 0; c < R[r].ncalls; ++c) if (R[r].call_method(c) == call && R[r].call_kind(c) == kind && R[r].call_arg_state(c) == ast) judge(r, s, c, true);
    return 0;
  }

  Pool::Fn fn = [&](long long item, long long sub_start) {
    const It& it = items[item];
    for (size_t c = 0; c < R[it.r].ncalls; ++c) {
      if (!pool().want(c, sub_start)) continue;
      if (ARGS.expired()) { count(CNT_SKIPPED); break; }
      pool().step(c);
      judge(it.r, it.s, c, ARGS.has("--verbose"));
    }
    count(CNT_STATES);
  };
  Pool::CrashFn cf = [&](long long item, long long sub, int sig, bool confirmed) {
    if (!confirmed) return;
    const It& it = items[item];
    report_violation(R[it.r].call_method(sub), std::string("rejected:crash:") + signame(sig), R[it.r].call_kind(sub), input(it.r, it.s, sub), signame(sig),
                     "std::" + R[it.r].call_expect(sub) + " thrown", "");
  };
  limit_memory(6ULL << 30);
  pool().run((long long)items.size(), ARGS.jobs, fn, cf, ARGS, 60);

  bool complete = counter(CNT_SKIPPED) == 0 && counter(CNT_REFCRASH) == 0;
  std::vector<std::string> samples, per;
  for (size_t r = 0; r < R.size(); ++r) {
    per.push_back(J().str("class", R[r].cls).num("states", R[r].nstates).num("ill_formed_calls", R[r].ncalls).done());
    if (R[r].nstates && R[r].ncalls) samples.push_back(input(r, R[r].nstates / 2, R[r].ncalls / 2));
  }
  J extra; extra.num("classes", R.size()).num("states", total_states).num("menu_entries", total_calls).num("cases_executed", counter(CNT_CASES))
    .num("cases_rejected_with_an_exception", counter(CNT_THREW)).num("state_call_pairs_not_applicable", counter(CNT_NA))
    .num("cases_skipped_oracle_resource_limit", counter(CNT_REFCRASH)).num("items_skipped_by_deadline", counter(CNT_SKIPPED)).arr("per_class", per);
  J st; st.str("t", "stats").num("states", total_states).num("transitions", std::max<long long>(1, counter(CNT_CASES))).num("traces_validated_against_impl", counter(CNT_CASES))
    .num("evaluations", counter(CNT_CASES)).num("distinct_nontrivial", counter(CNT_THREW)).boolean("exhaustive", complete)
    .str("bound", "every representative state x every ill-formed call of the menu, for " + std::to_string(R.size()) + " classes")
    .arr("samples", samples).raw("extra", extra.done()).dbl("wall_s", now_s() - t0);
  sink().line(st.done());
  return 0;
}

// Registry of the instantiations of harness/shapes.cc linked into one executable.
// Every wrapper TU harness/shapes.d/<name>.cc defines SHAPE_T / SHAPE_NAME and includes shapes.cc,
// which registers its entry point here; harness/shapes_main.cc dispatches on `--shape <name>`.
#ifndef VERIF_SHAPES_REG_HH
#define VERIF_SHAPES_REG_HH 1
#include <map>
#include <string>
namespace shp {
typedef int (*MainFn)(int, char**);
inline std::map<std::string, MainFn>& registry() { static std::map<std::string, MainFn> r; return r; }
struct Reg { Reg(const char* n, MainFn f) { registry()[n] = f; } };
}
#endif

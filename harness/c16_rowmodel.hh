// C16 part 1b: Sparse_Row model (included by c16_tree.cc after the CO_Tree helpers).
enum { R_INS, R_INSV, R_INSH, R_INSHV, R_IDX, R_RESET, R_RESETI, R_RESETR, R_RESETAFTER, R_DEL, R_ADDZ, R_SWAPC, R_SWAPI, R_FSWAP,
       R_RESIZE, R_CLEAR, R_COPY, R_COPYCAP, R_COPYSZ, R_ASSIGN, R_MSWAP, R_FROMDENSE, R_FROMDENSESZ, R_ASSIGNDENSE, R_SWAPDENSE, R_NORM, R_LC };
static const char* R_SITE[] = { "Sparse_Row::insert(i)", "Sparse_Row::insert(i,x)", "Sparse_Row::insert(iterator,i)", "Sparse_Row::insert(iterator,i,x)", "Sparse_Row::operator[]",
  "Sparse_Row::reset(i)", "Sparse_Row::reset(iterator)", "Sparse_Row::reset(iterator,iterator)", "Sparse_Row::reset_after", "Sparse_Row::delete_element_and_shift",
  "Sparse_Row::add_zeroes_and_shift", "Sparse_Row::swap_coefficients(i,j)", "Sparse_Row::swap_coefficients(iterator,iterator)", "Sparse_Row::fast_swap",
  "Sparse_Row::resize", "Sparse_Row::clear", "Sparse_Row::Sparse_Row(const Sparse_Row&)", "Sparse_Row::Sparse_Row(const Sparse_Row&,capacity)",
  "Sparse_Row::Sparse_Row(const Sparse_Row&,sz,capacity)", "Sparse_Row::operator=", "Sparse_Row::m_swap", "Sparse_Row::Sparse_Row(const Dense_Row&)",
  "Sparse_Row::Sparse_Row(const Dense_Row&,sz,capacity)", "Sparse_Row::operator=(const Dense_Row&)", "swap(Sparse_Row&,Dense_Row&)", "Sparse_Row::normalize", "linear_combine" };

enum { LV_MEMBER_FULL, LV_MEMBER_RANGE, LV_SD_FULL, LV_SD_RANGE, LV_COMBINE, LV_CNF, LV_CNS, LV_FREE_SS_RANGE };
static const char* LV_SITE[] = { "Sparse_Row::linear_combine(y,c1,c2)", "Sparse_Row::linear_combine(y,c1,c2,start,end)", "linear_combine(Sparse_Row&,const Dense_Row&,c1,c2)",
  "linear_combine(Sparse_Row&,const Dense_Row&,c1,c2,start,end)", "Sparse_Row::combine", "Sparse_Row::combine_needs_first", "Sparse_Row::combine_needs_second",
  "linear_combine(Sparse_Row&,const Sparse_Row&,c1,c2,start,end)" };
static const long CP[][2] = { {1, 1}, {1, -1}, {1, 2}, {2, 1}, {2, -1}, {2, 3}, {-1, 1} };
static const int NCP = 7, NPAT = 5, NPAT_NORM = 7, NY = 7;

static long patval(int pat, int rank, unsigned key) {
  switch (pat) {
    case 0: return 1;
    case 1: return -1;
    case 2: return key % 2 == 0 ? 1 : -1;
    case 3: return rank % 2 == 0 ? 2 : -2;
    case 4: return rank % 3 == 0 ? 0 : 1;
    case 5: return rank % 2 == 0 ? 4 : -6;
    case 6: return rank == 0 ? 0 : (rank % 2 ? 6 : -4);
  }
  return 1;
}
// operand rows: is key k stored, and with which value
static bool yval(int yi, unsigned k, unsigned S, long& v) {
  static const long cyc[4] = {1, -1, 2, -2};
  switch (yi) {
    case 0: return false;
    case 1: v = 1; return true;
    case 2: v = 1; return k % 2 == 0;
    case 3: v = -1; return k % 2 == 1;
    case 4: v = cyc[k % 4]; return true;
    case 5: v = 2; return k == 0 || k + 1 == S;
    case 6: v = k % 2 == 0 ? 0 : 1; return true;
  }
  return false;
}

struct F_mul { long a; void operator()(mpz_class& c) const { c *= a; } };
struct G_lin { long a, b; void operator()(mpz_class& c1, const mpz_class& c2) const { c1 *= a; c1 += c2 * b; } };
struct H_set { long b; void operator()(mpz_class& c1, const mpz_class& c2) const { c1 = c2 * b; } };
struct G_first { long a; void operator()(mpz_class& c1, const mpz_class& c2) const { c1 *= (c2 + a); } };
struct G_second { long b; void operator()(mpz_class& c1, const mpz_class& c2) const { c1 += c2 * b; } };

struct RowModel {
  int K, minsize; bool lc_light;
  struct Obj { std::unique_ptr<SRow> r; unsigned size; Map m; };
  RowModel(int k, int ms, bool light) : K(k), minsize(ms), lc_light(light) {}
  std::string bound_text() const {
    return "Sparse_Row: row sizes " + std::to_string(minsize) + ".." + std::to_string(K) + ", all distinct data; alphabet insert(i)/insert(i,x)/insert(hint,i[,x]) from every position and end(), operator[], "
      "reset(i)/reset(iterator)/reset(first,last) over every range/reset_after, delete_element_and_shift, add_zeroes_and_shift, swap_coefficients (indices and iterators), fast_swap, resize/shrink/expand, clear, "
      "copies (all constructors), m_swap, conversions from/to Dense_Row, swap with Dense_Row; data-dependent operations from every layout with " + std::to_string(NPAT) + " receiver data patterns x " + std::to_string(NY) +
      " operand rows x " + std::to_string(NCP) + " coefficient pairs: linear_combine (member, Sparse/Dense, Dense/Sparse; full" + (lc_light ? "" : " and every sub-range [start,end)") + "), combine, combine_needs_first, combine_needs_second, normalize (" +
      std::to_string(NPAT_NORM) + " patterns); observers get/operator[]/find/lower_bound (const and non-const) from every hint, operator== (Sparse/Sparse, Sparse/Dense) in every state";
  }
  void initial(Obj& o) { o.r.reset(new SRow((dim_t)K)); o.size = K; o.m.clear(); }
  std::string key(const Obj& o) const { std::string s; s.push_back((char)o.r->size_); return s + tree_key(o.r->tree); }
  std::string layout_str(const std::string& k) const { return "size=" + std::to_string((int)(unsigned char)k[0]) + " " + key_layout_str(k, 1); }
  int depth_byte() const { return 1; }
  std::string lookup_site() const { return "Sparse_Row::find/lower_bound/get"; }
  std::string site(uint32_t op) const { if (opk(op) == R_LC) return LV_SITE[(op >> 8) & 7]; return R_SITE[opk(op)]; }
  static void lc_dec(uint32_t op, int& var, int& pat, int& yi, int& cp, int& s, int& e) { uint32_t x = op >> 8; var = x & 7; pat = (x >> 3) & 7; yi = (x >> 6) & 7; cp = (x >> 9) & 7; s = (x >> 12) & 15; e = (x >> 16) & 15; }
  static uint32_t lc_enc(int var, int pat, int yi, int cp, int s, int e) { return (uint32_t)R_LC | ((uint32_t)(var | (pat << 3) | (yi << 6) | (cp << 9) | (s << 12) | (e << 16)) << 8); }
  std::string op_name(uint32_t op) const {
    int a = opa(op), b = opb(op);
    auto S = [](int x) { return std::to_string(x); };
    switch (opk(op)) {
      case R_INS: return "insert(" + S(a) + ")";
      case R_INSV: return "insert(" + S(a) + ",-7)";
      case R_INSH: return "insert(hint=#" + S(a) + "," + S(b) + ")";
      case R_INSHV: return "insert(hint=#" + S(a) + "," + S(b) + ",-7)";
      case R_IDX: return "row[" + S(a) + "]";
      case R_RESET: return "reset(" + S(a) + ")";
      case R_RESETI: return "reset(elem=#" + S(a) + ")";
      case R_RESETR: return "reset(#" + S(a) + ",#" + S(b) + ")";
      case R_RESETAFTER: return "reset_after(" + S(a) + ")";
      case R_DEL: return "delete_element_and_shift(" + S(a) + ")";
      case R_ADDZ: return "add_zeroes_and_shift(" + S(a) + "," + S(b) + ")";
      case R_SWAPC: return "swap_coefficients(" + S(a) + "," + S(b) + ")";
      case R_SWAPI: return "swap_coefficients(elem=#" + S(a) + ",elem=#" + S(b) + ")";
      case R_FSWAP: return "fast_swap(" + S(b) + ",elem=#" + S(a) + ")";
      case R_RESIZE: return std::string(b == 0 ? "resize(" : b == 1 ? "shrink(" : "expand_within_capacity(") + S(a) + ")";
      case R_CLEAR: return "clear()";
      case R_COPY: return "Sparse_Row(row)";
      case R_COPYCAP: return "Sparse_Row(row,capacity)";
      case R_COPYSZ: return "Sparse_Row(row," + S(a) + ",capacity)";
      case R_ASSIGN: return "row = operand y" + S(a);
      case R_MSWAP: return std::string(b ? "swap(row," : "m_swap(") + "operand y" + S(a) + ")";
      case R_FROMDENSE: return "Sparse_Row(Dense_Row(row))";
      case R_FROMDENSESZ: return "Sparse_Row(Dense_Row(row)," + S(a) + ",capacity)";
      case R_ASSIGNDENSE: return "row = dense operand y" + S(a);
      case R_SWAPDENSE: return "swap(row, dense operand y" + S(a) + ")";
      case R_NORM: return "data pattern p" + S(a) + "; normalize()";
      case R_LC: { int var, pat, yi, cp, s, e; lc_dec(op, var, pat, yi, cp, s, e);
        std::string r = "data pattern p" + S(pat) + "; " + LV_SITE[var] + " with operand y" + S(yi) + ", c1=" + S((int)CP[cp][0]) + ", c2=" + S((int)CP[cp][1]);
        if (var == LV_MEMBER_RANGE || var == LV_SD_RANGE || var == LV_FREE_SS_RANGE) r += ", start=" + S(s) + ", end=" + S(e);
        return r; }
    }
    return "?";
  }

  // operand cache: const operands are re-used as long as every check finds them unchanged
  struct Operand { std::unique_ptr<SRow> ys; Map ym; std::unique_ptr<DRow> yd; std::vector<long> yv; };
  std::map<std::pair<unsigned, int>, Operand> opcache;
  Operand& operand(unsigned S, int yi) {
    Operand& o = opcache[std::make_pair(S, yi)];
    if (!o.ys) {
      o.ys.reset(make_y(S, yi)); o.ym = y_map(S, yi); o.yd.reset(new DRow((dim_t)S)); fill_dense(*o.yd, S, yi);
      o.yv.assign(S, 0); for (unsigned k = 0; k < S; ++k) { long v; if (yval(yi, k, S, v)) o.yv[k] = v; }
    }
    return o;
  }
  static SRow* make_y(unsigned S, int yi) {
    SRow* y = new SRow((dim_t)S);
    for (unsigned k = 0; k < S; ++k) { long v; if (yval(yi, k, S, v)) y->insert((dim_t)k, mpz_class(v)); }
    return y;
  }
  static Map y_map(unsigned S, int yi) { Map m; for (unsigned k = 0; k < S; ++k) { long v; if (yval(yi, k, S, v)) m[k] = v; } return m; }
  static void fill_dense(DRow& d, unsigned S, int yi) { for (unsigned k = 0; k < S; ++k) { long v; d[k] = yval(yi, k, S, v) ? v : 0; } }

  // structural + content check of a row
  static std::string check_row(SRow& r, unsigned size, const Map& m, std::string& ob, std::string& ex) {
    if (!r.OK()) { ob = tree_dump(r.tree); ex = map_str(m); return "invariant:Sparse_Row::OK()"; }
    if (r.size() != size) { ob = std::to_string(r.size()); ex = std::to_string(size); return "row:size"; }
    std::string cl = check_tree(r.tree, m, ob, ex);
    if (!cl.empty()) return cl;
    if (!m.empty() && m.rbegin()->first >= size) return "invariant:stored-index>=size";
    if (r.num_stored_elements() != m.size()) return "row:num_stored_elements";
    const SRow& cr = r;
    Map::const_iterator e = m.begin();
    for (SRow::const_iterator i = cr.begin(), ie = cr.end(); i != ie; ++i, ++e) if (e == m.end() || i.index() != e->first || *i != e->second) return "iteration:row!=reference";
    if (e != m.end()) return "iteration:row!=reference";
    for (unsigned i = 0; i < size; ++i) {
      Map::const_iterator mi = m.find(i);
      const mpz_class& g = cr.get(i);
      if (mi == m.end() ? g != 0 : g != mi->second) { ob = "get(" + std::to_string(i) + ")=" + zs(g); return "get:unstored-must-read-zero-or-stored-value"; }
    }
    return "";
  }

  bool clone(const Obj& b, Obj& w, Fail* f) {
    w.r.reset(new SRow(*b.r)); w.size = b.size; w.m = b.m;
    if (key(w) != key(b)) { f->put("Sparse_Row::Sparse_Row(const Sparse_Row&)", "copy:layout-differs", tree_dump(w.r->tree), tree_dump(b.r->tree)); return false; }
    return true;
  }
  static void set_pattern(Obj& o, int pat) {
    int rank = 0;
    for (SRow::iterator i = o.r->begin(), e = o.r->end(); i != e; ++i, ++rank) *i = patval(pat, rank, i.index());
    rank = 0;
    for (Map::iterator i = o.m.begin(); i != o.m.end(); ++i, ++rank) i->second = patval(pat, rank, i->first);
  }
  void canon(Obj& o) {
    for (SRow::iterator i = o.r->begin(), e = o.r->end(); i != e; ++i) *i = (long)i.index() + 1;
    for (Map::iterator i = o.m.begin(); i != o.m.end(); ++i) i->second = (long)i->first + 1;
  }
  static SRow::iterator rnth(SRow& r, unsigned h) { if (h >= r.num_stored_elements()) return r.end(); SRow::iterator it = r.begin(); for (unsigned i = 0; i < h; ++i) ++it; return it; }

  // After an arithmetic operation: values must equal `want`; which zeroes are stored is the implementation's choice.
  bool adopt_values(Obj& o, const std::vector<long>& want, const std::string& st, Fail* f) {
    SRow& r = *o.r;
    auto exsf = [&]() { std::string x = "["; for (size_t i = 0; i < want.size(); ++i) { if (i) x += ","; x += std::to_string(want[i]); } return x + "]"; };
    #define exs exsf()
    if (!r.tree.OK()) { f->put(st, "invariant:OK()", tree_dump(r.tree), exs); return false; }
    Map nm;
    for (dim_t i = 1; i <= r.tree.reserved_size; ++i) if (r.tree.indexes[i] != UNUSED) {
      dim_t k = r.tree.indexes[i];
      if (k >= want.size()) { f->put(st, "invariant:stored-index>=size", tree_dump(r.tree), exs); return false; }
      if (r.tree.data[i] != want[k]) { f->put(st, "value:coefficient!=reference", tree_dump(r.tree), exs, "index " + std::to_string(k)); return false; }
      nm[(unsigned)k] = want[k];
    }
    for (size_t i = 0; i < want.size(); ++i) if (want[i] != 0 && !nm.count((unsigned)i)) { f->put(st, "value:coefficient!=reference", tree_dump(r.tree), exs, "index " + std::to_string(i) + " reads as zero"); return false; }
    o.m.swap(nm);
    return true;
    #undef exs
  }

  bool apply(Obj& o, uint32_t op, Fail* f) {
    SRow& r = *o.r; Map& m = o.m;
    const std::string st = site(op);
    int a = opa(op), b = opb(op);
    std::vector<unsigned> ks = keys_of(m);
    int n = (int)ks.size();
    bool have_it = false; SRow::iterator rit; bool exp_end = false; unsigned exp_key = 0;
    std::string trig = "none";     // narrow predicate over the input, evaluated before the call (known findings)
    switch (opk(op)) {
      case R_INS: rit = r.insert((dim_t)a); if (!m.count(a)) m[a] = 0; have_it = true; exp_key = a; break;
      case R_INSV: rit = r.insert((dim_t)a, mpz_class(VNEW)); m[a] = VNEW; have_it = true; exp_key = a; break;
      case R_INSH: rit = r.insert(rnth(r, a), (dim_t)b); if (!m.count(b)) m[b] = 0; have_it = true; exp_key = b; break;
      case R_INSHV: rit = r.insert(rnth(r, a), (dim_t)b, mpz_class(VNEW)); m[b] = VNEW; have_it = true; exp_key = b; break;
      case R_IDX: {
        mpz_class& ref = r[(dim_t)a];
        if (!m.count(a)) m[a] = 0;
        if (ref != m[a]) { f->put(st, "return:reference", zs(ref), zs(m[a])); return false; }
        SRow::iterator fi = r.find((dim_t)a);
        if (fi == r.end() || &*fi != &ref) { f->put(st, "return:reference", "not the stored element", "reference to the stored element"); return false; }
        break; }
      case R_RESET: r.reset((dim_t)a); m.erase(a); break;
      case R_RESETI: { unsigned k = ks[a]; rit = r.reset(rnth(r, a)); m.erase(k); Map::iterator nx = m.upper_bound(k); have_it = true; if (nx == m.end()) exp_end = true; else exp_key = nx->first; break; }
      case R_RESETR: {
        rit = r.reset(rnth(r, a), rnth(r, b));
        for (int i = a; i < b; ++i) m.erase(ks[i]);
        have_it = true; if (b >= n) exp_end = true; else exp_key = ks[b]; break; }
      case R_RESETAFTER: { r.reset_after((dim_t)a); m.erase(m.lower_bound(a), m.end()); break; }
      case R_DEL: {
        r.delete_element_and_shift((dim_t)a); --o.size;
        Map nm; for (Map::iterator i = m.begin(); i != m.end(); ++i) { if (i->first < (unsigned)a) nm[i->first] = i->second; else if (i->first > (unsigned)a) nm[i->first - 1] = i->second; }
        m.swap(nm); break; }
      case R_ADDZ: {
        std::vector<SRow::iterator> held; for (SRow::iterator i = r.begin(), e = r.end(); i != e; ++i) held.push_back(i);
        r.add_zeroes_and_shift((dim_t)a, (dim_t)b); o.size += a;
        Map nm; for (Map::iterator i = m.begin(); i != m.end(); ++i) nm[i->first >= (unsigned)b ? i->first + a : i->first] = i->second;
        m.swap(nm);
        int rk = 0;
        for (Map::iterator i = m.begin(); i != m.end(); ++i, ++rk)
          if (!it_at(r.tree, held[rk], i->first, i->second)) { f->put(st, "iterators:not-kept-valid", it_str(r.tree, held[rk]), "key " + std::to_string(i->first)); return false; }
        break; }
      case R_SWAPC: {
        r.swap_coefficients((dim_t)a, (dim_t)b);
        bool ha = m.count(a), hb = m.count(b);
        if (ha && hb) std::swap(m[a], m[b]);
        else if (ha) { m[b] = m[a]; m.erase(a); }
        else if (hb) { m[a] = m[b]; m.erase(b); }
        break; }
      case R_SWAPI: { r.swap_coefficients(rnth(r, a), rnth(r, b)); std::swap(m[ks[a]], m[ks[b]]); break; }
      case R_FSWAP: {
        SRow::iterator it = rnth(r, a);
        r.fast_swap((dim_t)b, it);
        mpz_class v = m[ks[a]]; m.erase(ks[a]); m[b] = v;
        if (!it_at(r.tree, it, b, v)) { f->put(st, "iterators:not-kept-valid", it_str(r.tree, it), "key " + std::to_string(b)); return false; }
        break; }
      case R_RESIZE: {
        if (b == 0) r.resize((dim_t)a); else if (b == 1) r.shrink((dim_t)a); else r.expand_within_capacity((dim_t)a);
        o.size = a; m.erase(m.lower_bound(a), m.end()); break; }
      case R_CLEAR: r.clear(); m.clear(); break;
      case R_COPY: { std::unique_ptr<SRow> c(new SRow(r)); if (tree_key(c->tree) != tree_key(r.tree)) { f->put(st, "copy:layout-differs", tree_dump(c->tree), tree_dump(r.tree)); return false; } o.r.swap(c); break; }
      case R_COPYCAP: { std::unique_ptr<SRow> c(new SRow(r, (dim_t)K + 3)); if (tree_key(c->tree) != tree_key(r.tree)) { f->put(st, "copy:layout-differs", tree_dump(c->tree), tree_dump(r.tree)); return false; } o.r.swap(c); break; }
      case R_COPYSZ: { std::unique_ptr<SRow> c(new SRow(r, (dim_t)a, (dim_t)K + 3)); o.r.swap(c); o.size = a; m.erase(m.lower_bound(a), m.end()); break; }
      case R_ASSIGN: { std::unique_ptr<SRow> y(make_y(o.size, a)); r = *y; m = y_map(o.size, a);
        if (tree_key(r.tree) != tree_key(y->tree)) { f->put(st, "copy:layout-differs", tree_dump(r.tree), tree_dump(y->tree)); return false; } break; }
      case R_MSWAP: {
        std::unique_ptr<SRow> y(make_y(o.size, a)); Map ym = y_map(o.size, a);
        if (b) { using std::swap; swap(r, *y); } else r.m_swap(*y);
        m.swap(ym);
        std::string ob, ex, cl = check_row(*y, o.size, ym, ob, ex);
        if (!cl.empty()) { f->put(st, "other-operand:" + cl, ob, ex); return false; }
        break; }
      case R_FROMDENSE: case R_FROMDENSESZ: {
        DRow d(r);
        if (d.size() != o.size) { f->put("Dense_Row::Dense_Row(const Sparse_Row&)", "row:size", std::to_string(d.size()), std::to_string(o.size)); return false; }
        for (unsigned i = 0; i < o.size; ++i) if (d[i] != (m.count(i) ? m[i] : mpz_class(0))) { f->put("Dense_Row::Dense_Row(const Sparse_Row&)", "value:coefficient!=reference", zs(d[i]), map_str(m), "index " + std::to_string(i)); return false; }
        std::unique_ptr<SRow> c(opk(op) == R_FROMDENSE ? new SRow(d) : new SRow(d, (dim_t)a, (dim_t)K + 3));
        if (opk(op) == R_FROMDENSESZ) {
          if (!m.empty() && m.rbegin()->first >= (unsigned)a) trig = "sz_smaller_than_dense_row_size_and_nonzero_coefficient_beyond_sz";
          o.size = a; m.erase(m.lower_bound(a), m.end());
        }
        for (Map::iterator i = m.begin(); i != m.end();) if (i->second == 0) m.erase(i++); else ++i;
        o.r.swap(c); break; }
      case R_ASSIGNDENSE: {
        DRow d((dim_t)o.size); fill_dense(d, o.size, a);
        SRow& ret = (r = d);
        if (&ret != &r) { f->put(st, "return:reference", "other", "*this"); return false; }
        Map ym = y_map(o.size, a); for (Map::iterator i = ym.begin(); i != ym.end();) if (i->second == 0) ym.erase(i++); else ++i;
        m.swap(ym); break; }
      case R_SWAPDENSE: {
        DRow d((dim_t)o.size); fill_dense(d, o.size, a);
        if (b) { using std::swap; swap(d, r); } else { using std::swap; swap(r, d); }
        if (d.size() != o.size) { f->put(st, "row:size", std::to_string(d.size()), std::to_string(o.size)); return false; }
        for (unsigned i = 0; i < o.size; ++i) if (d[i] != (m.count(i) ? m[i] : mpz_class(0))) { f->put(st, "value:dense-operand!=reference", zs(d[i]), map_str(m), "index " + std::to_string(i)); return false; }
        Map ym = y_map(o.size, a); for (Map::iterator i = ym.begin(); i != ym.end();) if (i->second == 0) ym.erase(i++); else ++i;
        m.swap(ym); break; }
      case R_NORM: {
        set_pattern(o, a);
        mpz_class g = 0; for (Map::iterator i = m.begin(); i != m.end(); ++i) { mpz_class t = abs(i->second); mpz_gcd(g.get_mpz_t(), g.get_mpz_t(), t.get_mpz_t()); }
        r.normalize();
        if (g > 1) for (Map::iterator i = m.begin(); i != m.end(); ++i) i->second /= g;
        break; }
      case R_LC: {
        int var, pat, yi, cp, s, e; lc_dec(op, var, pat, yi, cp, s, e);
        set_pattern(o, pat);
        unsigned S = o.size;
        long c1 = CP[cp][0], c2 = CP[cp][1];
        Operand& Y = operand(S, yi);
        const std::vector<long>& yv = Y.yv;
        std::vector<long> xv(S, 0), want(S);
        for (Map::iterator i = m.begin(); i != m.end(); ++i) xv[i->first] = i->second.get_si();
        bool ranged = (var == LV_MEMBER_RANGE || var == LV_SD_RANGE || var == LV_FREE_SS_RANGE);
        unsigned lo = ranged ? s : 0, hi = ranged ? e : S;
        for (unsigned i = 0; i < S; ++i) {
          if (i < lo || i >= hi) { want[i] = xv[i]; continue; }
          if (var == LV_CNF) want[i] = xv[i] * (yv[i] + c1);
          else if (var == LV_CNS) want[i] = xv[i] + yv[i] * c2;
          else want[i] = xv[i] * c1 + yv[i] * c2;
        }
        SRow* ys = Y.ys.get(); DRow& yd = *Y.yd;
        mpz_class C1(c1), C2(c2);
        bool dense_operand = (var == LV_SD_FULL || var == LV_SD_RANGE);
        switch (var) {
          case LV_MEMBER_FULL: r.linear_combine(*ys, C1, C2); break;
          case LV_MEMBER_RANGE: r.linear_combine(*ys, C1, C2, (dim_t)s, (dim_t)e); break;
          case LV_FREE_SS_RANGE: PPL::linear_combine(r, *ys, C1, C2, (dim_t)s, (dim_t)e); break;
          case LV_SD_FULL: PPL::linear_combine(r, yd, C1, C2); break;
          case LV_SD_RANGE: PPL::linear_combine(r, yd, C1, C2, (dim_t)s, (dim_t)e); break;
          case LV_COMBINE: { F_mul ff = {c1}; G_lin gg = {c1, c2}; H_set hh = {c2}; r.combine(*ys, ff, gg, hh); break; }
          case LV_CNF: { F_mul ff = {c1}; G_first gg = {c1}; r.combine_needs_first(*ys, ff, gg); break; }
          case LV_CNS: { G_second gg = {c2}; H_set hh = {c2}; r.combine_needs_second(*ys, gg, hh); break; }
        }
        // the const operand must be unchanged
        if (!dense_operand) { std::string ob, ex, cl = check_row(*ys, S, Y.ym, ob, ex); if (!cl.empty()) { f->put(st, "const-operand-changed:" + cl, ob, ex); opcache.clear(); return false; } }
        else for (unsigned i = 0; i < S; ++i) if (yd[i] != yv[i]) { f->put(st, "const-operand-changed:dense", zs(yd[i]), std::to_string(yv[i])); opcache.clear(); return false; }
        if (!adopt_values(o, want, st, f)) return false;
        break; }
    }
    SRow& r2 = *o.r;
    std::string ob, ex, cl = check_row(r2, o.size, m, ob, ex);
    if (!cl.empty()) { f->put(st, cl, ob, ex, "", trig); return false; }
    if (have_it) {
      if (exp_end) { if (rit != r2.end()) { f->put(st, "return:iterator", it_str(r2.tree, rit), "end()"); return false; } }
      else if (!it_at(r2.tree, rit, exp_key, m[exp_key])) { f->put(st, "return:iterator", it_str(r2.tree, rit), "key " + std::to_string(exp_key) + " value " + zs(m[exp_key]), tree_dump(r2.tree)); return false; }
    }
    canon(o);
    return true;
  }

  void ops(const Obj& o, int, std::vector<uint32_t>& v) {
    std::vector<unsigned> ks = keys_of(o.m);
    int n = (int)ks.size(), S = (int)o.size;
    for (int i = 0; i < S; ++i) { v.push_back(mk(R_INS, i)); v.push_back(mk(R_INSV, i)); v.push_back(mk(R_IDX, i)); v.push_back(mk(R_RESET, i)); v.push_back(mk(R_RESETAFTER, i)); }
    for (int i = 0; i < S; ++i) for (int h = 0; h <= n; ++h) { v.push_back(mk(R_INSH, h, i)); v.push_back(mk(R_INSHV, h, i)); }
    for (int p = 0; p < n; ++p) v.push_back(mk(R_RESETI, p));
    for (int a = 0; a <= n; ++a) for (int b = a; b <= n; ++b) v.push_back(mk(R_RESETR, a, b));
    if (S > minsize) for (int i = 0; i < S; ++i) v.push_back(mk(R_DEL, i));
    for (int d = 1; d <= K - S; ++d) for (int i = 0; i <= S; ++i) v.push_back(mk(R_ADDZ, d, i));
    for (int i = 0; i < S; ++i) for (int j = 0; j < S; ++j) v.push_back(mk(R_SWAPC, i, j));
    for (int p = 0; p < n; ++p) for (int q = 0; q < n; ++q) v.push_back(mk(R_SWAPI, p, q));
    for (int p = 0; p < n; ++p) for (int i = (p ? (int)ks[p - 1] + 1 : 0); i <= (int)ks[p]; ++i) v.push_back(mk(R_FSWAP, p, i));
    for (int s = minsize; s <= K; ++s) {
      v.push_back(mk(R_RESIZE, s, 0)); if (s <= S) v.push_back(mk(R_RESIZE, s, 1)); if (s >= S) v.push_back(mk(R_RESIZE, s, 2));
      v.push_back(mk(R_COPYSZ, s)); v.push_back(mk(R_FROMDENSESZ, s));
    }
    v.push_back(mk(R_CLEAR)); v.push_back(mk(R_COPY)); v.push_back(mk(R_COPYCAP)); v.push_back(mk(R_FROMDENSE));
    for (int y = 0; y < NY; ++y) { v.push_back(mk(R_ASSIGN, y)); v.push_back(mk(R_MSWAP, y, 0)); v.push_back(mk(R_MSWAP, y, 1)); v.push_back(mk(R_ASSIGNDENSE, y)); v.push_back(mk(R_SWAPDENSE, y, 0)); v.push_back(mk(R_SWAPDENSE, y, 1)); }
    for (int p = 0; p < NPAT_NORM; ++p) v.push_back(mk(R_NORM, p));
    static const int full_vars[] = { LV_MEMBER_FULL, LV_SD_FULL, LV_COMBINE, LV_CNF, LV_CNS };
    for (int vi = 0; vi < 5; ++vi) for (int p = 0; p < NPAT; ++p) for (int y = 0; y < NY; ++y) for (int c = 0; c < NCP; ++c) {
      if (full_vars[vi] == LV_CNF && c != 0 && c != 3 && c != 6) continue;             // only c1 is used
      if (full_vars[vi] == LV_CNS && c != 0 && c != 1 && c != 2 && c != 5) continue;   // only c2 is used
      v.push_back(lc_enc(full_vars[vi], p, y, c, 0, 0));
    }
    if (!lc_light) {
      static const int rp[] = {2, 4}, ry[] = {3, 4};
      for (int s = 0; s <= S; ++s) for (int e = s; e <= S; ++e) for (int pi = 0; pi < 2; ++pi) for (int yi = 0; yi < 2; ++yi) for (int c = 0; c < 6; ++c) {
        v.push_back(lc_enc(LV_MEMBER_RANGE, rp[pi], ry[yi], c, s, e));
        v.push_back(lc_enc(LV_SD_RANGE, rp[pi], ry[yi], c, s, e));
      }
      for (int s = 0; s <= S; ++s) for (int e = s; e <= S; ++e) v.push_back(lc_enc(LV_FREE_SS_RANGE, 2, 4, 5, s, e));
    } else {
      // boundary sub-ranges only
      int se[][2] = { {0, S}, {0, 0}, {S, S}, {1, S - 1}, {0, S / 2}, {S / 2, S}, {1, 2} };
      static const int rp[] = {2, 4}, ry[] = {3, 4};
      for (auto& x : se) for (int pi = 0; pi < 2; ++pi) for (int yi = 0; yi < 2; ++yi) for (int c = 0; c < 6; ++c) {
        if (x[0] > x[1] || x[1] > S) continue;
        v.push_back(lc_enc(LV_MEMBER_RANGE, rp[pi], ry[yi], c, x[0], x[1]));
        v.push_back(lc_enc(LV_SD_RANGE, rp[pi], ry[yi], c, x[0], x[1]));
      }
    }
  }

  long long lookups(Obj& o, Fail* f) {
    SRow& r = *o.r; const SRow& cr = r; const Map& m = o.m;
    std::vector<unsigned> ks = keys_of(m);
    int n = (int)ks.size(); unsigned S = o.size;
    long long calls = 0;
    std::vector<SRow::iterator> its; std::vector<SRow::const_iterator> cits;
    { SRow::iterator i = r.begin(); SRow::const_iterator ci = cr.begin(); for (int k = 0; k < n; ++k, ++i, ++ci) { its.push_back(i); cits.push_back(ci); } its.push_back(r.end()); cits.push_back(cr.end()); }
    auto bad = [&](const char* api, const std::string& got, const std::string& want, const std::string& arg) { f->put(std::string("Sparse_Row::") + api, "lookup:result", got, want, arg); };
    for (unsigned i = 0; i <= S; ++i) {
      Map::const_iterator lb = m.lower_bound(i);
      bool present = lb != m.end() && lb->first == i;
      std::string want_f = present ? "key " + std::to_string(i) + " value " + zs(lb->second) : "end()";
      std::string want_l = lb == m.end() ? "end()" : "key " + std::to_string(lb->first) + " value " + zs(lb->second);
      auto okf = [&](const SRow::iterator& x) { return present ? it_at(r.tree, x, i, lb->second) : x == r.end(); };
      auto okfc = [&](const SRow::const_iterator& x) { return present ? cit_at(r.tree, x, i, lb->second) : x == cr.end(); };
      auto okl = [&](const SRow::iterator& x) { return lb != m.end() ? it_at(r.tree, x, lb->first, lb->second) : x == r.end(); };
      auto oklc = [&](const SRow::const_iterator& x) { return lb != m.end() ? cit_at(r.tree, x, lb->first, lb->second) : x == cr.end(); };
      if (i < S) {
        const mpz_class& g = cr.get(i); ++calls; if (g != (present ? lb->second : mpz_class(0))) { bad("get", zs(g), present ? zs(lb->second) : "0", "get(" + std::to_string(i) + ")"); return -calls; }
        const mpz_class& g2 = cr[i]; ++calls; if (g2 != (present ? lb->second : mpz_class(0))) { bad("operator[] const", zs(g2), present ? zs(lb->second) : "0", "row[" + std::to_string(i) + "]"); return -calls; }
        { SRow::iterator x = r.find(i); ++calls; if (!okf(x)) { bad("find(i)", it_str(r.tree, x), want_f, "find(" + std::to_string(i) + ")"); return -calls; } }
        { SRow::const_iterator x = cr.find(i); ++calls; if (!okfc(x)) { bad("find(i) const", cit_str(r.tree, x), want_f, "find(" + std::to_string(i) + ") const"); return -calls; } }
        for (int h = 0; h <= n; ++h) {
          { SRow::iterator x = r.find(its[h], i); ++calls; if (!okf(x)) { bad("find(iterator,i)", it_str(r.tree, x), want_f, "find(hint=#" + std::to_string(h) + "," + std::to_string(i) + ")"); return -calls; } }
          { SRow::const_iterator x = cr.find(cits[h], i); ++calls; if (!okfc(x)) { bad("find(iterator,i) const", cit_str(r.tree, x), want_f, "find(hint=#" + std::to_string(h) + "," + std::to_string(i) + ") const"); return -calls; } }
        }
      }
      { SRow::iterator x = r.lower_bound(i); ++calls; if (!okl(x)) { bad("lower_bound(i)", it_str(r.tree, x), want_l, "lower_bound(" + std::to_string(i) + ")"); return -calls; } }
      { SRow::const_iterator x = cr.lower_bound(i); ++calls; if (!oklc(x)) { bad("lower_bound(i) const", cit_str(r.tree, x), want_l, "lower_bound(" + std::to_string(i) + ") const"); return -calls; } }
      for (int h = 0; h <= n; ++h) {
        { SRow::iterator x = r.lower_bound(its[h], i); ++calls; if (!okl(x)) { bad("lower_bound(iterator,i)", it_str(r.tree, x), want_l, "lower_bound(hint=#" + std::to_string(h) + "," + std::to_string(i) + ")"); return -calls; } }
        { SRow::const_iterator x = cr.lower_bound(cits[h], i); ++calls; if (!oklc(x)) { bad("lower_bound(iterator,i) const", cit_str(r.tree, x), want_l, "lower_bound(hint=#" + std::to_string(h) + "," + std::to_string(i) + ") const"); return -calls; } }
      }
    }
    // equality
    {
      SRow c(r);
      ++calls; if (!(c == r) || (c != r)) { f->put("operator==(Sparse_Row,Sparse_Row)", "equality:copy-not-equal", "false", "true"); return -calls; }
      for (unsigned i = 0; i < S; ++i) {
        SRow d(r);
        if (m.count(i)) { *d.find(i) = 99; ++calls; if (d == r || r == d) { f->put("operator==(Sparse_Row,Sparse_Row)", "equality:different-rows-equal", "true", "false", "index " + std::to_string(i)); return -calls; } }
        else { d.insert(i); ++calls; if (!(d == r) || !(r == d)) { f->put("operator==(Sparse_Row,Sparse_Row)", "equality:stored-zero-matters", "false", "true", "index " + std::to_string(i)); return -calls; }
               *d.find(i) = 5; ++calls; if (d == r || r == d) { f->put("operator==(Sparse_Row,Sparse_Row)", "equality:different-rows-equal", "true", "false", "index " + std::to_string(i)); return -calls; } }
      }
      SRow e2(r); e2.resize(S + 1); ++calls; if (e2 == r) { f->put("operator==(Sparse_Row,Sparse_Row)", "equality:different-sizes-equal", "true", "false"); return -calls; }
      DRow dd(r); ++calls;
      if (!(dd == r) || !(r == dd) || (dd != r) || (r != dd)) { f->put("operator==(Dense_Row,Sparse_Row)", "equality:conversion-not-equal", "false", "true"); return -calls; }
      for (unsigned i = 0; i < S; ++i) { DRow d2(r); d2[i] += 1; ++calls; if (d2 == r || r == d2) { f->put("operator==(Dense_Row,Sparse_Row)", "equality:different-rows-equal", "true", "false", "index " + std::to_string(i)); return -calls; } }
    }
    // Dense x, Sparse y (this state, with every data pattern) linear combinations
    for (int p = 0; p < NPAT; ++p) {
      Obj w; Fail f2; if (!clone(o, w, &f2)) { *f = f2; return -calls; }
      set_pattern(w, p);
      const SRow& y = *w.r;
      std::vector<long> yv(S, 0); for (Map::iterator i = w.m.begin(); i != w.m.end(); ++i) yv[i->first] = i->second.get_si();
      for (int xi = 1; xi <= 4; xi += 3) for (int c = 0; c < NCP; ++c) {
        mpz_class C1(CP[c][0]), C2(CP[c][1]);
        std::vector<std::pair<int, int> > ranges; ranges.push_back(std::make_pair(-1, -1));
        if (!lc_light && (p == 2 || p == 4) && xi == 4 && c < 6) for (unsigned s = 0; s <= S; ++s) for (unsigned e = s; e <= S; ++e) ranges.push_back(std::make_pair((int)s, (int)e));
        for (size_t ri = 0; ri < ranges.size(); ++ri) {
          DRow x((dim_t)S); fill_dense(x, S, xi);
          std::vector<long> xv(S); for (unsigned i = 0; i < S; ++i) xv[i] = x[i].get_si();
          int s = ranges[ri].first, e = ranges[ri].second;
          if (s < 0) PPL::linear_combine(x, y, C1, C2); else PPL::linear_combine(x, y, C1, C2, (dim_t)s, (dim_t)e);
          ++calls;
          for (unsigned i = 0; i < S; ++i) {
            long want = (s < 0 || ((int)i >= s && (int)i < e)) ? xv[i] * CP[c][0] + yv[i] * CP[c][1] : xv[i];
            if (x[i] != want) {
              f->put(s < 0 ? "linear_combine(Dense_Row&,const Sparse_Row&,c1,c2)" : "linear_combine(Dense_Row&,const Sparse_Row&,c1,c2,start,end)", "value:coefficient!=reference", zs(x[i]), std::to_string(want),
                     "data pattern p" + std::to_string(p) + ", dense x = operand y" + std::to_string(xi) + ", c1=" + zs(C1) + ", c2=" + zs(C2) + (s < 0 ? "" : ", start=" + std::to_string(s) + ", end=" + std::to_string(e)) + ", index " + std::to_string(i));
              return -calls;
            }
          }
        }
      }
      std::string ob, ex, cl = check_row(*w.r, S, w.m, ob, ex);
      if (!cl.empty()) { f->put("linear_combine(Dense_Row&,const Sparse_Row&,...)", "const-operand-changed:" + cl, ob, ex); return -calls; }
    }
    (void)cr.external_memory_in_bytes(); (void)cr.total_memory_in_bytes(); calls += 2;
    std::string ob, ex, cl = check_row(r, S, m, ob, ex);
    if (!cl.empty()) { f->put("Sparse_Row::find/lower_bound/get", "observer-changed-state:" + cl, ob, ex); return -calls; }
    return calls;
  }
};

// C08 for rational grids: congruence_widening_assign, generator_widening_assign, widening_assign and their limited
// extrapolations.  Values are rg::RGrid (ref/rgrid.hh: canonical form of a rational affine lattice, GMP only), read
// from the congruences() of the object coefficient by coefficient.  See harness/c08_common.hh for the game.
#include "harness/c08_common.hh"
#include "ref/rgrid.hh"
#include <deque>

using namespace c08;
using PPL::Grid; using PPL::Variable; using PPL::Linear_Expression; using PPL::Coefficient;
using rg::RGrid; using rg::Cong;

static Args ARGS;

struct CG {              // e = 0 (mod m); m == 0: equality
  LE e; long m;
  CG() : m(0) {}
  CG(const LE& e_, long m_) : e(e_), m(m_) {}
  PPL::Congruence ppl() const { return (e.ppl() %= 0) / Coefficient(m); }
  Cong ref(int n) const { rg::Vec a(n, rg::Q(0)); for (int i = 0; i < n && i < (int)e.a.size(); ++i) a[i] = e.a[i]; return Cong(a, rg::Q(e.b), rg::Q(m)); }
  std::string str() const { return e.str() + (m == 0 ? "==0" : "=0 mod " + std::to_string(m)); }
};
struct GG {              // grid generator: 'p' point, 'q' parameter, 'l' line
  char t; std::vector<long> v; long d;
  GG(char t_, std::initializer_list<long> v_, long d_ = 1) : t(t_), v(v_), d(d_) {}
  PPL::Grid_Generator ppl(int dim) const {
    Linear_Expression e;
    for (int i = 0; i < dim && i < (int)v.size(); ++i) if (v[i] != 0) e += Coefficient(v[i]) * Variable(i);
    if (dim > 0) e += 0 * Variable(dim - 1);
    if (t == 'p') return PPL::grid_point(e, Coefficient(d));
    if (t == 'q') return PPL::parameter(e, Coefficient(d));
    return PPL::grid_line(e);
  }
  rg::Vec vec(int n) const { rg::Vec r(n, rg::Q(0)); for (int i = 0; i < n && i < (int)v.size(); ++i) r[i] = (t == 'l') ? rg::Q(v[i]) : rg::mkq(v[i], d); return r; }
};

struct GridClasses {
  std::deque<RGrid> vals;
  std::unordered_map<std::string, int> ids;
  int classify(const RGrid& g) {
    std::string k = g.str();
    std::unordered_map<std::string, int>::iterator it = ids.find(k);
    if (it != ids.end()) return it->second;
    rg::check_consistency(g);
    int id = (int)vals.size(); vals.push_back(g); ids[k] = id; return id;
  }
  const RGrid& operator[](int id) const { return vals[id]; }
  size_t size() const { return vals.size(); }
};

struct GridDom {
  typedef Grid Obj; typedef RGrid Val; typedef GridClasses Space; typedef CG Lim; typedef PPL::Congruence_System LimSys;
  std::string name; int dim; bool nnc; int menu_limit;
  GridDom(int dim_, int ml) : name("Grid"), dim(dim_), nnc(false), menu_limit(ml) {}

  Grid* clone(const Grid& s) const {
    Grid* c = new Grid(0, PPL::UNIVERSE);
    c->con_sys = s.con_sys; c->gen_sys = s.gen_sys; c->status = s.status; c->space_dim = s.space_dim; c->dim_kinds = s.dim_kinds;
    return c;
  }
  std::string dump(const Grid& g) const { return dump_of(g); }
  static rg::Q cq(const Coefficient& c) { return to_q(c); }
  RGrid value(const Grid& g0) const {
    std::unique_ptr<Grid> g(clone(g0));
    if (g->marked_empty()) return RGrid::bottom(dim);
    const PPL::Congruence_System& cs = g->congruences();
    RGrid r = RGrid::universe(dim);
    for (PPL::Congruence_System::const_iterator i = cs.begin(), e = cs.end(); i != e; ++i) {
      rg::Vec a(dim, rg::Q(0));
      for (int k = 0; k < dim && k < (int)i->space_dimension(); ++k) a[k] = cq(i->coefficient(Variable(k)));
      r = rg::add_congruence(r, Cong(a, cq(i->inhomogeneous_term()), cq(i->modulus())));
    }
    return r;
  }
  void join(Grid& a, const Grid& b) const { a.upper_bound_assign(b); }
  bool ok(const Grid& g) const { return g.OK(); }
  Grid* empty() const { return new Grid(dim, PPL::EMPTY); }
  // doc/definitions.dox (Grid Widening Operators): "The third widening uses either the congruence or the generator widening,
  // the exact rule governing this choice at the time of the call is left to the implementation": the result of
  // widening_assign may depend on the representation, but it must be one of the two.
  std::string repdep_caveat(const std::string& op, const RGrid&, const RGrid&, const std::string&, const std::string&, const std::string&) const {
    return op == "widening_assign" ? "grid_widening_assign_choice_left_to_implementation" : "";
  }
  std::string repdep_trigger(const Grid&, const Grid&, const Grid&, const Grid&) const { return "none"; }
  bool caveat_accepts(const std::string&, const Grid& xo, const Grid& yo, const RGrid& result) const {
    std::unique_ptr<Grid> n1(clone(yo)), o1(clone(xo)), n2(clone(yo)), o2(clone(xo));
    n1->congruence_widening_assign(*o1); n2->generator_widening_assign(*o2);
    return value(*n1) == result || value(*n2) == result;
  }
  // Known defects that surface in the limited extrapolations (see known_findings.d/C08.json):
  //  * Grid::relation_with(Congruence) reduces the scalar product of a point modulo the modulus instead of modulus*divisor, so a
  //    congruence that the newer grid does not satisfy can be judged "is_included" when its generators have a divisor != 1;
  //  * limited_congruence_extrapolation_assign with an empty congruence system calls widening_assign instead of
  //    congruence_widening_assign.
  std::string limited_trigger(const std::string& fname, const Grid& newer, const std::vector<CG>& S, const std::vector<bool>& sat) const {
    if (S.empty()) return fname == "limited_congruence_extrapolation_assign" ? "empty_limiting_system" : "none";
    bool unsat = false; for (size_t i = 0; i < sat.size(); ++i) if (!sat[i]) unsat = true;
    if (!unsat) return "none";
    std::unique_ptr<Grid> c(clone(newer));
    if (c->marked_empty()) return "none";
    const PPL::Grid_Generator_System& gs = c->grid_generators();
    for (PPL::Grid_Generator_System::const_iterator i = gs.begin(); i != gs.end(); ++i)
      if (!i->is_line() && i->divisor() != 1) return "unsatisfied_limit_and_newer_generators_divisor_ne_1";
    return "none";
  }

  std::string text(const RGrid& g) const { return g.str(); }
  bool vempty(const RGrid& g) const { return g.empty; }
  bool vsubset(const RGrid& a, const RGrid& b) const { return rg::subset(a, b); }
  std::string witness_outside(const RGrid& a, const RGrid& b) const {
    if (a.empty) return "";
    if (!b.contains_point(a.p)) return "point " + rg::vec_str(a.p) + " of the newer argument is not in the result";
    for (size_t i = 0; i < a.B.size(); ++i) { rg::Vec x = rg::vadd(a.p, a.B[i]); if (!b.contains_point(x)) return "point " + rg::vec_str(x) + " of the newer argument is not in the result"; }
    for (size_t i = 0; i < a.L.size(); ++i) { rg::Vec x = rg::vadd(a.p, rg::vscale(rg::mkq(1, 7), a.L[i])); if (!b.contains_point(x)) return "point " + rg::vec_str(x) + " of the newer argument is not in the result"; }
    return "";
  }
  std::string lim_text(const CG& c) const { return c.str(); }
  bool lim_implied(const RGrid& g, const CG& c) const {
    if (g.empty) return true;
    Cong k = c.ref(dim);
    if (!k.holds(g.p)) return false;
    for (size_t j = 0; j < g.B.size(); ++j) if (!k.holds_dir(g.B[j], false)) return false;
    for (size_t j = 0; j < g.L.size(); ++j) if (!k.holds_dir(g.L[j], true)) return false;
    return true;
  }
  RGrid lim_meet(const RGrid& g, const std::vector<CG>& kept) const { RGrid r = g; for (size_t i = 0; i < kept.size(); ++i) r = rg::add_congruence(r, kept[i].ref(dim)); return r; }
  PPL::Congruence_System lim_sys(const std::vector<CG>& v) const { PPL::Congruence_System cs; for (size_t i = 0; i < v.size(); ++i) cs.insert(v[i].ppl()); return cs; }
  bool bounded_box(const RGrid&, const RGrid&, RGrid&) const { return false; }
  RGrid vmeet(const RGrid& a, const RGrid& b) const { return rg::meet(a, b); }

  struct Spec { std::string name; std::vector<GG> g; };
  void menu(std::vector<MenuItemT<Grid, RGrid> >& out) const {
    std::vector<Spec> sp;
    if (dim == 2) {
      sp = {
        {"point(0,0)", {GG('p', {0, 0})}},
        {"point(4,0)", {GG('p', {4, 0})}},
        {"point(6,0)", {GG('p', {6, 0})}},
        {"point(0,3)", {GG('p', {0, 3})}},
        {"lattice (0,0)+Z(0,2)", {GG('p', {0, 0}), GG('q', {0, 2})}},
        {"point(1,1)", {GG('p', {1, 1})}},
        {"point(1/2,0)", {GG('p', {1, 0}, 2)}},
        {"line (0,0)+Q(1,0)", {GG('p', {0, 0}), GG('l', {1, 0})}},
        {"lattice (1,0)+Z(2,0)+Z(0,2)", {GG('p', {1, 0}), GG('q', {2, 0}), GG('q', {0, 2})}},
        {"lattice (0,0)+Z(1,1)", {GG('p', {0, 0}), GG('q', {1, 1})}},
        {"point(3,5)", {GG('p', {3, 5})}},
        {"lattice Z^2", {GG('p', {0, 0}), GG('q', {1, 0}), GG('q', {0, 1})}},
        {"lattice (0,1)+Z(3,0)+Z(1,2)/2", {GG('p', {0, 1}), GG('q', {3, 0}), GG('q', {1, 2}, 2)}},
        {"line (0,0)+Q(1,-1)", {GG('p', {0, 0}), GG('l', {1, -1})}},
      };
    } else {
      sp = {
        {"point(0)", {GG('p', {0})}}, {"point(4)", {GG('p', {4})}}, {"point(6)", {GG('p', {6})}}, {"point(1/2)", {GG('p', {1}, 2)}},
        {"lattice 0+3Z", {GG('p', {0}), GG('q', {3})}}, {"point(1)", {GG('p', {1})}}, {"lattice 1/3+Z/2", {GG('p', {1}, 3), GG('q', {1}, 2)}}, {"line", {GG('p', {0}), GG('l', {1})}},
      };
    }
    for (size_t i = 0; i < sp.size(); ++i) {
      if ((int)out.size() >= menu_limit) break;
      MenuItemT<Grid, RGrid> m; m.name = sp[i].name;
      PPL::Grid_Generator_System gs; rg::Mat pts, params, lines;
      for (size_t k = 0; k < sp[i].g.size(); ++k) {
        gs.insert(sp[i].g[k].ppl(dim));
        (sp[i].g[k].t == 'p' ? pts : sp[i].g[k].t == 'q' ? params : lines).push_back(sp[i].g[k].vec(dim));
      }
      m.obj.reset(new Grid(gs));
      m.cell = rg::from_generators(dim, pts, params, lines); m.cls = -1;
      out.push_back(m);
    }
  }

  void reps(const Grid& natural, const RGrid& value, std::vector<RepT<Grid> >& out) const {
    auto add = [&](const std::string& n, Grid* p) { RepT<Grid> r; r.name = n; r.obj.reset(p); out.push_back(r); };
    if (value.empty) {
      add("marked-empty", new Grid(dim, PPL::EMPTY));
      { Grid* g = new Grid(dim, PPL::UNIVERSE); g->add_congruence((Variable(0) %= 0) / 2); g->add_congruence((Variable(0) %= 1) / 2); add("unsat-congruences-unmarked", g); }
      return;
    }
    std::unique_ptr<Grid> c(clone(natural));
    PPL::Congruence_System mcs = c->minimized_congruences();
    PPL::Grid_Generator_System mgs = c->minimized_grid_generators();
    { Grid* g = new Grid(dim, PPL::UNIVERSE); g->add_congruences(mcs); add("from-min-congruences", g); }
    { Grid* g = new Grid(mgs); add("from-min-generators", g); }
    { Grid* g = clone(*c); (void)g->minimized_congruences(); (void)g->minimized_grid_generators(); add("both-minimized", g); }
    {
      // congruences reversed with redundant ones: doubled congruences (2e = 0 mod 2m) and sums of neighbours
      std::vector<PPL::Congruence> v; for (PPL::Congruence_System::const_iterator i = mcs.begin(); i != mcs.end(); ++i) v.push_back(*i);
      Grid* g = new Grid(dim, PPL::UNIVERSE);
      for (size_t i = v.size(); i-- > 0; ) {
        if (v[i].is_proper_congruence()) {
          Linear_Expression e(v[i].expression());
          g->add_congruence((2 * e %= 0) / (2 * v[i].modulus()));
        }
        g->add_congruence(v[i]);
      }
      add("redundant-reversed-congruences", g);
    }
    {
      // generators reversed with redundant ones: extra points p + q, sums of parameters
      std::vector<PPL::Grid_Generator> v; for (PPL::Grid_Generator_System::const_iterator i = mgs.begin(); i != mgs.end(); ++i) v.push_back(*i);
      PPL::Grid_Generator_System gs;
      const PPL::Grid_Generator* pt = 0; std::vector<const PPL::Grid_Generator*> params;
      for (size_t i = 0; i < v.size(); ++i) { if (v[i].is_point() && !pt) pt = &v[i]; if (v[i].is_parameter()) params.push_back(&v[i]); }
      for (size_t i = v.size(); i-- > 0; ) gs.insert(v[i]);
      if (pt) for (size_t i = 0; i < params.size(); ++i) {
        // p/dp + q/dq
        Linear_Expression e = params[i]->divisor() * Linear_Expression(pt->expression()) + pt->divisor() * Linear_Expression(params[i]->expression());
        gs.insert(PPL::grid_point(e, pt->divisor() * params[i]->divisor()));
      }
      for (size_t i = 0; i + 1 < params.size(); ++i) {
        Linear_Expression e = params[i + 1]->divisor() * Linear_Expression(params[i]->expression()) + params[i]->divisor() * Linear_Expression(params[i + 1]->expression());
        gs.insert(PPL::parameter(e, params[i]->divisor() * params[i + 1]->divisor()));
      }
      add("redundant-reversed-generators", new Grid(gs));
    }
    { Grid* g = new Grid(dim, PPL::UNIVERSE); g->add_congruences(mcs); (void)g->is_empty(); (void)g->is_bounded(); add("congruences+observers", g); }
    { Grid* g = new Grid(mgs); (void)g->is_universe(); (void)g->congruences(); add("generators+observers", g); }
  }

  // independent measure: (rank of the module up  <=>  number of equalities down, number of proper parameters down)
  static std::vector<long> measure(const RGrid& g) {
    if (g.empty) return std::vector<long>(1, 1000000);
    return std::vector<long>{0, -(long)g.rank(), (long)g.B.size()};
  }
  void ops(std::vector<OpDefT<GridDom> >& out) const {
    struct W { const char* n; void (Grid::*f)(const Grid&, unsigned*); const char* ln; void (Grid::*lf)(const Grid&, const PPL::Congruence_System&, unsigned*); };
    W ws[] = {
      {"congruence_widening_assign", &Grid::congruence_widening_assign, "limited_congruence_extrapolation_assign", &Grid::limited_congruence_extrapolation_assign},
      {"generator_widening_assign", &Grid::generator_widening_assign, "limited_generator_extrapolation_assign", &Grid::limited_generator_extrapolation_assign},
      {"widening_assign", &Grid::widening_assign, "limited_extrapolation_assign", &Grid::limited_extrapolation_assign},
    };
    for (auto& w : ws) {
      OpDefT<GridDom> o; o.name = w.n; o.site = std::string("Grid::") + w.n; o.widening = true;
      auto f = w.f; auto lf = w.lf;
      o.plain = [f](Grid& n, const Grid& x, unsigned* tp) { (n.*f)(x, tp); };
      o.limited_name = w.ln;
      o.limited = [lf](Grid& n, const Grid& x, const PPL::Congruence_System& cs, unsigned* tp) { (n.*lf)(x, cs, tp); };
      o.libcert_name = "Grid_Certificate";
      o.libcert = [](const Grid& x, const Grid& r) { if (x.is_empty()) return 1; PPL::Grid_Certificate c(x); return c.compare(r); };
      o.measure = measure;
      if (o.name == "widening_assign") o.limited_compare_with_plain = false;   // which of the two widenings is used is left to the implementation
      out.push_back(o);
    }
  }
  std::vector<CG> limits() const {
    if (dim == 2) return { CG(LE({1, 0}, 0), 2), CG(LE({0, 1}, 0), 3), CG(LE({1, -1}, 0), 2), CG(LE({1, 0}, 0), 0), CG(LE({0, 1}, 0), 1), CG(LE({1, 1}, -1), 2) };
    return { CG(LE({1}, 0), 2), CG(LE({1}, 0), 0), CG(LE({2}, -1), 1), CG(LE({1}, 0), 3) };
  }
};

int c08_grid_main(int argc, char** argv) {
  ARGS = parse_args(argc, argv);
  sink().open(ARGS.out);
  double t0 = now_s();
  std::string dims = ARGS.opt("--dims", "1,2");
  int depth = atoi(ARGS.opt("--depth", "10").c_str());
  int menu_limit = atoi(ARGS.opt("--menu", ARGS.thorough() ? "14" : "10").c_str());
  bool full = ARGS.opt("--reps", ARGS.thorough() ? "full" : "star") == "full";
  std::vector<std::unique_ptr<GridDom> > doms;
  std::vector<std::unique_ptr<Game<GridDom> > > games;
  int base = 0;
  for (int dim = 1; dim <= 2; ++dim) {
    if (dims.find(char('0' + dim)) == std::string::npos) continue;
    doms.emplace_back(new GridDom(dim, menu_limit));
    games.emplace_back(new Game<GridDom>(*doms.back(), ARGS, base));
    Game<GridDom>& g = *games.back();
    g.max_depth = depth; g.limit_cap = atoi(ARGS.opt("--limits", ARGS.thorough() ? "0" : "4").c_str()); g.rep_mode = full ? 1 : 0;
    g.phase_a(); g.make_items();
    base += (int)g.OPS.size();
    for (size_t oi = 0; oi < g.G.size(); ++oi)
      fprintf(stderr, "[c08_grid] Grid dim %d %s: states=%zu edges=%zu closed=%d depth=%d classes=%zu (%.1fs)\n", dim,
              g.OPS[oi].name.c_str(), g.G[oi].nodes.size(), g.G[oi].edges.size(), (int)g.G[oi].closed, g.G[oi].depth_done, g.CL.size(), now_s() - t0);
  }
  double ta = now_s() - t0;
  std::vector<std::pair<int, int> > items;
  for (size_t gi = 0; gi < games.size(); ++gi) for (size_t i = 0; i < games[gi]->ITEMS.size(); ++i) items.push_back(std::make_pair((int)gi, (int)i));
  { unsigned long s = 12345; for (size_t i = items.size(); i > 1; --i) { s = s * 6364136223846793005UL + 1442695040888963407UL; std::swap(items[i - 1], items[(s >> 33) % i]); } }
  Pool::Fn fn = [&](long long item, long long sub_start) { games[items[item].first]->run_item(items[item].second, sub_start); };
  Pool::CrashFn cf = [&](long long item, long long sub, int sig, bool confirmed) { games[items[item].first]->on_crash(items[item].second, sub, sig, confirmed); };
  limit_memory(6ULL << 30);
  pool().run((long long)items.size(), ARGS.jobs, fn, cf, ARGS, 120);
  bool complete = counter(CNT_SKIPPED) == 0 && counter(CNT_REFCRASH) == 0;
  long states = 0, edges = 0; bool all_closed = true;
  std::vector<std::string> per_op, samples;
  for (size_t gi = 0; gi < games.size(); ++gi) {
    Game<GridDom>::Summary s = games[gi]->finish();
    states += s.states; edges += s.edges; all_closed = all_closed && s.all_closed;
    per_op.insert(per_op.end(), s.per_op.begin(), s.per_op.end());
    for (size_t i = 0; i < s.samples.size() && samples.size() < 6; ++i) samples.push_back(s.samples[i]);
  }
  J extra; extra.arr("graphs", per_op).boolean("all_graphs_closed", all_closed).num("menu_size_limit", menu_limit).str("representation_pairs", full ? "full" : "star")
    .dbl("phaseA_s", ta).num("items_skipped_by_deadline", counter(CNT_SKIPPED)).num("cases_skipped_oracle_resource_limit", counter(CNT_REFCRASH))
    .num("violation_records", counter(CNT_VIOL));
  J st; st.str("t", "stats").num("states", std::max(1L, states)).num("transitions", std::max(1LL, (long long)counter(CNT_TRANS)))
    .num("traces_validated_against_impl", counter(CNT_TRANS)).boolean("exhaustive", complete)
    .str("bound", "grids, dims " + dims + ", menu of <= " + std::to_string(menu_limit) + " increments, every start element, closure or depth " + std::to_string(depth) + ", representation pairs: " + (full ? "full" : "star") + ", tokens {null,0,1,2}, limiting subsets of size <= 2")
    .arr("samples", samples).raw("extra", extra.done()).dbl("wall_s", now_s() - t0);
  sink().line(st.done());
  return 0;
}
